#!/bin/sh
# neutral_verify.sh <Cxx> <N1|N2> : confirm a sub-agent's behaviour-preserving change in its scratch
# worktree (patch applies, 273 tests pass with it, its differential transcript is identical with and
# without it), then store it under neutral/.
pid=$1; v=$2
wt=${NEU_PREFIX:-/tmp/neu_}$pid
src=$wt/out/$v
cd $wt || exit 2
git checkout -q -- src
git apply --check $src/patch.diff || { echo "$pid $v: patch does not apply"; exit 1; }
PYTHONPATH=$wt/src timeout 600 /venv/bin/python $src/diff.py >/tmp/neu_clean_$pid$v.txt 2>&1
git apply $src/patch.diff
tests=$(PYTHONPATH=$wt/src /venv/bin/python -m pytest -q -p no:cacheprovider --no-cov 2>&1 | tail -1)
PYTHONPATH=$wt/src timeout 600 /venv/bin/python $src/diff.py >/tmp/neu_mut_$pid$v.txt 2>&1
git checkout -q -- src
same=no; cmp -s /tmp/neu_clean_$pid$v.txt /tmp/neu_mut_$pid$v.txt && same=yes
echo "$pid $v: transcripts identical=$same ($(wc -l < /tmp/neu_clean_$pid$v.txt) lines) tests: $tests"
rm -f /tmp/neu_clean_$pid$v.txt /tmp/neu_mut_$pid$v.txt
case "$tests" in *"273 passed"*) ;; *) echo "  REJECT: tests"; exit 1;; esac
[ "$same" = yes ] || { echo "  REJECT: transcript differs"; exit 1; }
d=/verif/neutral/${pid}_$v
mkdir -p $d
cp $src/patch.diff $src/diff.py $d/
cp $src/notes.md $d/notes.md 2>/dev/null
exit 0
