"""Shared runner for the gateway-core properties (C03-C08, C10-C12, C19):
generate histories, run them on the real Gateway (common.Impl) and on the
extracted Gallina model, compare, run the property's oracle on every
implementation trace, shrink failures."""

from __future__ import annotations

import glob
import json
import os

from common import (VERIF, Impl, compare, compare_projected, ex, rng_for,
                    run_sharded)
from histgen import Profile, gen_history, run_history, shrink_history

# ----------------------------------------------------------------- helpers


def spec_decode(line: str):
    """C02's accept condition (from the property text) -> tuple or None."""
    from props.c02 import spec_decode as sd

    return sd(line)


def proto_module(version: str):
    from aiomysensors.model import protocol as P

    for k, m in P.PROTOCOL_VERSIONS.items():
        if m.VERSION == version:
            return m
    raise KeyError(version)


def iname(version: str, t: int) -> str | None:
    """Canonical name of internal type t under the protocol with VERSION version."""
    m = proto_module(version)
    try:
        return m.Internal(t).name
    except ValueError:
        return None


def sname(version: str, t: int) -> str | None:
    m = proto_module(version)
    try:
        return m.Stream(t).name
    except ValueError:
        return None


def is2x(version: str) -> bool:
    return version >= "2.0"


def exc_name(e) -> str | None:
    return None if e is None else type(e).__name__


def is_lib(e) -> bool:
    return isinstance(e, ex.AIOMySensorsError)


def enc(fields) -> str:
    n, c, k, a, t, p = fields
    return f"{n};{c};{k};{a};{t};{p}\n"


def wake_node(raw) -> int | None:
    """If this recv step is a wake signal accepted by the property text (C07),
    return the node id: heartbeat response under 2.0/2.1, pre-sleep under 2.2,
    from a node that is in the registry."""
    if raw["kind"] != "recv":
        return None
    m = spec_decode(raw["line"])
    if m is None or m[2] != 3:
        return None
    ver = raw["before"]["proto"]
    name = iname(ver, m[4])
    if m[0] not in raw["before"]["nodes"]:
        return None
    if ver in ("2.0", "2.1") and name == "I_HEARTBEAT_RESPONSE":
        try:
            int(m[5])
        except ValueError:
            return None
        return m[0]
    if ver == "2.2" and name == "I_PRE_SLEEP_NOTIFICATION":
        return m[0]
    return None


# ----------------------------------------------------------------- corpus


def load_corpus(pid: str) -> list[list[tuple]]:
    res = []
    for path in sorted(glob.glob(os.path.join(VERIF, "corpus", pid, "*.json"))):
        with open(path, encoding="utf-8") as f:
            data = json.load(f)
        res.append([_detuple(op) for op in data["ops"]])
    return res


def _detuple(op):
    return tuple(tuple(x) if isinstance(x, list) else x for x in op)


# ----------------------------------------------------------------- runner


def op_kind(raw) -> tuple:
    """Coverage class of one implementation step."""
    if raw is None:
        return ("setup",)
    if raw["kind"] == "reconnect":
        return ("reconnect", exc_name(raw["exc"]))
    if raw["kind"] == "send":
        f = raw["fields"]
        return ("send", f[2], raw["buffered"], exc_name(raw["exc"]), len(raw["writes"]),
                len(raw["after"]["sbuf"] or {}) - len(raw["before"]["sbuf"] or {}))
    m = spec_decode(raw["line"])
    if m is None:
        return ("recv", "malformed", exc_name(raw["exc"]))
    ver = raw["before"]["proto"]
    name = iname(ver, m[4]) if m[2] == 3 else m[2]
    return ("recv", ver, m[2], name, m[0] in raw["before"]["nodes"], exc_name(raw["exc"]),
            len(raw["writes"]), any(not ok for _, ok in raw["writes"]),
            raw["before"]["nodes"] != raw["after"]["nodes"])


def nontrivial(kind: tuple) -> bool:
    if kind[0] == "send":
        return True
    if kind[0] != "recv" or kind[1] == "malformed":
        return False
    return kind[5] not in (None,) or kind[6] > 0 or kind[8]


def run_property(ctx, pid: str, *, histories=None, profiles=None, n_quick=400, n_thorough=6000,
                 oracle=None, project=None, model_available=True, metric_choices=(True, False),
                 post=None, rule="", assumptions=None, run_hist=None):
    """Generic gateway-core check.  `oracle(im, ops)` returns a list of failure dicts
    (sig, desc, step).  `project` restricts the model/impl comparison to this
    property's observables (None = compare everything)."""
    rng = rng_for(ctx.seed, pid)
    run_hist = run_hist or (lambda ops, metric: run_history(ops, metric=metric))
    hs: list[tuple[list[tuple], bool]] = [(ops, True) for ops in load_corpus(pid)]
    n_corpus = len(hs)
    if histories is not None:
        hs.extend((ops, True) for ops in histories)
    n = ctx.budget(n_quick, n_thorough)
    profiles = profiles or [Profile()]
    for i in range(n):
        pr = profiles[i % len(profiles)]
        hs.append((gen_history(rng, pr), rng.choice(metric_choices)))
    failures = []
    impls = []
    kinds = {}
    dist = {"histories": len(hs), "corpus": n_corpus, "steps": 0, "recv": 0, "send": 0, "raised": 0,
            "yielded": 0, "with_fault": 0, "writes": 0, "exception_classes": {}}
    for ops, metric in hs:
        im = run_hist(ops, metric)
        im._ops_src = ops
        im._metric = metric
        impls.append(im)
        for raw in im.raw:
            if raw is None:
                continue
            dist["steps"] += 1
            dist[raw["kind"]] = dist.get(raw["kind"], 0) + 1
            if raw["exc"] is not None:
                dist["raised"] += 1
                cn = exc_name(raw["exc"])
                dist["exception_classes"][cn] = dist["exception_classes"].get(cn, 0) + 1
            elif raw["kind"] == "recv":
                dist["yielded"] += 1
            if raw.get("faults") and any(raw["faults"]):
                dist["with_fault"] += 1
            dist["writes"] += len(raw["writes"])
            k = op_kind(raw)
            kinds[k] = kinds.get(k, 0) + 1
        if oracle is not None:
            fs = oracle(im, ops)
            if fs:
                f = fs[0]
                sig = f["sig"]

                def fails(cand, sig=sig, metric=metric):
                    im2 = run_hist(cand, metric)
                    try:
                        return any(x["sig"] == sig for x in oracle(im2, cand))
                    finally:
                        im2.close()

                small = shrink_history(ops, fails) if len(ops) <= 40 else ops
                failures.append({"kind": "oracle", "sig": sig, "desc": f["desc"],
                                 "case": {"ops": small, "metric": metric, "step": f.get("step"),
                                          "all": [x["desc"] for x in fs[:5]]}})
    if model_available:
        outs = run_sharded([im.ops for im in impls], jobs=12)
        for im, o in zip(impls, outs):
            dis = compare(im, o) if project is None else compare_projected(im, o, project)
            if dis:
                d = dis[0]
                failures.append({"kind": "corr", "sig": None,
                                 "desc": f"model/implementation differ at op {d['op'][:80]!r}: impl {d['impl'][:200]!r} model {d['model'][:200]!r}",
                                 "case": {"ops": im._ops_src, "metric": im._metric, "first": {k: (v if k != 'history' else None) for k, v in d.items()}}})
    extra = post(impls) if post else {}
    for im in impls:
        im.close()
    nontriv = [k for k in kinds if nontrivial(k)]
    return {
        "evaluations": dist["steps"],
        "distinct_nontrivial": len(nontriv),
        "rule": rule or "structured histories (histgen.py): received lines of every message kind over a small alphabet of nodes/children/types with odd payloads, send calls, public state manipulations, write faults; distinct = (version, command, canonical type name, node known?, exception class, #writes, fault?, registry changed?) classes that raised, wrote or changed the registry",
        "samples": [repr(op)[:100] for op in (hs[n_corpus][0][:3] if len(hs) > n_corpus else [])],
        "distribution": dist,
        "failures": failures,
        "exhaustive": False,
        "assumptions": assumptions or [],
        "extra_coverage": extra,
    }


def replay_ops(ctx, rp, oracle):
    case = rp.get("case") or {}
    ops = case.get("ops")
    if not ops:
        print(json.dumps(rp, indent=1)[:3000])
        return 0
    ops = [_detuple(op) for op in ops]
    im = run_history(ops, metric=case.get("metric", True))
    for op, raw in zip([None] + [o for o in ops], [None] * 0):
        pass
    for raw in im.raw:
        if raw is None:
            continue
        what = raw.get("line") if raw["kind"] == "recv" else raw.get("fields")
        if raw["kind"] == "reconnect":
            print("reconnect", "->", exc_name(raw["exc"]) or "ok", "version/protocol", raw["after"]["pv"], raw["after"]["proto"])
            continue
        print(raw["kind"], repr(what), "->", exc_name(raw["exc"]) or "ok", [w for w in raw["writes"]])
    fs = oracle(im, ops) if oracle else []
    for f in fs:
        print("FAIL", f["sig"], f["desc"])
    im.close()
    return 1 if fs else 0
