"""Run every seeded change against the check of the property it targets and write seeded/<id>/meta.json."""
import json, os, re, subprocess, sys, time
V = os.path.dirname(os.path.dirname(os.path.abspath(__file__)))
extra = {"C07_A": ["C09"], "C03_A": ["C09"], "C03_B": ["C02"], "C08_C": ["C09"], "C12_C": ["C08"], "C12_D": ["C07"], "C07_C": ["C12"], "C05_C": ["C01"], "C01_D": ["C05"], "C09_H": ["C07"], "C16_G": ["C17"], "C04_H": ["C03"], "C06_H": ["C03"], "C07_J": ["C08", "C12"], "C08_J": ["C17", "C16"], "C07_L": ["C13"], "C11_K": ["C16"], "C13_K": ["C16"], "C15_K": ["C16"], "C15_L": ["C13", "C16"], "C09_L": ["C07"], "C12_L": ["C01"]}
only = sys.argv[1:]
for d in sorted(os.listdir(os.path.join(V, "seeded"))):
    if only and d not in only:
        continue
    pid = d.split("_")[0]
    sd = os.path.join(V, "seeded", d)
    if not os.path.exists(os.path.join(sd, "patch.diff")):
        continue
    notes = open(os.path.join(sd, "notes.md")).read() if os.path.exists(os.path.join(sd, "notes.md")) else ""
    results = []
    for p in [pid] + extra.get(d, []):
        t0 = time.time()
        out = subprocess.run([os.path.join(V, "harness", "seed_run.sh"), d, p], capture_output=True, text=True).stdout.strip()
        m = re.search(r"rc=(\d+)", out)
        results.append({"check": f"./check {p} --tier quick", "exit_code": int(m.group(1)) if m else None,
                        "violation_line": (re.search(r"VIOLATION[^|]*", out) or [""])[0].strip() if "VIOLATION" in out else "",
                        "summary": out.split("|")[-1].strip()[:200], "wall_s": round(time.time() - t0, 1)})
        print(d, p, results[-1]["exit_code"], results[-1]["violation_line"][:80], flush=True)
    meta = {
        "breaks_property": pid,
        "origin": "written by a sub-agent that saw only the property text and a scratch worktree of /repo (nothing from /verif)",
        "what_it_needs_to_manifest": notes.strip()[:1500],
        "confirmed": "tests: 273 passed with the change (PYTHONPATH=<worktree>/src pytest --no-cov); demo.py exits 1 with the change and 0 without (harness/seed_verify.sh)",
        "patch_note": "patch.diff rebased onto a later fix: commit of /repo (the same change on the repaired code); the sub-agent's original is patch.original.diff" if os.path.exists(os.path.join(sd, "patch.original.diff")) else "patch.diff applies to /repo HEAD",
        "checks_run": results,
        "detected": any(r["exit_code"] == 1 for r in results),
    }
    json.dump(meta, open(os.path.join(sd, "meta.json"), "w"), indent=1)
