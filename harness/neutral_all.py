"""Run every stored behaviour-preserving change (neutral/<Cxx_Nk>/patch.diff) against the check of the
property it was written around, and against the checks of the other properties anchored in the files
it touches; every check must stay quiet (exit 0, no VIOLATION line).  Writes neutral/<id>/meta.json."""
import json, os, re, subprocess, sys, time
V = os.path.dirname(os.path.dirname(os.path.abspath(__file__)))
props = [json.loads(l) for l in open(os.path.join(V, "properties.jsonl"))]
args = sys.argv[1:]
wide = "--wide" in args
only = [a for a in args if not a.startswith("--")]
for d in sorted(os.listdir(os.path.join(V, "neutral"))):
    if only and d not in only:
        continue
    sd = os.path.join(V, "neutral", d)
    pf = os.path.join(sd, "patch.diff")
    if not os.path.exists(pf):
        continue
    pid = d.split("_")[0]
    touched = set(re.findall(r"^\+\+\+ b/(\S+)", open(pf).read(), re.M))
    pids = [pid]
    if wide:
        pids += [p["id"] for p in props if p["id"] != pid and touched & set(p["anchors"]["files"])]
    results = []
    for p in pids:
        t0 = time.time()
        subprocess.run(["git", "-C", "/repo", "diff", "--quiet"], check=True)
        subprocess.run(["git", "-C", "/repo", "apply", pf], check=True)
        try:
            r = subprocess.run([os.path.join(V, "check"), p, "--tier", "quick"], capture_output=True, text=True, cwd=V)
        finally:
            subprocess.run(["git", "-C", "/repo", "checkout", "-q", "--", "."])
            subprocess.run(["git", "-C", "/repo", "reset", "-q"])
        out = r.stdout + r.stderr
        vio = [l for l in out.splitlines() if l.startswith("VIOLATION")]
        results.append({"check": f"./check {p} --tier quick", "exit_code": r.returncode,
                        "violation_line": vio[0] if vio else "", "summary": out.strip().splitlines()[-1][:200] if out.strip() else "",
                        "wall_s": round(time.time() - t0, 1)})
        print(d, p, r.returncode, (vio[0] if vio else "")[:120], flush=True)
    notes = open(os.path.join(sd, "notes.md")).read() if os.path.exists(os.path.join(sd, "notes.md")) else ""
    old = {}
    if os.path.exists(os.path.join(sd, "meta.json")):
        old = {r["check"]: r for r in json.load(open(os.path.join(sd, "meta.json"))).get("checks_run", [])}
    for r in results:
        old[r["check"]] = r
    allr = list(old.values())
    json.dump({
        "written_around_property": pid,
        "origin": "behaviour-preserving change written by a sub-agent that saw only the property text and a scratch worktree of /repo (nothing from /verif)",
        "what_it_changes": notes.strip()[:1500],
        "confirmed": "273 tests pass with the change; the sub-agent's differential transcript (diff.py) is byte-identical with and without it (harness/neutral_verify.sh)",
        "checks_run": allr,
        "patch_note": "patch.diff rebased onto a later fix: commit of /repo (the same change on the repaired code, transcript still identical); the sub-agent's original is patch.original.diff" if os.path.exists(os.path.join(sd, "patch.original.diff")) else "patch.diff applies to /repo HEAD",
        "quiet": all(r["exit_code"] == 0 and not r["violation_line"] for r in allr),
    }, open(os.path.join(sd, "meta.json"), "w"), indent=1)
