"""Property oracles for the gateway-core properties, written from the property
texts (not from the Coq model).  Each takes an Impl (with its per-step raw
records) and returns a list of failures {sig, desc, step}."""

from __future__ import annotations

import re

from common import ex
from gwcore import enc, exc_name, iname, is2x, is_lib, sname, spec_decode, wake_node

PROBE = "0;255;3;0;9;probe after error"


def F(sig, desc, step):
    return {"sig": sig, "desc": desc, "step": step}


def steps(im):
    return [(i, r) for i, r in enumerate(im.raw) if r is not None]


# ------------------------------------------------------------------ C03

def oracle_c03(im, ops=None):
    fs = []
    prev_err = False
    for i, r in steps(im):
        if r["kind"] != "recv":
            continue
        e = r["exc"]
        if e is not None and not is_lib(e):
            line = r["line"]
            m = spec_decode(line)
            sig = "C03:escape"
            fs.append(F(sig, f"listen on {line[:80]!r} raised {type(e).__name__}: {str(e)[:80]} (not derived from AIOMySensorsError)", i))
        if r["line"] == PROBE and prev_err:
            if e is not None or r["msg"] is None or r["msg"].payload != "probe after error":
                fs.append(F("C03:unusable-after-error", f"after an error the next well-formed line was not processed normally: {exc_name(e)}", i))
        prev_err = e is not None
    return fs


# ------------------------------------------------------------------ C04

def fresh_node(nid, typ, ver):
    return {"node_id": nid, "node_type": typ, "protocol_version": ver, "sketch_name": "", "sketch_version": "",
            "battery_level": 0, "heartbeat": 0, "reboot": False, "sleeping": False, "children": {}}


def copy_reg(reg):
    return {k: {**n, "children": {ck: {**c, "values": dict(c["values"])} for ck, c in n["children"].items()}}
            for k, n in reg.items()}


def spec_registry_step(before, m, ver):
    """(expected registry after, expected error or None) from the C04 text.
    Error is ('MissingNodeError', id) / ('MissingChildError', id) / 'other' (decided elsewhere) / None."""
    n, c, k, a, t, p = m
    reg = copy_reg(before)
    if k == 0:
        if c == 255:
            reg[n] = fresh_node(n, t, p)
            return reg, None
        if n not in reg:
            return reg, ("MissingNodeError", n)
        reg[n]["children"][c] = {"child_id": c, "child_type": t, "description": p, "values": {}}
        return reg, None
    if k in (1, 2):
        if n not in reg:
            return reg, ("MissingNodeError", n)
        if c not in reg[n]["children"]:
            return reg, ("MissingChildError", c)
        if k == 1:
            reg[n]["children"][c]["values"][t] = p
        return reg, None
    if k == 4:
        if n not in reg:
            return reg, ("MissingNodeError", n)
        return reg, "other" if sname(ver, t) is None else None
    name = iname(ver, t)
    if name is None:
        return reg, "other"
    needs_node = {"I_BATTERY_LEVEL", "I_SKETCH_NAME", "I_SKETCH_VERSION"}
    if is2x(ver):
        needs_node |= {"I_DISCOVER_RESPONSE", "I_HEARTBEAT_RESPONSE"}
    if ver == "2.2":
        needs_node |= {"I_PRE_SLEEP_NOTIFICATION"}
    if name in needs_node and n not in reg:
        return reg, ("MissingNodeError", n)
    if name == "I_BATTERY_LEVEL":
        try:
            lvl = round(float(p))
        except (ValueError, OverflowError):
            return reg, "other"
        if not 0 <= lvl <= 100:
            return reg, "other"
        reg[n]["battery_level"] = lvl
    elif name == "I_SKETCH_NAME":
        reg[n]["sketch_name"] = p
    elif name == "I_SKETCH_VERSION":
        reg[n]["sketch_version"] = p
    elif name == "I_HEARTBEAT_RESPONSE" and is2x(ver):
        try:
            hb = int(p)
        except ValueError:
            return reg, "other"
        reg[n]["heartbeat"] = hb
        if ver in ("2.0", "2.1"):
            reg[n]["sleeping"] = True
    elif name == "I_PRE_SLEEP_NOTIFICATION" and ver == "2.2":
        reg[n]["sleeping"] = True
    elif name == "I_ID_REQUEST":
        nxt = max(reg) + 1 if reg else 1
        if nxt <= 254:
            reg[nxt] = fresh_node(nxt, 17, "1.4")
        else:
            return reg, "other"
    return reg, None


def oracle_c04(im, ops=None):
    fs = []
    for i, r in steps(im):
        if r["kind"] != "recv":
            continue
        m = spec_decode(r["line"])
        if m is None:
            if r["before"]["nodes"] != r["after"]["nodes"]:
                fs.append(F("C04:registry", f"rejected line {r['line'][:60]!r} changed the registry", i))
            continue
        ver = r["before"]["proto"]
        want, werr = spec_registry_step(r["before"]["nodes"], m, ver)
        e = r["exc"]
        if isinstance(werr, tuple):
            cls, ident = werr
            got = (exc_name(e), getattr(e, "node_id", None) if cls == "MissingNodeError" else getattr(e, "child_id", None))
            # when a write of this step failed (the 2.x presentation request, the version query) the
            # transport error is what leaves, by C10 / C06; C04 quantifies over received messages, not faults
            write_failed = any(not ok for _, ok in r["writes"])
            if got != (cls, ident) and not (write_failed and exc_name(e) in ("TransportFailedError", "TransportError")):
                sig = "C04:error-names-culprit" if got[0] == cls else "C04:missing-error"
                fs.append(F(sig, f"{r['line'][:60]!r} refers to a {'node' if cls == 'MissingNodeError' else 'child'} not in the registry: expected {cls}({ident}), got {got}", i))
            if r["before"]["nodes"] != r["after"]["nodes"]:
                fs.append(F("C04:missing-changes-registry", f"{r['line'][:60]!r} refers to a missing node/child but changed the registry", i))
            continue
        if r["after"]["nodes"] != want and not (werr == "other" and r["after"]["nodes"] == r["before"]["nodes"]):
            diff = _reg_diff(want, r["after"]["nodes"])
            fs.append(F("C04:registry", f"after {r['line'][:60]!r} (protocol {ver}) the registry differs from what was reported: {diff}", i))
        if e is None:
            got = (r["msg"].node_id, r["msg"].child_id, r["msg"].command, r["msg"].ack, r["msg"].message_type, r["msg"].payload)
            if got != m:
                fs.append(F("C04:yield", f"{r['line'][:60]!r} was yielded as {got}", i))
        elif werr is None and exc_name(e) in ("MissingNodeError", "MissingChildError"):
            fs.append(F("C04:spurious-missing", f"{r['line'][:60]!r} raised {exc_name(e)} although node and child are registered", i))
        elif isinstance(e, IndexError) and not r["writes"] and r["after"]["nodes"] == want:
            # the scripted transport holds exactly one line per step: an IndexError from its empty
            # queue means the gateway consumed the line, did not yield it and asked for another
            fs.append(F("C04:not-yielded", f"{r['line'][:60]!r} (protocol {ver}) was handled but not yielded: the gateway went on to read the next line", i))
    return fs


def _reg_diff(want, got):
    for k in sorted(set(want) | set(got)):
        if want.get(k) != got.get(k):
            return f"node {k}: expected {want.get(k)} got {got.get(k)}"[:300]
    return "?"


# ------------------------------------------------------------------ C05

SUPPORTED = [(1, 4), (1, 5), (2, 0), (2, 1), (2, 2)]
_VER_RE = re.compile(r"^[vV]?(\d+)\.(\d+)((?:\.\d+)*)\.?$", re.A)


def newest_leq(s: str) -> str | None:
    """The property's table for a dotted-numeric release string; None outside."""
    m = _VER_RE.match(s.strip())
    if not m:
        return None
    maj, mi = int(m.group(1)), int(m.group(2))
    best = (1, 4)
    for v in SUPPORTED:
        if v <= (maj, mi):
            best = v
    return f"{best[0]}.{best[1]}"


def oracle_c05(im, ops=None):
    fs = []
    for i, r in steps(im):
        after = r["after"]
        pv, proto = after["pv"], after["proto"]
        if pv is None:
            if proto != "1.4":
                fs.append(F("C05:select", f"no version reported but protocol {proto} is active", i))
        else:
            want = newest_leq(pv)
            if want is not None and want != proto:
                fs.append(F("C05:select", f"reported version {pv!r} selects protocol {proto}, the property requires {want}", i))
        sch = getattr(im.gw, "_message_schema", None)
        if r is im.raw[-1] and sch is not None:
            ctxp = getattr(sch, "context", {}).get("protocol")
            if ctxp is not None and ctxp is not im.gw.protocol:
                fs.append(F("C05:version-state-disagree", "the message schema's protocol differs from gateway.protocol", i))
        e = r["exc"]
        if r["kind"] == "recv":
            m = spec_decode(r["line"])
            if m is None:
                continue
            ver = r["before"]["proto"]
            is_version_report = (m[2] == 3 and iname(ver, m[4]) == "I_VERSION") or (m[2] == 0 and m[0] == 0 and m[1] == 255)
            if is_version_report and e is not None and exc_name(e) != "TransportFailedError":
                if (after["pv"], after["proto"]) != (r["before"]["pv"], r["before"]["proto"]):
                    fs.append(F("C05:version-state-disagree", f"rejected version report {m[5][:40]!r} changed version/protocol to {(after['pv'], after['proto'])}", i))
            if is_version_report and e is None and after["pv"] != m[5]:
                fs.append(F("C05:select", f"accepted version report {m[5]!r} but protocol_version is {after['pv']!r}", i))
            if not is_version_report and (after["pv"], after["proto"]) != (r["before"]["pv"], r["before"]["proto"]):
                fs.append(F("C05:select", f"{r['line'][:50]!r} is not a version report but changed version/protocol", i))
            # type gate (a failing write in the step replaces the error by the transport error)
            if any(not ok for _, ok in r["writes"]):
                continue
            if m[2] == 3:
                exists = iname(ver, m[4]) is not None
                refused = exc_name(e) == "UnsupportedMessageError"
                if exists == refused:
                    fs.append(F("C05:gate", f"internal type {m[4]} {'exists' if exists else 'does not exist'} in protocol {ver} but was {'refused' if refused else 'not refused as unsupported'} ({exc_name(e)})", i))
            if m[2] == 4 and m[0] in r["before"]["nodes"]:
                exists = sname(ver, m[4]) is not None
                refused = exc_name(e) == "UnsupportedMessageError"
                if exists == refused:
                    fs.append(F("C05:gate", f"stream type {m[4]} {'exists' if exists else 'does not exist'} in protocol {ver} but refused={refused}", i))
    return fs


# ------------------------------------------------------------------ C06

def spec_reactions(r, t_lo, t_hi):
    """Expected write lines of one fault-free recv step as a list of alternatives-free
    strings, except the time reply which is returned as a (prefix, lo, hi) tuple."""
    m = spec_decode(r["line"])
    if m is None:
        return []
    n, c, k, a, t, p = m
    before, after = r["before"], r["after"]
    ver = before["proto"]
    reg = before["nodes"]
    out = []
    e = r["exc"]
    name = iname(ver, t) if k == 3 else None
    if k == 3 and name == "I_ID_REQUEST":
        nxt = max(reg) + 1 if reg else 1
        if nxt <= 254:
            out.append(f"{n};{c};3;0;4;{nxt}\n")
    elif k == 3 and name == "I_CONFIG":
        out.append(f"{n};{c};3;0;{t};{'M' if im_metric(r) else 'I'}\n")
    elif k == 3 and name == "I_TIME":
        out.append((f"{n};{c};3;0;{t};", t_lo, t_hi))
    elif k == 2 and n in reg and c in reg[n]["children"]:
        v = reg[n]["children"][c]["values"].get(t)
        if v is not None:
            out.append(f"{n};{c};1;0;{t};{v}\n")
    elif k == 3 and name == "I_GATEWAY_READY" and is2x(ver):
        out.append(f"255;{c};3;0;20;\n")
    elif k == 1 and n in reg and c in reg[n]["children"] and reg[n]["reboot"]:
        out.append(f"{n};255;3;0;13;\n")
    # release of parked commands at a wake (C07)
    if r.get("_wake") is not None:
        for key, bm in (before["sbuf"] or {}).items():
            if bm[0] == r["_wake"]:
                out.append(enc(bm))
    # presentation request (C10)
    if is2x(ver) and exc_name(e) in ("MissingNodeError", "MissingChildError"):
        if (n, 255, 19) not in (before["ibuf"] or {}):
            out.append(f"{n};255;3;0;19;\n")
    # version query
    if after["pv"] is None and not (k == 3 and name in ("I_LOG_MESSAGE", "I_GATEWAY_READY")):
        out.append("0;255;3;0;2;\n")
    return out


def im_metric(r):
    return r["_metric"]


def oracle_c06(im, ops=None):
    fs = []
    for i, r in steps(im):
        if r["kind"] != "recv":
            if r["kind"] == "send":
                continue
            continue
        if any(r["faults"]):
            continue
        r["_metric"] = im.gw.config.metric
        r["_wake"] = wake_node(r)
        want = spec_reactions(r, r["t0"], r["t1"])
        got = [w for w, ok in r["writes"]]
        ok = len(want) == len(got)
        if ok:
            rest = list(got)
            for wv in want:
                hit = None
                for g in rest:
                    if isinstance(wv, tuple):
                        pre, lo, hi = wv
                        if g.startswith(pre) and g.endswith("\n"):
                            try:
                                tv = int(g[len(pre):-1])
                            except ValueError:
                                continue
                            if lo <= tv <= hi:
                                hit = g
                                break
                    elif g == wv:
                        hit = g
                        break
                if hit is None:
                    ok = False
                    break
                rest.remove(hit)
        if not ok:
            fs.append(F("C06:writes", f"{r['line'][:60]!r} under protocol {r['before']['proto']} (version {'known' if r['before']['pv'] else 'unknown'}): wrote {got}, the property specifies {want}", i))
        # reactions are never parked in the sleep buffer
        if (r["after"]["sbuf"] or {}).keys() - (r["before"]["sbuf"] or {}).keys():
            fs.append(F("C06:parked", f"{r['line'][:60]!r}: a reaction was parked in the sleep buffer", i))
    return fs


# ------------------------------------------------------------------ C07 / C08

TAG = "tag"


def oracle_c07(im, ops=None, faults_ok=False):
    """Sleep buffer accounting by unique payload tags (the generator gives every
    send of a set command a distinct payload 'tag<i>')."""
    fs = []
    pending = {}          # key -> tag payload parked and not yet released (spec buffer from the text)
    last_sent = {}        # key -> last tag sent for the key (parked or written)
    represented_since = {}  # key -> node re-presented while the entry was parked
    delivered = {}        # tag -> number of successful writes
    for i, r in steps(im):
        if r["kind"] == "send":
            n, c, k, a, t, p = r["fields"]
            if k != 1 or not str(p).startswith(TAG):
                continue
            if r["exc"] is not None:
                continue   # a send that raised did not send anything
            key = (n, c, t)
            node = r["before"]["nodes"].get(n)
            sleeping = bool(node and node["sleeping"])
            if r["buffered"]:
                last_sent[key] = p   # sends with buffering switched off are outside the property
            if r["buffered"] and sleeping:
                if r["writes"]:
                    fs.append(F("C07:park", f"send of {r['fields']} to sleeping node {n} wrote {r['writes']} instead of waiting for the wake", i))
                pending[key] = p
                represented_since[key] = False
            else:
                want = [enc(r["fields"])]
                got = [w for w, _ in r["writes"]]
                if got != want:
                    fs.append(F("C07:immediate", f"send of {r['fields']} to node {n} (not sleeping or buffering off) wrote {got}, expected {want}", i))
                for w, ok in r["writes"]:
                    if ok:
                        delivered[p] = delivered.get(p, 0) + 1
                if r["buffered"]:
                    pending.pop(key, None)   # superseded by the newer value just written
            continue
        if r["kind"] != "recv":
            continue
        m = spec_decode(r["line"])
        tagged = [(w, ok) for w, ok in r["writes"] if ";1;" in w and w.rstrip("\n").split(";", 5)[5].startswith(TAG)]
        if m is not None and m[2] == 2:
            # the reply to a value request carries the stored value, which may look like a tag
            # (the application may command exactly the value the node reported last): not a release
            try:
                stored = r["before"]["nodes"][m[0]]["children"][m[1]]["values"].get(m[4])
            except KeyError:
                stored = None
            if stored is not None:
                reply = f"{m[0]};{m[1]};1;0;{m[4]};{stored}\n"
                for x in tagged:
                    if x[0] == reply:
                        tagged.remove(x)
                        break
        wn = wake_node(r)
        if m is not None and m[2] == 0 and m[1] == 255:
            for key in pending:
                if key[0] == m[0]:
                    represented_since[key] = True
        if wn is None:
            if tagged:
                fs.append(F("C07:nonwake-release", f"{r['line'][:60]!r} is not a wake signal of a registered node but released {tagged}", i))
            continue
        mine = {k: v for k, v in pending.items() if k[0] == wn}
        got_keys = []
        faulted = False
        for w, ok in tagged:
            f = w.rstrip("\n").split(";", 5)
            key = (int(f[0]), int(f[1]), int(f[4]))
            tag = f[5]
            if key[0] != wn:
                fs.append(F("C07:other-node", f"wake of node {wn} released a command of node {key[0]}: {w!r}", i))
                continue
            if key not in mine or mine[key] != tag:
                fs.append(F("C07:stale-value", f"wake of node {wn} wrote {w!r} but the parked value for {key} is {mine.get(key)!r}", i))
            elif last_sent.get(key) != tag:
                sig = "C07:stale-value"
                fs.append(F(sig, f"wake of node {wn} wrote {w!r} but the most recently sent value for {key} is {last_sent.get(key)!r}", i))
            got_keys.append(key)
            if ok:
                delivered[tag] = delivered.get(tag, 0) + 1
                pending.pop(key, None)
            else:
                faulted = True
        if len(got_keys) != len(set(got_keys)):
            fs.append(F("C07:twice", f"wake of node {wn} released a key twice: {got_keys}", i))
        any_fault = any(not ok for _, ok in r["writes"])
        if not any_fault:
            missing = [k for k in mine if k not in got_keys]
            if missing:
                fs.append(F("C07:not-released", f"wake of node {wn} did not release parked commands {missing}", i))
        else:
            if not faults_ok:
                continue
            if exc_name(r["exc"]) != "TransportFailedError":
                fs.append(F("C08:not-reported", f"a transport write failed during the release for node {wn} but listen raised {exc_name(r['exc'])}", i))
    for tag, cnt in delivered.items():
        if cnt > 1:
            fs.append(F("C08:repeated" if faults_ok else "C07:twice", f"command {tag} was written successfully {cnt} times", None))
    im._c07_pending = pending
    im._c07_delivered = delivered
    return fs


def oracle_c08(im, ops=None):
    fs = oracle_c07(im, ops, faults_ok=True)
    # the history ends with one fault-free wake per node (appended by the generator):
    # nothing may remain pending for nodes that are still registered and woke
    woke_clean = set()
    for i, r in steps(im):
        wn = wake_node(r) if r["kind"] == "recv" else None
        if wn is not None and not any(not ok for _, ok in r["writes"]) and r["exc"] is None:
            woke_clean.add((wn, i))
    last_clean = {}
    for wn, i in woke_clean:
        last_clean[wn] = max(last_clean.get(wn, -1), i)
    for key, tag in im._c07_pending.items():
        # parked after the node's last clean wake -> legitimately still pending
        parked_at = max((i for i, r in steps(im) if r["kind"] == "send" and r["fields"][5] == tag), default=-1)
        if key[0] in last_clean and parked_at < last_clean[key[0]]:
            fs.append(F("C08:lost", f"command {tag} for {key} was parked, a write fault interrupted a release, and a later fault-free wake of node {key[0]} did not deliver it", None))
    return fs


# ------------------------------------------------------------------ C10

def oracle_c10(im, ops=None):
    fs = []
    outstanding = set()
    for i, r in steps(im):
        if r["kind"] != "recv":
            continue
        ver = r["before"]["proto"]
        reqs = [(w, ok) for w, ok in r["writes"] if re.fullmatch(r"\d+;255;3;0;19;\n", w)]
        m = spec_decode(r["line"])
        if not is2x(ver):
            if reqs:
                fs.append(F("C10:pre20", f"protocol {ver} wrote a presentation request {reqs}", i))
            # state of outstanding markers is untouched by pre-2.0 traffic
            continue
        if m is None:
            if reqs:
                fs.append(F("C10:spurious", f"rejected line wrote a presentation request {reqs}", i))
            continue
        n = m[0]
        e = r["exc"]
        if m[2] == 0 and m[1] == 255:
            outstanding.discard(n)
        missing = exc_name(e) in ("MissingNodeError", "MissingChildError") or (
            # the request write itself may fail: then listen reports the transport error
            exc_name(e) == "TransportFailedError" and reqs and not reqs[-1][1])
        if exc_name(e) in ("MissingNodeError", "MissingChildError") or (reqs and not all(ok for _, ok in reqs)):
            if n in outstanding:
                if reqs:
                    fs.append(F("C10:repeat", f"a presentation request for node {n} is outstanding but {r['line'][:50]!r} wrote another one", i))
            else:
                want = f"{n};255;3;0;19;\n"
                if [w for w, _ in reqs] != [want]:
                    # an earlier write fault in the same step may have pre-empted the request
                    if not any(not ok for _, ok in r["writes"]):
                        fs.append(F("C10:no-request", f"{r['line'][:50]!r} was rejected for a missing node/child (protocol {ver}) with no request outstanding for node {n}, but wrote {[w for w, _ in reqs]}", i))
                elif reqs[0][1]:
                    outstanding.add(n)
        else:
            if reqs and exc_name(e) != "TransportFailedError":
                fs.append(F("C10:spurious", f"{r['line'][:50]!r} ({exc_name(e) or 'handled'}) wrote a presentation request {reqs}", i))
    return fs


# ------------------------------------------------------------------ C11

def oracle_c11(im, ops=None):
    fs = []
    handed = []
    for i, r in steps(im):
        if r["kind"] != "recv":
            continue
        m = spec_decode(r["line"])
        if m is None or m[2] != 3 or iname(r["before"]["proto"], m[4]) != "I_ID_REQUEST":
            resp = [w for w, _ in r["writes"] if re.fullmatch(r"\d+;\d+;3;0;4;.*\n", w)]
            if resp:
                fs.append(F("C11:spurious", f"{r['line'][:50]!r} is not an id request but wrote an id response {resp}", i))
            continue
        keys_before = set(r["before"]["nodes"])
        keys_after = set(r["after"]["nodes"])
        resp = [(w, ok) for w, ok in r["writes"] if re.fullmatch(r"\d+;\d+;3;0;4;.*\n", w)]
        e = r["exc"]
        if exc_name(e) == "TooManyNodesError":
            if resp:
                fs.append(F("C11:write-on-failure", f"too-many-nodes but wrote {resp}", i))
            if r["before"]["nodes"] != r["after"]["nodes"]:
                fs.append(F("C11:registry-on-failure", "too-many-nodes but the registry changed", i))
            if keys_before and max(keys_before) < 254:
                fs.append(F("C11:premature-failure", f"too-many-nodes although ids above the highest registered id {max(keys_before)} are free", i))
            if not keys_before:
                fs.append(F("C11:premature-failure", "too-many-nodes on an empty registry", i))
            continue
        if len(resp) != 1:
            if not (e is not None and exc_name(e) == "TransportFailedError" and any(not ok for _, ok in r["writes"])):
                fs.append(F("C11:response", f"id request wrote {len(resp)} id responses ({exc_name(e)})", i))
            if not resp:
                continue
        w, ok = resp[0]
        f = w.rstrip("\n").split(";", 5)
        if (int(f[0]), int(f[1])) != (m[0], m[1]):
            fs.append(F("C11:address", f"id response {w!r} is not addressed like the request {r['line'][:40]!r}", i))
        try:
            nid = int(f[5])
        except ValueError:
            fs.append(F("C11:payload", f"id response payload {f[5]!r} is not an id", i))
            continue
        if not 1 <= nid <= 254:
            fs.append(F("C11:range", f"handed out id {nid} outside 1..254", i))
        if nid in keys_before:
            fs.append(F("C11:fresh", f"handed out id {nid} which is already in the registry {sorted(keys_before)[:12]}", i))
        if nid not in keys_after:
            fs.append(F("C11:registered", f"handed out id {nid} is not registered when the answer is written", i))
        if nid in handed:
            fs.append(F("C11:twice", f"id {nid} handed out twice", i))
        handed.append(nid)
    return fs


# ------------------------------------------------------------------ C12

def oracle_c12(im, ops=None):
    fs = []
    held = {}
    for i, r in steps(im):
        if r["kind"] == "recv":
            wn = wake_node(r)
            if wn is not None:
                faulty = any(not ok for _, ok in r["writes"])
                lines = [w for w, ok in r["writes"] if ok]
                for key in [k for k in held if k[0] == wn]:
                    if enc(held[key]) in lines:
                        held.pop(key)
                    elif not faulty:
                        fs.append(F("C12:held-not-delivered", f"send of {held[key]} was held for sleeping node {wn}; the node woke ({r['line']!r}) and the command was not written (writes {lines})", i))
                        held.pop(key)
                    # else: a write of this wake failed, the command must still be held
                    # and go out at a later wake
            continue
        if r["kind"] != "send":
            continue
        fields = r["fields"]
        n, c, k, a, t, p = fields
        if spec_decode(enc(fields)) != tuple(fields):
            continue  # not a message the codec accepts (or not canonical): outside the property
        e = r["exc"]
        if e is not None:
            if not is_lib(e):
                fs.append(F("C12:escape-no-handler" if isinstance(e, AttributeError) else "C12:escape", f"send of {fields} raised {type(e).__name__} (not a library error)", i))
            continue
        want = enc(fields)
        written = [w for w, ok in r["writes"] if ok]
        if written == [want]:
            if k == 1 and r["buffered"]:
                held.pop((n, c, t), None)   # superseded by the newer value just written
            continue
        if written:
            fs.append(F("C12:wrong-line", f"send of {fields} wrote {written}, expected {[want]}", i))
            continue
        key = (n, c, t)
        sb_b, sb_a = r["before"]["sbuf"] or {}, r["after"]["sbuf"] or {}
        node = r["before"]["nodes"].get(n)
        if k == 1 and sb_a.get(key) == tuple(fields) and node and node["sleeping"]:
            held[key] = tuple(fields)   # held for a sleeping destination: must go out at its next wake
            continue
        ib_a = r["after"]["ibuf"] or {}
        if k == 3 and r["buffered"] and ib_a.get(key) == tuple(fields):
            fs.append(F("C12:internal-parked", f"send of internal message {fields} with buffering allowed wrote nothing, raised nothing and only stored it in internal_messages, which no code path ever writes", i))
            continue
        fs.append(F("C12:discarded", f"send of {fields} (buffered={r['buffered']}) wrote nothing, raised nothing and is not held for a sleeping destination", i))
    return fs
