"""Record, per property, the statements of its anchor files that runs on the pinned tree leave
unexecuted (union over several seeds of the quick tier, plus the thorough tier when asked).
Run by hand on the unchanged tree; the result (harness/exercise_baseline.json) is committed and
never written by a check."""
import json, os, subprocess, sys, tempfile

V = os.path.dirname(os.path.dirname(os.path.abspath(__file__)))
pids = [json.loads(l)["id"] for l in open(os.path.join(V, "properties.jsonl"))]
only = [a for a in sys.argv[1:] if a.startswith("C")]
seeds = [0, 1, 2, 3, 4, 5]
tiers = ["quick"] + (["thorough"] if "--thorough" in sys.argv else [])
path = os.path.join(V, "harness", "exercise_baseline.json")
base = json.load(open(path)) if os.path.exists(path) else {}
def function_table():
    sys.path.insert(0, os.path.join(V, "harness"))
    import check

    tbl = {}
    for l in open(os.path.join(V, "properties.jsonl")):
        for f in json.loads(l)["anchors"]["files"]:
            path = os.path.join("/repo", f)
            if f.endswith(".py") and os.path.exists(path):
                tbl[f] = check._function_hashes(path)
    return tbl


def size_table():
    sys.path.insert(0, os.path.join(V, "harness"))
    import check

    tbl = {}
    for l in open(os.path.join(V, "properties.jsonl")):
        for f in json.loads(l)["anchors"]["files"]:
            path = os.path.join("/repo", f)
            if f.endswith(".py") and os.path.exists(path):
                tbl[f] = check._function_sizes(path)
    return tbl


if "--functions-only" in sys.argv:
    base["__functions__"] = function_table()
    base["__sizes__"] = size_table()
    json.dump(base, open(path, "w"), indent=0)
    sys.exit(0)

for pid in pids:
    if only and pid not in only:
        continue
    keys = {tuple(k) for k in base.get(pid, [])} if "--extend" in sys.argv else set()
    for tier in tiers:
        for sd in (seeds if tier == "quick" else [0]):
            with tempfile.NamedTemporaryFile(suffix=".json", delete=False) as tf:
                dump = tf.name
            env = dict(os.environ, VERIF_SEED=str(sd), VERIF_EXERCISE_DUMP=dump)
            r = subprocess.run([os.path.join(V, "check"), pid, "--tier", tier], env=env, capture_output=True, text=True)
            try:
                got = {tuple(k) for k in json.load(open(dump))}
            except Exception:
                got = None
            os.unlink(dump)
            print(pid, tier, sd, "rc", r.returncode, "unexecuted", None if got is None else len(got), flush=True)
            if got is not None:
                keys |= got
    base[pid] = sorted(keys)
    json.dump(base, open(path, "w"), indent=0)
base["__functions__"] = function_table()
base["__sizes__"] = size_table()
json.dump(base, open(path, "w"), indent=0)
