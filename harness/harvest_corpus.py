"""Collect the failing histories that runs against seeded changes produced (replays/<Cxx>/*.json, case.ops)
into corpus/<Cxx>/: run_property replays the corpus first on every run, so a detection that once
depended on what the random generator happened to produce does not silently go away when the
generator changes.  Run by hand after seed_all.py; histories that fail on the unchanged tree
(known findings) are not taken."""
import glob, hashlib, json, os, sys
V = os.path.dirname(os.path.dirname(os.path.abspath(__file__)))
known = {k["sig"] for k in json.load(open(os.path.join(V, "known_findings.json")))["findings"] if k.get("status") == "known"}
out = sys.argv[1] if len(sys.argv) > 1 else os.path.join(V, "corpus")
n = 0
for path in sorted(glob.glob(os.path.join(V, "replays", "C*", "*.json"))):
    try:
        rp = json.load(open(path))
    except Exception:
        continue
    pid = rp.get("property")
    case = rp.get("case") or {}
    ops = case.get("ops")
    if not pid or pid in ("C17", "C19") or not isinstance(ops, list) or not ops or rp.get("sig") in known:
        continue
    if not all(isinstance(o, list) and o and isinstance(o[0], str) for o in ops) or len(ops) > 60:
        continue
    body = json.dumps(ops, sort_keys=True)
    h = hashlib.sha1(body.encode()).hexdigest()[:12]
    d = os.path.join(out, pid)
    os.makedirs(d, exist_ok=True)
    f = os.path.join(d, h + ".json")
    if not os.path.exists(f):
        json.dump({"ops": ops, "metric": case.get("metric", True), "found_as": rp.get("sig"), "what": (rp.get("what") or "")[:300]}, open(f, "w"), indent=0)
        n += 1
print("new corpus entries:", n)
