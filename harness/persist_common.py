"""Helpers shared by C13-C16: real Persistence against real files, JSON <-> the
driver's prefix notation, canonical rendering of a registry."""

from __future__ import annotations

import asyncio
import json
import math
import os
import shutil
import tempfile

from common import enc_str, ex, show_node


def py_to_tokens(o) -> str:
    if o is None:
        return "N"
    if o is True:
        return "B 1"
    if o is False:
        return "B 0"
    if isinstance(o, int):
        return f"I {o}"
    if isinstance(o, float):
        if math.isnan(o) or math.isinf(o):
            tr = "0"
        else:
            tr = f"1 {int(o)}"
        is01 = 2 if o == 1 else (1 if o == 0 else 0)
        return f"F {tr} {is01}"
    if isinstance(o, str):
        return "S " + enc_str(o)
    if isinstance(o, list):
        return f"A {len(o)}" + "".join(" " + py_to_tokens(x) for x in o)
    if isinstance(o, dict):
        return f"O {len(o)}" + "".join(" " + enc_str(k) + " " + py_to_tokens(v) for k, v in o.items())
    raise TypeError(type(o))


def tokens_to_py(text: str):
    toks = text.split(" ")
    pos = 0

    def nxt():
        nonlocal pos
        t = toks[pos]
        pos += 1
        return t

    def s():
        n = int(nxt())
        return "".join(chr(int(nxt())) for _ in range(n))

    def val():
        t = nxt()
        if t == "N":
            return None
        if t == "B":
            return nxt() == "1"
        if t == "I":
            return int(nxt())
        if t == "S":
            return s()
        if t == "A":
            return [val() for _ in range(int(nxt()))]
        if t == "O":
            d = {}
            for _ in range(int(nxt())):
                k = s()
                d[k] = val()
            return d
        raise ValueError(t)

    return val()


def show_registry(nodes: dict) -> str:
    return "OK" + "".join(f" k{k}{show_node(n)}" for k, n in sorted(nodes.items()))


class Files:
    """A private temporary directory for the files of one check run."""

    def __init__(self):
        self.dir = tempfile.mkdtemp(prefix="amsverif_")
        self.n = 0
        self.loop = asyncio.new_event_loop()

    def path(self) -> str:
        self.n += 1
        return os.path.join(self.dir, f"p{self.n}.json")

    def close(self):
        self.loop.close()
        shutil.rmtree(self.dir, ignore_errors=True)

    def load(self, content: bytes | None, nodes: dict | None = None, path: str | None = None):
        """Persistence.load of a file with this content (None = missing).  Returns
        (outcome string, nodes dict, path)."""
        from aiomysensors.persistence import Persistence

        path = path or self.path()
        if content is not None:
            with open(path, "wb") as f:
                f.write(content)
        nodes = {} if nodes is None else nodes
        p = Persistence(nodes, path)
        try:
            self.loop.run_until_complete(p.load())
        except ex.PersistenceReadError:
            return "ERR", nodes, path
        except Exception as e:  # noqa: BLE001
            return "ESCAPE " + type(e).__name__, nodes, path
        return show_registry(nodes), nodes, path

    def save(self, nodes: dict, path: str | None = None) -> bytes:
        from aiomysensors.persistence import Persistence

        path = path or self.path()
        p = Persistence(nodes, path)
        self.loop.run_until_complete(p.save())
        with open(path, "rb") as f:
            return f.read()


def legacy_of(native: dict, null_gateway_type=False, null_sketch=False) -> dict:
    """The pymysensors layout of a file in the native layout (from the property text:
    sensor_id/type/id/type member names, no sleeping member, null for an empty sketch
    name/version and for the gateway type)."""
    out = {}
    for k, n in native.items():
        ln = {}
        for name, v in n.items():
            if name == "node_id":
                ln["sensor_id"] = v
            elif name == "node_type":
                ln["type"] = None if (null_gateway_type and v == 18) else v
            elif name == "sleeping":
                continue
            elif name in ("sketch_name", "sketch_version"):
                ln[name] = None if (null_sketch and v == "") else v
            elif name == "children":
                cs = {}
                for ck, c in v.items():
                    lc = {}
                    for cn, cv in c.items():
                        lc[{"child_id": "id", "child_type": "type"}.get(cn, cn)] = cv
                    cs[ck] = lc
                ln["children"] = cs
            else:
                ln[name] = v
        out[k] = ln
    return out
