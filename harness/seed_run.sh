#!/bin/sh
# seed_run.sh <seeded dir name> <Cxx> [tier]: apply the seeded change to /repo, run the check, undo.
d=/verif/seeded/$1; pid=$2; tier=${3:-quick}
cd /repo || exit 2
git diff --quiet || { echo "repo dirty"; exit 2; }
git apply $d/patch.diff 2>/dev/null || { echo "$1: patch does not apply to current /repo"; git checkout -q -- .; exit 3; }
cd /verif && ./check $pid --tier $tier > /tmp/seed_out_$1_$pid.txt 2>&1; rc=$?
git -C /repo checkout -q -- . ; git -C /repo reset -q
echo "$1 -> $pid rc=$rc: $(grep -E 'VIOLATION|KNOWN' /tmp/seed_out_$1_$pid.txt | head -2 | cut -c1-200) | $(tail -1 /tmp/seed_out_$1_$pid.txt | cut -c1-160)"
