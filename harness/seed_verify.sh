#!/bin/sh
# seed_verify.sh <Cxx> <A|B> : confirm a sub-agent's mutation in its scratch worktree
# (tests pass with it, demo fails with it and passes without), then store it under seeded/.
pid=$1; v=$2
wt=${MUT_PREFIX:-/tmp/mut_}$pid
src=$wt/out/$v
cd $wt || exit 2
git checkout -q -- src
git apply --check $src/patch.diff || { echo "$pid $v: patch does not apply"; exit 1; }
PYTHONPATH=$wt/src /venv/bin/python $src/demo.py >/tmp/seed_demo_clean.txt 2>&1; clean=$?
git apply $src/patch.diff
tests=$(PYTHONPATH=$wt/src /venv/bin/python -m pytest -q -p no:cacheprovider --no-cov 2>&1 | tail -1)
PYTHONPATH=$wt/src timeout 300 /venv/bin/python $src/demo.py >/tmp/seed_demo_mut.txt 2>&1; mut=$?
git checkout -q -- src
echo "$pid $v: demo clean=$clean mutated=$mut tests: $tests"
case "$tests" in *"273 passed"*) ;; *) echo "  REJECT: tests"; exit 1;; esac
[ "$clean" = 0 ] && [ "$mut" != 0 ] || { echo "  REJECT: demo"; exit 1; }
d=/verif/seeded/${pid}_$v
mkdir -p $d
cp $src/patch.diff $src/demo.py $d/
cp $src/notes.md $d/notes.md 2>/dev/null
exit 0
