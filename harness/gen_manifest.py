"""Regenerate MANIFEST.json from the table below (keeps the file valid and uniform)."""
import json, os

VERIF = os.path.dirname(os.path.dirname(os.path.abspath(__file__)))
CLAIMED = {
    "C01": ("proof", "codec round-trip theorems for all messages/payloads; Codec model tied by regenerated tables + differential run"),
    "C02": ("proof", "decoder accepts exactly the well-formed lines (iff theorem) and rejects with the invalid-message error only"),
    "C03": ("proof", "generic theorem over the whole receive path: for every oracle, fault stream and state satisfying the invariant a listen step never raises a non-library exception and re-establishes the invariant; lifted to all histories"),
    "C04": ("proof", "closed forms of every registry-changing handler and, end to end for one listen step under every protocol, the registry after a set / req / presentation / attribute-report line (decorators and 2.x layers included); registry footprint for every listen step and every history (no record other than the sender's and the id being handed out changes); invariant over all histories; the fold over whole histories against the spec written from the property text is tied by the correspondence"),
    "C05": ("proof", "selection theorem for all dotted-numeric release strings, agreement of reported version and active protocol as part of the invariant over all histories, type gate"),
    "C06": ("proof", "closed forms of the version-query wrapper (generic in the wrapped handler) and of each reaction; a listen step never parks anything (generic theorem)"),
    "C07": ("proof", "send and the wake step in closed form for every buffer content: parked until the wake, released once, only that node, last parked value; over whole histories a parked command stays parked through every operation that is not a wake signal of its node or a send for its key, and is written at the next fault-free wake"),
    "C08": ("proof", "release loop and wake step in closed form for every fault stream: failure reported, delivered prefix removed, the rest stays (at gateway level: every parked command outside the delivered prefix is still parked unchanged after the wake), nothing twice"),
    "C09": ("proof", "PARTIAL: for every schedule of the flush/send race (small-step system whose scheduler may place sends at every step boundary) no update is lost, every write was sent, nothing is written twice, and the values written for one key leave in the order in which they were sent (FlushOrder.v); assumed: asyncio atomicity between suspension points, write is the only suspension point in the flush"),
    "C10": ("proof", "closed forms of the missing-node/child wrapper, the request logic and the marker clearing; for every listen step: no request or exactly one, only for a message of that node, only when none is outstanding, recorded iff the write succeeded; over whole histories no second request while one is outstanding; table facts on which handlers carry the wrapper"),
    "C11": ("proof", "allocation step theorem for every registry and fault stream; registered ids only grow over all histories; never handed out twice over whole histories (an id answered once is registered in every later state and differs from every id answered later)"),
    "C12": ("proof", "trichotomy proved for every case but one; the remaining case (internal command, buffering allowed) proved refuted = known finding; a held command is delivered end to end (stays held over any history without a wake of its node or a replacing send, written at the next fault-free wake)"),
    "C13": ("proof", "round-trip theorem for every well-formed registry (all attributes, children, values, arbitrary integers and strings), legacy-layout theorem; the marshmallow field semantics of the model are tied to the library by ~6000 differential cases per run; JSON text layer assumed"),
    "C14": ("proof", "PARTIAL: in the model the read error is the only failure (by construction); proved: what is accepted, atomicity of a failing load, empty file; that no other exception class escapes the real load is decided by the differential run"),
    "C15": ("proof", "the property is proved REFUTED for save-in-place (known finding), its exact extent is a theorem (old / empty registry / read error / new per crash point) and the property is proved for write-temp-then-rename; crash points are enumerated on the real save through an intercepting file layer"),
    "C16": ("proof", "PARTIAL: for every schedule of the two-task transition system (main task and saver, any interleaving at suspension points, cancellation of the owning task, re-entry of the same object) leaving the context ends with the saver finished, the file holding the final registry, one disconnect and the raised exception (never the saver's CancelledError); every session has its saver; built-in MQTT kind: at every fault position of connect (broker refuses, any subset of subscriptions fails) a failed connect leaves no receive task and has left the broker client context; asyncio task semantics are encoded assumptions; cadence on a virtual clock"),
    "C17": ("proof", "PARTIAL: for every chunking and read timing the completed reads are the first reads of the complete stream (theorem about the readuntil model), lines in order, over-long / incomplete / undecodable as read errors, writes are the concatenated UTF-8 (strict UTF-8 round trip proved); StreamReader itself is third-party and validated against the model on every run"),
    "C18": ("proof", "PARTIAL: topic/line mapping theorems for every prefix and payload (publish form incl. the keyword arguments that reach the broker client, read back, echo decodes to the same message), subscriptions cover every command topic, FIFO and not-deaf theorems about the receive loop model, and over the whole life of a client (every interleaving of connects, disconnects, deliveries and reads: reads return exactly what the receive loops accepted, in order, once, across reconnects); broker and aiomqtt replaced by a fake client"),
    "C19": ("proof", "simulation theorems over whole histories: within a major line (two gateways equal but for reported version / active protocol give the same outcomes and writes operation by operation, for every oracle and fault stream; which pairs agree is computed on the generated tables; the exception 22 is necessary) and across 1.x -> 2.x (same, as long as the 1.x run raises no missing-node/child error, without gateway-ready and version reports; every 2.x chain is the 1.x chain under no-op layers, computed on the tables); the exception is confined to registered nodes (a heartbeat response from an unregistered node has one closed form under 2.0, 2.1 and 2.2)"),
}
NOT_YET = {}

def main():
    props = [json.loads(l) for l in open(os.path.join(VERIF, "properties.jsonl"))]
    checks = []
    for p in props:
        pid = p["id"]
        if pid not in CLAIMED:
            continue
        cat, text = CLAIMED[pid]
        checks.append({
            "property_id": pid,
            "quick_cmd": f"./check {pid} --tier quick",
            "thorough_cmd": f"./check {pid} --tier thorough",
            "evidence_file": f"/verif/evidence/{pid}.json",
            "replay_cmd_template": f"./check {pid} --replay {{path}}",
            "engine": "rocq-model",
            "level_claimed": {"category": cat, "text": text, "design_ref": f"DESIGN.md §6 {pid}"},
            "level_note": "trusted: Coq 8.16.1 kernel (vm_compute for finite table facts), harness/gen_tables.py, extraction (ExtrOcamlBasic only) + ocaml/driver.ml, correspondence harness; handler bodies are modelled by hand and tied to /repo by the differential run, tables/constants/dispatch/schema descriptors are regenerated from /repo on every run",
            "technique": "machine-checked proof in Rocq (Coq 8.16.1) about an executable Gallina model + regenerated tables + model/implementation correspondence + property oracle",
        })
    ids = [c["property_id"] for c in checks]
    man = {
        "version": 1,
        "setup_cmd": "./setup.sh",
        "hooks": {
            "guard": "AIOMYSENSORS_VERIF",
            "enable": "no hooks needed: the harness subclasses the public Transport and patches third-party modules from outside /repo",
            "baseline_off_cmd": "cd /repo && /venv/bin/python -m pytest -ra -q -p no:cacheprovider --timeout=900 --continue-on-collection-errors",
            "source_commits": [],
            "add_only": True,
        },
        "engines": [
            {"name": "rocq-model", "path": "coq/", "serves_properties": ids,
             "kind_free_text": "Coq 8.16.1 development: executable Gallina model of the library, generated tables, per-property theorem files"},
            {"name": "correspondence", "path": "harness/", "serves_properties": ids,
             "kind_free_text": "differential run of the extracted model (OCaml) against the implementation, plus per-property oracles that search for concrete failing inputs"},
        ],
        "checks": checks,
        "not_applicable": [{"property_id": p["id"], "reason": NOT_YET.get(p["id"], "check not built yet in this round (the design covers it: DESIGN.md §6); not claimed until its theorem file and correspondence exist")}
                           for p in props if p["id"] not in CLAIMED],
        "notes": "Every check: regenerate coq/gen/Tables.v from /repo, full .vo build of props/<id>.v (Print Assumptions under every theorem), extracted-model vs implementation correspondence, property oracle, verdict. known_findings.json lists recorded defects (status known) and repaired ones (status fixed, suppress nothing).",
    }
    with open(os.path.join(VERIF, "MANIFEST.json"), "w") as f:
        json.dump(man, f, indent=1)

main()
