"""Shared harness pieces: op encoding for the model driver, the scripted
transport, the implementation-side gateway wrapper rendering observable
behaviour in the canonical text format of coq/theories/Show.v."""

from __future__ import annotations

import asyncio
import logging
import calendar
import os
import random
import subprocess
import time
from typing import Any

VERIF = os.path.dirname(os.path.dirname(os.path.abspath(__file__)))
DRIVER = os.path.join(VERIF, "ocaml", "_build", "driver")


# ---------------------------------------------------------------- encoding

def enc_str(s: str) -> str:
    if not s:
        return "0"
    return f"{len(s)} " + " ".join(str(ord(c)) for c in s)


def enc_bytes(b: bytes) -> str:
    if not b:
        return "0"
    return f"{len(b)} " + " ".join(str(x) for x in b)


def enc_faults(faults) -> str:
    faults = list(faults)
    if not faults:
        return "0"
    return f"{len(faults)} " + " ".join("1" if f else "0" for f in faults)


def dec_line(line: str) -> str:
    line = line.strip()
    if not line:
        return ""
    return "".join(chr(int(t)) for t in line.split(" "))


class Driver:
    """Batch interface to the extracted model."""

    def __init__(self) -> None:
        self.ops: list[str] = []

    def add(self, op: str) -> int:
        self.ops.append(op)
        return len(self.ops) - 1

    def run(self) -> list[str]:
        if not self.ops:
            return []
        data = ("\n".join(self.ops) + "\n").encode()
        proc = subprocess.run(
            [DRIVER], input=data, capture_output=True, check=False
        )
        if proc.returncode != 0:
            raise RuntimeError(
                f"model driver failed rc={proc.returncode}: {proc.stderr.decode()[:2000]}"
            )
        out = proc.stdout.decode().split("\n")
        if out and out[-1] == "":
            out.pop()
        if len(out) != len(self.ops):
            raise RuntimeError(
                f"model driver printed {len(out)} lines for {len(self.ops)} ops"
            )
        return [dec_line(l) for l in out]


def run_sharded(op_lists: list[list[str]], jobs: int = 8) -> list[list[str]]:
    """Run independent op lists (each starts with an I op) in parallel drivers."""
    from concurrent.futures import ThreadPoolExecutor

    if not op_lists:
        return []
    # group into `jobs` shards preserving order
    shards: list[list[int]] = [[] for _ in range(min(jobs, len(op_lists)))]
    for i in range(len(op_lists)):
        shards[i % len(shards)].append(i)

    def work(idx: list[int]) -> list[tuple[int, list[str]]]:
        d = Driver()
        for i in idx:
            d.ops.extend(op_lists[i])
        out = d.run()
        res = []
        pos = 0
        for i in idx:
            n = len(op_lists[i])
            res.append((i, out[pos : pos + n]))
            pos += n
        return res

    results: list[list[str]] = [[] for _ in op_lists]
    with ThreadPoolExecutor(max_workers=len(shards)) as ex:
        for part in ex.map(work, shards):
            for i, o in part:
                results[i] = o
    return results


# ------------------------------------------------- implementation side

def _load_impl():
    from aiomysensors import exceptions as ex
    from aiomysensors.gateway import Config, Gateway
    from aiomysensors.model.message import Message
    from aiomysensors.model.node import Node
    from aiomysensors.transport import Transport

    return ex, Config, Gateway, Message, Node, Transport


ex, Config, Gateway, Message, Node, Transport = _load_impl()


class ScriptedTransport(Transport):
    """Transport whose reads come from a script and whose writes are recorded;
    write attempt number i of the current step fails iff faults[i]."""

    def __init__(self) -> None:
        self.inq: list[Any] = []
        self.writes: list[tuple[str, bool]] = []
        self.faults: list[bool] = []
        self.connected = 0
        self.disconnected = 0

    async def connect(self) -> None:
        self.connected += 1

    async def disconnect(self) -> None:
        self.disconnected += 1

    async def read(self) -> str:
        item = self.inq.pop(0)
        if isinstance(item, BaseException):
            raise item
        return item

    async def write(self, decoded_message: str) -> None:
        fault = self.faults.pop(0) if self.faults else False
        self.writes.append((decoded_message, not fault))
        if fault:
            raise ex.TransportFailedError("injected write fault")


def show_str(s: Any) -> str:
    s = str(s)
    return f"{len(s)}:{s}"


def show_bool(b: Any) -> str:
    return "1" if b else "0"


def show_msg(m: Any) -> str:
    return (
        f"{m.node_id} {m.child_id} {m.command} {m.ack} {m.message_type} "
        f"{show_str(m.payload)}"
    )


def show_exn(e: BaseException) -> str:
    if not isinstance(e, ex.AIOMySensorsError):
        return "ESCAPE"
    name = type(e).__name__
    if isinstance(e, ex.MissingNodeError):
        return f"MissingNodeError {e.node_id}"
    if isinstance(e, ex.MissingChildError):
        return f"MissingChildError {e.child_id}"
    if isinstance(e, ex.UnsupportedMessageError):
        return f"UnsupportedMessageError {show_str(e.protocol_version)} {show_msg(e.message)}"
    return name


def show_child(c: Any) -> str:
    vals = "".join(f" v{k}={show_str(v)}" for k, v in sorted(c.values.items()))
    return f"{{c {c.child_id} {c.child_type} {show_str(c.description)}{vals}}}"


def show_node(n: Any) -> str:
    kids = "".join(f" k{k}{show_child(c)}" for k, c in sorted(n.children.items()))
    return (
        f"{{n {n.node_id} {n.node_type} {show_str(n.protocol_version)} "
        f"{show_str(n.sketch_name)} {show_str(n.sketch_version)} "
        f"{n.battery_level} {n.heartbeat} {show_bool(n.reboot)} {show_bool(n.sleeping)}"
        f"{kids}}}"
    )


def show_buf(d: dict) -> str:
    return "".join(f" ({k[0]},{k[1]},{k[2]})={show_msg(m)}" for k, m in d.items())


def show_world(gw: Any) -> str:
    pv = gw.protocol_version
    buf = getattr(gw, "_message_buffer", None)
    ibuf = show_buf(buf.internal_messages) if buf is not None else " ?"
    sbuf = show_buf(buf.set_messages) if buf is not None else " ?"
    nodes = "".join(f" k{k}{show_node(n)}" for k, n in sorted(gw.nodes.items()))
    return (
        f"pv={'None' if pv is None else show_str(pv)} "
        f"proto={show_str(gw.protocol.VERSION)} metric={show_bool(gw.config.metric)} "
        f"nodes={nodes} ibuf={ibuf} sbuf={sbuf}"
    )


def show_writes(ws: list[tuple[str, bool]]) -> str:
    return "".join(f" | W{show_bool(ok)} {show_str(line)}" for line, ok in ws)


_SUPPORTED_KEYS: list[str] | None = None


def supported_keys() -> list[str]:
    global _SUPPORTED_KEYS
    if _SUPPORTED_KEYS is None:
        from aiomysensors.model import protocol as P

        _SUPPORTED_KEYS = sorted(P.PROTOCOL_VERSIONS)
    return _SUPPORTED_KEYS


def oracle_bat(payload: str):
    try:
        return round(float(payload))
    except (ValueError, OverflowError):
        return None


def oracle_vlt(payload: str) -> list[int]:
    """AwesomeVersion(payload) < AwesomeVersion(key) per supported key:
    0 = raised, 1 = False, 2 = True."""
    from awesomeversion import AwesomeVersion

    res = []
    for k in supported_keys():
        try:
            res.append(2 if AwesomeVersion(payload) < AwesomeVersion(k) else 1)
        except Exception:  # noqa: BLE001
            res.append(0)
    return res


def local_now() -> int:
    return calendar.timegm(time.localtime())


def payload_of_line(line: str) -> str:
    parts = line.rstrip().split(";", 5)
    return parts[5] if len(parts) == 6 else ""


def enc_oracle(payload: str, now: int) -> str:
    b = oracle_bat(payload)
    v = oracle_vlt(payload)
    return (
        "O "
        + ("0" if b is None else f"1 {b}")
        + f" {len(v)} "
        + " ".join(map(str, v))
        + f" {now}"
    )


class _FormatAndDrop(logging.Handler):
    """Formats every record (so the arguments of a log call are really rendered) and drops it."""

    def emit(self, record):  # noqa: D102
        try:
            record.getMessage()
        except Exception:  # noqa: BLE001  logging never lets a formatting error escape (logging.raiseExceptions aside)
            pass


_LOG_STATE = {"installed": False, "count": 0}


def debug_logging(on: bool = True) -> None:
    """The library's loggers at DEBUG (or back at WARNING): blocks guarded by
    LOGGER.isEnabledFor(DEBUG) are code too, the runs execute them most of the time."""
    for name in ("aiomysensors", "paho.mqtt.client"):
        lg = logging.getLogger(name)
        if not _LOG_STATE["installed"]:
            lg.addHandler(_FormatAndDrop())
            lg.propagate = False
        lg.setLevel(logging.DEBUG if on else logging.WARNING)
    _LOG_STATE["installed"] = True


class Impl:
    """Drives the real Gateway and records, per operation, the op line for the
    model driver and the canonical rendering of what the implementation did."""

    def __init__(self, metric: bool = True, loop: asyncio.AbstractEventLoop | None = None):
        # three gateways out of four run with debug logging on, the fourth with it off
        _LOG_STATE["count"] += 1
        debug_logging(_LOG_STATE["count"] % 4 != 0)
        # one event loop for all scripted gateways (a loop of its own per gateway costs three file
        # descriptors; thousands of histories are alive at once in the thorough tier)
        self._own_loop = False
        if loop is None:
            if _LOG_STATE.get("loop") is None or _LOG_STATE["loop"].is_closed():
                _LOG_STATE["loop"] = asyncio.new_event_loop()
            loop = _LOG_STATE["loop"]
        self.loop = loop
        self.tr = ScriptedTransport()
        self.gw = Gateway(self.tr, Config(metric=metric))
        self.ops: list[str] = [f"I {1 if metric else 0}"]
        self.outs: list[str] = [show_world(self.gw)]
        self.now_alt: dict[int, tuple[int, int]] = {}
        self.raw: list[Any] = [None]  # per op: raw record for oracles
        self._agen = None

    def close(self) -> None:
        if self._agen is not None:
            try:
                self.loop.run_until_complete(self._agen.aclose())
            except Exception:  # noqa: BLE001
                pass
            self._agen = None

    def _record(self, op: str, out: str, raw: Any = None) -> None:
        self.ops.append(op)
        self.outs.append(out)
        self.raw.append(raw)

    # ---- operations
    def recv(self, line: str, faults=()) -> dict:
        payload = payload_of_line(line)
        t0 = local_now()
        self._record(enc_oracle(payload, t0), "")
        self.tr.inq.append(line)
        self.tr.faults = list(faults)
        self.tr.writes = []
        before = snapshot(self.gw)

        # one listen() generator is kept across steps, as an application's
        # `async for message in gateway.listen()` does; an exception finishes it,
        # so the next step starts a new one
        if self._agen is None:
            self._agen = self.gw.listen()
        exc = None
        msg = None
        try:
            msg = self.loop.run_until_complete(self._agen.__anext__())
            outcome = "Y " + show_msg(msg)
        except Exception as e:  # noqa: BLE001
            exc = e
            outcome = "E " + show_exn(e)
            self._agen = None
        t1 = local_now()
        out = outcome + show_writes(self.tr.writes) + " || " + show_world(self.gw)
        raw = {
            "kind": "recv",
            "line": line,
            "faults": list(faults),
            "msg": msg,
            "exc": exc,
            "writes": list(self.tr.writes),
            "before": before,
            "after": snapshot(self.gw),
            "t0": t0,
            "t1": t1,
        }
        self._record(f"R {enc_faults(faults)} {enc_str(line)}", out, raw)
        if t0 != t1:
            self.now_alt[len(self.ops) - 1] = (t0, t1)
        return raw

    def _message_for(self, n, c, k, a, t, p):
        """An application may keep one Message object per value and send it again after
        changing a field.  Every other send for a (node, child, command, type) reuses the object
        of the last successful send for it, mutated — unless the gateway still holds that object
        (a parked command must not change under the gateway's feet: that would be the
        application's doing, not the library's)."""
        old = getattr(self, "_sent_objects", None)
        if old is None:
            old = self._sent_objects = {}
            self._reuse_flip = {}
        key = (n, c, k, t)
        m = old.get(key)
        flip = self._reuse_flip[key] = not self._reuse_flip.get(key, False)
        if m is not None and not flip:
            buf = getattr(self.gw, "_message_buffer", None)
            held = []
            for name in ("set_messages", "internal_messages"):
                d = getattr(buf, name, None)
                if isinstance(d, dict):
                    held += list(d.values())
            if not any(h is m for h in held):
                try:
                    m.node_id, m.child_id, m.command = int(n), int(c), int(k)
                    m.ack, m.message_type, m.payload = a, int(t), p
                    return m
                except Exception:  # noqa: BLE001
                    pass
        return Message(n, c, k, a, t, p)

    def send(self, fields, buffered: bool = True, faults=()) -> dict:
        n, c, k, a, t, p = fields
        self._record(enc_oracle("", local_now()), "")
        self.tr.faults = list(faults)
        self.tr.writes = []
        before = snapshot(self.gw)
        m = self._message_for(n, c, k, a, t, p)
        exc = None
        try:
            self.loop.run_until_complete(self.gw.send(m, message_buffer=buffered))
            outcome = "D"
            self._sent_objects[(n, c, k, t)] = m
        except Exception as e:  # noqa: BLE001
            exc = e
            outcome = "E " + show_exn(e)
        out = outcome + show_writes(self.tr.writes) + " || " + show_world(self.gw)
        raw = {
            "kind": "send",
            "fields": (n, c, k, a, t, p),
            "buffered": buffered,
            "faults": list(faults),
            "exc": exc,
            "writes": list(self.tr.writes),
            "before": before,
            "after": snapshot(self.gw),
        }
        self._record(
            f"T {enc_faults(faults)} {n} {c} {k} {a} {t} {enc_str(p)} {1 if buffered else 0}",
            out,
            raw,
        )
        return raw

    def reconnect(self) -> dict:
        """Leave the session and enter it again on the same Gateway object (what an
        application does after a connection loss): the listen generator is finished,
        `async with gateway` is exited and entered.  Without persistence nothing of
        the gateway state may change (model: OReconnect is the identity)."""
        before = snapshot(self.gw)
        exc = None

        async def _cycle():
            if self._agen is not None:
                await self._agen.aclose()
            async with self.gw:
                pass
            async with self.gw:
                pass

        try:
            self.loop.run_until_complete(_cycle())
            outcome = ""
        except Exception as e:  # noqa: BLE001
            exc = e
            outcome = "E " + show_exn(e) + " || "
        self._agen = None
        raw = {"kind": "reconnect", "exc": exc, "writes": [], "faults": [], "before": before,
               "after": snapshot(self.gw)}
        self._record("X", outcome + show_world(self.gw), raw)
        return raw

    def set_version(self, v: str) -> None:
        self._record(enc_oracle(v, local_now()), "")
        try:
            self.gw.protocol_version = v
            outcome = "D"
        except Exception as e:  # noqa: BLE001
            outcome = "E " + show_exn(e)
            if outcome == "E ESCAPE":
                # the model maps a failing comparison to the invalid-message error
                # raised by the version handler; the bare setter has no such wrapper
                outcome = "E InvalidMessageError"
        self._record(f"P {enc_str(v)}", outcome + " || " + show_world(self.gw))

    def put_node(self, node_id, node_type, ver="", sname="", sver="", bat=0, hb=0,
                 reboot=False, sleeping=False) -> None:
        node = Node(node_id, node_type, ver, sketch_name=sname, sketch_version=sver,
                    battery_level=bat, heartbeat=hb, sleeping=sleeping)
        node.reboot = reboot
        self.gw.nodes[node_id] = node
        self._record(
            f"N {node_id} {node_type} {enc_str(ver)} {enc_str(sname)} {enc_str(sver)} "
            f"{bat} {hb} {1 if reboot else 0} {1 if sleeping else 0}",
            show_world(self.gw),
        )

    def add_child(self, node_id, child_id, child_type, desc="") -> None:
        self.gw.nodes[node_id].add_child(child_id, child_type, description=desc)
        self._record(f"C {node_id} {child_id} {child_type} {enc_str(desc)}", show_world(self.gw))

    def set_value(self, node_id, child_id, vt, v) -> None:
        self.gw.nodes[node_id].set_child_value(child_id, vt, v)
        self._record(f"V {node_id} {child_id} {vt} {enc_str(v)}", show_world(self.gw))

    def set_reboot(self, node_id, b) -> None:
        self.gw.nodes[node_id].reboot = b
        self._record(f"B {node_id} {1 if b else 0}", show_world(self.gw))

    def set_sleeping(self, node_id, b) -> None:
        self.gw.nodes[node_id].sleeping = b
        self._record(f"S {node_id} {1 if b else 0}", show_world(self.gw))


def snapshot(gw: Any) -> dict:
    """Plain-data copy of the observable gateway state (for property oracles)."""
    buf = getattr(gw, "_message_buffer", None)
    return {
        "pv": gw.protocol_version,
        "proto": gw.protocol.VERSION,
        "nodes": {
            k: {
                "node_id": n.node_id,
                "node_type": n.node_type,
                "protocol_version": n.protocol_version,
                "sketch_name": n.sketch_name,
                "sketch_version": n.sketch_version,
                "battery_level": n.battery_level,
                "heartbeat": n.heartbeat,
                "reboot": n.reboot,
                "sleeping": n.sleeping,
                "children": {
                    ck: {
                        "child_id": c.child_id,
                        "child_type": c.child_type,
                        "description": c.description,
                        "values": dict(c.values),
                    }
                    for ck, c in n.children.items()
                },
            }
            for k, n in gw.nodes.items()
        },
        "ibuf": {k: msg_tuple(m) for k, m in buf.internal_messages.items()} if buf else None,
        "sbuf": {k: msg_tuple(m) for k, m in buf.set_messages.items()} if buf else None,
    }


def msg_tuple(m: Any) -> tuple:
    return (m.node_id, m.child_id, m.command, m.ack, m.message_type, m.payload)


def compare(impl: Impl, model_out: list[str]) -> list[dict]:
    """Compare an implementation run with the model's outputs for the same ops."""
    dis = []
    for i, (op, iout, mout) in enumerate(zip(impl.ops, impl.outs, model_out)):
        if op.startswith("O "):
            continue
        if iout == mout:
            continue
        if i in impl.now_alt:
            t0, t1 = impl.now_alt[i]
            if iout == mout.replace(str(t0), str(t1)):
                continue
        dis.append({"index": i, "op": op, "impl": iout, "model": mout})
    return dis


def rng_for(seed: int, salt: str) -> random.Random:
    return random.Random(f"{seed}:{salt}")


# ------------------------------------------------- parsing canonical steps

class _P:
    def __init__(self, s: str):
        self.s = s
        self.i = 0

    def lit(self, t: str) -> bool:
        if self.s.startswith(t, self.i):
            self.i += len(t)
            return True
        return False

    def int_(self) -> int:
        j = self.i
        if j < len(self.s) and self.s[j] == "-":
            j += 1
        while j < len(self.s) and self.s[j].isdigit() and self.s[j].isascii():
            j += 1
        v = int(self.s[self.i:j])
        self.i = j
        return v

    def str_(self) -> str:
        n = self.int_()
        assert self.s[self.i] == ":"
        self.i += 1
        v = self.s[self.i:self.i + n]
        self.i += n
        return v

    def msg(self) -> tuple:
        f = []
        for _ in range(5):
            f.append(self.int_())
            assert self.lit(" ")
        f.append(self.str_())
        return tuple(f)


def parse_step(s: str) -> dict:
    """Parse 'outcome | W.. | W.. || world' (format of Show.show_step)."""
    p = _P(s)
    r: dict = {"kind": None, "msg": None, "exn": None, "exn_arg": None, "writes": [], "world": None}
    if p.lit("Y "):
        r["kind"] = "Y"
        r["msg"] = p.msg()
    elif p.lit("E "):
        r["kind"] = "E"
        j = p.i
        while j < len(s) and (s[j].isalnum() or s[j] == "_"):
            j += 1
        r["exn"] = s[p.i:j]
        p.i = j
        if r["exn"] in ("MissingNodeError", "MissingChildError"):
            assert p.lit(" ")
            r["exn_arg"] = p.int_()
        elif r["exn"] == "UnsupportedMessageError":
            assert p.lit(" ")
            ver = p.str_()
            assert p.lit(" ")
            r["exn_arg"] = (ver, p.msg())
    elif p.lit("D"):
        r["kind"] = "D"
    else:
        raise ValueError("bad step: " + s[:80])
    while p.lit(" | W"):
        ok = p.int_() == 1
        assert p.lit(" ")
        r["writes"].append((p.str_(), ok))
    assert p.lit(" || "), s[p.i:p.i + 40]
    r["world"] = s[p.i:]
    return r


def compare_projected(impl: "Impl", model_out: list[str], project) -> list[dict]:
    """Like compare(), but only on the projection `project(parsed_step, op)`."""
    dis = []
    for i, (op, iout, mout) in enumerate(zip(impl.ops, impl.outs, model_out)):
        if op[0] not in "RTP" or iout == mout:
            continue
        if i in impl.now_alt:
            t0, t1 = impl.now_alt[i]
            if iout == mout.replace(str(t0), str(t1)):
                continue
        try:
            pi, pm = project(parse_step(iout), op), project(parse_step(mout), op)
        except Exception as e:  # noqa: BLE001
            dis.append({"index": i, "op": op, "impl": iout, "model": mout, "parse_error": repr(e)})
            continue
        if pi != pm:
            dis.append({"index": i, "op": op, "impl": iout, "model": mout,
                        "impl_projection": pi, "model_projection": pm,
                        "history": impl.ops[: i + 1]})
    return dis


def op_line(op: str) -> str | None:
    """The received line of an 'R' op."""
    t = op.split(" ")
    if t[0] != "R":
        return None
    nf = int(t[1])
    i = 2 + nf
    n = int(t[i])
    return "".join(chr(int(x)) for x in t[i + 1 : i + 1 + n])
