"""Structured generator of gateway histories (received lines, send calls, public
state manipulations) shared by the gateway-core properties.  Every random choice
comes from the rng passed in."""

from __future__ import annotations

from common import Impl

VERSIONS = ["1.4", "1.5", "2.0", "2.1", "2.2"]
VERSION_PAYLOADS_OK = ["1.4", "1.5", "2.0", "2.1", "2.2", "2.2.0", "2.3.2", "2.1.1", "2.0.0", "1.5.1",
                       "1.4.2", "1.0", "3.0", "2.10", "v2.2", " 2.1 ", "2.2.", "2", "20.1", "2.2.0.1"]
VERSION_PAYLOADS_BAD = ["", "abc", "2.x", "latest", "2.2b1", "2.2-beta", "1." + "9" * 20, "..", "v", "2..2"]
NUM_PAYLOADS = ["0", "1", "55", "100", "12.7", "99.5", " 7 "]
ODD_PAYLOADS = ["", "abc", "nan", "inf", "-inf", "1e400", "150", "-3", "-3.4", "100.4", "100.6", "1_0",
                "٣", "9" * 40, "0x10", "1e2", "-0.4"]
TEXT_PAYLOADS = ["", "x", "Sketch", "1.0", "a;b", "åäö", "  pad", "0"]

# internal type numbers by name per protocol family (from the MySensors serial API; the
# generator only needs plausible numbers, the tables of the implementation decide what they mean)
I = dict(BATTERY=0, TIME=1, VERSION=2, ID_REQUEST=3, ID_RESPONSE=4, INCLUSION=5, CONFIG=6, LOG=9,
         CHILDREN=10, SKETCH_NAME=11, SKETCH_VERSION=12, REBOOT=13, GATEWAY_READY=14, PRESENTATION=19,
         DISCOVER=20, DISCOVER_RESPONSE=21, HEARTBEAT_RESPONSE=22, LOCKED=23, PING=24, PONG=25,
         DEBUG=28, SIGNAL_REQ=29, PRE_SLEEP=32, POST_SLEEP=33)
INTERNAL_TYPES_ALL = sorted(set(I.values()) | {7, 8, 15, 16, 17, 18, 26, 27, 30, 31, 34, 40, 99, -1})


class Profile:
    def __init__(self, **kw):
        self.nodes = [1, 2, 3]
        self.children = [0, 1]
        self.vtypes = [0, 2, 2, 0, 47, 99]   # 47: V_TEXT (not in 1.4), 99: in no table
        self.max_len = 14
        self.p_fault = 0.0
        self.p_send = 0.15
        self.p_manip = 0.05
        self.p_malformed = 0.03
        self.start_versions = [None] + VERSIONS
        self.weights = dict(
            node_pres=3, gw_pres=1, child_pres=3, set=4, req=2, battery=2, time=1, version=1.5,
            id_request=1.5, config=1, log=0.7, sketch=1.5, gw_ready=0.7, discover_resp=0.7,
            heartbeat=2, pre_sleep=2, post_sleep=0.5, other_internal=1.5, stream=1,
        )
        self.odd_payload = 0.25
        self.bad_version = 0.25
        self.unknown_node = 0.2
        self.restore = 0.3
        self.p_reconnect = 0.03
        self.__dict__.update(kw)


def pick_weighted(rng, weights: dict):
    tot = sum(weights.values())
    x = rng.random() * tot
    for k, w in weights.items():
        x -= w
        if x <= 0:
            return k
    return k


def gen_line(rng, pr: Profile) -> tuple[str, str]:
    """Return (kind, line)."""
    if rng.random() < pr.p_malformed:
        return "malformed", rng.choice(["", "1;2", "1;2;3;4;5", "a;b;c;d;e;f", "256;1;1;0;0;x",
                                        "1;1;1;2;0;x", "1;1;5;0;0;x", "1;255;1;0;0;x", "1;3;3;0;0;x"])
    kind = pick_weighted(rng, pr.weights)
    n = rng.choice(pr.nodes)
    if rng.random() < pr.unknown_node:
        n = rng.choice([0, 9, 77, 254, 255] + pr.nodes)
    c = rng.choice(pr.children)
    ack = 1 if rng.random() < 0.1 else 0

    def payload(num=True):
        if rng.random() < pr.odd_payload:
            return rng.choice(ODD_PAYLOADS)
        return rng.choice(NUM_PAYLOADS if num else TEXT_PAYLOADS)

    def ver():
        return rng.choice(VERSION_PAYLOADS_BAD if rng.random() < pr.bad_version else VERSION_PAYLOADS_OK)

    if kind == "node_pres":
        # mostly the two node types; sometimes a sensor type on the system child (still a node
        # presentation: what decides is the child id, not the type)
        ptype = rng.choice([17, 18]) if rng.random() < 0.85 else rng.choice([0, 3, 6, 38])
        return kind, f"{n};255;0;{ack};{ptype};{ver()}"
    if kind == "gw_pres":
        return kind, f"0;255;0;{ack};18;{ver()}"
    if kind == "child_pres":
        # ... and sometimes a node type on an ordinary child (still a child presentation)
        ptype = rng.choice([0, 3, 6, 38]) if rng.random() < 0.85 else rng.choice([17, 18])
        return kind, f"{n};{c};0;{ack};{ptype};{payload(False)}"
    if kind == "set":
        return kind, f"{n};{c};1;{ack};{rng.choice(pr.vtypes)};{payload()}"
    if kind == "req":
        return kind, f"{n};{c};2;{ack};{rng.choice(pr.vtypes)};{rng.choice(['', 'x'])}"
    if kind == "battery":
        return kind, f"{n};255;3;{ack};{I['BATTERY']};{payload()}"
    if kind == "time":
        return kind, f"{n};{rng.choice([255, 255, c])};3;{ack};{I['TIME']};" if False else f"{n};255;3;{ack};{I['TIME']};"
    if kind == "version":
        return kind, f"{rng.choice([0, 0, n])};255;3;{ack};{I['VERSION']};{ver()}"
    if kind == "id_request":
        return kind, f"{rng.choice([255, 255, n])};{rng.choice([255, 255, c, 7])};3;{ack};{I['ID_REQUEST']};{rng.choice(['', 'x'])}"
    if kind == "config":
        return kind, f"{n};255;3;{ack};{I['CONFIG']};{rng.choice(['', '0'])}"
    if kind == "log":
        return kind, f"{rng.choice([0, n])};255;3;{ack};{I['LOG']};log text"
    if kind == "sketch":
        return kind, f"{n};255;3;{ack};{rng.choice([I['SKETCH_NAME'], I['SKETCH_VERSION']])};{payload(False)}"
    if kind == "gw_ready":
        return kind, f"0;255;3;{ack};{I['GATEWAY_READY']};Gateway startup complete."
    if kind == "discover_resp":
        return kind, f"{n};255;3;{ack};{I['DISCOVER_RESPONSE']};0"
    if kind == "heartbeat":
        return kind, f"{n};255;3;{ack};{I['HEARTBEAT_RESPONSE']};{payload()}"
    if kind == "pre_sleep":
        return kind, f"{n};255;3;{ack};{I['PRE_SLEEP']};{rng.choice(['', '500'])}"
    if kind == "post_sleep":
        return kind, f"{n};255;3;{ack};{I['POST_SLEEP']};"
    if kind == "other_internal":
        return kind, f"{n};255;3;{ack};{rng.choice(INTERNAL_TYPES_ALL)};{payload(False)}"
    if kind == "stream":
        return kind, f"{n};255;4;{ack};{rng.choice([0, 1, 2, 3, 4, 5, 6, 9])};00FF"
    raise AssertionError(kind)


def gen_send(rng, pr: Profile):
    n = rng.choice(pr.nodes + [9])
    k = rng.choice([1, 1, 1, 1, 3, 0, 2, 4])
    if k == 1 or k == 2 or k == 0:
        c = rng.choice(pr.children)
        t = rng.choice(pr.vtypes)
    else:
        c = 255
        t = rng.choice([I["REBOOT"], I["PRESENTATION"], I["HEARTBEAT_RESPONSE"] - 4, 2, 99])
    return (n, c, k, rng.choice([0, 0, 1]), t, rng.choice(["1", "0", "on", "22.5", ""])), rng.random() < 0.75


def gen_history(rng, pr: Profile) -> list[tuple]:
    """A history as a list of op tuples understood by run_history."""
    ops: list[tuple] = []
    sv = rng.choice(pr.start_versions)
    if sv is not None:
        # the gateway reports its version first (the usual start of a session)
        ops.append(("recv", f"0;255;3;0;2;{sv}", ()))
    if rng.random() < pr.restore:
        # registry restored from persistence before traffic starts
        for n in rng.sample(pr.nodes, rng.randint(1, len(pr.nodes))):
            ops.append(("put_node", n, rng.choice([17, 18]), rng.choice(VERSIONS), rng.random() < 0.4))
            for c in pr.children:
                if rng.random() < 0.6:
                    ops.append(("add_child", n, c, rng.choice([0, 3, 6])))
                    if rng.random() < 0.5:
                        ops.append(("set_value", n, c, rng.choice(pr.vtypes), rng.choice(["1", "", "20.5"])))
    last_set: dict = {}
    for _ in range(rng.randint(1, pr.max_len)):
        x = rng.random()
        if x < pr.p_send:
            f, buffered = gen_send(rng, pr)
            faults = tuple(rng.random() < 0.5 for _ in range(2)) if rng.random() < pr.p_fault else ()
            ops.append(("send", f, buffered, faults))
        elif x < pr.p_send + pr.p_manip:
            n = rng.choice(pr.nodes)
            ops.append((rng.choice(["set_reboot", "set_sleeping"]), n, rng.random() < 0.7))
        elif x < pr.p_send + pr.p_manip + pr.p_reconnect:
            # the application leaves the session and enters it again on the same Gateway object
            ops.append(("reconnect",))
        else:
            kind, line = gen_line(rng, pr)
            if kind == "set":
                # nodes often report the value they reported before
                f = line.split(";", 5)
                key = (f[0], f[1], f[4])
                if key in last_set and rng.random() < 0.3:
                    f[5] = last_set[key]
                    line = ";".join(f)
                last_set[key] = f[5]
            faults = tuple(rng.random() < 0.4 for _ in range(4)) if rng.random() < pr.p_fault else ()
            ops.append(("recv", line, faults))
    return ops


def run_history(ops: list[tuple], metric: bool = True) -> Impl:
    im = Impl(metric=metric)
    for op in ops:
        k = op[0]
        if k == "recv":
            im.recv(op[1], op[2])
        elif k == "send":
            im.send(op[1], buffered=op[2], faults=op[3])
        elif k == "put_node":
            im.put_node(op[1], op[2], ver=op[3], sleeping=op[4])
        elif k == "add_child":
            if op[1] in im.gw.nodes:
                im.add_child(op[1], op[2], op[3])
        elif k == "set_value":
            if op[1] in im.gw.nodes and op[2] in im.gw.nodes[op[1]].children:
                im.set_value(op[1], op[2], op[3], op[4])
        elif k == "set_reboot":
            if op[1] in im.gw.nodes:
                im.set_reboot(op[1], op[2])
        elif k == "set_sleeping":
            if op[1] in im.gw.nodes:
                im.set_sleeping(op[1], op[2])
        elif k == "set_version":
            im.set_version(op[1])
        elif k == "reconnect":
            im.reconnect()
        else:
            raise AssertionError(op)
    return im


def shrink_history(ops: list[tuple], fails) -> list[tuple]:
    """Greedy removal of ops while `fails(ops)` stays true."""
    cur = list(ops)
    changed = True
    while changed:
        changed = False
        for i in range(len(cur)):
            cand = cur[:i] + cur[i + 1:]
            try:
                if cand and fails(cand):
                    cur = cand
                    changed = True
                    break
            except Exception:  # noqa: BLE001
                continue
    return cur
