"""C03 — the receive path raises only library errors; the gateway stays usable."""

from __future__ import annotations

import asyncio

from common import ex, rng_for
from gwcore import replay_ops, run_property
from histgen import Profile, gen_history
from oracles import PROBE, oracle_c03

EXTRA_LINES = [
    "1;255;3;0;0;abc", "1;255;3;0;0;", "1;255;3;0;0;nan", "1;255;3;0;0;inf", "1;255;3;0;0;1e400",
    "1;255;3;0;22;xyz", "1;255;3;0;22;", "1;255;3;0;22;1.5", "0;255;3;0;2;garbage", "0;255;0;0;18;",
    "0;255;3;0;2;1." + "9" * 5000, "0;255;3;0;2;" + "7" * 4400, "1;255;3;0;0;" + "9" * 5000,
    "1;255;3;0;22;" + "9" * 5000, "1;2", "", ";;;;;", "1;255;3;0;99;x", "1;255;4;0;9;x", "1;1;1;0;0;\x00",
    "0;255;3;0;2;\x00", "0;255;3;0;2;2.2\x00", "0;255;3;0;2;١.٢", "1;255;3;0;0;١٢", "1;255;3;0;22;١٢",
    "0;255;3;0;2;1e5", "0;255;3;0;2;-1", "0;255;3;0;2; ", "1;255;3;0;0;0x10", "1;255;3;0;0;1_0",
]


def gen(rng, pr):
    ops = gen_history(rng, pr)
    out = []
    for op in ops:
        out.append(op)
        if op[0] == "recv" and rng.random() < 0.6:
            out.append(("recv", PROBE, ()))
    return out


def directed():
    hs = []
    for v in [None, "1.4", "1.5", "2.0", "2.1", "2.2"]:
        for known in (False, True, "odd"):
            ops = []
            if v:
                ops.append(("recv", f"0;255;3;0;2;{v}", ()))
            if known:
                ops.append(("put_node", 1, 17, "2.0", False))
                ops.append(("add_child", 1, 1, 0))
            if known == "odd":
                # children whose sensor type is in no table / not in the active protocol's table
                # (restored from a file, or presented: presentation types are not validated), a
                # node of an unusual type, then reports and requests from them
                ops += [("add_child", 1, 2, 99), ("add_child", 1, 3, 38), ("recv", "1;4;0;0;39;presented", ()),
                        ("recv", "1;5;0;0;200;presented", ()), ("put_node", 2, 99, "9.9", False), ("add_child", 2, 0, -1)]
                for c in (1, 2, 3, 4, 5):
                    ops += [("recv", f"1;{c};1;0;0;21.5", ()), ("recv", f"1;{c};1;0;47;text", ()), ("recv", f"1;{c};2;0;0;", ()),
                            ("recv", f"1;{c};1;1;2;1", ())]
                ops += [("recv", "2;0;1;0;0;1", ()), ("recv", "2;0;2;0;0;", ()), ("recv", "2;255;3;0;0;50", ()),
                        ("recv", "2;255;3;0;22;5", ()), ("recv", "2;255;3;0;32;5", ())]
            for line in EXTRA_LINES:
                ops.append(("recv", line, ()))
                ops.append(("recv", PROBE, ()))
            hs.append(ops)
    return hs


def stream_escape(ctx):
    """Undecodable / odd bytes through a real StreamReader behind StreamTransport.read."""
    from aiomysensors.transport import StreamTransport

    class T(StreamTransport):
        def __init__(self, reader):
            super().__init__()
            self._r = reader

        async def _open_connection(self):
            return self._r, None

    rng = rng_for(ctx.seed, "C03stream")
    failures = []
    n = 0

    async def one(data: bytes):
        r = asyncio.StreamReader(limit=2 ** 16)
        r.feed_data(data)
        r.feed_eof()
        t = T(r)
        await t.connect()
        res = []
        for _ in range(data.count(b"\n") + 2):
            try:
                res.append(("ok", await t.read()))
            except Exception as e:  # noqa: BLE001
                res.append(("exc", e))
        return res

    samples = [b"\xff\xfe\n", b"1;2;3\xc3\n", b"\xed\xa0\x80\n", b"\xf4\x90\x80\x80\n", b"ok\n\x80", b"", b"\n", b"a" * 70000 + b"\n",
               b"\xc0\xaf\n", b"1;1;1;0;0;\xe2\x82\n"]
    for _ in range(ctx.budget(300, 5000)):
        samples.append(bytes(rng.choice([10, 59, 49, 0xFF, 0xC3, 0xA9, 0xE2, 0x82, 0xAC, 0xF0, 0x80, 65]) for _ in range(rng.randint(0, 12))))
    loop = asyncio.new_event_loop()
    for data in samples:
        for kind, v in loop.run_until_complete(one(data)):
            n += 1
            if kind == "exc" and not isinstance(v, ex.AIOMySensorsError):
                failures.append({"kind": "oracle", "sig": "C03:escape-stream-decode" if isinstance(v, UnicodeDecodeError) else "C03:escape-stream",
                                 "desc": f"StreamTransport.read on bytes {data[:40]!r} raised {type(v).__name__}", "case": {"bytes": list(data[:200])}})
    loop.close()
    return n, failures


def run(ctx, model_available=True):
    profiles = [Profile(odd_payload=0.5, bad_version=0.5, p_malformed=0.1, p_fault=0.15),
                Profile(odd_payload=0.3, bad_version=0.3, unknown_node=0.4, p_fault=0.0)]
    rng = rng_for(ctx.seed, "C03gen")
    hs = directed() + [gen(rng, profiles[i % 2]) for i in range(ctx.budget(500, 8000))]
    # the malformed / perturbed line stream of C02, through listen, in every version state
    from props.c02 import gen_lines

    class _Q:
        quick = True
        seed = ctx.seed

        @staticmethod
        def budget(q, t):
            return max(40, q // (8 if ctx.quick else 1))

    ml = [l for l in gen_lines(_Q) if len(l) < 400]
    for i in range(0, len(ml), 25):
        v = [None, "1.4", "1.5", "2.0", "2.1", "2.2"][(i // 25) % 6]
        ops = [("recv", f"0;255;3;0;2;{v}", ())] if v else []
        if (i // 25) % 2:
            ops += [("put_node", 1, 17, "2.0", False), ("add_child", 1, 1, 0)]
        for l in ml[i:i + 25]:
            ops.append(("recv", l, ()))
        ops.append(("recv", PROBE, ()))
        hs.append(ops)
    res = run_property(ctx, "C03", histories=hs, n_quick=0, n_thorough=0, oracle=oracle_c03,
                       model_available=model_available,
                       assumptions=["round(float(x)) raises only ValueError/OverflowError; AwesomeVersion comparisons raise only AwesomeVersionException/ValueError (checked on the generated payloads)"])
    # the listener while application tasks send concurrently (gate transport of C09)
    from props import c09

    rr = rng_for(ctx.seed, "C03race")
    sch = c09.gen_schedules(ctx)
    nrace = 0
    for acts in rr.sample(sch, min(len(sch), ctx.budget(250, 3000))):
        r, _ = c09.run_actions(rr.choice(["2.0", "2.1", "2.2"]), acts)
        nrace += 1
        for e in r.listener_errors:
            if not isinstance(e, ex.AIOMySensorsError):
                res["failures"].append({"kind": "oracle", "sig": "C03:escape-race",
                                        "desc": f"listen raised {type(e).__name__}: {e} while sends raced with the wake-up flush, schedule {acts}",
                                        "case": {"actions": acts}})
                break
        r.close()
        if len([f for f in res["failures"] if f["sig"] == "C03:escape-race"]) >= 2:
            break
    res["evaluations"] += nrace
    res["distribution"]["race_schedules"] = nrace
    n, fs = stream_escape(ctx)
    res["evaluations"] += n
    res["failures"].extend(fs[:3])
    res["distribution"]["stream_reads"] = n
    return res


def replay(ctx, rp):
    return replay_ops(ctx, rp, oracle_c03)
