"""C01 — wire codec round trip.  Correspondence of Codec.encode/decode with
MessageSchema.dump/load, and the round-trip oracle on the implementation."""

from __future__ import annotations

import itertools

from common import Driver, Impl, compare_projected, enc_str, rng_for, run_sharded
from props.codec_common import (
    LINE_TERMINATORS,
    impl_decode,
    impl_encode,
    schemas,
    wf_fields,
)

IDS = [0, 1, 9, 10, 99, 100, 254, 255]
TYPES = [0, 1, 3, 4, 9, 49, 255, 256, -1, -17, 10**30, -(10**30)]
PAYLOADS = [
    "", "57", "20.0", "1.0;2.0;3.0", ";", ";;", "a;b", "  lead", "in\tner", "x y",
    "åäö", "\U0001f600 ok", "٣", "a" * 2048, ";" * 40, "a\x1cb", "0", "-1", "e x".replace(" ", "_"),
    "tab\there;and;more", "\xa0x", "v=1;w=2;",
]


def gen_messages(ctx):
    rng = rng_for(ctx.seed, "C01")
    n_random = ctx.budget(12000, 200000)
    msgs = []
    # structured product (thorough: complete)
    prod = itertools.product(IDS, IDS, range(5), (0, 1), TYPES)
    for n, c, k, a, t in prod:
        if not wf_fields(n, c, k, a, t):
            continue
        if ctx.quick and rng.random() > 0.12:
            continue
        for p in (PAYLOADS if not ctx.quick else rng.sample(PAYLOADS, 3)):
            msgs.append((n, c, k, a, t, p))
    alphabet = "0123456789;;;; \t.-abcXYZåß\U0001f600٣"
    for _ in range(n_random):
        while True:
            n = rng.choice(IDS + [rng.randint(0, 255)])
            c = rng.choice(IDS + [rng.randint(0, 255)])
            k = rng.randint(0, 4)
            a = rng.randint(0, 1)
            t = rng.choice(TYPES + [rng.randint(0, 60)])
            if wf_fields(n, c, k, a, t):
                break
        p = "".join(rng.choice(alphabet) for _ in range(rng.choice([0, 1, 2, 5, 12, 40])))
        p = p.rstrip()
        msgs.append((n, c, k, a, t, p))
    return msgs


def payload_ok(p: str) -> bool:
    return p == p.rstrip() and not any(ch in LINE_TERMINATORS for ch in p)


def run(ctx, model_available=True):
    msgs = gen_messages(ctx)
    nver = len(schemas())
    failures = []
    dist = {"messages": len(msgs), "payload_with_delimiter": 0, "boundary_ids": 0, "id_request_exception": 0,
            "negative_or_huge_type": 0}
    d = Driver()
    expect = []
    distinct = set()
    for i, m in enumerate(msgs):
        n, c, k, a, t, p = m
        if ";" in p:
            dist["payload_with_delimiter"] += 1
        if n in (0, 255) or c in (0, 255):
            dist["boundary_ids"] += 1
        if k == 3 and t in (3, 4) and c != 255:
            dist["id_request_exception"] += 1
        if t < 0 or t > 255:
            dist["negative_or_huge_type"] += 1
        enc = impl_encode(m)
        vi = i % nver
        # --- oracle: the property itself on the implementation
        ok_payload = payload_ok(p)
        if enc is None:
            failures.append({"kind": "oracle", "sig": "C01:encode-raises", "desc": f"encoding well-formed message {m!r} raised", "case": {"message": m}})
            continue
        if ok_payload:
            want = f"{n};{c};{k};{a};{t};{p}\n"
            if enc != want:
                failures.append({"kind": "oracle", "sig": "C01:encoded-form", "desc": f"encoded form of {m!r} is {enc!r}, expected {want!r}", "case": {"message": m, "encoded": enc}})
            for v in range(nver):
                back = impl_decode(v, enc)
                exp = "OK " + f"{n} {c} {k} {a} {t} {len(p)}:{p}"
                if back != exp:
                    failures.append({
                        "kind": "oracle", "sig": "C01:roundtrip",
                        "desc": f"decode(encode(m)) != m under protocol {schemas()[v][0]}: m={m!r} encoded={enc!r} decoded={back!r}",
                        "case": {"message": m, "version": schemas()[v][0], "encoded": enc, "decoded": back},
                    })
                    break
                # re-encode the decoded message: reproduces the line up to trailing whitespace
            distinct.add((n in (0, 255), c == 255, k, a, (t < 0) + 2 * (t > 255), ";" in p, len(p) > 100, p == "", any(ord(ch) > 127 for ch in p)))
        # --- correspondence with the model
        d.add(f"ENC {n} {c} {k} {a} {t} {enc_str(p)}")
        expect.append(("enc", m, enc))
        d.add(f"DEC {vi} {enc_str(enc)}")
        expect.append(("dec", (vi, enc), impl_decode(vi, enc)))
    # decode -> encode direction on plain-decimal lines with trailing whitespace
    rng = rng_for(ctx.seed, "C01b")
    for _ in range(ctx.budget(2000, 30000)):
        m = msgs[rng.randrange(len(msgs))]
        n, c, k, a, t, p = m
        if not payload_ok(p):
            continue
        line = f"{n};{c};{k};{a};{t};{p}" + rng.choice(["", "\n", "\r\n", "  \n", "\t"])
        vi = rng.randrange(nver)
        try:
            from props.codec_common import impl_decode_obj

            obj = impl_decode_obj(vi, line)
            re = schemas()[vi][1].dump(obj)
        except Exception as e:  # noqa: BLE001
            failures.append({"kind": "oracle", "sig": "C01:decode-wellformed-line", "desc": f"well-formed line {line!r} not decoded: {type(e).__name__}", "case": {"line": line, "version": schemas()[vi][0]}})
            continue
        if re.rstrip() != line.rstrip() or not re.endswith("\n") or re.count("\n") != 1:
            failures.append({"kind": "oracle", "sig": "C01:reencode", "desc": f"decode+encode of {line!r} gives {re!r}", "case": {"line": line, "version": schemas()[vi][0], "reencoded": re}})
    # through the gateway: send -> scripted transport -> listen
    gw_cases = 0
    impls = []
    for j in range(ctx.budget(40, 400)):
        im = Impl()
        for _ in range(10):
            m = msgs[rng.randrange(len(msgs))]
            n, c, k, a, t, p = m
            if k not in (1, 3) or not payload_ok(p):
                continue
            if rng.random() < 0.12:
                # the same Gateway object, next session (disconnect, connect again)
                im.reconnect()
            raw = im.send(m, buffered=False)
            if raw["exc"] is None and raw["writes"]:
                line = raw["writes"][0][0]
                r2 = im.recv(line)
                gw_cases += 1
                e2 = r2["exc"]
                if e2 is not None and type(e2).__name__ == "InvalidMessageError" and isinstance(getattr(e2, "message", None), str):
                    failures.append({"kind": "oracle", "sig": "C01:gateway-roundtrip", "desc": f"the gateway wrote {line!r} for {m!r} and its own decoder rejects that line ({str(e2)[:120]})", "case": {"message": m, "line": line, "history": im.ops}})
                # yielded message (when the handler accepts it) must equal m
                if r2["msg"] is not None:
                    from common import msg_tuple

                    if msg_tuple(r2["msg"]) != m:
                        failures.append({"kind": "oracle", "sig": "C01:gateway-roundtrip", "desc": f"sent {m!r}, wire {line!r}, listened {msg_tuple(r2['msg'])!r}", "case": {"message": m, "line": line}})
                    elif rng.random() < 0.3:
                        # the application changes the message it was handed; the same line arrives again
                        mo = r2["msg"]
                        mo.payload, mo.ack, mo.message_type = "changed by the application", 1 - a, t + 1
                        r3 = im.recv(line)
                        if r3["msg"] is not None and msg_tuple(r3["msg"]) != m:
                            failures.append({"kind": "oracle", "sig": "C01:gateway-roundtrip", "desc": f"line {line!r} decoded to {m!r}; after the application changed the yielded object the same line decodes to {msg_tuple(r3['msg'])!r}", "case": {"message": m, "line": line}})
        impls.append(im)
    # the line a parked command goes out with at its node's wake is the encoding of the message
    # that was sent (a set command held in the sleep buffer is re-encoded when released)
    for j in range(ctx.budget(30, 300)):
        im = Impl()
        v = ["2.0", "2.1", "2.2"][j % 3]
        im.recv(f"0;255;3;0;2;{v}")
        im.put_node(7, 17, v)
        for c in (0, 1, 2):
            im.add_child(7, c, 3)
        im.set_sleeping(7, True)
        sent = {}
        for _ in range(4):
            m = msgs[rng.randrange(len(msgs))]
            n, c, k, a, t, p = m
            if k != 1 or not payload_ok(p) or c > 2:
                c, k = rng.randrange(3), 1
                if not payload_ok(p):
                    p = "21.5"
            m = (7, c, k, a, t, p)
            raw = im.send(m, buffered=True)
            if raw["exc"] is None and not raw["writes"]:
                sent[(c, t)] = m
        wake = "7;255;3;0;32;500" if v == "2.2" else "7;255;3;0;22;123"
        r = im.recv(wake)
        gw_cases += 1
        got = sorted(w for w, _ in r["writes"])
        want = sorted(f"{m[0]};{m[1]};{m[2]};{m[3]};{m[4]};{m[5]}\n" for m in sent.values())
        if got != want:
            failures.append({"kind": "oracle", "sig": "C01:parked-roundtrip", "desc": f"commands {sorted(sent.values())!r} parked for a sleeping node went out at its wake as {got!r}, their encodings are {want!r}", "case": {"version": v, "history": im.ops}})
        impls.append(im)
    # the same Message object sent again after its fields were changed: what is
    # written must be the encoding of the values it carries now
    import asyncio

    from common import Config, Gateway, Message, ScriptedTransport

    loop = asyncio.new_event_loop()
    tr = ScriptedTransport()
    gw = Gateway(tr, Config())
    mobj = Message(1, 1, 1, 0, 2, "first")
    for _ in range(ctx.budget(300, 3000)):
        m = msgs[rng.randrange(len(msgs))]
        n, c, k, a, t, p = m
        if k not in (1, 3) or not payload_ok(p):
            continue
        if rng.random() < 0.7:
            mobj.node_id, mobj.child_id, mobj.command, mobj.ack, mobj.message_type, mobj.payload = n, c, k, a, t, p
        else:
            mobj = Message(n, c, k, a, t, p)
        tr.writes = []
        try:
            loop.run_until_complete(gw.send(mobj, message_buffer=False))
        except Exception as e:  # noqa: BLE001
            failures.append({"kind": "oracle", "sig": "C01:gateway-send", "desc": f"send of {m!r} raised {type(e).__name__}", "case": {"message": m}})
            continue
        gw_cases += 1
        want = f"{n};{c};{k};{a};{t};{p}\n"
        if [w for w, _ in tr.writes] != [want]:
            failures.append({"kind": "oracle", "sig": "C01:gateway-send", "desc": f"send of a message carrying {m!r} wrote {tr.writes!r}, expected {want!r} (the Message object had been sent before with other field values)", "case": {"message": m}})
    loop.close()
    evaluations = len(msgs) + gw_cases
    if model_available:
        outs = d.run()
        for (kind, inp, iout), mout in zip(expect, outs):
            want = iout if kind == "enc" else iout
            if kind == "enc":
                ok = mout == iout
            else:
                ok = mout == iout
            if not ok:
                failures.append({"kind": "corr", "sig": None, "desc": f"{kind} {inp!r}: implementation {iout!r}, model {mout!r}", "case": {"op": kind, "input": inp, "impl": iout, "model": mout}})
        for im, o in zip(impls, run_sharded([im.ops for im in impls])):
            # C01 looks at the codec only: the line written by send, the message yielded
            # by listen (or that it was rejected), not at registry state or error ids
            def proj(st, op):
                return (st["kind"], st["msg"], st["exn"] if st["exn"] in ("InvalidMessageError", "ESCAPE") else None, st["writes"] if op[0] == "T" else None)

            for dis in compare_projected(im, o, proj):
                failures.append({"kind": "corr", "sig": None, "desc": f"gateway step differs: impl {dis['impl'][:200]!r} model {dis['model'][:200]!r}", "case": dis})
    for im in impls:
        im.close()
    return {
        "evaluations": evaluations,
        "distinct_nontrivial": len(distinct),
        "rule": "messages from the product of id/command/ack/type classes filtered by the cross-field rules x payload classes (empty, ';'-containing, unicode, 2kB, inner whitespace) plus random; distinct = distinct (boundary-id, system-child, command, ack, type-class, has-delimiter, long, empty, non-ascii) classes whose round trip was checked on all five protocols",
        "samples": [list(m[:5]) + [m[5][:40]] for m in msgs[:5]],
        "distribution": dist,
        "failures": failures,
        "exhaustive": False,
        "assumptions": ["payload classes are representative of 'all payload strings'; the theorem C01_decode_encode covers all of them for the model"],
    }


def replay(ctx, rp):
    case = rp.get("case") or {}
    if "message" in case:
        m = tuple(case["message"])
        enc = impl_encode(m)
        print("message", m, "encoded", repr(enc))
        for v in range(len(schemas())):
            print(schemas()[v][0], impl_decode(v, enc))
    print(rp.get("what"))
    return 0
