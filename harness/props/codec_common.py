"""Codec helpers shared by C01, C02, C18: implementation-side encode/decode
through the real MessageSchema, model-side through the driver, and the
well-formedness predicate written from the property text."""

from __future__ import annotations

from marshmallow import ValidationError

from common import Driver, enc_str, show_msg, show_str

LINE_TERMINATORS = "\n\r\x0b\x0c\x1c\x1d\x1e\x85  "

_schemas = None


def schemas():
    """One MessageSchema per supported protocol, ascending order of version key."""
    global _schemas
    if _schemas is None:
        from aiomysensors.model import protocol as P
        from aiomysensors.model.message import MessageSchema

        _schemas = []
        for k in sorted(P.PROTOCOL_VERSIONS):
            s = MessageSchema()
            s.set_protocol(P.PROTOCOL_VERSIONS[k])
            _schemas.append((k, s))
    return _schemas


def impl_decode(vi: int, line: str) -> str:
    _, s = schemas()[vi]
    try:
        m = s.load(line)
    except ValidationError:
        return "INVALID"
    except Exception:  # noqa: BLE001
        return "ESCAPE"
    return "OK " + show_msg(m)


def impl_decode_obj(vi: int, line: str):
    _, s = schemas()[vi]
    return s.load(line)


def impl_encode(fields) -> str | None:
    from aiomysensors.model.message import Message

    _, s = schemas()[0]
    try:
        return s.dump(Message(*fields))
    except Exception:  # noqa: BLE001
        return None


def wf_fields(n, c, k, a, t) -> bool:
    """The accept condition exactly as the property text (C02) states it."""
    if not (0 <= n <= 255 and 0 <= c <= 255 and 0 <= k <= 4 and a in (0, 1)):
        return False
    if k in (3, 4) and c != 255 and not (k == 3 and t in (3, 4)):
        return False
    if c == 255 and k in (1, 2):
        return False
    return True


def py_isspace_set():
    return {ch for ch in map(chr, range(0x110000)) if ch.isspace()}
