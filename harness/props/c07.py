"""C07 — sleep buffer: parked until the wake, then released once."""

from __future__ import annotations

from common import rng_for
from gwcore import replay_ops, run_property
from oracles import oracle_c07
from props.sleepgen import gen_sleep_history


def run(ctx, model_available=True):
    rng = rng_for(ctx.seed, "C07gen")
    hs = [gen_sleep_history(rng, False) for _ in range(ctx.budget(900, 15000))]
    res = run_property(ctx, "C07", histories=hs, n_quick=0, n_thorough=0, oracle=oracle_c07,
                        model_available=model_available,
                        rule="sleep-buffer histories (sleepgen.py): uniquely tagged set commands to sleeping/awake/unknown nodes with and without buffering, right and wrong wake signals per protocol, re-presentations, public sleeping-flag changes, other traffic",
                        assumptions=["every send of a set command carries a unique payload (ghost tag) so deliveries can be accounted per send"])
    # the same accounting when sends land while the release is suspended in a write (C09's gate transport)
    from props import c09

    rr = rng_for(ctx.seed, "C07race")
    sch = c09.gen_schedules(ctx)
    nrace = 0
    for acts in rr.sample(sch, min(len(sch), ctx.budget(250, 3000))):
        if any(a[0] == "complete" and not a[1] for a in acts):
            continue
        version = rr.choice(["2.0", "2.1", "2.2"])
        r, _ = c09.run_actions(version, acts)
        nrace += 1
        for sig, desc in c09.oracle(r, acts)[:1]:
            res["failures"].append({"kind": "oracle", "sig": "C07:race-" + sig.split(":")[1],
                                    "desc": f"protocol {version}, sends while the release is suspended in a write, schedule {acts}: {desc}",
                                    "case": {"actions": acts, "version": version}})
        r.close()
        if len([f for f in res["failures"] if (f["sig"] or "").startswith("C07:race")]) >= 2:
            break
    res["evaluations"] += nrace
    res["distribution"]["race_schedules"] = nrace
    tf, tn = two_gateways()
    res["failures"].extend(tf)
    res["evaluations"] += tn
    res["distribution"]["two_gateway_runs"] = tn
    return res


def two_gateways():
    """Two Gateway objects in one process with the same node ids (two MySensors networks): parking
    and waking on one of them must not disturb the other's sleep buffer."""
    from common import Impl

    fs, n = [], 0
    for v in ("2.0", "2.1", "2.2"):
        wake = "7;255;3;0;32;500" if v == "2.2" else "7;255;3;0;22;500"
        for order in (0, 1, 2):
            n += 1
            a, b = Impl(), Impl()
            for g in (a, b):
                g.recv(f"0;255;3;0;2;{v}")
                g.put_node(7, 17, v, sleeping=True)
                g.add_child(7, 1, 3)
            a.send((7, 1, 1, 0, 2, "for-a"), buffered=True)
            if order >= 1:
                b.send((7, 1, 1, 0, 2, "for-b"), buffered=True)
            rb = b.recv(wake)                 # node 7 of the OTHER network wakes
            if order == 2:
                b.recv(wake)
            ra = a.recv(wake)                 # now node 7 of network a wakes
            got_a = [w for w, ok in ra["writes"]]
            got_b = [w for w, ok in rb["writes"]]
            want_b = ["7;1;1;0;2;for-b\n"] if order >= 1 else []
            if got_a != ["7;1;1;0;2;for-a\n"] or got_b != want_b:
                fs.append({"kind": "oracle", "sig": "C07:two-gateways",
                           "desc": f"protocol {v}: two gateways, node 7 sleeping on both; a command parked on the first{', one on the second' if order else ''}; node 7 of the second wakes (released {got_b}, expected {want_b}), then node 7 of the first wakes: released {got_a}, expected ['7;1;1;0;2;for-a\\n']",
                           "case": {"version": v, "order": order}})
            a.close()
            b.close()
    seen = {}
    for f in fs:
        seen.setdefault(f["sig"], f)
    return list(seen.values()), n


def replay(ctx, rp):
    return replay_ops(ctx, rp, oracle_c07)
