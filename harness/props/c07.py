"""C07 — sleep buffer: parked until the wake, then released once."""

from __future__ import annotations

from common import rng_for
from gwcore import replay_ops, run_property
from oracles import oracle_c07
from props.sleepgen import gen_sleep_history


def run(ctx, model_available=True):
    rng = rng_for(ctx.seed, "C07gen")
    hs = [gen_sleep_history(rng, False) for _ in range(ctx.budget(900, 15000))]
    return run_property(ctx, "C07", histories=hs, n_quick=0, n_thorough=0, oracle=oracle_c07,
                        model_available=model_available,
                        rule="sleep-buffer histories (sleepgen.py): uniquely tagged set commands to sleeping/awake/unknown nodes with and without buffering, right and wrong wake signals per protocol, re-presentations, public sleeping-flag changes, other traffic",
                        assumptions=["every send of a set command carries a unique payload (ghost tag) so deliveries can be accounted per send"])


def replay(ctx, rp):
    return replay_ops(ctx, rp, oracle_c07)
