"""C07 — sleep buffer: parked until the wake, then released once."""

from __future__ import annotations

from common import rng_for
from gwcore import replay_ops, run_property
from oracles import oracle_c07
from props.sleepgen import gen_sleep_history


def run(ctx, model_available=True):
    rng = rng_for(ctx.seed, "C07gen")
    hs = [gen_sleep_history(rng, False) for _ in range(ctx.budget(900, 15000))]
    res = run_property(ctx, "C07", histories=hs, n_quick=0, n_thorough=0, oracle=oracle_c07,
                        model_available=model_available,
                        rule="sleep-buffer histories (sleepgen.py): uniquely tagged set commands to sleeping/awake/unknown nodes with and without buffering, right and wrong wake signals per protocol, re-presentations, public sleeping-flag changes, other traffic",
                        assumptions=["every send of a set command carries a unique payload (ghost tag) so deliveries can be accounted per send"])
    # the same accounting when sends land while the release is suspended in a write (C09's gate transport)
    from props import c09

    rr = rng_for(ctx.seed, "C07race")
    sch = c09.gen_schedules(ctx)
    nrace = 0
    for acts in rr.sample(sch, min(len(sch), ctx.budget(250, 3000))):
        if any(a[0] == "complete" and not a[1] for a in acts):
            continue
        version = rr.choice(["2.0", "2.1", "2.2"])
        r, _ = c09.run_actions(version, acts)
        nrace += 1
        for sig, desc in c09.oracle(r, acts)[:1]:
            res["failures"].append({"kind": "oracle", "sig": "C07:race-" + sig.split(":")[1],
                                    "desc": f"protocol {version}, sends while the release is suspended in a write, schedule {acts}: {desc}",
                                    "case": {"actions": acts, "version": version}})
        r.close()
        if len([f for f in res["failures"] if (f["sig"] or "").startswith("C07:race")]) >= 2:
            break
    res["evaluations"] += nrace
    res["distribution"]["race_schedules"] = nrace
    return res


def replay(ctx, rp):
    return replay_ops(ctx, rp, oracle_c07)
