"""C05 — the active protocol is the newest supported one not newer than reported."""

from __future__ import annotations

from common import Driver, enc_str, oracle_vlt, rng_for
from gwcore import replay_ops, run_property
from histgen import Profile
from oracles import newest_leq, oracle_c05


def grid(ctx):
    vs = []
    for maj in range(0, 4):
        for mi in range(0, 13):
            for patch in (None, 0, 1, 9, 10):
                for build in (None, 0, 7):
                    s = f"{maj}.{mi}"
                    if patch is not None:
                        s += f".{patch}"
                        if build is not None:
                            s += f".{build}"
                    elif build is not None:
                        continue
                    vs.append(s)
    extra = []
    for s in vs[:: 7 if ctx.quick else 1]:
        extra += ["v" + s, " " + s + " ", s + "."]
    return vs + extra + ["2", "1", "3", "20.1", "2.02", "02.2", "2.2.00", "1.40", "1.04"]


def run(ctx, model_available=True):
    from aiomysensors.model import protocol as P

    failures = []
    g = grid(ctx)
    n = 0
    for s in g:
        want = newest_leq(s)
        try:
            P.get_protocol.cache_clear()
            got = P.get_protocol(s).VERSION
        except Exception as e:  # noqa: BLE001
            got = "raised " + type(e).__name__
        n += 1
        if want is not None and got != want:
            failures.append({"kind": "oracle", "sig": "C05:select", "desc": f"get_protocol({s!r}) selects {got}, the property requires {want}", "case": {"version": s}})
    profiles = [Profile(bad_version=0.35, weights=dict(node_pres=2, gw_pres=3, child_pres=1, set=2, req=1, battery=1, time=0.5,
                                                      version=5, id_request=0.5, config=0.5, log=0.5, sketch=0.5, gw_ready=0.5,
                                                      discover_resp=0.5, heartbeat=1, pre_sleep=1, post_sleep=1,
                                                      other_internal=5, stream=2), p_fault=0.1)]
    # directed: a controller restart on a persistence file (node 0 restored with the version it had,
    # the new Gateway knows no version yet), then the gateway presents itself / answers the version
    # query with the same, an older or a newer version; and a presentation after a version reply
    hs = []
    for stored in ("2.2.0", "2.0", "1.5", "2.1.1", "1.4"):
        for first in (f"0;255;0;0;18;{stored}", f"0;255;3;0;2;{stored}", "0;255;0;0;18;2.1", "0;255;3;0;2;1.5.2"):
            for second in (None, f"0;255;0;0;18;{stored}", "0;255;3;0;2;2.2.0"):
                ops = [("put_node", 0, 18, stored, False), ("put_node", 5, 17, stored, False), ("recv", "5;255;3;0;22;7", ()),
                       ("recv", first, ()), ("recv", "5;255;3;0;22;7", ()), ("recv", "5;255;3;0;32;", ()), ("recv", "5;255;4;0;1;00", ())]
                if second:
                    ops += [("recv", second, ()), ("recv", "5;255;3;0;22;7", ()), ("recv", "5;255;3;0;15;", ())]
                hs.append(ops)
    res = run_property(ctx, "C05", profiles=profiles, histories=hs, n_quick=500, n_thorough=8000, oracle=oracle_c05,
                       model_available=model_available,
                       assumptions=["release strings outside the grammar [vV]?d+(.d+)*.? are compared by the AwesomeVersion library (oracle); the selection table is checked only inside the grammar"])
    pf, pn = persistence_sessions(ctx)
    res["failures"] = failures[:3] + pf + res["failures"]
    res["evaluations"] += n + pn
    res["distribution"]["persistence_sessions"] = pn
    res["distribution"]["version_grid"] = n
    return res


def persistence_sessions(ctx):
    """Sessions on a real persistence file.  Node 0 is stored with the version of the gateway's last
    PRESENTATION; that is registry content, not a version report.  (a) the same Gateway object
    leaving and entering again keeps the state its last report left (reconnect is the identity in
    the model); (b) a new Gateway object on the same file has been told no version: version unknown,
    1.4 rules — a 2.x-only internal type is refused as unsupported — until the gateway reports."""
    import asyncio
    import os
    import shutil
    import tempfile

    from common import Config, Gateway, ScriptedTransport, ex

    async def feed(gw, line):
        gw.transport.inq.append(line)
        try:
            await anext(gw.listen())
        except ex.AIOMySensorsError as e:
            return type(e).__name__
        return "ok"

    def state(gw):
        return gw.protocol_version, gw.protocol.VERSION

    fs, n = [], 0
    base = tempfile.mkdtemp(prefix="amsverif_c05_")

    async def one(presented, replied):
        problems = []
        path = os.path.join(base, f"p{n}.json")
        gw = Gateway(ScriptedTransport(), Config(persistence_file=path))
        async with gw:
            await feed(gw, f"0;255;0;0;18;{presented}")
            await feed(gw, "5;255;0;0;17;" + presented)
            if replied:
                await feed(gw, f"0;255;3;0;2;{replied}")
            last = state(gw)
            want = (replied or presented, newest_leq(replied or presented))
            if last != want:
                problems.append(f"after presentation {presented}" + (f" and version reply {replied}" if replied else "") + f": state {last}, required {want}")
        async with gw:
            if state(gw) != last:
                problems.append(f"the same Gateway object entered again (nothing reported in between; presented {presented}, last report {replied or presented}): state {state(gw)}, before leaving {last}")
        gw2 = Gateway(ScriptedTransport(), Config(persistence_file=path))
        async with gw2:
            if 0 not in gw2.nodes:
                problems.append("node 0 was not restored from the file")
            if state(gw2) != (None, "1.4"):
                problems.append(f"a new Gateway object on the file of a gateway that presented itself as {presented}: no version reported to it yet, state {state(gw2)}, required (None, '1.4')")
            r = await feed(gw2, "5;255;3;0;22;7")
            if r != "UnsupportedMessageError":
                problems.append(f"restart, before any report: internal type 22 (does not exist in 1.4) -> {r}")
            await feed(gw2, f"0;255;3;0;2;{replied or presented}")
            want = (replied or presented, newest_leq(replied or presented))
            if state(gw2) != want:
                problems.append(f"restart, then version reply {replied or presented}: state {state(gw2)}, required {want}")
        return problems

    for presented in ("2.0.0", "2.2.0", "1.5", "2.1.1"):
        for replied in (None, "2.3.2", "1.4.1", "2.0"):
            n += 1
            try:
                problems = asyncio.run(one(presented, replied))
            except Exception as e:  # noqa: BLE001
                problems = [f"{type(e).__name__}: {e} escaped from a session on a persistence file"]
            for pr in problems:
                fs.append({"kind": "oracle", "sig": "C05:persistence-sessions", "desc": pr,
                           "case": {"sessions": [presented, replied]}})
    shutil.rmtree(base, ignore_errors=True)
    return fs[:2], n


def replay(ctx, rp):
    case = rp.get("case") or {}
    if "sessions" in case:
        pf, _ = persistence_sessions(ctx)
        for f in pf:
            print(f["desc"])
        return 1 if pf else 0
    if "version" in case:
        from aiomysensors.model import protocol as P

        s = case["version"]
        print(s, "->", P.get_protocol(s).VERSION, "required", newest_leq(s))
        return 1 if P.get_protocol(s).VERSION != newest_leq(s) else 0
    return replay_ops(ctx, rp, oracle_c05)
