"""C08 — the sleep buffer loses nothing and repeats nothing under write faults."""

from __future__ import annotations

import itertools

from common import rng_for
from gwcore import replay_ops, run_property
from oracles import oracle_c08
from props.sleepgen import gen_sleep_history


def exhaustive():
    """Every subset of failing write positions over two faulty wakes + one clean wake,
    for 1-3 parked commands, under 2.0 / 2.2."""
    hs = []
    for v, sig, pl in (("2.0", 22, "0"), ("2.1", 22, "7"), ("2.2", 32, "")):
        for k in (1, 2, 3):
            for f1 in itertools.product((False, True), repeat=k):
                for f2 in itertools.product((False, True), repeat=k):
                    if not any(f1) and any(f2):
                        continue
                    ops = [("recv", f"0;255;3;0;2;{v}", ()), ("put_node", 1, 17, v, True), ("put_node", 2, 17, v, True)]
                    ops += [("add_child", 1, 0, 3), ("add_child", 1, 1, 3), ("add_child", 2, 0, 3)]
                    keys = [(1, 0, 2), (1, 1, 2), (1, 0, 3)][:k]
                    for i, (n, c, t) in enumerate(keys):
                        ops.append(("send", (n, c, 1, 0, t, f"tag{i}"), True, ()))
                    ops.append(("send", (2, 0, 1, 0, 2, "tag9"), True, ()))
                    ops.append(("recv", f"1;255;3;0;{sig};{pl}", tuple(f1)))
                    ops.append(("recv", f"1;255;3;0;{sig};{pl}", tuple(f2)))
                    ops.append(("recv", f"1;255;3;0;{sig};{pl}", ()))
                    ops.append(("recv", f"2;255;3;0;{sig};{pl}", ()))
                    hs.append(ops)
    return hs


def run(ctx, model_available=True):
    rng = rng_for(ctx.seed, "C08gen")
    ex_h = exhaustive()
    hs = ex_h + [gen_sleep_history(rng, True) for _ in range(ctx.budget(500, 10000))]
    res = run_property(ctx, "C08", histories=hs, n_quick=0, n_thorough=0, oracle=oracle_c08,
                       model_available=model_available,
                       rule="exhaustive: every subset of failing write positions over two faulty wakes followed by a clean wake, 1-3 parked commands, protocols 2.0/2.1/2.2; plus random sleep-buffer histories with write faults ending in one fault-free wake per node",
                       assumptions=["the scripted transport raises TransportFailedError at the chosen write attempts"])
    res["exhaustive"] = True
    res["distribution"]["exhaustive_fault_subsets"] = len(ex_h)
    return res


def replay(ctx, rp):
    return replay_ops(ctx, rp, oracle_c08)
