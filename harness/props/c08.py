"""C08 — the sleep buffer loses nothing and repeats nothing under write faults."""

from __future__ import annotations

import itertools

from common import rng_for
from gwcore import replay_ops, run_property
from oracles import oracle_c08
from props.sleepgen import gen_sleep_history


def exhaustive():
    """Every subset of failing write positions over two faulty wakes + one clean wake,
    for 1-3 parked commands, under 2.0 / 2.2."""
    hs = []
    for v, sig, pl in (("2.0", 22, "0"), ("2.1", 22, "7"), ("2.2", 32, "")):
        for k in (1, 2, 3):
            for f1 in itertools.product((False, True), repeat=k):
                for f2 in itertools.product((False, True), repeat=k):
                    if not any(f1) and any(f2):
                        continue
                    ops = [("recv", f"0;255;3;0;2;{v}", ()), ("put_node", 1, 17, v, True), ("put_node", 2, 17, v, True)]
                    ops += [("add_child", 1, 0, 3), ("add_child", 1, 1, 3), ("add_child", 2, 0, 3)]
                    keys = [(1, 0, 2), (1, 1, 2), (1, 0, 3)][:k]
                    for i, (n, c, t) in enumerate(keys):
                        ops.append(("send", (n, c, 1, 0, t, f"tag{i}"), True, ()))
                    ops.append(("send", (2, 0, 1, 0, 2, "tag9"), True, ()))
                    ops.append(("recv", f"1;255;3;0;{sig};{pl}", tuple(f1)))
                    ops.append(("recv", f"1;255;3;0;{sig};{pl}", tuple(f2)))
                    ops.append(("recv", f"1;255;3;0;{sig};{pl}", ()))
                    ops.append(("recv", f"2;255;3;0;{sig};{pl}", ()))
                    hs.append(ops)
    return hs


def fault_during_race():
    """A release write that fails while the application sends: on the real event loop
    (gate transport of C09) the in-flight write of parked command number `fail_at` is
    failed after a send for the same key / a later key / an already released key ran
    while write number `when` was suspended.  The failure must reach the listener,
    and after one more (fault-free) wake every key's last sent value is its last
    written value and nothing was written twice."""
    from common import ex
    from props.c09 import KEYS, Race
    from props.c09 import oracle as race_oracle

    fs, n = [], 0
    for version in ("2.0", "2.1", "2.2"):
        for k in (1, 2, 3):
            for fail_at in range(k):
                for when in range(fail_at + 1):
                    for target in range(3):
                        r = Race(version)
                        acts = []
                        for i in range(k):
                            r.send(KEYS[i], 100 + i)
                            acts.append(("send", KEYS[i], 100 + i))
                        r.wake(1)
                        acts.append(("wake", 1))
                        for w in range(k):
                            if w == when:
                                r.send(KEYS[target], 200)
                                acts.append(("send", KEYS[target], 200))
                            if w == fail_at:
                                r.complete(False)
                                acts.append(("complete", False))
                                break
                            r.complete(True)
                            acts.append(("complete", True))
                        reported = any(isinstance(e, ex.TransportError) for e in r.listener_errors)
                        r.quiesce([1, 2])
                        n += 1
                        case = {"version": version, "actions": acts, "race": True}
                        if not reported:
                            fs.append({"kind": "oracle", "sig": "C08:fault-not-reported", "desc": f"protocol {version}, {acts}: the failing release write was not reported to the caller of listen (errors {r.listener_errors})", "case": case})
                        for sig, desc in race_oracle(r, acts)[:2]:
                            sig8 = {"C09:lost-update": "C08:lost", "C09:repeated": "C08:repeated", "C09:left-over": "C08:lost"}.get(sig, sig.replace("C09", "C08"))
                            fs.append({"kind": "oracle", "sig": sig8, "desc": f"protocol {version}, {acts} then one fault-free wake per node: {desc}", "case": case})
                        r.close()
    seen = {}
    for f in fs:
        seen.setdefault(f["sig"], f)
    return list(seen.values()), n


def run(ctx, model_available=True):
    rng = rng_for(ctx.seed, "C08gen")
    ex_h = exhaustive()
    hs = ex_h + [gen_sleep_history(rng, True) for _ in range(ctx.budget(500, 10000))]
    res = run_property(ctx, "C08", histories=hs, n_quick=0, n_thorough=0, oracle=oracle_c08,
                       model_available=model_available,
                       rule="failing release write with a send running while it is suspended (gate transport, 3 versions x 1-3 parked x fail position x send position x 3 keys); exhaustive: every subset of failing write positions over two faulty wakes followed by a clean wake, 1-3 parked commands, protocols 2.0/2.1/2.2; plus random sleep-buffer histories with write faults ending in one fault-free wake per node",
                       assumptions=["the scripted transport raises TransportFailedError at the chosen write attempts"])
    res["exhaustive"] = True
    rf, rn = fault_during_race()
    res["failures"] = rf + res["failures"]
    res["evaluations"] += rn
    res["distribution"]["failing_write_with_concurrent_send"] = rn
    res["distribution"]["exhaustive_fault_subsets"] = len(ex_h)
    return res


def replay(ctx, rp):
    if (rp.get("case") or {}).get("race"):
        from props import c09

        return c09.replay(ctx, rp)
    return replay_ops(ctx, rp, oracle_c08)
