"""C11 — node ids handed out are fresh, in range, never handed out twice."""

from __future__ import annotations

from common import rng_for
from gwcore import replay_ops, run_property
from oracles import oracle_c11

SHAPES = [[], [0], [1], [0, 3, 10], [1, 2, 3, 4], [1, 254], [254], [253], [252, 253], [255], [0, 255], [100, 200],
          list(range(1, 30)), [7], [250, 251, 252, 253]]


def gen(rng):
    ops = []
    v = rng.choice([None, "1.4", "2.0", "2.2"])
    if v:
        ops.append(("recv", f"0;255;3;0;2;{v}", ()))
    for n in rng.choice(SHAPES):
        ops.append(("put_node", n, 17, "2.0", False))
    for _ in range(rng.randint(1, 10)):
        x = rng.random()
        if x < 0.6:
            faults = tuple(rng.random() < 0.5 for _ in range(2)) if rng.random() < 0.25 else ()
            ops.append(("recv", f"{rng.choice([255, 255, 3])};{rng.choice([255, 255, 0, 7])};3;{rng.choice([0, 1])};3;{rng.choice(['', 'x'])}", faults))
        elif x < 0.8:
            n = rng.choice([5, 40, 252, 253, 254, 255, 2])
            ops.append(("recv", f"{n};255;0;0;17;2.0", ()))
        elif x < 0.9:
            ops.append(("recv", f"{rng.choice([1, 5, 254])};255;3;0;0;55", ()))
        else:
            ops.append(("recv", "255;255;3;0;4;9", ()))
    return ops


def run(ctx, model_available=True):
    rng = rng_for(ctx.seed, "C11gen")
    hs = [gen(rng) for _ in range(ctx.budget(700, 12000))]
    # a long run of requests up to exhaustion
    hs.append([("put_node", 240, 17, "2.0", False)] + [("recv", "255;255;3;0;3;", ())] * 18)
    return run_property(ctx, "C11", histories=hs, n_quick=0, n_thorough=0, oracle=oracle_c11,
                        model_available=model_available,
                        rule="registries of every shape class (empty, sparse, dense, near the bound, holding 254/255, restored or presented) followed by id requests interleaved with presentations and write faults; one run to exhaustion")


def replay(ctx, rp):
    return replay_ops(ctx, rp, oracle_c11)
