"""C11 — node ids handed out are fresh, in range, never handed out twice."""

from __future__ import annotations

from common import rng_for
from gwcore import replay_ops, run_property
from oracles import oracle_c11

SHAPES = [[], [0], [1], [0, 3, 10], [1, 2, 3, 4], [1, 254], [254], [253], [252, 253], [255], [0, 255], [100, 200],
          list(range(1, 30)), [7], [250, 251, 252, 253]]


def gen(rng):
    ops = []
    v = rng.choice([None, "1.4", "2.0", "2.2"])
    if v:
        ops.append(("recv", f"0;255;3;0;2;{v}", ()))
    for n in rng.choice(SHAPES):
        ops.append(("put_node", n, 17, "2.0", False))
    for _ in range(rng.randint(1, 10)):
        x = rng.random()
        if x < 0.6:
            faults = tuple(rng.random() < 0.5 for _ in range(2)) if rng.random() < 0.25 else ()
            ops.append(("recv", f"{rng.choice([255, 255, 3])};{rng.choice([255, 255, 0, 7])};3;{rng.choice([0, 1])};3;{rng.choice(['', 'x'])}", faults))
        elif x < 0.8:
            n = rng.choice([5, 40, 252, 253, 254, 255, 2])
            ops.append(("recv", f"{n};255;0;0;{rng.choice([17, 17, 18])};{rng.choice(['2.0', '2.0', '', 'custom', '2.x', '1.4'])}", ()))
        elif x < 0.86:
            ops.append(("reconnect",))
        elif x < 0.9:
            ops.append(("recv", f"{rng.choice([1, 5, 254])};255;3;0;0;55", ()))
        else:
            ops.append(("recv", "255;255;3;0;4;9", ()))
    return ops


def with_persistence():
    """Ids handed out over several sessions of one Gateway object with a persistence file: a
    reconnect (also after a final save that failed, or with a file that is older than the
    registry) must not bring an id back."""
    import asyncio
    import os
    import shutil
    import tempfile

    from common import Config, Gateway, ScriptedTransport

    fs, n = [], 0
    base = tempfile.mkdtemp(prefix="amsverif_c11_")
    loop = asyncio.new_event_loop()
    for version in (None, "2.2"):
        for scenario in ("plain", "save-fails", "stale-file", "import-other-file", "restart", "restart-static"):
            n += 1
            d = os.path.join(base, f"s{n}")
            os.mkdir(d)
            path = os.path.join(d, "p.json")
            tr = ScriptedTransport()
            gw = Gateway(tr, Config(persistence_file=path))
            handed: list[str] = []
            box = [gw, tr]

            async def session(k, after=None, first=()):
                gw, tr = box
                async with gw:
                    agen = gw.listen()
                    if version and not gw.protocol_version:
                        tr.inq.append(f"0;255;3;0;2;{version}")
                        await agen.__anext__()
                    for line in first:
                        tr.inq.append(line)
                        await agen.__anext__()
                    for _ in range(k):
                        tr.writes = []
                        tr.inq.append("255;255;3;0;3;")
                        await agen.__anext__()
                        handed.extend(w.split(";")[5].strip() for w, ok in tr.writes if w.split(";")[4] == "4" and ok)
                    if after:
                        await after()
                    await agen.aclose()

            async def break_dir():
                # the storage goes away before the final save
                os.rename(d, d + ".gone")

            async def import_other():
                other = os.path.join(base, f"other{n}.json")
                with open(other, "w") as f:
                    f.write('{"40": {"node_id": 40, "node_type": 17, "protocol_version": "2.0", "children": {}, "sketch_name": "", "sketch_version": "", "battery_level": 0, "heartbeat": 0, "sleeping": false}}')
                await gw.persistence.load(other)
                tr.writes = []
                tr.inq.append("255;255;3;0;3;")
                agen2 = gw.listen()
                await agen2.__anext__()
                handed.extend(w.split(";")[5].strip() for w, ok in tr.writes if w.split(";")[4] == "4" and ok)
                await agen2.aclose()

            try:
                if scenario == "plain":
                    loop.run_until_complete(session(2))
                    loop.run_until_complete(session(2))
                elif scenario == "save-fails":
                    try:
                        loop.run_until_complete(session(2, break_dir))
                    except Exception as e:  # noqa: BLE001
                        if type(e).__name__ != "PersistenceWriteError":
                            raise
                    os.rename(d + ".gone", d)
                    loop.run_until_complete(session(2))
                elif scenario == "stale-file":
                    loop.run_until_complete(session(1))
                    with open(path) as f:
                        snapshot = f.read()
                    loop.run_until_complete(session(2))
                    with open(path, "w") as f:      # a backup from before is restored by the operator
                        f.write(snapshot)
                    loop.run_until_complete(session(2))
                elif scenario in ("restart", "restart-static"):
                    # the controller is restarted: a new Gateway object restores the registry from the
                    # file; the nodes that got an id (or presented only themselves, with a static id)
                    # have not presented anything else yet
                    first = ("9;255;0;0;17;1.4",) if scenario == "restart-static" else ()
                    loop.run_until_complete(session(2, first=first))
                    tr2 = ScriptedTransport()
                    box[:] = [Gateway(tr2, Config(persistence_file=path)), tr2]
                    loop.run_until_complete(session(2))
                    if scenario == "restart-static" and "9" in handed:
                        handed.append("9")   # id 9 belongs to the static node: reported as handed out twice
                else:
                    loop.run_until_complete(session(2, import_other))
                    loop.run_until_complete(session(1))
            except Exception as e:  # noqa: BLE001
                fs.append({"kind": "oracle", "sig": "C11:sessions", "desc": f"{scenario} ({version}): {type(e).__name__}: {e}", "case": {"scenario": scenario}})
                continue
            if len(set(handed)) != len(handed) or not all(h.isdigit() and 1 <= int(h) <= 254 for h in handed):
                fs.append({"kind": "oracle", "sig": "C11:repeated-across-sessions",
                           "desc": f"{scenario} (version {version}): ids handed out over the sessions of one Gateway object: {handed}",
                           "case": {"scenario": scenario, "version": version, "handed": handed}})
    loop.close()
    shutil.rmtree(base, ignore_errors=True)
    seen = {}
    for f in fs:
        seen.setdefault(f["sig"], f)
    return list(seen.values()), n


def run(ctx, model_available=True):
    rng = rng_for(ctx.seed, "C11gen")
    hs = [gen(rng) for _ in range(ctx.budget(700, 12000))]
    # a long run of requests up to exhaustion
    hs.append([("put_node", 240, 17, "2.0", False)] + [("recv", "255;255;3;0;3;", ())] * 18)
    res = run_property(ctx, "C11", histories=hs, n_quick=0, n_thorough=0, oracle=oracle_c11,
                       model_available=model_available,
                       rule="registries of every shape class (empty, sparse, dense, near the bound, holding 254/255, restored or presented) followed by id requests interleaved with presentations, write faults and reconnects; one run to exhaustion; sessions of one Gateway object with a persistence file (final save failing, file older than the registry, another file imported)")
    pf, pn = with_persistence()
    res["failures"] = pf + res["failures"]
    res["evaluations"] += pn
    res["distribution"]["persistence_sessions"] = pn
    return res


def replay(ctx, rp):
    return replay_ops(ctx, rp, oracle_c11)
