"""C04 — the registry is a faithful record of what was presented and reported."""

from __future__ import annotations

from common import rng_for
from gwcore import replay_ops, run_property
from histgen import Profile
from oracles import oracle_c04


def run(ctx, model_available=True):
    profiles = [Profile(p_send=0.05, unknown_node=0.25, odd_payload=0.2),
                Profile(p_send=0.05, unknown_node=0.1, odd_payload=0.35, nodes=[1, 2], children=[0, 1, 7], max_len=25,
                        weights=dict(node_pres=3, gw_pres=1, child_pres=4, set=6, req=2, battery=3, time=0.3, version=0.5,
                                     id_request=2, config=0.3, log=0.3, sketch=3, gw_ready=0.3, discover_resp=0.7,
                                     heartbeat=3, pre_sleep=2, post_sleep=0.5, other_internal=1, stream=1))]
    # commands parked for sleeping nodes and released at a wake are commands, not reports:
    # the registry must not change because of them
    from props.sleepgen import gen_sleep_history

    rng = rng_for(ctx.seed, "C04sleep")
    hs = [gen_sleep_history(rng, i % 3 == 0) for i in range(ctx.budget(150, 2500))]
    return run_property(ctx, "C04", profiles=profiles, histories=hs, n_quick=700, n_thorough=12000, oracle=oracle_c04,
                        model_available=model_available,
                        assumptions=["a gateway (node 0) presentation whose version is rejected keeps the re-created node record (the later stage fails after the registry update)"])


def replay(ctx, rp):
    return replay_ops(ctx, rp, oracle_c04)
