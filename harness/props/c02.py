"""C02 — decoder accepts exactly the well-formed lines and decodes them literally."""

from __future__ import annotations

import itertools

from common import Driver, Impl, compare_projected, enc_str, op_line, rng_for, run_sharded
from props.codec_common import impl_decode, schemas, wf_fields

FIELD_CLASSES = [
    "0", "1", "2", "3", "4", "5", "9", "17", "254", "255", "256", "-1", "1000000000000000000000000000000",
    "+1", "01", "1_0", "1__0", "_1", " 1 ", "\t2", "1.0", "1e2", "abc", "", "٣", "\xa03", "\x1c1",
    "0x1", "1 2", "９", "--1", "+", "-", "4" * 300, "0" * 310 + "7",
    "0255", "+255", "2_5_5", " 255", "255 ", "-0", "+0", "00", "03", "+3", "004", "+1 ", "0_1",
]


def respell(rng, v: int) -> str:
    """Another spelling that Python's int() reads as the same number."""
    s = str(v)
    forms = ["0" + s, "00" + s, "+" + s, " " + s, s + " ", "\t" + s, " +0" + s + " ", "0_" + s]
    if len(s) >= 2:
        forms += ["_".join(s), s[0] + "_" + s[1:]]
    if v == 0:
        forms += ["-0", "-00"]
    return rng.choice(forms)
# CPython's int/str digit limit: costly in the extracted model (binary positives), so only a few lines
HEAVY_CLASSES = ["4" * 4300, "5" * 4301, "0" * 4300 + "1", "1" + "_1" * 4299]
SMALL_CLASSES = ["0", "1", "3", "4", "255", "256", "-1", "x", "", " 2", "5"]
PAYLOAD_CLASSES = ["", "x", "a;b", ";", "1;2;3;4;5;6;7", " p ", "\x1f", "é"]
TAILS = ["", "\n", "\r\n", " ", "\t\n", "\x1c", ";"]


def spec_decode(line: str):
    """The property's accept condition, written from its text: returns the
    decoded tuple or None (= must be rejected as an invalid message)."""
    parts = line.rstrip().split(";")
    if len(parts) < 6:
        return None
    nums = []
    for f in parts[:5]:
        try:
            nums.append(int(f))
        except ValueError:
            return None
    if not wf_fields(*nums):
        return None
    return (*nums, ";".join(parts[5:]))


def show_spec(r) -> str:
    if r is None:
        return "INVALID"
    n, c, k, a, t, p = r
    return f"OK {n} {c} {k} {a} {t} {len(p)}:{p}"


def gen_lines(ctx):
    rng = rng_for(ctx.seed, "C02")
    lines = []
    # malformed / short / long stream: 0-8 fields from the class alphabet
    for nf in range(0, 9):
        for _ in range(ctx.budget(500, 6000)):
            fs = [rng.choice(FIELD_CLASSES if rng.random() < 0.5 else SMALL_CLASSES) for _ in range(nf)]
            lines.append(";".join(fs) + rng.choice(TAILS))
    # mostly-valid stream: valid skeleton with at most two perturbed fields
    for _ in range(ctx.budget(9000, 150000)):
        while True:
            n, c, k, a, t = rng.choice([0, 1, 9, 254, 255]), rng.choice([0, 1, 7, 255]), rng.randint(0, 4), rng.randint(0, 1), rng.choice([0, 3, 4, 17, 49])
            if wf_fields(n, c, k, a, t):
                break
        fs = [str(n), str(c), str(k), str(a), str(t), rng.choice(PAYLOAD_CLASSES)]
        for _ in range(rng.choice([0, 0, 1, 1, 2])):
            i = rng.randrange(5)
            fs[i] = rng.choice(FIELD_CLASSES)
        lines.append(";".join(fs) + rng.choice(TAILS))
    # every numeric field in a spelling other than the canonical one (the decoder reads
    # fields with int(): the cross-field rules must see the numbers, not the text);
    # skeletons are NOT filtered, so rule-violating combinations are respelled too
    for _ in range(ctx.budget(6000, 60000)):
        vals = [rng.choice([0, 1, 9, 254, 255]), rng.choice([0, 1, 7, 255, 255]), rng.randint(0, 4), rng.randint(0, 1), rng.choice([0, 3, 4, 17, 49])]
        fs = [str(x) for x in vals] + [rng.choice(PAYLOAD_CLASSES)]
        for i in rng.sample(range(5), rng.choice([1, 1, 2, 3])):
            fs[i] = respell(rng, vals[i])
        lines.append(";".join(fs) + rng.choice(TAILS))
    for h in HEAVY_CLASSES:
        for pos in (0, 4):
            fs = ["1", "2", "1", "0", "5", "p"]
            fs[pos] = h
            lines.append(";".join(fs))
    # bounded-exhaustive: all 6-field lines over the reduced class set (thorough: complete)
    prod = itertools.product(SMALL_CLASSES, repeat=5)
    for fs in prod:
        if ctx.quick and rng.random() > 0.03:
            continue
        lines.append(";".join(fs) + ";p")
    return lines


def run(ctx, model_available=True):
    lines = gen_lines(ctx)
    nver = len(schemas())
    failures = []
    dist = {"lines": len(lines), "accepted": 0, "rejected": 0, "fewer_than_six_fields": 0, "more_than_six_fields": 0}
    d = Driver()
    expect = []
    distinct = set()
    for i, line in enumerate(lines):
        spec = show_spec(spec_decode(line))
        nf = line.rstrip().count(";") + 1
        if nf < 6:
            dist["fewer_than_six_fields"] += 1
        if nf > 6:
            dist["more_than_six_fields"] += 1
        dist["accepted" if spec != "INVALID" else "rejected"] += 1
        versions = range(nver) if i % 7 == 0 else [i % nver]
        for v in versions:
            got = impl_decode(v, line)
            if got != spec:
                sig = "C02:escape" if got == "ESCAPE" else ("C02:accepts-malformed" if spec == "INVALID" else "C02:rejects-or-misdecodes-wellformed")
                failures.append({
                    "kind": "oracle", "sig": sig,
                    "desc": f"line {line[:120]!r} under protocol {schemas()[v][0]}: decoder gives {got[:120]!r}, the property requires {spec[:120]!r}",
                    "case": {"line": line, "version": schemas()[v][0], "got": got, "required": spec},
                })
            d.add(f"DEC {v} {enc_str(line)}")
            expect.append((v, line, got))
        if spec != "INVALID" or nf >= 5:
            distinct.add((spec != "INVALID", min(nf, 8), line.rstrip().split(";", 5)[-1] != "" if nf >= 6 else None, tuple(f.strip().lstrip("+-").isdigit() for f in line.split(";")[:5])))
    # through Gateway.listen: rejection must surface as InvalidMessageError
    rng = rng_for(ctx.seed, "C02gw")
    impls = []
    for _ in range(ctx.budget(30, 300)):
        im = Impl()
        for _ in range(20):
            line = lines[rng.randrange(len(lines))]
            raw = im.recv(line)
            spec = spec_decode(line)
            e = raw["exc"]
            if spec is None:
                ok = e is not None and type(e).__name__ == "InvalidMessageError"
                if not ok:
                    failures.append({"kind": "oracle", "sig": "C02:listen-reject-class",
                                     "desc": f"listen on malformed line {line[:100]!r}: {'yielded' if e is None else type(e).__name__} instead of InvalidMessageError",
                                     "case": {"line": line}})
            # a well-formed line may still end in the invalid-message error raised by a
            # *handler* (absurd battery / heartbeat / version payload: C03); whether the
            # decoder accepts it is checked on MessageSchema.load directly above
        impls.append(im)
    if model_available:
        outs = d.run()
        for (v, line, got), mout in zip(expect, outs):
            if mout != got:
                failures.append({"kind": "corr", "sig": None,
                                 "desc": f"decode {line[:100]!r} (protocol index {v}): implementation {got[:100]!r}, model {mout[:100]!r}",
                                 "case": {"line": line, "version_index": v, "impl": got, "model": mout}})

        def proj(st, op):
            # C02 is about the decoder: compare the outcome class for lines the property
            # says must be rejected; what a handler does with a decoded line is C03/C04
            line = op_line(op)
            if line is None or spec_decode(line) is not None:
                return None
            return (st["kind"], st["exn"])

        for im, o in zip(impls, run_sharded([im.ops for im in impls])):
            for dis in compare_projected(im, o, proj):
                failures.append({"kind": "corr", "sig": None, "desc": f"listen step differs: impl {dis['impl'][:160]!r} model {dis['model'][:160]!r}", "case": dis})
    for im in impls:
        im.close()
    return {
        "evaluations": len(expect) + 20 * len(impls),
        "distinct_nontrivial": len(distinct),
        "rule": "lines of 0-8 fields drawn from a class alphabet (valid, boundary, negative, huge, signed, padded, underscore, unicode digit, float, hex, empty, 4300/4301 digits), a mostly-valid stream with <=2 perturbed fields, and the product of a reduced class set over five fields; distinct = (accepted?, #fields, payload empty?, which fields look numeric) classes with >= 5 fields",
        "samples": [l[:80] for l in lines[4000:4005]] + [l[:80] for l in lines[-3:]],
        "distribution": dist,
        "failures": failures,
        "exhaustive": not ctx.quick,
        "assumptions": ["'is an integer' is read as: Python int() accepts the field"],
    }


def replay(ctx, rp):
    case = rp.get("case") or {}
    line = case.get("line")
    if line is not None:
        print("line", repr(line), "required", show_spec(spec_decode(line)))
        for v in range(len(schemas())):
            print(schemas()[v][0], impl_decode(v, line))
    return 0
