"""C14 — loading a persistence file fails only with the persistence read error."""

from __future__ import annotations

import copy
import json
import os

from common import Driver, Node, rng_for
from persist_common import Files, py_to_tokens, show_registry

VALID = [
    {"1": {"node_id": 1, "node_type": 17, "protocol_version": "2.0", "children": {"0": {"child_id": 0, "child_type": 6, "description": "t", "values": {"0": "20.5"}}},
           "sketch_name": "s", "sketch_version": "1.0", "battery_level": 55, "heartbeat": 10, "sleeping": True}},
    {"0": {"node_id": 0, "node_type": 18, "protocol_version": "2.2"}, "7": {"node_id": 7, "node_type": 17, "protocol_version": "1.4", "children": {}}},
    {"3": {"sensor_id": 3, "type": 17, "protocol_version": "2.0", "sketch_name": None, "sketch_version": None, "battery_level": 0, "heartbeat": 0,
           "children": {"1": {"id": 1, "type": 38, "description": "", "values": {"38": "12.0", "2": "1"}}}}},
]
ODD = [None, True, False, 0, 1, 2, -1, 255, 256, 100, 101, 10 ** 30, 1.0, 0.0, -0.0, 2.5, 100.5, 255.9, float("nan"), float("inf"), 1e400,
       "", "5", " 5 ", "1_0", "٣", "5.0", "abc", "true", "True", "tRue", "on", "0", "1", "no", [], [1], {}, {"a": 1}, "\x00", "x" * 300]


def mutations(rng, ctx):
    out = []
    for base in VALID:
        # single-member mutations at node level and child level
        for nk in base:
            node = base[nk]
            for name in list(node) + ["unknown_member", "sleeping", "battery_level", "heartbeat", "type", "sensor_id", "node_id"]:
                for v in ODD:
                    m = copy.deepcopy(base)
                    m[nk][name] = v
                    out.append(m)
                m = copy.deepcopy(base)
                m[nk].pop(name, None)
                out.append(m)
            ch = node.get("children") or {}
            for ck in ch:
                for name in list(ch[ck]) + ["extra", "id", "type", "child_id", "child_type"]:
                    for v in ODD:
                        m = copy.deepcopy(base)
                        m[nk]["children"][ck][name] = v
                        out.append(m)
                    m = copy.deepcopy(base)
                    m[nk]["children"][ck].pop(name, None)
                    out.append(m)
                for badkey in ["x", "", "1.0", " 2 ", "1_0", "-1", "٣", "00", "9" * 5000]:
                    m = copy.deepcopy(base)
                    m[nk]["children"][badkey] = copy.deepcopy(ch[ck])
                    out.append(m)
                    m = copy.deepcopy(base)
                    m[nk]["children"][ck].setdefault("values", {})[badkey] = "v"
                    out.append(m)
            for v in ODD:
                m = copy.deepcopy(base)
                m[nk] = v
                out.append(m)
                m = copy.deepcopy(base)
                m[nk]["children"] = v
                out.append(m)
                m = copy.deepcopy(base)
                m["extra"] = v
                out.append(m)
    out += ODD
    # two records with the same node id; key differing from node_id
    out.append({"1": VALID[0]["1"], "2": VALID[0]["1"]})
    out.append({"9": VALID[0]["1"]})

    def rnd(depth):
        x = rng.random()
        if depth == 0 or x < 0.35:
            return rng.choice(ODD[:31])
        if x < 0.5:
            return [rnd(depth - 1) for _ in range(rng.randint(0, 3))]
        keys = ["node_id", "node_type", "protocol_version", "children", "sensor_id", "type", "id", "child_id", "child_type",
                "values", "description", "sleeping", "battery_level", "heartbeat", "sketch_name", "sketch_version", "1", "2", "x", ""]
        return {rng.choice(keys): rnd(depth - 1) for _ in range(rng.randint(0, 5))}

    for _ in range(ctx.budget(1500, 40000)):
        out.append(rnd(4))
    if ctx.quick:
        head = out[:]
        rng.shuffle(head)
        out = head[:6000]
    return out


def raw_contents():
    good = [json.dumps(v, indent=2, sort_keys=True).encode() for v in VALID]
    res = []
    for g in good:
        for i in range(len(g) + 1):
            res.append(("prefix", g[:i]))
    res += [("bytes", b"\xff\xfe{}"), ("bytes", b"\xef\xbb\xbf{}"), ("bytes", b"{}\x00"), ("bytes", b"\x00"), ("bytes", b"{\"1\": \xc3}"),
            ("bytes", b"[" * 100000), ("bytes", b"{\"a\":" * 20000), ("bytes", b"9" * 5000), ("bytes", b"{\"1\": " + b"9" * 5000 + b"}"),
            ("bytes", b"NaN"), ("bytes", b"{\"1\": NaN}"), ("bytes", b"   "), ("bytes", b"\n"), ("bytes", b"{} {}"), ("bytes", b"{\"1\": {\"node_id\": 1, \"node_id\": 2, \"node_type\": 17, \"protocol_version\": \"2.0\"}}"),
            ("bytes", b"'single'"), ("bytes", b"{1: 2}"), ("bytes", b"-"), ("bytes", b"\"\\ud800\"")]
    return res


def run(ctx, model_available=True):
    rng = rng_for(ctx.seed, "C14")
    files = Files()
    failures = []
    d = Driver()
    exp = []
    dist = {"parsed_values": 0, "raw_contents": 0, "accepted": 0, "read_error": 0, "prefixes": 0, "escapes": 0}
    kinds = set()

    def note(outcome):
        if outcome.startswith("OK"):
            dist["accepted"] += 1
        elif outcome == "ERR":
            dist["read_error"] += 1
        else:
            dist["escapes"] += 1

    for v in mutations(rng, ctx):
        try:
            content = json.dumps(v).encode()
        except (ValueError, TypeError):
            continue
        outcome, nodes, _ = files.load(content)
        dist["parsed_values"] += 1
        note(outcome)
        kinds.add((type(v).__name__, outcome.split(" ")[0], len(nodes)))
        if outcome.startswith("ESCAPE"):
            failures.append({"kind": "oracle", "sig": "C14:escape", "desc": f"load of {content[:200]!r} raised {outcome[7:]}", "case": {"content": content.decode()[:3000]}})
        try:
            parsed = json.loads(content)
        except Exception:  # noqa: BLE001
            continue
        d.add("PLOAD " + py_to_tokens(parsed))
        exp.append((content, outcome))
    # a failing load leaves the registry as it was; a succeeding one adds to it
    for v in (VALID[0], {"1": {"node_id": 1}}, {"1": VALID[0]["1"], "2": 5}):
        pre = {42: Node(42, 17, "2.0")}
        outcome, nodes, _ = files.load(json.dumps(v).encode(), nodes=pre)
        if outcome == "ERR" and set(nodes) != {42}:
            failures.append({"kind": "oracle", "sig": "C14:partial-load", "desc": f"a failing load changed the registry to {sorted(nodes)}", "case": {"content": json.dumps(v)}})
    for kind, content in raw_contents():
        outcome, nodes, _ = files.load(content)
        dist["raw_contents"] += 1
        if kind == "prefix":
            dist["prefixes"] += 1
        note(outcome)
        kinds.add((kind, outcome.split(" ")[0], len(nodes)))
        if outcome.startswith("ESCAPE"):
            failures.append({"kind": "oracle", "sig": "C14:escape", "desc": f"load of {content[:80]!r} ({len(content)} bytes) raised {outcome[7:]}", "case": {"content_hex": content[:400].hex()}})
        if content == b"" and outcome != "OK":
            failures.append({"kind": "oracle", "sig": "C14:empty-file", "desc": f"an empty file loads as {outcome}, expected an empty registry", "case": {}})
        try:
            parsed = json.loads(content.decode() or "{}")
        except Exception:  # noqa: BLE001
            if outcome != "ERR":
                failures.append({"kind": "oracle", "sig": "C14:unparsable-accepted", "desc": f"unparsable content {content[:60]!r} gives {outcome[:80]}", "case": {"content_hex": content[:400].hex()}})
            continue
        d.add("PLOAD " + py_to_tokens(parsed))
        exp.append((content, outcome))
    # a missing file is created holding the current registry; a directory is a read error
    pre = {5: Node(5, 17, "2.0", sketch_name="n")}
    path = files.path()
    outcome, nodes, _ = files.load(None, nodes=pre, path=path)
    if outcome != show_registry(pre) or not os.path.exists(path):
        failures.append({"kind": "oracle", "sig": "C14:missing-file", "desc": f"missing file: outcome {outcome[:100]}, file created: {os.path.exists(path)}", "case": {}})
    else:
        o2, n2, _ = files.load(None, nodes={}, path=path)
        if o2 != show_registry(pre):
            failures.append({"kind": "oracle", "sig": "C14:missing-file", "desc": f"the file created for a missing file does not hold the current registry: {o2[:200]}", "case": {}})
    # the same Persistence object over its life: the file disappears (or is damaged) between
    # a save and the next load: a missing file is created again, a damaged one is the read error
    from aiomysensors import exceptions as _ex
    from aiomysensors.persistence import Persistence

    for scenario in ("save-delete-load", "load-delete-load", "save-save-delete-load", "save-damage-load", "stop-delete-load"):
        reg = {5: Node(5, 17, "2.0", sketch_name="n"), 6: Node(6, 17, "2.1")}
        lpath = files.path()
        p = Persistence(reg, lpath)
        try:
            if scenario.startswith("load"):
                files.loop.run_until_complete(p.load())
            else:
                files.loop.run_until_complete(p.save())
            if scenario.startswith("save-save"):
                files.loop.run_until_complete(p.save())
            if scenario.startswith("stop"):
                files.loop.run_until_complete(p.stop())
            if "damage" in scenario:
                with open(lpath, "w") as f:
                    f.write('{"5": {"node_id": 5, "node_ty')
            else:
                os.remove(lpath)
            try:
                files.loop.run_until_complete(p.load())
                got = show_registry(reg)
            except _ex.PersistenceReadError:
                got = "ERR"
        except Exception as e:  # noqa: BLE001
            got = "ESCAPE " + type(e).__name__
        want = "ERR" if "damage" in scenario else show_registry(reg)
        exists = os.path.exists(lpath)
        if got != want or not exists:
            failures.append({"kind": "oracle", "sig": "C14:missing-file" if "delete" in scenario else "C14:session",
                             "desc": f"{scenario} on one Persistence object: load gives {got[:100]} (expected {want[:100]}), file exists afterwards: {exists}", "case": {"scenario": scenario}})
        elif "delete" in scenario:
            o2, _, _ = files.load(None, nodes={}, path=lpath)
            if o2 != show_registry(reg):
                failures.append({"kind": "oracle", "sig": "C14:missing-file", "desc": f"{scenario}: the re-created file does not hold the registry: {o2[:200]}", "case": {"scenario": scenario}})
    dpath = files.path()
    os.mkdir(dpath)
    outcome, _, _ = files.load(None, path=dpath)
    if outcome != "ERR":
        failures.append({"kind": "oracle", "sig": "C14:escape" if outcome.startswith("ESCAPE") else "C14:directory", "desc": f"a directory as persistence file gives {outcome}", "case": {}})
    # the load that matters in practice is the one Gateway.__aenter__ performs: entering the gateway
    # context on such a file must fail the same way (the read error, nothing else — also when the
    # path cannot be written either), and again on the next attempt: the file holds what it held
    from common import Config, Gateway, ScriptedTransport

    async def _enter(pth):
        gw = Gateway(ScriptedTransport(), Config(persistence_file=pth))
        try:
            async with gw:
                return "OK"
        except _ex.PersistenceReadError:
            return "ERR"
        except BaseException as e:  # noqa: BLE001
            return "ESCAPE " + type(e).__name__

    entry_cases = [("truncated JSON", b'{"5": {"node_id": 5, "node_ty'), ("wrong shape", b'{"1": 5}'), ("not UTF-8", b'\xff\xfe{}'),
                   ("a directory", None), ("valid file", json.dumps(VALID[0]).encode()), ("empty file", b"")]
    dist["gateway_entries"] = 0
    for label, content in entry_cases:
        epath = files.path()
        if content is None:
            os.mkdir(epath)
        else:
            with open(epath, "wb") as f:
                f.write(content)
        want = "OK" if label in ("valid file", "empty file") else "ERR"
        for attempt in (1, 2):
            got = files.loop.run_until_complete(_enter(epath))
            dist["gateway_entries"] += 1
            if got != want:
                failures.append({"kind": "oracle", "sig": "C14:escape" if got.startswith("ESCAPE") else "C14:gateway-entry",
                                 "desc": f"entering the gateway context on {label} as persistence file, attempt {attempt}: {got} (expected {want})",
                                 "case": {"entry": label}})
                break
    if model_available:
        outs = d.run()
        for (content, outcome), mout in zip(exp, outs):
            want = outcome if not outcome.startswith("ESCAPE") else "ERR"
            if mout != want:
                failures.append({"kind": "corr", "sig": None,
                                 "desc": f"load of {content[:300]!r}: implementation {outcome[:200]} model {mout[:200]}",
                                 "case": {"content": content.decode(errors='replace')[:3000]}})
    files.close()
    seen = {}
    for f in failures:
        seen.setdefault((f["kind"], f["sig"], f["desc"][:40]), f)
    return {
        "evaluations": dist["parsed_values"] + dist["raw_contents"],
        "distinct_nontrivial": len(kinds),
        "rule": "every single-member type/shape/omission/addition mutation of three valid files (native and legacy layout) at node and child level over 40 odd values, bad dict keys, random JSON values to depth 4, every byte prefix of the three files, non-UTF-8 / BOM / NUL / deep nesting / huge numbers / NaN, a directory, a missing file; distinct = (input kind, outcome class, #nodes loaded)",
        "samples": [json.dumps(VALID[1])[:150]],
        "distribution": dist,
        "failures": list(seen.values())[:12],
        "exhaustive": False,
        "assumptions": ["content that json.loads rejects is a read error (text layer not modelled)"],
    }


def replay(ctx, rp):
    case = rp.get("case") or {}
    files = Files()
    if "content" in case:
        c = case["content"].encode()
    elif "content_hex" in case:
        c = bytes.fromhex(case["content_hex"])
    else:
        print(rp)
        return 0
    outcome, _, _ = files.load(c)
    print(repr(c[:300]), "->", outcome[:500])
    files.close()
    return 1 if outcome.startswith("ESCAPE") else 0
