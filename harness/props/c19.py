"""C19 — a newer protocol version handles the older protocol's message types identically."""

from __future__ import annotations

from common import Impl, compare, rng_for, run_sharded
from gwcore import exc_name, iname, proto_module, spec_decode

VERSIONS = ["1.4", "1.5", "2.0", "2.1", "2.2"]
PAIRS = [(a, b) for i, a in enumerate(VERSIONS) for b in VERSIONS[i + 1:]]


def vals(e):
    return sorted({int(m) for m in e})


def gen(rng, old):
    m = proto_module(old)
    pres, setreq, internal, stream = vals(m.Presentation), vals(m.SetReq), vals(m.Internal), vals(m.Stream)
    nodes = [1, 2, 3]
    ops = []
    if rng.random() < 0.8:
        for n in nodes:
            ops.append(("recv", f"{n};255;0;0;17;2.0"))
            for c in (0, 1):
                ops.append(("recv", f"{n};{c};0;0;{rng.choice(pres)};"))
    for _ in range(rng.randint(3, 22)):
        x = rng.random()
        n = rng.choice(nodes)
        c = rng.choice([0, 1])
        if x < 0.12:
            ops.append(("recv", f"{n};255;0;0;{rng.choice([17, 18])};{rng.choice(['2.0', '1.4', ''])}"))
        elif x < 0.24:
            ops.append(("recv", f"{n};{c};0;0;{rng.choice(pres)};{rng.choice(['', 'desc'])}"))
        elif x < 0.42:
            ops.append(("recv", f"{n};{c};1;{rng.choice([0, 0, 1])};{rng.choice(setreq)};{rng.choice(['1', '20.5', '', 'on'])}"))
        elif x < 0.5:
            ops.append(("recv", f"{n};{c};2;{rng.choice([0, 0, 1])};{rng.choice(setreq)};"))
        elif x < 0.78:
            t = rng.choice(internal)
            p = rng.choice(["", "0", "55", "abc", "500", "101", "1.0"])
            nn = rng.choice([n, n, 0, 255]) if iname(old, t) in ("I_ID_REQUEST", "I_LOG_MESSAGE", "I_GATEWAY_READY", "I_CONFIG", "I_TIME") else n
            if rng.random() < 0.12:
                nn = 77         # a node that never registers in these histories (ids handed out stay below 30)
            cc = 255 if rng.random() < 0.9 else rng.choice([0, 1, 254])   # internal messages normally carry child 255
            ops.append(("recv", f"{nn};{cc};3;{rng.choice([0, 0, 0, 1])};{t};{p}"))
        elif x < 0.84:
            ops.append(("recv", f"{n};255;4;0;{rng.choice(stream)};00"))
        elif x < 0.94:
            k = rng.choice([1, 1, 1, 3])
            if k == 1:
                ops.append(("send", (n, c, 1, 0, rng.choice(setreq), rng.choice(["1", "0"])), rng.random() < 0.8))
            else:
                ops.append(("send", (n, 255, 3, 0, rng.choice(internal), ""), rng.random() < 0.5))
        elif x < 0.97:
            ops.append(("set_reboot", n, True))
        else:
            ops.append(("set_sleeping", n, rng.random() < 0.7))
    return ops


def run_one(ops, version):
    im = Impl()
    im.set_version(version)
    for op in ops:
        if op[0] == "recv":
            im.recv(op[1])
        elif op[0] == "send":
            im.send(op[1], buffered=op[2])
        elif op[0] == "set_reboot" and op[1] in im.gw.nodes:
            im.set_reboot(op[1], op[2])
        elif op[0] == "set_sleeping" and op[1] in im.gw.nodes:
            im.set_sleeping(op[1], op[2])
    return im


def observable(r):
    e = r["exc"]
    if e is None:
        out = ("ok", None if r.get("msg") is None else (r["msg"].node_id, r["msg"].child_id, r["msg"].command, r["msg"].ack, r["msg"].message_type, r["msg"].payload))
    else:
        out = (exc_name(e), getattr(e, "node_id", None), getattr(e, "child_id", None))
    ws = [(w, ok) for w, ok in r["writes"]]
    if r["kind"] == "recv":
        m = spec_decode(r["line"])
        if m is not None and m[2] == 3 and iname(r["before"]["proto"], m[4]) == "I_TIME":
            # the two gateways read the clock at different moments: a reply inside the bracket the
            # harness took around the step (local seconds, like the reply) is "<clock>", any other
            # value is shown by how far it is off
            def _clock(w):
                head, val = w.rstrip("\n").rsplit(";", 1)
                try:
                    v = int(val)
                except ValueError:
                    return w
                t0, t1 = r.get("t0"), r.get("t1")
                if t0 is None or t0 - 1 <= v <= t1 + 1:
                    return head + ";<clock>\n"
                return head + f";<clock off by {(v - t0) // 60} min>\n"

            ws = [(_clock(w) if w.startswith(f"{m[0]};{m[1]};3;0;{m[4]};") else w, ok) for w, ok in ws]
    return out, ws, r["after"]["nodes"], r["after"]["sbuf"], r["after"]["ibuf"]


def excluded(op, old, new):
    """Steps the property exempts for this pair."""
    if op[0] != "recv":
        return False
    m = spec_decode(op[1])
    if m is None:
        return False
    name = iname(old, m[4]) if m[2] == 3 else None
    if name == "I_HEARTBEAT_RESPONSE" and new == "2.2" and old in ("2.0", "2.1"):
        # the exception is about what the heartbeat does to a registered node (sleeping flag,
        # release); node 77 never registers in these histories, its heartbeats are compared
        return m[0] != 77
    if old[0] != new[0] and name == "I_GATEWAY_READY":
        return True
    return False


def _run_in_zone(ctx, model_available=True):
    rng = rng_for(ctx.seed, "C19")
    failures = []
    impls = []
    n_hist = ctx.budget(60, 800)
    steps = 0
    compared = 0
    skipped_missing = 0
    kinds = set()
    # directed: the documented exception is about registered nodes; heartbeat responses from a node
    # that never registers (every payload class) are compared on every 2.x pair
    directed = {}
    for old, new in PAIRS:
        if old[0] == "2":
            directed[(old, new)] = [
                [("recv", f"77;255;3;{a};22;{p}") for p in ("abc", "", "5", "1.0", " 7 ", "-1") for a in (0, 1)]
                + [("recv", "1;255;0;0;17;2.0"), ("recv", "77;255;3;0;22;x"), ("recv", "77;255;3;0;22;12")]]
    # directed: a value reported with an empty payload (and "0"), then requested, on every pair
    for old, new in PAIRS:
        directed.setdefault((old, new), []).append(
            [("recv", "5;255;0;0;17;2.0"), ("recv", "5;1;0;0;3;"), ("recv", "5;1;1;0;2;"), ("recv", "5;1;2;0;2;"),
             ("recv", "5;1;1;0;3;0"), ("recv", "5;1;2;0;3;"), ("recv", "5;1;2;0;16;"), ("send", (5, 1, 1, 0, 2, ""), True), ("recv", "5;1;2;0;2;")])
    for old, new in PAIRS:
        for hi in range(n_hist + len(directed.get((old, new), []))):
            ops = [op for op in (gen(rng, old) if hi < n_hist else directed[(old, new)][hi - n_hist]) if not excluded(op, old, new)]
            a, b = run_one(ops, old), run_one(ops, new)
            impls += [a, b]
            ra = [r for r in a.raw if r is not None]
            rb = [r for r in b.raw if r is not None]
            cross = old[0] != new[0]
            for i, (x, y) in enumerate(zip(ra, rb)):
                steps += 1
                if cross and (exc_name(x["exc"]) in ("MissingNodeError", "MissingChildError") or exc_name(y["exc"]) in ("MissingNodeError", "MissingChildError")):
                    skipped_missing += 1
                    break  # the rest of this history is outside the cross-major claim
                ox, oy = observable(x), observable(y)
                compared += 1
                kinds.add((old, new, x["kind"], ox[0][0], len(ox[1])))
                if ox != oy:
                    what = x.get("line") if x["kind"] == "recv" else x.get("fields")
                    failures.append({"kind": "oracle", "sig": "C19:differs",
                                     "desc": f"step {i} {what!r}: protocol {old} gives {str(ox)[:160]}, protocol {new} gives {str(oy)[:160]}",
                                     "case": {"ops": ops, "old": old, "new": new, "step": i}})
                    break
    # every version on its own, nothing excluded (heartbeat responses of registered nodes under 2.2,
    # gateway-ready under 2.x included): no cross-version claim is made about these steps, they are
    # compared with the model only, so that the code behind the documented exception is tied too
    for v in VERSIONS:
        for _ in range(ctx.budget(12, 120)):
            ops = gen(rng, v)
            if v[0] == "2":
                ops += [("recv", f"{rng.choice([1, 2, 3])};255;3;0;22;{rng.choice(['5', 'abc', ''])}"),
                        ("recv", f"{rng.choice([1, 2, 3])};255;3;0;{32 if v == '2.2' else 22};500")]
            impls.append(run_one(ops, v))
    if model_available:
        outs = run_sharded([im.ops for im in impls], jobs=12)
        for im, o in zip(impls, outs):
            dis = compare(im, o)
            if dis:
                d = dis[0]
                failures.append({"kind": "corr", "sig": None,
                                 "desc": f"model/implementation differ at op {d['op'][:80]!r}: impl {d['impl'][:200]!r} model {d['model'][:200]!r}",
                                 "case": {"first": d}})
    for im in impls:
        im.close()
    # de-duplicate
    seen = set()
    uniq = []
    for f in failures:
        k = (f["kind"], f["desc"][:60])
        if k not in seen:
            seen.add(k)
            uniq.append(f)
    return {
        "evaluations": steps, "distinct_nontrivial": len(kinds),
        "rule": "for every ordered pair of supported versions: histories whose presentation/set/req/internal/stream types all exist in the older protocol, run on two real gateways pinned to the two versions; outcome, writes, registry and both buffers compared step by step (cross-major: up to the first missing-node/child error, gateway-ready excluded; 2.0/2.1 vs 2.2: heartbeat response excluded); distinct = (pair, op kind, outcome class, #writes)",
        "samples": [], "distribution": {"pairs": len(PAIRS), "histories_per_pair": n_hist, "steps_compared": compared, "cross_major_cut_at_missing": skipped_missing},
        "failures": uniq[:10], "exhaustive": False,
        "assumptions": ["a gateway is pinned to a version through the public protocol_version setter"],
    }


def replay(ctx, rp):
    case = rp.get("case") or {}
    if "ops" not in case:
        print(rp)
        return 0
    ops = [tuple(tuple(x) if isinstance(x, list) else x for x in op) for op in case["ops"]]
    a, b = run_one(ops, case["old"]), run_one(ops, case["new"])
    bad = 0
    for i, (x, y) in enumerate(zip([r for r in a.raw if r], [r for r in b.raw if r])):
        ox, oy = observable(x), observable(y)
        print(i, x.get("line") or x.get("fields"), "same" if ox == oy else f"DIFF {ox[:2]} vs {oy[:2]}")
        bad |= ox != oy
    return 1 if bad else 0


def run(ctx, model_available=True):
    """The whole run happens in a time zone that is not UTC (and has daylight saving all year), so
    that a difference between the versions in how the time reply is computed (local vs UTC seconds)
    cannot hide behind a zero offset; the harness's own clock oracle uses the same zone."""
    import os
    import time as _time

    old = os.environ.get("TZ")
    os.environ["TZ"] = "DDD-9:30EEE,J1/0,J365/23"
    _time.tzset()
    try:
        return _run_in_zone(ctx, model_available)
    finally:
        if old is None:
            os.environ.pop("TZ", None)
        else:
            os.environ["TZ"] = old
        _time.tzset()
