"""C13 — persistence round trip: load reads back every registry that save can write."""

from __future__ import annotations

import json

from common import Driver, dec_line, rng_for, snapshot
from histgen import Profile, gen_history, run_history
from persist_common import Files, legacy_of, py_to_tokens, show_registry, tokens_to_py

ATTRS = ["node_id", "node_type", "protocol_version", "sketch_name", "sketch_version", "battery_level",
         "heartbeat", "sleeping"]


def reg_plain(nodes: dict) -> dict:
    return {k: {**{a: getattr(n, a) for a in ATTRS},
                "children": {ck: {"child_id": c.child_id, "child_type": c.child_type, "description": c.description,
                                  "values": dict(c.values)} for ck, c in n.children.items()}}
            for k, n in nodes.items()}


def directed(rng):
    hs = []
    big = 10 ** 30
    texts = ["", "x", "Sketch åäö", "\U0001f600", "a;b", " lead", "1.0", "with \"quotes\" and \\", "\x00\x1f", "٣"]
    for i in range(40):
        ops = []
        for n in rng.sample([0, 1, 2, 100, 254, 255], rng.randint(1, 4)):
            ops.append(("put_node_full", n, rng.choice([17, 18, 0, -5, big]), rng.choice(texts), rng.choice(texts),
                        rng.choice(texts), rng.choice([0, 1, 55, 100]), rng.choice([0, 1111, -7, big]), rng.random() < 0.5))
            for c in rng.sample([0, 1, 7, 254, 255], rng.randint(0, 3)):
                ops.append(("add_child_full", n, c, rng.choice([0, 3, 6, 38, -1, big]), rng.choice(texts)))
                for vt in rng.sample([0, 2, 48, -3, big], rng.randint(0, 3)):
                    ops.append(("set_value", n, c, vt, rng.choice(texts)))
        hs.append(ops)
    # battery reports at the boundary through the wire (D10)
    for lvl in ["0", "100", "100.4", "99.5", "150", "-3", "-0.4", "1e2", "101", "100.5"]:
        hs.append([("recv", "1;255;0;0;17;2.0", ()), ("recv", f"1;255;3;0;0;{lvl}", ())])
    return hs


def run_ops(ops):
    """run_history plus the two direct-construction ops."""
    plain = []
    post = []
    for op in ops:
        plain.append(op)
    from common import Impl

    im = Impl()
    for op in ops:
        k = op[0]
        if k == "put_node_full":
            _, n, typ, ver, sn, sv, bat, hb, sl = op
            im.put_node(n, typ, ver=ver, sname=sn, sver=sv, bat=bat, hb=hb, sleeping=sl)
        elif k == "add_child_full":
            if op[1] in im.gw.nodes:
                im.add_child(op[1], op[2], op[3], desc=op[4])
        elif k == "recv":
            im.recv(op[1], op[2])
        elif k == "send":
            im.send(op[1], buffered=op[2], faults=op[3])
        elif k == "put_node":
            im.put_node(op[1], op[2], ver=op[3], sleeping=op[4])
        elif k == "add_child":
            if op[1] in im.gw.nodes:
                im.add_child(op[1], op[2], op[3])
        elif k == "set_value":
            if op[1] in im.gw.nodes and op[2] in im.gw.nodes[op[1]].children:
                im.set_value(op[1], op[2], op[3], op[4])
        elif k == "set_reboot":
            if op[1] in im.gw.nodes:
                im.set_reboot(op[1], op[2])
        elif k == "set_sleeping":
            if op[1] in im.gw.nodes:
                im.set_sleeping(op[1], op[2])
    return im


def concurrent_saves(base):
    import asyncio
    import os

    from aiomysensors.model.node import Node
    from aiomysensors.persistence import Persistence
    from props.c16 import InlineExecutor

    fs, n = [], 0
    for inline in (True, False):
        loop = asyncio.new_event_loop()
        if inline:
            loop.set_default_executor(InlineExecutor())
        for nn in (2, 3, 6):
            for delay in range(0, 4):
                for grow in (False, True):
                    n += 1
                    nodes = {i: Node(i, 17, "2.0") for i in range(1, nn + 1)}
                    for nd in nodes.values():
                        nd.add_child(0, 6)
                    path = os.path.join(base, f"conc{n}.json")
                    p = Persistence(nodes, path)
                    states = [reg_plain(nodes)]
                    window = [0, 0]

                    async def traffic():
                        j = 0
                        while True:
                            # what the message handlers do between two suspension points of save
                            nd = nodes[1 + j % nn]
                            nd.battery_level = (nd.battery_level + 1) % 100
                            nd.children[0].values[0] = f"{20 + j}.5"
                            if grow and j % 3 == 2:
                                nodes[100 + j] = Node(100 + j, 17, "2.0")
                            j += 1
                            states.append(reg_plain(nodes))
                            await asyncio.sleep(0)

                    async def main():
                        t = asyncio.get_running_loop().create_task(traffic())
                        for _ in range(delay):
                            await asyncio.sleep(0)
                        window[0] = len(states) - 1
                        try:
                            await p.save()
                        finally:
                            window[1] = len(states)
                            t.cancel()

                    try:
                        loop.run_until_complete(main())
                    except Exception as e:  # noqa: BLE001
                        fs.append({"kind": "oracle", "sig": "C13:concurrent-save", "desc": f"save of {nn} nodes while messages change the registry raised {type(e).__name__}: {e}", "case": {"nodes": nn, "delay": delay, "grow": grow}})
                        continue
                    loaded: dict = {}
                    try:
                        loop.run_until_complete(Persistence(loaded, path).load())
                        got = reg_plain(loaded)
                    except Exception as e:  # noqa: BLE001
                        got = type(e).__name__
                    if got not in states[window[0]: window[1] + 1]:
                        fs.append({"kind": "oracle", "sig": "C13:torn-snapshot",
                                   "desc": f"save of {nn} nodes while messages change the registry (one change per loop iteration, save started after {delay} iterations): the file holds none of the {window[1] - window[0] + 1} states the registry was in during the save (battery levels in the file {[v['battery_level'] for v in got.values()] if isinstance(got, dict) else got})",
                                   "case": {"nodes": nn, "delay": delay, "grow": grow, "inline_executor": inline}})
        loop.close()
    seen = {}
    for f in fs:
        seen.setdefault(f["sig"], f)
    return list(seen.values()), n


LOCALE_SCRIPT = r"""
import asyncio, json, sys
from aiomysensors.model.node import Node
from aiomysensors.persistence import Persistence
mode, path = sys.argv[1], sys.argv[2]
def plain(nodes):
    return {str(k): [n.node_id, n.node_type, n.protocol_version, n.sketch_name, n.sketch_version, n.battery_level,
                     {str(c): [ch.child_type, ch.description, {str(t): v for t, v in ch.values.items()}] for c, ch in n.children.items()}]
            for k, n in nodes.items()}
reg = {1: Node(1, 17, "2.0", sketch_name="K\u00f6k-sensor \u2744", sketch_version="\u00e5"), 2: Node(2, 17, "2.1")}
reg[1].add_child(0, 6, description="\u6e29\u5ea6")
reg[1].children[0].values[0] = "21,5\u00b0"
reg[2].add_child(3, 3, description="plain")
if mode == "save":
    asyncio.run(Persistence(reg, path).save())
    print(json.dumps(plain(reg)))
else:
    got = {}
    try:
        asyncio.run(Persistence(got, path).load())
        print(json.dumps(plain(got)))
    except Exception as e:
        print(json.dumps("raised " + type(e).__name__))
"""


def locale_roundtrips(base):
    """save and load in processes whose default text encoding differs (UTF-8 / ASCII): a file
    written by save is accepted by load and reproduces the registry whatever the locale."""
    import os
    import subprocess
    import sys

    envs = {"utf8": {"LC_ALL": "C.UTF-8", "PYTHONUTF8": "1"},
            "ascii": {"LC_ALL": "C", "LANG": "C", "PYTHONUTF8": "0", "PYTHONCOERCECLOCALE": "0"}}
    fs, n = [], 0

    def run(mode, path, loc):
        env = {k: v for k, v in os.environ.items() if not k.startswith(("LC_", "LANG", "PYTHONUTF8", "PYTHONCOERCE"))}
        env.update(envs[loc])
        r = subprocess.run([sys.executable, "-c", LOCALE_SCRIPT, mode, path], env=env, capture_output=True, text=True, timeout=60)
        return (r.stdout.strip().splitlines() or ["no output: " + r.stderr.strip()[-200:]])[-1]

    for sloc in envs:
        for lloc in envs:
            n += 1
            path = os.path.join(base, f"loc{n}.json")
            want = run("save", path, sloc)
            got = run("load", path, lloc)
            if got != want:
                fs.append({"kind": "oracle", "sig": "C13:locale",
                           "desc": f"registry with non-ASCII strings saved by a process with default encoding {sloc} and loaded by one with {lloc}: {got[:160]} (saved: {want[:80]})",
                           "case": {"save_locale": sloc, "load_locale": lloc}})
    seen = {}
    for f in fs:
        seen.setdefault(f["sig"], f)
    return list(seen.values()), n


def run(ctx, model_available=True):
    rng = rng_for(ctx.seed, "C13")
    files = Files()
    failures = []
    pr = Profile(odd_payload=0.35, unknown_node=0.1, p_send=0.03, max_len=25, nodes=[1, 2, 3],
                 weights=dict(node_pres=3, gw_pres=1, child_pres=4, set=5, req=0.5, battery=4, time=0.2, version=0.7,
                              id_request=1.5, config=0.2, log=0.2, sketch=3, gw_ready=0.2, discover_resp=0.3,
                              heartbeat=3, pre_sleep=2, post_sleep=0.3, other_internal=0.5, stream=0.3))
    hs = directed(rng) + [gen_history(rng, pr) for _ in range(ctx.budget(300, 5000))]
    d = Driver()
    checks = []
    dist = {"registries": 0, "nodes": 0, "children": 0, "values": 0, "non_ascii_strings": 0, "legacy_files": 0,
            "empty_registries": 0, "battery_levels": {}}
    shapes = set()
    for ops in hs:
        im = run_ops(ops)
        nodes = im.gw.nodes
        before = reg_plain(nodes)
        dist["registries"] += 1
        dist["nodes"] += len(nodes)
        if not nodes:
            dist["empty_registries"] += 1
        for n in nodes.values():
            dist["children"] += len(n.children)
            dist["battery_levels"][str(n.battery_level)] = dist["battery_levels"].get(str(n.battery_level), 0) + 1
            for c in n.children.values():
                dist["values"] += len(c.values)
            if any(ord(ch) > 127 for ch in str(n.sketch_name) + str(n.sketch_version) + str(n.protocol_version)):
                dist["non_ascii_strings"] += 1
        shapes.add((len(nodes), tuple(sorted(len(n.children) for n in nodes.values())),
                    tuple(sorted({n.battery_level for n in nodes.values()}))[:3],
                    any(n.sleeping for n in nodes.values()), any(c.values for n in nodes.values() for c in n.children.values())))
        try:
            content = files.save(nodes)
        except Exception as e:  # noqa: BLE001
            failures.append({"kind": "oracle", "sig": "C13:save-raises", "desc": f"save raised {type(e).__name__}: {e}", "case": {"ops": ops}})
            im.close()
            continue
        outcome, loaded, _ = files.load(content)
        if not outcome.startswith("OK"):
            lvl = sorted({n.battery_level for n in nodes.values()})
            sig = "C13:battery-out-of-range" if any(not 0 <= b <= 100 for b in lvl) else "C13:not-accepted"
            failures.append({"kind": "oracle", "sig": sig,
                             "desc": f"the file written by save is not accepted by load ({outcome}); battery levels in the registry {lvl}; history {ops[-3:]}",
                             "case": {"ops": ops, "file": content.decode(errors='replace')[:2000]}})
        else:
            after = reg_plain(loaded)
            if after != before:
                diff = next((k for k in set(before) | set(after) if before.get(k) != after.get(k)), None)
                failures.append({"kind": "oracle", "sig": "C13:roundtrip",
                                 "desc": f"save then load changed node {diff}: before {before.get(diff)} after {after.get(diff)}",
                                 "case": {"ops": ops}})
        parsed = json.loads(content)
        # legacy layout loads to the same registry (nodes that are not sleeping: the legacy layout has no such member)
        if nodes and not any(n.sleeping for n in nodes.values()) and outcome.startswith("OK"):
            for a, b in ((False, False), (True, True)):
                leg = legacy_of(parsed, a, b)
                lo, lnodes, _ = files.load(json.dumps(leg).encode())
                dist["legacy_files"] += 1
                if lo != outcome:
                    failures.append({"kind": "oracle", "sig": "C13:legacy",
                                     "desc": f"the legacy-layout equivalent loads differently: native {outcome[:200]} legacy {lo[:200]}",
                                     "case": {"ops": ops, "legacy": leg}})
        # model: same world, dump and load
        base = len(d.ops)
        for op in im.ops:
            d.add(op)
        i_dump = d.add("PDUMP")
        i_load = d.add("PLOAD " + py_to_tokens(parsed))
        i_leg = d.add("PLEGACY 1 1")
        checks.append((ops, i_dump, i_load, i_leg, parsed, outcome))
        im.close()
    if model_available:
        outs = d.run()
        for ops, i_dump, i_load, i_leg, parsed, outcome in checks:
            try:
                mdump = tokens_to_py(outs[i_dump])
            except Exception as e:  # noqa: BLE001
                mdump = f"unparsable model output {e}"
            if mdump != parsed:
                failures.append({"kind": "corr", "sig": None,
                                 "desc": f"dump differs: file {json.dumps(parsed)[:300]} model {json.dumps(mdump)[:300] if not isinstance(mdump, str) else mdump}",
                                 "case": {"ops": ops}})
            if outs[i_load] != outcome and not (outcome == "ERR" and outs[i_load] == "ERR"):
                failures.append({"kind": "corr", "sig": None,
                                 "desc": f"load differs: implementation {outcome[:300]} model {outs[i_load][:300]}", "case": {"ops": ops}})
            try:
                mleg = tokens_to_py(outs[i_leg])
                if mleg != legacy_of(parsed, True, True) and not any(n.get("sleeping") for n in parsed.values()):
                    failures.append({"kind": "corr", "sig": None, "desc": f"legacy layout differs: model {json.dumps(mleg)[:300]} expected {json.dumps(legacy_of(parsed, True, True))[:300]}", "case": {"ops": ops}})
            except Exception as e:  # noqa: BLE001
                failures.append({"kind": "corr", "sig": None, "desc": f"legacy output unparsable: {e}", "case": {"ops": ops}})
    # one Persistence object over its life: a save that fails (directory missing / not writable),
    # storage recovers, save again (registry unchanged or changed), then load
    import os

    from aiomysensors import exceptions as _ex
    from aiomysensors.persistence import Persistence

    sessions = 0
    for ops in hs[:: max(1, len(hs) // ctx.budget(40, 400))]:
        im = run_ops(ops)
        nodes = im.gw.nodes
        if not nodes:
            im.close()
            continue
        # (save-forget-save last: it empties the registry — every node removed by the application,
        # then saved: the file must load to the empty registry, not to what it held before)
        for scenario in ("fail-then-save", "save-change-save", "save-save", "save-forget-save"):
            sessions += 1
            sub = os.path.join(files.dir, f"sub{sessions}")
            path = os.path.join(sub, "p.json")
            p = Persistence(nodes, path)
            try:
                if scenario == "fail-then-save":
                    try:
                        files.loop.run_until_complete(p.save())
                        first = "saved"
                    except _ex.PersistenceWriteError:
                        first = "write error"
                    os.mkdir(sub)
                    files.loop.run_until_complete(p.save())
                elif scenario == "save-change-save":
                    os.mkdir(sub)
                    files.loop.run_until_complete(p.save())
                    k0 = next(iter(nodes))
                    nodes[k0].sketch_name = nodes[k0].sketch_name + "!"
                    nodes[k0].battery_level = (nodes[k0].battery_level + 1) % 101
                    files.loop.run_until_complete(p.save())
                elif scenario == "save-forget-save":
                    os.mkdir(sub)
                    files.loop.run_until_complete(p.save())
                    nodes.clear()
                    files.loop.run_until_complete(p.save())
                else:
                    os.mkdir(sub)
                    files.loop.run_until_complete(p.save())
                    files.loop.run_until_complete(p.save())
            except Exception as e:  # noqa: BLE001
                failures.append({"kind": "oracle", "sig": "C13:session", "desc": f"{scenario}: {type(e).__name__}: {e}", "case": {"ops": ops, "scenario": scenario}})
                continue
            loaded: dict = {}
            q = Persistence(loaded, path)
            try:
                files.loop.run_until_complete(q.load())
                got = reg_plain(loaded)
            except Exception as e:  # noqa: BLE001
                got = f"{type(e).__name__}"
            if got != reg_plain(nodes):
                failures.append({"kind": "oracle", "sig": "C13:session",
                                 "desc": f"{scenario} on one Persistence object: the file afterwards does not load to the registry that was saved (got {str(got)[:200]})",
                                 "case": {"ops": ops, "scenario": scenario}})
        im.close()
    dist["persistence_sessions"] = sessions
    # a save while messages keep changing the registry (same event loop): the file must
    # hold ONE state the registry was in while save ran (the model's dump is a function
    # of one registry value: the snapshot is taken in one synchronous step)
    lf, ln = locale_roundtrips(files.dir)
    failures.extend(lf)
    dist["locale_roundtrips"] = ln
    cf, cn = concurrent_saves(files.dir)
    failures.extend(cf)
    dist["saves_with_concurrent_changes"] = cn
    # the two fixtures of the repository's own tests
    import glob

    for fx in glob.glob("/repo/tests/fixtures/*persistence*.json"):
        with open(fx, "rb") as f:
            content = f.read()
        outcome, loaded, _ = files.load(content)
        if not outcome.startswith("OK"):
            failures.append({"kind": "oracle", "sig": "C13:fixture", "desc": f"fixture {fx} does not load: {outcome}", "case": {"file": fx}})
    files.close()
    seen = {}
    for f in failures:
        seen.setdefault((f["kind"], f["sig"]), f)
    return {
        "evaluations": dist["registries"] + dist["legacy_files"],
        "distinct_nontrivial": len(shapes),
        "rule": "registries reached through generated message histories (boundary battery payloads, empty / non-ASCII / 4-byte strings, negative and 30-digit types) and directly constructed ones; real Persistence.save to a real file, real load into an empty registry, attribute-wise comparison; legacy-layout equivalent of every file without sleeping nodes; distinct = (#nodes, children per node, battery levels, any sleeping, any values) shapes",
        "samples": [str(h[:3])[:200] for h in hs[40:43]],
        "distribution": dist,
        "failures": list(seen.values()),
        "exhaustive": False,
        "assumptions": ["json.dumps / json.loads round trip the value (text layer not modelled)", "save snapshots the registry in one synchronous step (checked: saves racing registry changes on one event loop)", "Node.reboot is not part of the persisted state (not listed by the property)"],
    }


def replay(ctx, rp):
    case = rp.get("case") or {}
    ops = case.get("ops")
    if not ops:
        print(rp)
        return 0
    ops = [tuple(tuple(x) if isinstance(x, list) else x for x in op) for op in ops]
    im = run_ops(ops)
    files = Files()
    content = files.save(im.gw.nodes)
    print(content.decode()[:1500])
    outcome, loaded, _ = files.load(content)
    print(outcome[:1500])
    ok = outcome.startswith("OK") and reg_plain(loaded) == reg_plain(im.gw.nodes)
    if case.get("scenario") == "save-forget-save":
        import os

        from aiomysensors.persistence import Persistence

        path = os.path.join(files.dir, "forget.json")
        p = Persistence(im.gw.nodes, path)
        files.loop.run_until_complete(p.save())
        im.gw.nodes.clear()
        files.loop.run_until_complete(p.save())
        back: dict = {}
        files.loop.run_until_complete(Persistence(back, path).load())
        print("saved, every node removed, saved again; the file loads to nodes", sorted(back))
        ok = ok and not back
    files.close()
    im.close()
    return 0 if ok else 1
