"""C18 — the MQTT transport maps topics and lines one-to-one and never goes silently deaf."""

from __future__ import annotations

import asyncio
import itertools

from common import Driver, dec_line, enc_bytes, enc_str, ex, rng_for
from props.codec_common import impl_decode, schemas, wf_fields

PREFIXES = [("mygateway1-out", "mygateway1-in"), ("a/b/c", "x/5/y"), ("in", "out/"), ("", ""), ("p+q", "r#s"), ("1/2/3/4/5", "9/8/7")]
PAYLOADS = ["", "57", "1.0;2.0;3.0", ";", "a/b", "x;y/z", "åäö", "\U0001f600", "0", "  lead", "a;b;c;d;e;f;g"]


def recording_transport(in_prefix, out_prefix):
    from aiomysensors.transport.mqtt import MQTTTransport

    class Rec(MQTTTransport):
        def __init__(self):
            super().__init__(in_prefix=in_prefix, out_prefix=out_prefix)
            self.published = []
            self.subs = []

        async def _connect(self):
            pass

        async def _disconnect(self):
            pass

        async def _publish(self, topic, payload, qos):
            self.published.append((topic, payload, qos))

        async def _subscribe(self, topic, qos):
            self.subs.append((topic, qos))

    return Rec()


def mqtt_match(flt: str, topic: str) -> bool:
    """MQTT specification topic filter matching ('+' = exactly one level)."""
    f, t = flt.split("/"), topic.split("/")
    if len(f) != len(t):
        return False
    return all(a == "+" or a == b for a, b in zip(f, t))


class FakeMessage:
    def __init__(self, topic, payload):
        class _T:
            def __init__(self, v):
                self.value = v

        self.topic = _T(topic)
        self.payload = payload


class FakeAioMqtt:
    """Stands in for aiomqtt.Client: the message iterator stays pending like the real one."""

    instances = []

    def __init__(self, *a, **kw):
        self.q: asyncio.Queue = asyncio.Queue()
        self.published = []
        self.subscribed = []
        self.entered = self.exited = 0
        FakeAioMqtt.instances.append(self)
        self.messages = self._messages()

    async def __aenter__(self):
        self.entered += 1
        return self

    async def __aexit__(self, *a):
        self.exited += 1

    async def _messages(self):
        from aiomqtt import MqttError

        while True:
            item = await self.q.get()
            if item == "ERROR":
                raise MqttError("broker went away")
            yield item

    async def publish(self, topic, **kw):
        self.published.append((topic, kw))

    async def subscribe(self, topic, **kw):
        self.subscribed.append((topic, kw))


def spin(loop, n=5):
    async def _s():
        for _ in range(n):
            await asyncio.sleep(0)
    loop.run_until_complete(_s())


def gen_messages(ctx, rng):
    msgs = []
    for n, c, k, a in itertools.product([0, 1, 254, 255], [0, 7, 255], range(5), (0, 1)):
        for t in (0, 3, 49):
            if wf_fields(n, c, k, a, t):
                msgs.append((n, c, k, a, t, rng.choice(PAYLOADS)))
    for _ in range(ctx.budget(300, 6000)):
        while True:
            n, c, k, a, t = rng.randint(0, 255), rng.choice([0, 1, 255, rng.randint(0, 255)]), rng.randint(0, 4), rng.randint(0, 1), rng.choice([0, 3, 4, 17, 49, -2, 10 ** 20])
            if wf_fields(n, c, k, a, t):
                break
        msgs.append((n, c, k, a, t, rng.choice(PAYLOADS)))
    return msgs


def run(ctx, model_available=True):
    from aiomysensors.transport import mqtt as mqtt_mod

    rng = rng_for(ctx.seed, "C18")
    loop = asyncio.new_event_loop()
    failures = []
    d = Driver()
    exp = []
    dist = {"writes": 0, "echoes": 0, "subscription_checks": 0, "event_sequences": 0, "payload_with_delimiter": 0, "prefixes": len(PREFIXES)}
    kinds = set()
    msgs = gen_messages(ctx, rng)
    for i, m in enumerate(msgs):
        n, c, k, a, t, p = m
        inpre, outpre = PREFIXES[i % len(PREFIXES)]
        tr = recording_transport(inpre, outpre)
        line = f"{n};{c};{k};{a};{t};{p}\n"
        dist["writes"] += 1
        if ";" in p:
            dist["payload_with_delimiter"] += 1
        kinds.add((k, a, ";" in p, "/" in p, "/" in outpre, p == ""))
        try:
            loop.run_until_complete(tr.write(line))
            pub = tr.published[-1]
        except Exception as e:  # noqa: BLE001
            failures.append({"kind": "oracle", "sig": "C18:publish-delimiter" if ";" in p else "C18:publish", "desc": f"write({line!r}) with out-prefix {outpre!r} raised {type(e).__name__}: {e}", "case": {"line": line, "out_prefix": outpre}})
            continue
        want = (f"{outpre}/{n}/{c}/{k}/{a}/{t}", p, a)
        if pub != want:
            failures.append({"kind": "oracle", "sig": "C18:publish", "desc": f"write({line!r}) with out-prefix {outpre!r} published {pub}, expected {want}", "case": {"line": line, "out_prefix": outpre}})
        # echoed under the in-prefix and read back
        tr._receive(f"{inpre}/{n}/{c}/{k}/{a}/{t}", pub[1])
        back = loop.run_until_complete(tr.read())
        dist["echoes"] += 1
        if back != line.rstrip("\n"):
            failures.append({"kind": "oracle", "sig": "C18:echo", "desc": f"message {m} echoed under {inpre!r} is read back as {back!r}", "case": {"line": line, "in_prefix": inpre}})
        else:
            dec = impl_decode(i % len(schemas()), back)
            if dec != f"OK {n} {c} {k} {a} {t} {len(p)}:{p}":
                failures.append({"kind": "oracle", "sig": "C18:echo", "desc": f"echo of {m} decodes to {dec!r}", "case": {"line": line}})
        d.add(f"MQW {enc_str(outpre)} {enc_str(line)}")
        exp.append(("w", (outpre, line), f"{pub[2]}|{len(pub[0])}|{pub[0]}{pub[1]}"))
        d.add(f"MQR {enc_str(inpre + f'/{n}/{c}/{k}/{a}/{t}')} {enc_str(pub[1])}")
        exp.append(("r", (inpre, m), back))
    # subscriptions cover every in-prefix/n/c/k/a/t with k in 0..4, and their QoS
    for inpre, outpre in PREFIXES:
        tr = recording_transport(inpre, outpre)
        loop.run_until_complete(tr.connect())
        d.add(f"MQS {enc_str(inpre)}")
        exp.append(("s", inpre, "".join(f"{t} {q}|" for t, q in tr.subs)))
        for n, c, k, a, t in itertools.product(["0", "255", "17"], ["0", "255"], range(0, 6), ["0", "1"], ["0", "49", "-1"]):
            topic = f"{inpre}/{n}/{c}/{k}/{a}/{t}"
            dist["subscription_checks"] += 1
            covered = any(mqtt_match(f, topic) for f, _ in tr.subs)
            if k <= 4 and not covered:
                failures.append({"kind": "oracle", "sig": "C18:subscription", "desc": f"no subscription of {[f for f, _ in tr.subs]} matches {topic!r}", "case": {"in_prefix": inpre, "topic": topic}})
            if k <= 4:
                f0 = tr.subs[0][0]
                d.add(f"MQM {enc_str([f for f, _ in tr.subs if mqtt_match(f, topic)][0] if covered else f0)} {enc_str(topic)}")
                exp.append(("m", topic, "1" if covered else "0"))
    # the client's receive loop over a fake aiomqtt client: arrival order, errors in place, never deaf
    orig = mqtt_mod.AsyncioClient
    mqtt_mod.AsyncioClient = FakeAioMqtt
    try:
        for _ in range(ctx.budget(150, 2500)):
            dist["event_sequences"] += 1
            inpre, outpre = rng.choice(PREFIXES[:4])
            cl = mqtt_mod.MQTTClient("broker", 1883, in_prefix=inpre, out_prefix=outpre)
            try:
                loop.run_until_complete(cl.connect())
            except Exception as e:  # noqa: BLE001
                failures.append({"kind": "oracle", "sig": "C18:connect", "desc": f"connect raised {type(e).__name__}", "case": {}})
                continue
            fake = FakeAioMqtt.instances[-1]
            # writes through the client itself: what reaches the broker client's publish
            for m in ([mm for mm in msgs if mm[5] == "" and mm[3] == 1][:2] if dist["event_sequences"] % 3 == 0 else []) + rng.sample(msgs, 3):
                n, c, k, a, t, p = m
                if dist["event_sequences"] % 2 == 0 and rng.random() < 0.5:
                    p = ""
                line = f"{n};{c};{k};{a};{t};{p}\n"
                dist["client_writes"] = dist.get("client_writes", 0) + 1
                kinds.add(("client", k, a, p == ""))
                try:
                    loop.run_until_complete(cl.write(line))
                    topic, kw = fake.published[-1]
                except Exception as e:  # noqa: BLE001
                    failures.append({"kind": "oracle", "sig": "C18:client-publish", "desc": f"MQTTClient.write({line!r}) raised {type(e).__name__}: {e}", "case": {"line": line, "out_prefix": outpre}})
                    continue
                got = (topic, kw.get("payload") or "", kw.get("qos", 0), bool(kw.get("retain", False)))
                want_pub = (f"{outpre}/{n}/{c}/{k}/{a}/{t}", p, a, False)
                if got != want_pub:
                    failures.append({"kind": "oracle", "sig": "C18:client-publish", "desc": f"MQTTClient.write({line!r}) called the broker client's publish with (topic, payload, qos, retain) = {got} (keywords {kw}), the property requires {want_pub}", "case": {"line": line, "out_prefix": outpre, "keywords": {kk: str(vv) for kk, vv in kw.items()}}})
                d.add(f"MQP {enc_str(outpre)} {enc_str(line)}")
                exp.append(("p", (outpre, line), f"{kw.get('qos', 0)}|{'R' if kw.get('retain', False) else '-'}|{'S' + kw['payload'] if 'payload' in kw else 'N'}|{topic}"))
            evs = []
            burst = rng.random() < 0.06
            for _ in range(rng.randint(120, 400) if burst else rng.randint(0, 6)):
                x = rng.random() * (0.9 if burst else 1.0)   # a burst ends with (at most) one broker error
                if x < 0.65:
                    evs.append(("M", f"{inpre}/1/2/1/0/{rng.randint(0, 9)}", rng.choice(["1", "x;y", "åä", ""]).encode()))
                elif x < 0.9:
                    evs.append(("M", f"{inpre}/1/2/1/0/2", rng.choice([b"\xff\xfe", b"\xc3", b"ok\x80"])))
                else:
                    evs.append(("E",))
            if burst and rng.random() < 0.5:
                evs.append(("E",))
            for e in evs:
                fake.q.put_nowait("ERROR" if e[0] == "E" else FakeMessage(e[1], e[2]))
            spin(loop, 12 + 2 * len(evs))
            if burst:
                dist["unread_bursts"] = dist.get("unread_bursts", 0) + 1
            # expected queue entries from the property text
            want = []
            for e in evs:
                if e[0] == "E":
                    want.append("RF")
                    break
                try:
                    p = e[2].decode()
                    want.append("L " + ";".join(e[1].split("/")[-5:] + [p]))
                except UnicodeDecodeError:
                    want.append("RE")
            got = []
            for _ in want:
                task = loop.create_task(cl.read())
                spin(loop, 4)
                if not task.done():
                    task.cancel()
                    spin(loop, 2)
                    got.append("HANG")
                    break
                e = task.exception()
                if e is None:
                    got.append("L " + task.result())
                elif isinstance(e, ex.TransportFailedError):
                    got.append("RF")
                elif isinstance(e, ex.TransportError):
                    got.append("RE")
                else:
                    got.append("ESCAPE " + type(e).__name__)
            if got != want:
                sig = "C18:deaf" if "HANG" in got else "C18:fifo"
                failures.append({"kind": "oracle", "sig": sig, "desc": f"{len(evs)} broker events {evs[:8]}{'...' if len(evs) > 8 else ''} arrived before the first read: reads give {got[:8] + ['...'] + got[-3:] if len(got) > 12 else got}, expected {want[:8] + ['...'] + want[-3:] if len(want) > 12 else want}", "case": {"events": [list(map(str, e)) for e in evs[:50]], "n_events": len(evs)}})
            # nothing more is pending
            task = loop.create_task(cl.read())
            spin(loop, 3)
            if task.done() and "E" not in [e[0] for e in evs]:
                failures.append({"kind": "oracle", "sig": "C18:fifo", "desc": f"an extra read completed after {len(want)} events", "case": {}})
            task.cancel()
            spin(loop, 2)
            try:
                loop.run_until_complete(cl.disconnect())
            except BaseException as e:  # noqa: BLE001
                failures.append({"kind": "oracle", "sig": "C18:disconnect-cancelled" if isinstance(e, asyncio.CancelledError) else "C18:disconnect",
                                 "desc": f"connect followed by disconnect raised {type(e).__name__}", "case": {}})
            if dist["event_sequences"] % 4 == 0:
                # the same transport object connects again (a reconnect loop): a new broker client,
                # which must be subscribed like the first one, and whose messages must be read
                dist["reconnects"] = dist.get("reconnects", 0) + 1
                try:
                    loop.run_until_complete(cl.connect())
                    fake2 = FakeAioMqtt.instances[-1]
                    subs2 = sorted(t for t, _ in fake2.subscribed)
                    subs1 = sorted(t for t, _ in fake.subscribed)
                    topic = f"{inpre}/7/1/1/0/2"
                    if fake2 is fake or subs2 != subs1 or not any(mqtt_match(f, topic) for f in subs2):
                        failures.append({"kind": "oracle", "sig": "C18:resubscribe",
                                         "desc": f"second connect of the same MQTTClient: the new broker client is subscribed to {subs2}, the first one was subscribed to {subs1}; a message on {topic!r} would not be received",
                                         "case": {"in_prefix": inpre}})
                    fake2.q.put_nowait(FakeMessage(topic, b"again"))
                    spin(loop, 6)
                    task = loop.create_task(cl.read())
                    spin(loop, 4)
                    if not task.done() or task.exception() is not None or task.result() != "7;1;1;0;2;again":
                        failures.append({"kind": "oracle", "sig": "C18:resubscribe", "desc": "after connect, disconnect, connect on one MQTTClient a broker message is not read back", "case": {"in_prefix": inpre}})
                    if not task.done():
                        task.cancel()
                        spin(loop, 2)
                    loop.run_until_complete(cl.disconnect())
                except BaseException as e:  # noqa: BLE001
                    failures.append({"kind": "oracle", "sig": "C18:reconnect", "desc": f"connect / disconnect / connect / disconnect on one MQTTClient raised {type(e).__name__}: {e}", "case": {}})
            d.add(f"MQL {len(evs)} " + " ".join("E" if e[0] == "E" else f"M {enc_str(e[1])} {enc_bytes(e[2])}" for e in evs))
            exp.append(("l", evs, "".join((f"L {len(w[2:])}:{w[2:]}" if w.startswith("L ") else w) + "|" for w in want)))
        # a read that is pending while another task disconnects and connects again (listen() in its
        # own task during a reconnect) must see what the new connection receives; lines received
        # but not read yet when the disconnect happens are still delivered, once
        for j in range(ctx.budget(4, 24)):
            dist["reads_across_reconnect"] = dist.get("reads_across_reconnect", 0) + 1
            cl = mqtt_mod.MQTTClient("broker", 1883, in_prefix="gw-out", out_prefix="gw-in")
            try:
                loop.run_until_complete(cl.connect())
                fake = FakeAioMqtt.instances[-1]
                unread = [f"7;1;1;0;2;u{i}" for i in range(j % 3)]
                for i, _ in enumerate(unread):
                    fake.q.put_nowait(FakeMessage("gw-out/7/1/1/0/2", f"u{i}".encode()))
                spin(loop, 6)
                pending = None
                if not unread:
                    pending = loop.create_task(cl.read())
                    spin(loop, 3)
                loop.run_until_complete(cl.disconnect())
                spin(loop, j % 2 * 3)
                loop.run_until_complete(cl.connect())
                fake2 = FakeAioMqtt.instances[-1]
                fake2.q.put_nowait(FakeMessage("gw-out/8/2/1/0/2", b"after"))
                spin(loop, 6)
                got = []
                for _ in range(len(unread) + 1):
                    task = pending or loop.create_task(cl.read())
                    pending = None
                    spin(loop, 4)
                    if not task.done():
                        task.cancel()
                        spin(loop, 2)
                        got.append("HANG")
                        break
                    got.append(task.result() if task.exception() is None else type(task.exception()).__name__)
                want = unread + ["8;2;1;0;2;after"]
                if got != want:
                    failures.append({"kind": "oracle", "sig": "C18:deaf" if "HANG" in got else "C18:fifo",
                                     "desc": f"{'a read pending across' if not unread else str(len(unread)) + ' line(s) received but unread at'} disconnect + connect, then the broker delivers one message: reads give {got}, expected {want}",
                                     "case": {"unread": unread}})
                loop.run_until_complete(cl.disconnect())
            except BaseException as e:  # noqa: BLE001
                failures.append({"kind": "oracle", "sig": "C18:reconnect", "desc": f"reads across a reconnect of one MQTTClient raised {type(e).__name__}: {e}", "case": {}})
        # one client over its whole life: random interleavings of connect / disconnect / broker
        # deliveries (messages, undecodable payloads, broker errors) / reads, compared op by op
        # with the model (Mqtt.life_run; C18_life_fifo is the theorem about every interleaving)
        for _ in range(ctx.budget(80, 1200)):
            dist["life_histories"] = dist.get("life_histories", 0) + 1
            cl = mqtt_mod.MQTTClient("broker", 1883, in_prefix="gw-out", out_prefix="gw-in")
            ops, outs = [], []
            connected = False
            for _ in range(rng.randint(3, 14)):
                x = rng.random()
                if x < 0.17:
                    ops.append(("C",))
                    try:
                        loop.run_until_complete(cl.connect())
                        connected = True
                        outs.append("ok")
                    except RuntimeError:
                        outs.append("RT")
                elif x < 0.32:
                    ops.append(("D",))
                    try:
                        loop.run_until_complete(cl.disconnect())
                        connected = False
                        outs.append("ok")
                    except RuntimeError:
                        outs.append("RT")
                elif x < 0.7:
                    y = rng.random()
                    if y < 0.7:
                        op = ("M", f"gw-out/{rng.randint(1, 9)}/{rng.randint(0, 3)}/1/0/2", rng.choice([b"1", b"x;y", "\u00e5".encode(), b""]))
                    elif y < 0.85:
                        op = ("M", "gw-out/1/2/1/0/2", rng.choice([b"\xff\xfe", b"\xc3"]))
                    else:
                        op = ("E",)
                    ops.append(op)
                    if connected:
                        FakeAioMqtt.instances[-1].q.put_nowait("ERROR" if op[0] == "E" else FakeMessage(op[1], op[2]))
                        spin(loop, 5)
                    outs.append("ok")
                else:
                    ops.append(("R",))
                    task = loop.create_task(cl.read())
                    spin(loop, 4)
                    if not task.done():
                        task.cancel()
                        spin(loop, 2)
                        outs.append("P")
                    else:
                        e = task.exception()
                        outs.append("L " + task.result() if e is None else "RF" if isinstance(e, ex.TransportFailedError)
                                    else "RE" if isinstance(e, ex.TransportError) else "ESCAPE " + type(e).__name__)
            if connected:
                try:
                    loop.run_until_complete(cl.disconnect())
                except BaseException as e:  # noqa: BLE001
                    failures.append({"kind": "oracle", "sig": "C18:disconnect", "desc": f"disconnect at the end of a life history raised {type(e).__name__}", "case": {}})
            d.add(f"MQH {len(ops)} " + " ".join(o[0] if o[0] != "M" else f"M {enc_str(o[1])} {enc_bytes(o[2])}" for o in ops))
            exp.append(("h", [list(map(str, o)) for o in ops], "".join(o + "|" for o in outs)))
        # two transports side by side: what arrives for one is read from that one only
        for _ in range(ctx.budget(6, 40)):
            dist["two_client_runs"] = dist.get("two_client_runs", 0) + 1
            ca = mqtt_mod.MQTTClient("broker", 1883, in_prefix="ga-out", out_prefix="ga-in")
            cb = mqtt_mod.MQTTClient("broker", 1883, in_prefix="gb-out", out_prefix="gb-in")
            try:
                loop.run_until_complete(ca.connect())
                fa = FakeAioMqtt.instances[-1]
                loop.run_until_complete(cb.connect())
                fb = FakeAioMqtt.instances[-1]
                na, nb = rng.randint(1, 3), rng.randint(0, 2)
                for k in range(na):
                    fa.q.put_nowait(FakeMessage(f"ga-out/1/2/1/0/{k}", b"a"))
                for k in range(nb):
                    fb.q.put_nowait(FakeMessage(f"gb-out/9/8/1/0/{k}", b"b"))
                spin(loop, 12)
                got = {"a": [], "b": []}
                for name, cl2, cnt in (("b", cb, nb + 1), ("a", ca, na + 1)):
                    for _k in range(cnt):
                        task = loop.create_task(cl2.read())
                        spin(loop, 4)
                        if task.done() and task.exception() is None:
                            got[name].append(task.result())
                        else:
                            task.cancel()
                            spin(loop, 2)
                            break
                want = {"a": [f"1;2;1;0;{k};a" for k in range(na)], "b": [f"9;8;1;0;{k};b" for k in range(nb)]}
                if got != want:
                    failures.append({"kind": "oracle", "sig": "C18:two-clients",
                                     "desc": f"two MQTT clients side by side: broker delivered {want['a']} to A and {want['b']} to B; A's reads gave {got['a']}, B's reads gave {got['b']}",
                                     "case": {"a": na, "b": nb}})
                loop.run_until_complete(ca.disconnect())
                loop.run_until_complete(cb.disconnect())
            except BaseException as e:  # noqa: BLE001
                failures.append({"kind": "oracle", "sig": "C18:two-clients", "desc": f"two MQTT clients side by side raised {type(e).__name__}: {e}", "case": {}})
    finally:
        mqtt_mod.AsyncioClient = orig
        FakeAioMqtt.instances.clear()
    if model_available:
        outs = d.run()
        for (kind, inp, want), mout in zip(exp, outs):
            if mout != want:
                failures.append({"kind": "corr", "sig": None, "desc": f"mqtt model differs ({kind} {str(inp)[:120]}): implementation {want[:160]!r} model {mout[:160]!r}", "case": {"kind": kind, "input": str(inp)[:500]}})
    loop.close()
    seen = {}
    for f in failures:
        seen.setdefault((f["kind"], f["sig"]), f)
    return {
        "evaluations": dist["writes"] + dist["echoes"] + dist["subscription_checks"] + dist["event_sequences"],
        "distinct_nontrivial": len(kinds),
        "rule": "messages (all commands, boundary ids, payloads with ';' and '/', non-ASCII, empty) x 6 prefix pairs (with and without '/', '+', '#') through a recording MQTTTransport: publish arguments, echo under the in-prefix, read back, decode; subscriptions against MQTT filter matching for commands 0..5; MQTTClient over a fake aiomqtt client whose message iterator stays pending: writes through the client (keyword arguments of the broker client's publish: qos, retain, payload), event sequences (some of them bursts of 120-400 messages that arrive before the first read) with undecodable payloads and broker errors, reads in order, connect/disconnect; distinct = (command, ack, ';' in payload, '/' in payload, '/' in prefix, empty payload)",
        "samples": [str(m) for m in msgs[:3]],
        "distribution": dist,
        "failures": list(seen.values()),
        "exhaustive": False,
        "assumptions": ["MQTT '+' matches exactly one topic level (MQTT specification)", "the broker and aiomqtt / paho are replaced by a fake client"],
    }


def replay(ctx, rp):
    print(rp.get("what"))
    print(rp.get("case"))
    return 0
