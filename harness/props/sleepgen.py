"""Generator of sleep-buffer histories (C07, C08, C12): tagged set commands to
sleeping and awake nodes, wake signals of each node, re-presentations, other
traffic; optionally write faults during releases."""

from __future__ import annotations

from histgen import Profile, gen_line

HB, PRE = 22, 32


def gen_sleep_history(rng, with_faults: bool, versions=("2.0", "2.1", "2.2", "2.2", "2.0", "1.5")):
    ops = []
    v = rng.choice(versions)
    ops.append(("recv", f"0;255;3;0;2;{v}", ()))
    nodes = [1, 2, 3][: rng.randint(1, 3)]
    stored: dict = {}
    for n in nodes:
        ops.append(("put_node", n, 17, v, rng.random() < 0.65))
        for c in (0, 1):
            if rng.random() < 0.9:
                ops.append(("add_child", n, c, 3))
                for t in (2, 3):
                    if rng.random() < 0.6:
                        # a stored value: what the gateway answers a `req` of the node with.  It is a
                        # tag of its own so that the application may later send exactly this value
                        stored[(n, c, t)] = f"tag9{n}{c}{t}"
                        ops.append(("set_value", n, c, t, stored[(n, c, t)]))
    tag = 0
    pr = Profile(nodes=nodes, p_malformed=0.0, unknown_node=0.05)
    right = HB if v in ("2.0", "2.1") else PRE
    other = PRE if right == HB else HB

    def wake(n, faults=()):
        t = right if rng.random() < 0.85 else other
        payload = rng.choice(["0", "500", "1111"]) if t == HB else rng.choice(["", "500"])
        if t == HB and rng.random() < 0.05:
            payload = "x"
        return ("recv", f"{n};255;3;0;{t};{payload}", tuple(faults))

    for _ in range(rng.randint(3, 18)):
        x = rng.random()
        if x < 0.45:
            n = rng.choice(nodes + ([9] if rng.random() < 0.1 else []))
            c, t = rng.choice([0, 1]), rng.choice([2, 3])
            if (n, c, t) in stored and rng.random() < 0.12:
                # the application commands the value the node reported last (the stored one)
                fields = (n, c, 1, rng.choice([0, 0, 1]), t, stored.pop((n, c, t)))
            else:
                fields = (n, c, 1, rng.choice([0, 0, 1]), t, f"tag{tag}")
                tag += 1
            faults = (True,) if with_faults and rng.random() < 0.1 else ()
            ops.append(("send", fields, rng.random() < 0.88, faults))
        elif x < 0.75:
            n = rng.choice(nodes)
            faults = tuple(rng.random() < 0.35 for _ in range(5)) if with_faults and rng.random() < 0.6 else ()
            ops.append(wake(n, faults))
        elif x < 0.82:
            n = rng.choice(nodes)
            ops.append(("recv", f"{n};255;0;0;17;{v}", ()))
            if rng.random() < 0.7:
                ops.append(("recv", f"{n};{rng.choice([0, 1])};0;0;3;", ()))
        elif x < 0.87:
            ops.append(("set_sleeping", rng.choice(nodes), rng.random() < 0.6))
        elif x < 0.885:
            ops.append(("reconnect",))
        elif x < 0.9:
            ops.append(("set_reboot", rng.choice(nodes), rng.random() < 0.7))
        elif x < 0.915:
            # the node reports a value itself (possibly echoing a command, ack flag set)
            ops.append(("recv", f"{rng.choice(nodes)};{rng.choice([0, 1])};1;{rng.choice([0, 1])};{rng.choice([2, 3])};rep{tag}", ()))
            tag += 1
        elif x < 0.93:
            # the node asks for its state (typically right after waking, before its wake signal)
            ops.append(("recv", f"{rng.choice(nodes)};{rng.choice([0, 1])};2;0;{rng.choice([2, 3])};", ()))
        elif x < 0.95 and v != "1.5":
            # the gateway reports its version again (a restart of the gateway, a firmware of the same
            # wake-signal family): parked commands must survive a change of the active protocol
            nv = rng.choice(["2.0", "2.1", "2.1.1", "2.0.0"]) if v in ("2.0", "2.1") else rng.choice(["2.2", "2.2.1", "2.3.2"])
            ops.append(("recv", f"0;255;3;0;2;{nv}", ()))
        else:
            ops.append(("recv", gen_line(rng, pr)[1], ()))
    if with_faults:
        for n in nodes:
            ops.append(("recv", f"{n};255;3;0;{right};{'0' if right == HB else ''}", ()))
    return ops
