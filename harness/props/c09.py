"""C09 — no set command is lost when send races with the wake-up flush.

A gate transport whose write really suspends until the harness completes it lets
the harness execute a schedule deterministically on the real event loop: run some
sends while the listener is suspended inside a write, complete (or fail) that
write, let the listener advance to its next suspension point, and so on."""

from __future__ import annotations

import asyncio
import itertools

from common import Config, Driver, Gateway, Message, Node, Transport, dec_line, ex, rng_for

WAKE = {"2.0": (22, "0"), "2.1": (22, "7"), "2.2": (32, "")}


class GateTransport(Transport):
    def __init__(self):
        self.inq: asyncio.Queue = asyncio.Queue()
        self.pending: list[tuple[str, asyncio.Future]] = []
        self.done: list[list] = []

    async def connect(self):
        pass

    async def disconnect(self):
        pass

    async def read(self):
        return await self.inq.get()

    async def write(self, decoded_message: str) -> None:
        fut = asyncio.get_running_loop().create_future()
        rec = [decoded_message, None]          # the order on the wire is the order of the write calls
        self.done.append(rec)
        self.pending.append((rec, fut))
        await fut


class Race:
    """One gateway, one listener task, sends issued while the listener is suspended."""

    def __init__(self, version: str, nodes=(1, 2), sleeping=True):
        self.loop = asyncio.new_event_loop()
        self.tr = GateTransport()
        self.gw = Gateway(self.tr, Config())
        self.gw.protocol_version = version
        self.version = version
        for n in nodes:
            node = Node(n, 17, version, sleeping=sleeping)
            node.add_child(0, 3)
            node.add_child(1, 3)
            self.gw.nodes[n] = node
        self.agen = None
        self.listener: asyncio.Task | None = None
        self.listener_errors: list[BaseException] = []
        self.sent: list[tuple[tuple, int]] = []
        self.send_errors: list[BaseException] = []
        self.send_tasks: list[asyncio.Task] = []

    def spin(self, n=6):
        async def _s():
            for _ in range(n):
                await asyncio.sleep(0)
        self.loop.run_until_complete(_s())

    def cancel_listener(self):
        """The application cancels the task that awaits listen() (a timeout, a shutdown) while the
        release is suspended in a write."""
        if self.listener is None:
            return False
        self.listener.cancel()
        self.spin()
        # a write whose caller was cancelled never reached the wire
        self.tr.pending = [(rec, f) for rec, f in self.tr.pending if not f.cancelled()]
        if self.listener.done():
            self.listener = None
            self.agen = None
        return True

    def reap(self):
        if self.listener is not None and self.listener.done() and self.listener.cancelled():
            self.listener = None
            self.agen = None
        if self.listener is not None and self.listener.done():
            e = self.listener.exception()
            if e is not None:
                self.listener_errors.append(e)
                self.agen = None
            self.listener = None
        for t in list(self.send_tasks):
            if t.done():
                self.send_tasks.remove(t)
                if t.exception() is not None:
                    self.send_errors.append(t.exception())

    def send(self, key, tag, buffered=True):
        n, c, t = key
        m = Message(n, c, 1, tag % 2, t, f"tag{tag}")   # the ack flag varies between the sends
        task = self.loop.create_task(self.gw.send(m, message_buffer=buffered))
        self.send_tasks.append(task)
        self.spin(3)
        self.sent.append((key, tag))
        self.reap()

    def wake(self, n):
        """Feed the wake signal of node n; the listener runs until it suspends."""
        self.reap()
        if self.listener is not None:
            return False
        t, p = WAKE[self.version]
        self.tr.inq.put_nowait(f"{n};255;3;0;{t};{p}")
        if self.agen is None:
            self.agen = self.gw.listen()
        self.listener = self.loop.create_task(self.agen.__anext__())
        self.spin()
        self.reap()
        return True

    def complete(self, ok=True, index=0):
        """Complete (or fail) a suspended write; let everybody run to the next suspension."""
        if index >= len(self.tr.pending):
            return False
        rec, fut = self.tr.pending.pop(index)
        rec[1] = ok
        if ok:
            fut.set_result(None)
        else:
            fut.set_exception(ex.TransportFailedError("injected write fault"))
        self.spin()
        self.reap()
        return True

    def quiesce(self, nodes):
        for _ in range(200):
            if not self.tr.pending:
                break
            self.complete(True)
        for n in nodes:
            self.reap()
            if self.listener is not None:
                break
            self.wake(n)
            for _ in range(200):
                if not self.tr.pending:
                    break
                self.complete(True)
        self.reap()

    def close(self):
        for t in [self.listener] + self.send_tasks:
            if t is not None and not t.done():
                t.cancel()
        self.spin(2)
        if self.agen is not None:
            try:
                self.loop.run_until_complete(self.agen.aclose())
            except BaseException:  # noqa: BLE001
                pass
        self.loop.close()

    # observables
    def written(self):
        out = []
        for line, ok in self.tr.done:
            f = line.rstrip("\n").split(";", 5)
            if ok and f[2] == "1" and f[5].startswith("tag"):  # (ack flag f[3] varies)
                out.append(((int(f[0]), int(f[1]), int(f[4])), int(f[5][3:])))
        return out

    def buffer(self):
        buf = getattr(self.gw, "_message_buffer", None)
        if buf is None:
            return None
        return [((k[0], k[1], k[2]), int(m.payload[3:])) for k, m in buf.set_messages.items()]


KEYS = [(1, 0, 2), (1, 1, 2), (1, 0, 3), (2, 0, 2)]


def run_actions(version, actions, sleeping=True):
    """actions: ('send', key, tag) | ('wake', n) | ('complete', ok).  Returns the race and
    the model ops equivalent to what was actually executed."""
    r = Race(version, sleeping=sleeping)
    mops = []
    for a in actions:
        if a[0] == "send":
            r.send(a[1], a[2])
            if mops is not None:
                mops.append(f"S {a[1][0]} {a[1][1]} {a[1][2]} {a[2]}")
        elif a[0] == "wake":
            if r.wake(a[1]) and mops is not None:
                mops += [f"W {a[1]}", "B"]
        elif a[0] == "complete":
            if r.complete(a[1]) and mops is not None:
                mops += [f"E {1 if a[1] else 0}", "B"]
        elif a[0] == "cancel":
            # for the buffer bookkeeping a cancelled release write is the model's failing write
            # (FEnd false): nothing reached the wire, the entry stays, the listener leaves the flush
            had = bool(r.tr.pending)
            if r.cancel_listener() and had and mops is not None:
                mops += ["E 0", "B"]
    r.quiesce([1, 2])
    return r, mops


def oracle(r: Race, actions):
    """The property, on the implementation's observable behaviour."""
    fs = []
    for e in r.listener_errors + r.send_errors:
        if not isinstance(e, ex.AIOMySensorsError):
            fs.append(("C09:listener-crash", f"{type(e).__name__}: {e} escaped while send raced with the flush"))
    if r.listener is not None or r.tr.pending:
        fs.append(("C09:stuck", "the listener did not reach quiescence"))
    written = r.written()
    sent = r.sent
    last_sent = {}
    for k, t in sent:
        last_sent[k] = t
    last_written = {}
    for k, t in written:
        last_written[k] = t
    for k, t in last_sent.items():
        if last_written.get(k) != t:
            fs.append(("C09:lost-update", f"key {k}: last value sent is tag{t}, last value written is {'tag%s' % last_written[k] if k in last_written else 'nothing'} (sent {[x for kk, x in sent if kk == k]}, written {[x for kk, x in written if kk == k]})"))
    for k, t in written:
        if (k, t) not in sent:
            fs.append(("C09:unsent-value", f"wrote tag{t} for {k} which was never sent"))
    tags = [t for _, t in written]
    for t in set(tags):
        if tags.count(t) > 1:
            fs.append(("C09:repeated", f"tag{t} written {tags.count(t)} times, sent once"))
    buf = r.buffer()
    if buf:
        fs.append(("C09:left-over", f"after every node woke once more the buffer still holds {buf}"))
    return fs


def gen_schedules(ctx):
    """Bounded-exhaustive: parked subsets, one wake of node 1, then every interleaving of up to
    three sends (over overlapping and disjoint keys) with the write completions (ok / fail)."""
    scheds = []
    tag = itertools.count(1)
    for parked in ([0], [0, 1], [0, 1, 2], [0, 1, 3], [1, 2, 3]):
        base = [("send", KEYS[i], 100 + i) for i in parked]
        n_writes = len([i for i in parked if KEYS[i][0] == 1])
        for n_sends in (1, 2, 3):
            for keys in itertools.product(range(4), repeat=n_sends):
                # positions: each send goes before completion number p (0..n_writes)
                for pos in itertools.product(range(n_writes + 1), repeat=n_sends):
                    if list(pos) != sorted(pos):
                        continue
                    for fail_at in [None] + list(range(n_writes)):
                        acts = list(base) + [("wake", 1)]
                        si = 0
                        t0 = 200
                        for w in range(n_writes + 1):
                            while si < n_sends and pos[si] == w:
                                acts.append(("send", KEYS[keys[si]], t0 + si))
                                si += 1
                            if w < n_writes:
                                acts.append(("complete", fail_at != w))
                        scheds.append(acts)
    return scheds


def encode_model(mops, guarded=True):
    return f"FL {1 if guarded else 0} {len(mops)} " + " ".join(mops) + " 2 1 2"


def parse_model(out):
    w, b, s = out.split("|")

    def ents(x):
        res = []
        for g in x.split(";"):
            if g.strip():
                n, c, t, tag = map(int, g.split())
                res.append(((n, c, t), tag))
        return res

    return ents(w), ents(b), ents(s)


def run(ctx, model_available=True):
    rng = rng_for(ctx.seed, "C09")
    scheds = gen_schedules(ctx)
    total = len(scheds)
    if ctx.quick:
        scheds = rng.sample(scheds, min(len(scheds), 1500))
    failures = []
    d = Driver()
    expect = []
    kinds = set()
    dist = {"schedules_in_space": total, "schedules_run": 0, "with_failed_write": 0, "send_on_key_being_written": 0,
            "send_on_later_key": 0, "send_on_new_key": 0, "sends_while_suspended": 0}
    for acts in scheds:
        for version in (["2.0", "2.2"] if dist["schedules_run"] % 5 == 0 else [rng.choice(["2.0", "2.1", "2.2"])]):
            r, mops = run_actions(version, acts)
            dist["schedules_run"] += 1
            if any(a[0] == "complete" and not a[1] for a in acts):
                dist["with_failed_write"] += 1
            parked = [a[1] for a in acts[: [x[0] for x in acts].index("wake")]]
            later = [a for a in acts[[x[0] for x in acts].index("wake"):] if a[0] == "send"]
            dist["sends_while_suspended"] += len(later)
            for a in later:
                if a[1] not in parked:
                    dist["send_on_new_key"] += 1
                elif parked and a[1] == parked[0]:
                    dist["send_on_key_being_written"] += 1
                else:
                    dist["send_on_later_key"] += 1
            fs = oracle(r, acts)
            kinds.add((version, len(parked), len(later), tuple(sorted(set(s for s, _ in fs))), tuple(a[0][0] for a in acts[len(parked):])))
            for sig, desc in fs[:2]:
                failures.append({"kind": "oracle", "sig": sig, "desc": f"protocol {version}, schedule {acts}: {desc}",
                                 "case": {"version": version, "actions": acts}})
            d.add(encode_model(mops))
            expect.append((version, acts, r.written(), r.buffer(), r.sent))
            r.close()
    # the task awaiting listen() is cancelled while the release is suspended in its k-th write (a
    # timeout around listen(), a shutdown); the application listens again, the nodes wake again:
    # every parked command is still written exactly once (a write whose caller was cancelled did
    # not reach the wire and its command stays parked)
    for parked in ([0], [0, 1], [0, 1, 2], [0, 1, 3]):
        n_writes = len([i for i in parked if KEYS[i][0] == 1])
        for k in range(n_writes):
            for with_send in (False, True):
                for version in ("2.0", "2.1", "2.2"):
                    acts = [("send", KEYS[i], 100 + i) for i in parked] + [("wake", 1)] + [("complete", True)] * k
                    if with_send:
                        acts.append(("send", KEYS[parked[-1]], 250))
                    acts.append(("cancel",))
                    r, mops_c = run_actions(version, acts)
                    dist["schedules_run"] += 1
                    dist["listener_cancelled"] = dist.get("listener_cancelled", 0) + 1
                    kinds.add((version, len(parked), "cancel", k, with_send))
                    for sig, desc in oracle(r, acts)[:2]:
                        failures.append({"kind": "oracle", "sig": sig, "desc": f"protocol {version}, listener cancelled inside release write {k + 1}, schedule {acts}: {desc}",
                                         "case": {"version": version, "actions": acts}})
                    if mops_c is not None:
                        d.add(encode_model(mops_c))
                        expect.append((version, acts, r.written(), r.buffer(), r.sent))
                    r.close()
    # sends to nodes that are awake while another node's flush is suspended: direct writes race too
    for _ in range(ctx.budget(100, 1500)):
        acts = [("send", KEYS[0], 100), ("send", KEYS[1], 101), ("wake", 1)]
        version = rng.choice(["2.0", "2.2"])
        r = Race(version)
        r.gw.nodes[2].sleeping = False
        for a in acts:
            if a[0] == "send":
                r.send(a[1], a[2])
            else:
                r.wake(a[1])
        extra = []
        for j in range(rng.randint(1, 3)):
            k = rng.choice([KEYS[3], (2, 1, 2)])
            r.send(k, 300 + j)
            extra.append(k)
            if r.tr.pending and rng.random() < 0.7:
                r.complete(True, index=rng.randrange(len(r.tr.pending)))
        r.quiesce([1])
        dist["schedules_run"] += 1
        for sig, desc in oracle(r, acts)[:1]:
            if sig == "C09:left-over":
                continue
            failures.append({"kind": "oracle", "sig": sig, "desc": f"protocol {version}, flush of node 1 racing direct writes to awake node 2 {extra}: {desc}", "case": {"version": version, "extra": extra}})
        r.close()
    # a command written directly (node awake) whose write is still suspended when the node
    # announces that it sleeps and a newer command for the same key is parked
    for version in ("2.0", "2.1", "2.2"):
        for other_first in (False, True):
            r = Race(version, sleeping=False)
            acts = [("send", KEYS[0], 100), ("wake", 1), ("send", KEYS[0], 101), ("complete", True)]
            r.send(KEYS[0], 100)                 # direct write, suspended at the gate
            if other_first:
                r.send(KEYS[1], 150)             # a second direct write queued behind it
            r.wake(1)                            # the listener flags node 1 as sleeping (nothing to release)
            r.send(KEYS[0], 101)                 # parked: the node sleeps now
            while r.tr.pending:
                r.complete(True)
            r.quiesce([1, 2])
            dist["schedules_run"] += 1
            for sig, desc in oracle(r, acts)[:2]:
                failures.append({"kind": "oracle", "sig": sig,
                                 "desc": f"protocol {version}: direct write of tag100 suspended, node 1 goes to sleep, tag101 parked for the same key, write completes: {desc}",
                                 "case": {"version": version, "scenario": "direct-write-then-sleep"}})
            r.close()
    # KNOWN FINDING C09:direct-race — a command parked for a node survives the node presenting
    # itself again; a newer value is then written directly and, while that write is suspended,
    # the node's wake signal starts a flush that writes the stale parked value after it
    for version in ("2.0", "2.1", "2.2"):
        r = Race(version, sleeping=True)
        r.send(KEYS[0], 100)                              # parked
        for line in ("1;255;0;0;17;2.0", "1;0;0;0;3;"):   # node 1 presents itself again: flagged awake
            r.tr.inq.put_nowait(line)
            if r.agen is None:
                r.agen = r.gw.listen()
            r.listener = r.loop.create_task(r.agen.__anext__())
            r.spin()
            r.reap()
        r.send(KEYS[0], 101)                              # written directly, suspended at the gate
        r.wake(1)                                         # the flush finds the stale parked command
        while r.tr.pending:
            r.complete(True)
        r.quiesce([1, 2])
        dist["schedules_run"] += 1
        for sig, desc in oracle(r, [])[:2]:
            failures.append({"kind": "oracle", "sig": "C09:direct-race" if sig == "C09:lost-update" else sig,
                             "desc": f"protocol {version}: tag100 parked, node 1 presents itself again, tag101 written directly (write suspended), wake of node 1: {desc}",
                             "case": {"version": version, "scenario": "parked-represented-direct-wake"}})
        d.add("FL 1 6 S 1 0 2 100 D 1 0 2 101 W 1 B F 1 E 1 2 1 2")
        expect.append((version, "parked-represented-direct-wake", r.written(), r.buffer(), r.sent))
        r.close()
    if model_available:
        outs = d.run()
        for (version, acts, w, b, s), mout in zip(expect, outs):
            mw, mb, ms = parse_model(mout)
            if (mw, mb, ms) != (w, b or [], s):
                failures.append({"kind": "corr", "sig": None,
                                 "desc": f"flush model and implementation differ on {acts} ({version}): impl written {w} buffer {b}, model written {mw} buffer {mb}",
                                 "case": {"version": version, "actions": acts, "impl": [w, b, s], "model": [mw, mb, ms]}})
    # de-duplicate by signature
    seen = {}
    for f in failures:
        seen.setdefault((f["kind"], f["sig"]), f)
    return {
        "evaluations": dist["schedules_run"],
        "distinct_nontrivial": len(kinds),
        "rule": "bounded-exhaustive schedule space: 5 parked sets of 1-3 commands over 4 keys (3 of node 1, 1 of node 2), one wake of node 1, every placement of 1-3 concurrent sends (same key as the write in progress / a later key of the snapshot / a key not in the snapshot / another node) between the write completions, every single failing write; executed on the real event loop through a gate transport; quick runs a seeded sample; distinct = (version, #parked, #racing sends, oracle verdicts, action shape)",
        "samples": [str(s)[:200] for s in scheds[:3]],
        "distribution": dist,
        "failures": list(seen.values()),
        "exhaustive": not ctx.quick,
        "assumptions": ["asyncio runs a task atomically between suspension points; transport.write is the only suspension point inside the flush",
                        "every send carries a unique payload (tag)"],
    }


def replay(ctx, rp):
    case = rp.get("case") or {}
    acts = case.get("actions")
    if not acts:
        print(rp)
        return 0
    acts = [tuple(tuple(x) if isinstance(x, list) else x for x in a) for a in acts]
    r, mops = run_actions(case["version"], acts)
    print("actions", acts)
    print("sent", r.sent)
    print("written", r.written())
    print("buffer", r.buffer())
    fs = oracle(r, acts)
    for f in fs:
        print("FAIL", f)
    r.close()
    return 1 if fs else 0
