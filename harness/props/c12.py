"""C12 — send never silently discards a message."""

from __future__ import annotations

import asyncio

from common import Config, Gateway, ScriptedTransport, ex, rng_for
from gwcore import replay_ops, run_property
from oracles import oracle_c12

VERSIONS = [None, "1.4", "1.5", "2.0", "2.1", "2.2"]


def product_histories(ctx):
    hs = []
    for v in VERSIONS:
        for dest in ("unknown", "awake", "sleeping"):
            ops = []
            if v:
                ops.append(("recv", f"0;255;3;0;2;{v}", ()))
            if dest != "unknown":
                ops.append(("put_node", 1, 17, "2.0", dest == "sleeping"))
                ops.append(("add_child", 1, 0, 3))
            for k in range(5):
                types = [0, 2, 13, 19, 22, 99] if k == 3 else ([0, 1, 9] if k == 4 else [0, 2, 47])
                for t in types:
                    for buffered in (True, False):
                        c = 255 if k in (3, 4) else 0
                        ops.append(("send", (1, c, k, 0, t, f"p{k}{t}"), buffered, ()))
                        if k == 3 and t == 0:
                            ops.append(("send", (1, 0, 3, 0, 3, ""), buffered, ()))   # id request with a child id
                        if k == 0:
                            ops.append(("send", (1, 255, 0, 1, 17, "2.0"), buffered, ()))
            ops.append(("send", (1, 0, 1, 0, 2, "f"), False, (True,)))
            hs.append(ops)
    return hs


def not_a_message():
    fs = []
    n = 0
    loop = asyncio.new_event_loop()
    for v in ("1.4", "2.2"):
        gw = Gateway(ScriptedTransport(), Config())
        gw.protocol_version = v
        import types

        six = {"node_id": 1, "child_id": 1, "command": 1, "ack": 0, "message_type": 2, "payload": "1"}
        for obj in ("1;1;1;0;2;1", None, 5, {"node_id": 1}, object(), [1, 2], b"1;1;1;0;2;1",
                    dict(six), types.SimpleNamespace(**six), tuple(six.values()), list(six.items()), type("M", (), six)):
            n += 1
            try:
                loop.run_until_complete(gw.send(obj))
                got = "no error"
            except Exception as e:  # noqa: BLE001
                got = type(e).__name__
            if got != "InvalidMessageError":
                fs.append({"kind": "oracle", "sig": "C12:not-a-message", "desc": f"send({obj!r}) under {v}: {got}, expected InvalidMessageError", "case": {"object": repr(obj)}})
    loop.close()
    return n, fs


def run(ctx, model_available=True):
    from props.sleepgen import gen_sleep_history

    rng = rng_for(ctx.seed, "C12gen")
    hs = product_histories(ctx) + [gen_sleep_history(rng, i % 2 == 1) for i in range(ctx.budget(300, 5000))]
    # commands held before the gateway's version is known (registry restored from persistence),
    # then the version arrives (possibly more than once), then the node wakes
    for v, sig, pl in (("2.0", 22, "0"), ("2.1", 22, "5"), ("2.2", 32, ""), ("2.2.0", 32, "")):
        for second in (None, "2.1", "2.2", "1.4"):
            ops = [("put_node", 1, 17, "2.0", True), ("add_child", 1, 0, 3),
                   ("send", (1, 0, 1, 0, 2, "early"), True, ()),
                   ("recv", f"0;255;3;0;2;{v}", ()),
                   ("send", (1, 0, 1, 0, 3, "later"), True, ())]
            if second:
                ops.append(("recv", f"0;255;3;0;2;{second}", ()))
                ops.append(("recv", f"0;255;3;0;2;{v}", ()))
            ops.append(("recv", f"1;255;3;0;{sig};{pl}", ()))
            hs.append(ops)
    # a held command, the node presents itself again (it is awake), a newer command for the same
    # key is written directly and that write fails (or succeeds), then the node's next wake
    for v, sig, pl in (("2.0", 22, "0"), ("2.1", 22, "5"), ("2.2", 32, "")):
        for fault in ((True,), ()):
            for same_key in (True, False):
                hs.append([("recv", f"0;255;3;0;2;{v}", ()), ("put_node", 1, 17, "2.0", True), ("add_child", 1, 0, 3),
                           ("send", (1, 0, 1, 0, 2, "held"), True, ()),
                           ("recv", "1;255;0;0;17;2.0", ()), ("recv", "1;0;0;0;3;", ()),
                           ("send", (1, 0, 1, 0, 2 if same_key else 3, "newer"), True, fault),
                           ("recv", f"1;255;3;0;{sig};{pl}", ()), ("recv", f"1;255;3;0;{sig};{pl}", ())])
    res = run_property(ctx, "C12", histories=hs, n_quick=0, n_thorough=0, oracle=oracle_c12,
                       model_available=model_available,
                       rule="complete product: five commands x representative types (existing / not existing in the active protocol) x buffering flag x destination unknown/awake/sleeping x six version states, plus sleep-buffer histories")
    n, fs = not_a_message()
    res["evaluations"] += n
    res["failures"].extend(fs[:2])
    res["exhaustive"] = True
    return res


def replay(ctx, rp):
    return replay_ops(ctx, rp, oracle_c12)
