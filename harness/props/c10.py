"""C10 — unknown node or child triggers one presentation request per episode (2.x)."""

from __future__ import annotations

from common import rng_for
from gwcore import replay_ops, run_property
from histgen import Profile, gen_history, gen_line
from oracles import oracle_c10


def gen(rng):
    pr = Profile(nodes=[1, 2, 3], unknown_node=0.15, p_send=0.0, p_manip=0.0, p_fault=0.3, restore=0.3, max_len=22, p_reconnect=0.06,
                 start_versions=[None, "1.4", "1.5", "2.0", "2.0", "2.1", "2.2", "2.2"],
                 weights=dict(node_pres=2.5, gw_pres=0.2, child_pres=2, set=4, req=2, battery=2, time=0.3, version=0.6,
                              id_request=0.3, config=0.3, log=0.3, sketch=2, gw_ready=0.3, discover_resp=1.5,
                              heartbeat=2, pre_sleep=2, post_sleep=0.5, other_internal=0.7, stream=1.5))
    ops = gen_history(rng, pr)
    # only set commands are sent by the application in these histories
    out = []
    for op in ops:
        out.append(op)
        if op[0] == "recv" and rng.random() < 0.08:
            n = rng.choice(pr.nodes)
            out.append(("send", (n, 0, 1, 0, 2, "1"), True, ()))
    return out


def run(ctx, model_available=True):
    rng = rng_for(ctx.seed, "C10gen")
    hs = [gen(rng) for _ in range(ctx.budget(700, 12000))]
    # an open episode, then the node presents itself (with a version the library may reject),
    # then another message for an unknown child: a new episode
    for v in ("2.0", "2.1", "2.2"):
        for node in (0, 5):
            for ver in ("2.0", "", "2.x-custom", "n/a"):
                for sleeping in (False, True):
                    ops = [("recv", f"0;255;3;0;2;{v}", ()), ("recv", f"{node};3;1;0;2;1", ()), ("recv", f"{node};3;1;0;2;1", ()),
                           ("recv", f"{node};255;0;0;{18 if node == 0 else 17};{ver}", ()), ("recv", f"{node};3;1;0;2;1", ())]
                    if sleeping:
                        ops += [("recv", f"{node};255;0;0;17;2.0", ()), ("set_sleeping", node, True), ("recv", f"{node};4;1;0;2;1", ()),
                                ("recv", f"{node};4;2;0;2;", ())]
                    hs.append(ops)
    return run_property(ctx, "C10", histories=hs, n_quick=0, n_thorough=0, oracle=oracle_c10,
                        model_available=model_available,
                        assumptions=["the application sends only set commands in these histories (an application-sent buffered internal message would occupy the marker slot: known finding of C12)"])


def replay(ctx, rp):
    return replay_ops(ctx, rp, oracle_c10)
