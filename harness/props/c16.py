"""C16 — gateway context: load on entry, periodic and final save, no leftovers.

The real Gateway + Persistence run on a real asyncio event loop with a virtual
clock (three hours pass in milliseconds) and an inline executor (every aiofiles
call completes after exactly one loop iteration), so every run is deterministic.
The run is logged event by event (which task took which step) and the same
schedule is replayed on the Lifecycle model."""

from __future__ import annotations

import asyncio
import concurrent.futures
import json
import os
import shutil
import tempfile

from common import Config, Driver, Gateway, Node, Transport, ex, rng_for

SAVE_INTERVAL = 900


class VLoop(asyncio.SelectorEventLoop):
    """Virtual clock: waiting for a timer advances the clock instead of sleeping."""

    def __init__(self):
        super().__init__()
        self._vt = 0.0
        sel = self._selector
        orig = sel.select

        def select(timeout=None):
            if timeout is not None and timeout > 0:
                self._vt += timeout
            return orig(0)

        sel.select = select

    def time(self):
        return self._vt


class InlineExecutor(concurrent.futures.ThreadPoolExecutor):
    def submit(self, fn, /, *a, **kw):
        f = concurrent.futures.Future()
        try:
            f.set_result(fn(*a, **kw))
        except BaseException as e:  # noqa: BLE001
            f.set_exception(e)
        return f


class BodyError(Exception):
    pass


class LTransport(Transport):
    def __init__(self, log, connect_error=None, disconnect_error=None, slow=0):
        self.log, self.connect_error, self.disconnect_error, self.slow = log, connect_error, disconnect_error, slow
        self.connects = self.disconnects = 0
        self.hang = False
        self.read_fails = False

    async def connect(self):
        self.connects += 1
        for _ in range(self.slow):
            await asyncio.sleep(0)
        if self.hang:
            self.log.append(("M", "connect-hangs", None))
            await asyncio.sleep(10 ** 6)
        if self.connect_error:
            self.log.append(("M", "connect", False))
            raise self.connect_error
        self.log.append(("M", "connect", True))

    async def disconnect(self):
        self.disconnects += 1
        for _ in range(self.slow):
            await asyncio.sleep(0)
        if self.disconnect_error:
            self.log.append(("M", "disconnect", False))
            raise self.disconnect_error
        self.log.append(("M", "disconnect", True))

    async def read(self):
        if self.read_fails:
            self.log.append(("M", "read-fails", None))
            raise ex.TransportFailedError("link lost")
        await asyncio.sleep(3600 * 24)
        return ""

    async def write(self, decoded_message):
        pass


def run_scenario(base, sc):
    """sc: dict(k, wait, connect_fails, body_raises, disconnect_fails, mutate_before, mutate_after, slow, old)."""
    import aiofiles.threadpool as tp

    loop = VLoop()
    loop.set_default_executor(InlineExecutor())
    path = os.path.join(base, f"s{sc['id']}.json")
    if sc["old"] is not None:
        with open(path, "w") as f:
            json.dump(sc["old"], f)
    log: list = []
    main_task = None
    orig_open = tp.sync_open
    saves = []           # (virtual start time, virtual end time, task is main?)

    class FP:
        def __init__(self, real):
            self.real = real

        def _who(self):
            return "M" if asyncio.current_task() is main_task else "S"

    def who():
        t = asyncio.current_task()
        return "M" if t is main_task else "S"

    # every aiofiles call runs inline in the calling task's turn: log it
    def logged_open(*a, **kw):
        log.append((who_now[0], "file-op", "open:" + str(kw.get("mode", a[1] if len(a) > 1 else "r"))))
        return orig_open(*a, **kw)

    who_now = ["M"]
    from aiomysensors import persistence as pmod

    orig_save = pmod.Persistence.save
    orig_load = pmod.Persistence.load

    async def save(self):
        w = who()
        log.append((w, "save-begin", loop.time()))
        t0 = loop.time()
        try:
            r = await orig_save(self)
        except BaseException as e:  # noqa: BLE001
            log.append((w, "save-abort", type(e).__name__))
            raise
        log.append((w, "save-end", loop.time()))
        saves.append((t0, loop.time(), w, in_load[0]))
        return r

    in_load = [False]

    async def load(self, path=None):
        log.append(("M", "load-begin", None))
        in_load[0] = True
        try:
            r = await orig_load(self, path)
        finally:
            in_load[0] = False
        log.append(("M", "load-end", sorted(self.nodes)))
        return r

    pmod.Persistence.save = save
    pmod.Persistence.load = load
    result = {"exc": None, "tasks_left": None, "file": None, "reg": None, "log": log, "saves": saves, "inside": None}
    tr = LTransport(log, ConnectionError("no broker") if sc["connect_fails"] else None,
                    OSError("port gone") if sc["disconnect_fails"] else None, sc["slow"])

    tr.hang = bool(sc.get("connect_hangs"))

    class _NoTimeout:
        async def __aenter__(self):
            return self

        async def __aexit__(self, *a):
            return False

    async def main():
        nonlocal main_task
        main_task = asyncio.current_task()
        gw = Gateway(tr, Config(persistence_file=path))
        result["gw"] = gw
        try:
            async with (asyncio.timeout(30) if sc.get("connect_hangs") else _NoTimeout()), gw:
                result["inside"] = sorted(gw.nodes)
                for i in range(sc["mutate_before"]):
                    gw.nodes[100 + i] = Node(100 + i, 17, "2.0")
                    log.append(("M", "mutate", None))
                for _ in range(sc["k"]):
                    await asyncio.sleep(0)
                if sc["wait"]:
                    await asyncio.sleep(sc["wait"])
                for i in range(sc["mutate_after"]):
                    gw.nodes[200 + i] = Node(200 + i, 17, "2.0", sketch_name="late")
                    log.append(("M", "mutate", None))
                if sc["body_raises"]:
                    log.append(("M", "body-end", False))
                    raise BodyError("application error")
                log.append(("M", "body-end", True))
        except BaseException as e:  # noqa: BLE001
            result["exc"] = e
        await asyncio.sleep(0)
        result["tasks_left"] = [t for t in asyncio.all_tasks() if t is not asyncio.current_task() and not t.done()]
        result["reg"] = {k: n for k, n in gw.nodes.items()}

    async def main_cancel():
        """The task that owns the context is cancelled from outside (task.cancel()) or by an
        enclosing asyncio.timeout() while it is in the body, `cancel_after` loop iterations
        (after `cancel_at` virtual seconds) after it entered."""
        nonlocal main_task
        gw = Gateway(tr, Config(persistence_file=path))
        result["gw"] = gw
        entered = asyncio.Event()

        async def owner():
            async with (asyncio.timeout(sc["cancel_at"]) if sc["exit"] == "timeout" else _NoTimeout()), gw:
                result["inside"] = sorted(gw.nodes)
                for i in range(sc["mutate_before"]):
                    gw.nodes[100 + i] = Node(100 + i, 17, "2.0")
                    log.append(("M", "mutate", None))
                entered.set()
                try:
                    await asyncio.sleep(10 ** 7)
                except asyncio.CancelledError:
                    gw.nodes[200] = Node(200, 17, "2.0", sketch_name="late")
                    log.append(("M", "mutate", None))
                    log.append(("M", "owner-cancelled", None))
                    raise

        t = asyncio.get_running_loop().create_task(owner())
        main_task = t
        await entered.wait()
        if sc["exit"] == "cancel":
            if sc["cancel_at"]:
                await asyncio.sleep(sc["cancel_at"])
            for _ in range(sc["cancel_after"]):
                await asyncio.sleep(0)
            t.cancel()
        try:
            await t
        except BaseException as e:  # noqa: BLE001
            result["exc"] = e
        await asyncio.sleep(0)
        result["tasks_left"] = [x for x in asyncio.all_tasks() if x is not asyncio.current_task() and not x.done()]
        result["reg"] = {k: n for k, n in gw.nodes.items()}

    async def main_two():
        """Two sessions on the same Gateway object (a reconnect loop, or a retry after connect failed)."""
        nonlocal main_task
        main_task = asyncio.current_task()
        gw = Gateway(tr, Config(persistence_file=path))
        result["gw"] = gw
        try:
            async with gw:
                for i in range(sc["mutate_before"]):
                    gw.nodes[100 + i] = Node(100 + i, 17, "2.0")
                    log.append(("M", "mutate", None))
                for _ in range(sc["k"]):
                    await asyncio.sleep(0)
                if sc.get("listen_fails"):
                    # the application listens and the link is lost: the transport error leaves the context
                    tr.read_fails = True
                    log.append(("M", "body-end", False))
                    async for _ in gw.listen():
                        pass
                if sc["body_raises"]:
                    log.append(("M", "body-end", False))
                    raise BodyError("application error")
                log.append(("M", "body-end", True))
        except BaseException as e:  # noqa: BLE001
            result["exc1"] = e
        tr.connect_error = None
        tr.read_fails = False
        if sc["edit_file"]:
            # another program (or an operator) added node 77 to the file between the sessions
            try:
                with open(path) as f:
                    data = json.load(f)
            except (OSError, ValueError):
                data = {}
            data["77"] = {"node_id": 77, "node_type": 17, "protocol_version": "2.0", "children": {}, "sketch_name": "edited",
                          "sketch_version": "", "battery_level": 0, "heartbeat": 0, "sleeping": False}
            with open(path, "w") as f:
                json.dump(data, f)
        log.append(("M", "reenter", None))
        result["t2"] = loop.time()
        result["saves_before"] = len(saves)
        try:
            async with gw:
                result["inside"] = sorted(gw.nodes)
                gw.nodes[230] = Node(230, 17, "2.0")
                log.append(("M", "mutate", None))
                for _ in range(sc["k2"]):
                    await asyncio.sleep(0)
                if sc["wait"]:
                    await asyncio.sleep(sc["wait"])
                gw.nodes[231] = Node(231, 17, "2.0", sketch_name="late")
                log.append(("M", "mutate", None))
                log.append(("M", "body-end", True))
        except BaseException as e:  # noqa: BLE001
            result["exc"] = e
        await asyncio.sleep(0)
        result["tasks_left"] = [t for t in asyncio.all_tasks() if t is not asyncio.current_task() and not t.done()]
        result["reg"] = {k: n for k, n in gw.nodes.items()}

    try:
        loop.run_until_complete(main_cancel() if sc.get("exit") in ("cancel", "timeout") else main_two() if sc.get("two") else main())
        try:
            with open(path) as f:
                result["file"] = f.read()
        except FileNotFoundError:
            result["file"] = None
    finally:
        pmod.Persistence.save = orig_save
        pmod.Persistence.load = orig_load
        for t in asyncio.all_tasks(loop):
            t.cancel()
        try:
            loop.run_until_complete(asyncio.sleep(0))
        except BaseException:  # noqa: BLE001
            pass
        loop.close()
    return result


def file_vs_registry(sc, r):
    """(what load reads from the file now, the final registry) in canonical form."""
    import asyncio as _a

    from aiomysensors.persistence import Persistence
    from persist_common import show_registry

    want = show_registry(r["reg"])
    loaded: dict = {}
    try:
        lp = _a.new_event_loop()
        lp.run_until_complete(Persistence(loaded, os.path.join(sc["_base"], f"s{sc['id']}.json")).load())
        lp.close()
        got = show_registry(loaded)
    except Exception as ee:  # noqa: BLE001
        got = "unloadable: " + type(ee).__name__
    return got, want


def oracle_cancel(sc, r):
    """Leaving the context because the owning task was cancelled / timed out."""
    fs = []
    e = r["exc"]
    want_exc = asyncio.CancelledError if sc["exit"] == "cancel" else TimeoutError
    how = "task.cancel()" if sc["exit"] == "cancel" else "an enclosing asyncio.timeout()"
    if not isinstance(e, want_exc):
        fs.append(("C16:cancelled-exit", f"the owner was interrupted by {how} but {type(e).__name__ if e else 'nothing'} left the context"))
    if r["tasks_left"]:
        fs.append(("C16:cancelled-exit", f"the owner was interrupted by {how}: {len(r['tasks_left'])} background task(s) still running afterwards"))
    tr_disc = sum(1 for x in r["log"] if x[1] == "disconnect")
    if tr_disc != 1:
        fs.append(("C16:cancelled-exit", f"the owner was interrupted by {how}: transport.disconnect was called {tr_disc} times"))
    if r["reg"] is not None:
        got, want = file_vs_registry(sc, r)
        if got != want:
            fs.append(("C16:cancelled-exit", f"the owner was interrupted by {how} and the final registry was not written: file {got[:120]!r}, registry {want[:120]!r}"))
    return fs


def oracle_two(sc, r):
    """The second session on the same Gateway object."""
    fs = []
    e = r["exc"]
    if e is not None:
        fs.append(("C16:reentry", f"the second session raised {type(e).__name__}: {e}"))
    if r["tasks_left"]:
        fs.append(("C16:reentry", f"{len(r['tasks_left'])} background task(s) still running after the second session"))
    want_disc = (0 if sc["connect_fails"] else 1) + 1
    tr_disc = sum(1 for x in r["log"] if x[1] == "disconnect")
    if sc.get("listen_fails"):
        i_re = [x[1] for x in r["log"]].index("reenter")
        d1 = sum(1 for x in r["log"][:i_re] if x[1] == "disconnect")
        d2 = tr_disc - d1
        if d1 < 1 or d2 != 1:
            fs.append(("C16:reentry", f"the first session ended with the transport error of listen(): transport.disconnect was called {d1} time(s) in it and {d2} time(s) in the second session (expected: at least once, exactly once)"))
        tr_disc = want_disc
    if tr_disc != want_disc:
        fs.append(("C16:reentry", f"transport.disconnect was called {tr_disc} times over the two sessions, expected {want_disc}"))
    if r["reg"] is not None:
        got, want = file_vs_registry(sc, r)
        if got != want:
            fs.append(("C16:reentry", f"after the second session the file does not hold the final registry: file {got[:120]!r}, registry {want[:120]!r}"))
    if sc["edit_file"] and (r["inside"] is None or 77 not in r["inside"]):
        fs.append(("C16:reentry-load", f"entering the context again did not load the file: node 77 (in the file) is not in the registry {r['inside']}"))
    starts = sorted(x[0] - r["t2"] for x in r["saves"][r["saves_before"]:] if x[2] == "S")
    if sc["wait"] > 0 and (not starts or starts[0] > 1):
        fs.append(("C16:reentry-cadence", f"the second session was not saved once entered (background saves of that session at +{starts[:3]} s)"))
    if sc["wait"] >= SAVE_INTERVAL:
        gaps = [b - a for a, b in zip(starts, starts[1:])]
        if any(g > SAVE_INTERVAL + 1 for g in gaps) or (starts and sc["wait"] - starts[-1] > SAVE_INTERVAL + 1):
            fs.append(("C16:reentry-cadence", f"periodic saves of the second session at +{starts[:6]} s leave a gap above {SAVE_INTERVAL} s within {sc['wait']} s"))
    return fs


def oracle(sc, r):
    from persist_common import show_registry

    if sc.get("exit") in ("cancel", "timeout"):
        return oracle_cancel(sc, r)
    if sc.get("two"):
        return oracle_two(sc, r)
    fs = []
    e = r["exc"]
    if isinstance(e, asyncio.CancelledError):
        fs.append(("C16:exit-cancelled", "CancelledError left 'async with Gateway'"))
    if sc.get("connect_hangs"):
        if not isinstance(e, TimeoutError):
            fs.append(("C16:connect-failure", f"connect was interrupted by a timeout but {type(e).__name__ if e else 'no error'} propagated"))
        if r["tasks_left"]:
            fs.append(("C16:connect-failure-leak", f"connect was interrupted (timeout / cancellation) and {len(r['tasks_left'])} background task(s) are still running"))
        return fs
    if sc["connect_fails"]:
        if not isinstance(e, ConnectionError):
            fs.append(("C16:connect-failure", f"connect failed but {type(e).__name__ if e else 'no error'} propagated"))
    elif sc["disconnect_fails"]:
        if not isinstance(e, OSError):
            fs.append(("C16:exception", f"disconnect raised OSError but {type(e).__name__ if e else 'nothing'} left the context"))
    elif sc["body_raises"]:
        if not isinstance(e, BodyError):
            fs.append(("C16:exception", f"the body raised BodyError but {type(e).__name__ if e else 'nothing'} left the context"))
    elif e is not None and not isinstance(e, asyncio.CancelledError):
        fs.append(("C16:exception", f"a clean exit raised {type(e).__name__}: {e}"))
    if r["tasks_left"]:
        sig = "C16:connect-failure-leak" if sc["connect_fails"] else ("C16:disconnect-failure" if sc["disconnect_fails"] else "C16:task-left")
        fs.append((sig, f"{len(r['tasks_left'])} background task(s) still running after the context was left"))
    tr_disc = sum(1 for x in r["log"] if x[1] == "disconnect")
    if not sc["connect_fails"] and tr_disc != 1:
        fs.append(("C16:disconnect", f"transport.disconnect was called {tr_disc} times"))
    # the file holds the registry as of exit
    if r["reg"] is not None:
        want = show_registry(r["reg"])
        import asyncio as _a

        from aiomysensors.persistence import Persistence

        loaded: dict = {}
        try:
            lp = _a.new_event_loop()
            lp.run_until_complete(Persistence(loaded, os.path.join(sc["_base"], f"s{sc['id']}.json")).load())
            lp.close()
            got = show_registry(loaded)
        except Exception as ee:  # noqa: BLE001
            got = "unloadable: " + type(ee).__name__
        if got != want:
            sig = "C16:disconnect-failure" if sc["disconnect_fails"] else ("C16:exit-cancelled" if isinstance(e, asyncio.CancelledError) else "C16:final-save")
            fs.append((sig, f"after leaving the context the file does not hold the final registry: file {got[:120]!r}, registry {want[:120]!r}"))
    # loaded on entry
    if sc["old"] is not None and not sc["connect_fails"]:
        if r["inside"] is None or not set(int(k) for k in sc["old"]) <= set(r["inside"]):
            fs.append(("C16:load", f"the registry inside the context {r['inside']} does not contain the saved nodes {sorted(sc['old'])}"))
    # saved once entered, then at least every SAVE_INTERVAL (virtual time)
    if not sc["connect_fails"] and sc["wait"] >= SAVE_INTERVAL:
        starts = sorted(x[0] for x in r["saves"] if x[2] == "S")
        if not starts or starts[0] > 1:
            fs.append(("C16:cadence", f"no save right after entering (saver saves at {starts[:3]})"))
        gaps = [b - a for a, b in zip(starts, starts[1:])]
        if any(g > SAVE_INTERVAL + 1 for g in gaps) or (starts and sc["wait"] - starts[-1] > SAVE_INTERVAL + 1):
            fs.append(("C16:cadence", f"periodic saves at virtual times {starts[:6]} leave a gap above {SAVE_INTERVAL} s within {sc['wait']} s"))
    return fs


def to_choices(sc, r):
    """The schedule the run followed, in the alphabet of Lifecycle.v."""
    ch = ["M 1", "M 1"]          # load, start
    log = r["log"]
    saver_started = False
    in_saver_save = 0
    cancelled_seen = False
    i = 0
    main_phase = "connect"
    final_ops = 0
    for who, kind, arg in log:
        if who == "M":
            if kind == "connect":
                ch.append(f"M {1 if arg else 0}")
                main_phase = "body" if arg else "stop"
                if not arg:
                    ch.append("M 1")       # MCancel -> MAwait
            elif kind == "mutate":
                ch.append("U")
            elif kind == "owner-cancelled":
                ch.append("C")
            elif kind == "reenter":
                ch += ["R", "M 1", "M 1"]   # load, start of the second session
                main_phase = "connect"
                saver_started = False
            elif kind == "body-end":
                ch.append(f"M {1 if arg else 0}")
            elif kind == "disconnect":
                ch.append(f"M {1 if arg else 0}")
                ch.append("M 1")           # MCancel -> MAwait
                main_phase = "stop"
            elif kind == "save-begin" and main_phase == "stop":
                ch.append("S")             # the cancellation is delivered to the saver (no-op if it has ended)
                ch.append("M 1")           # MAwait -> MFinal
                ch += ["M 1", "M 1", "M 1"]
        else:
            if kind == "save-begin":
                ch.append("S" if not saver_started else "T")
                saver_started = True
            elif kind == "save-end":
                ch += ["S", "S", "S"]
            elif kind == "save-abort":
                # the steps it took before the cancellation was delivered are not visible
                # individually; the harness records how far it got in arg2 (see below)
                pass
    return ch


def builtin_transport_sessions(base):
    """The gateway context over the built-in stream transport kinds (TCP / serial share
    StreamTransport): whatever ends the session — a clean exit, the stream ending between two
    lines or inside a line while listening, a read failure — leaving the context closes the
    stream exactly once, saves the final registry and leaves no task behind."""
    from aiomysensors.model.message import Message
    from aiomysensors.transport import StreamTransport
    from props.c17 import FakeWriter

    fs, n = [], 0
    for kind in ("clean-exit", "eof-at-line-boundary", "eof-inside-line", "read-oserror", "write-side-broken"):
        for with_persistence in (False, True):
            n += 1
            loop = VLoop()
            loop.set_default_executor(InlineExecutor())
            path = os.path.join(base, f"bt{n}.json")
            # write-side-broken: the first write's drain fails and so does every later drain
            # until another write (the connection is gone) — leaving the context must still close
            w = FakeWriter(fail_drain_at=(1,)) if kind == "write-side-broken" else FakeWriter()
            holder = {}

            class T(StreamTransport):
                async def _open_connection(self):
                    rd = asyncio.StreamReader()
                    holder["rd"] = rd
                    return rd, w

            async def main():
                gw = Gateway(T(), Config(persistence_file=path if with_persistence else None))
                exc = None
                try:
                    async with gw:
                        rd = holder["rd"]
                        rd.feed_data(b"1;255;0;0;17;2.0\n")
                        if kind == "eof-at-line-boundary":
                            rd.feed_eof()
                        elif kind == "eof-inside-line":
                            rd.feed_data(b"1;255;3;0;0")
                            rd.feed_eof()
                        elif kind == "read-oserror":
                            rd.set_exception(ConnectionResetError("reset by peer"))
                        agen = gw.listen()
                        await agen.__anext__()
                        if kind == "write-side-broken":
                            await agen.aclose()
                            await gw.send(Message(1, 255, 3, 0, 13, ""), message_buffer=False)
                        if kind != "clean-exit":
                            await agen.__anext__()
                        await agen.aclose()
                except BaseException as e:  # noqa: BLE001
                    exc = e
                await asyncio.sleep(0)
                left = [t for t in asyncio.all_tasks() if t is not asyncio.current_task() and not t.done()]
                return exc, left, sorted(gw.nodes)

            try:
                exc, left, nodes = loop.run_until_complete(main())
            finally:
                loop.close()
            want_exc = {"clean-exit": type(None), "eof-at-line-boundary": ex.TransportReadError, "eof-inside-line": ex.TransportReadError,
                        "read-oserror": ex.TransportFailedError, "write-side-broken": ex.TransportFailedError}[kind]
            problems = []
            if not isinstance(exc, want_exc):
                problems.append(f"{type(exc).__name__ if exc else 'no error'} left the context (expected {want_exc.__name__})")
            if w.closed != 1:
                problems.append(f"the stream was closed {w.closed} time(s) when the context was left")
            if left:
                problems.append(f"{len(left)} task(s) still running")
            if with_persistence:
                try:
                    with open(path) as f:
                        saved = sorted(int(k) for k in json.load(f))
                except Exception as e:  # noqa: BLE001
                    saved = f"unreadable ({type(e).__name__})"
                if saved != nodes:
                    problems.append(f"the file holds nodes {saved}, the registry {nodes}")
            for pr in problems:
                fs.append({"kind": "oracle", "sig": "C16:builtin-transport",
                           "desc": f"StreamTransport session ending by {kind} (persistence {'on' if with_persistence else 'off'}): {pr}",
                           "case": {"kind": kind, "persistence": with_persistence}})
    seen = {}
    for f in fs:
        seen.setdefault(f["desc"][:60], f)
    return list(seen.values())[:3], n


def builtin_mqtt_sessions(base, model_available=True):
    """The gateway context over the built-in MQTT transport kind (MQTTClient over a fake broker
    client): every fault position of connect — the broker refuses, or any one / two of the five
    subscriptions fail — must propagate a transport error and leave no task behind (the receive
    task is started inside connect), must have left the broker client's context as often as it
    entered it, and must stop the saver; a later session with a healthy broker must work.  The
    outcome and the client's bookkeeping are compared with the model (Mqtt.mqtt_connect)."""
    import aiomysensors.transport.mqtt as mqtt_mod
    from aiomqtt import MqttError
    from common import enc_faults, enc_str
    from props.c18 import FakeAioMqtt

    fs, n = [], 0
    d = Driver()
    exp = []
    positions = [("refused", True, [])] + [("none", False, [])]
    positions += [(f"sub{i}", False, [j == i for j in range(5)]) for i in range(5)]
    positions += [("sub1+3", False, [False, True, False, True, False]), ("all", False, [True] * 5)]
    orig = mqtt_mod.AsyncioClient
    try:
        for name, enter_fails, faults in positions:
            for with_persistence in (False, True):
                for slow_subscribe in (False, True) + (("hang",) if any(faults) else ()):
                    n += 1
                    loop = VLoop()
                    loop.set_default_executor(InlineExecutor())
                    path = os.path.join(base, f"mq{n}.json")
                    made = []

                    class Fake(FakeAioMqtt):
                        def __init__(self, *a, **kw):
                            super().__init__(*a, **kw)
                            self.calls = 0
                            self.broken = not made          # only the first client meets the faults
                            made.append(self)

                        async def __aenter__(self):
                            if self.broken and enter_fails:
                                raise MqttError("connection refused")
                            return await super().__aenter__()

                        async def subscribe(self, topic, **kw):
                            k = self.calls
                            self.calls += 1
                            if slow_subscribe:
                                await asyncio.sleep(0)
                            if self.broken and k < len(faults) and faults[k]:
                                raise MqttError("subscription refused")
                            if slow_subscribe == "hang" and self.broken:
                                await asyncio.Event().wait()    # the broker never acknowledges this one
                            await super().subscribe(topic, **kw)

                    mqtt_mod.AsyncioClient = Fake
                    cl = mqtt_mod.MQTTClient("broker", 1883, in_prefix="in", out_prefix="out")

                    async def main():
                        gw = Gateway(cl, Config(persistence_file=path if with_persistence else None))
                        res = []
                        for attempt in (1, 2):
                            exc = None
                            inside = None
                            try:
                                async with gw:
                                    inside = (cl._client is not None, cl._incoming_task is not None and not cl._incoming_task.done(),
                                              made[-1].entered - made[-1].exited, len(made[-1].subscribed))
                                    await asyncio.sleep(0)
                            except BaseException as e:  # noqa: BLE001
                                exc = e
                            for _ in range(3):
                                await asyncio.sleep(0)
                            left = [t for t in asyncio.all_tasks() if t is not asyncio.current_task() and not t.done()]
                            after = (cl._client is not None, cl._incoming_task is not None,
                                     made[-1].entered - made[-1].exited if made else 0)
                            res.append((exc, inside, left, after))
                            for t in left:
                                t.cancel()
                            if name == "refused":
                                break      # what a client does after a refused connection is not part of the property
                        return res

                    try:
                        res = loop.run_until_complete(main())
                    finally:
                        loop.close()
                    failing = enter_fails or any(faults)
                    exc, inside, left, after = res[0]
                    problems = []
                    if failing and not isinstance(exc, ex.TransportError):
                        problems.append(f"connect failed but {type(exc).__name__ if exc else 'no error'} left the context (expected a TransportError)")
                    if not failing and exc is not None:
                        problems.append(f"{type(exc).__name__} left a fault-free session")
                    if left:
                        problems.append(f"{len(left)} task(s) left running: {[t.get_coro().__qualname__ for t in left]}")
                    if after[2] != 0:
                        problems.append(f"the broker client's context was entered {after[2]} time(s) more than it was left")
                    if not failing and inside != (True, True, 1, 5):
                        problems.append(f"inside the session (client, receive task, entered, subscriptions) = {inside}")
                    if len(res) > 1:
                        exc2, inside2, left2, after2 = res[1]
                        if exc2 is not None or inside2 != (True, True, 1, 5) or left2 or after2[2] != 0:
                            problems.append(f"the next session with a healthy broker: {type(exc2).__name__ if exc2 else 'no error'}, inside {inside2}, {len(left2)} task(s) left")
                    for pr in problems:
                        fs.append({"kind": "oracle", "sig": "C16:builtin-mqtt",
                                   "desc": f"MQTTClient session, connect fault '{name}' (persistence {'on' if with_persistence else 'off'}, subscriptions {'never acknowledged' if slow_subscribe == 'hang' else 'suspending' if slow_subscribe else 'immediate'}): {pr}",
                                   "case": {"fault": name, "persistence": with_persistence, "slow_subscribe": str(slow_subscribe)}})
                    # model
                    d.add(f"MQC {enc_str('in')} {1 if enter_fails else 0} {enc_faults(faults)} 0")
                    outcome = "ok" if exc is None else ("TE" if isinstance(exc, ex.TransportError) else "RT" if isinstance(exc, RuntimeError) else type(exc).__name__)
                    if failing:
                        impl = f"{outcome}|t{1 if after[1] else 0}|{after[2]}"
                    else:
                        impl = f"{outcome}|t{1 if inside and inside[1] else 0}|{inside[2] if inside else '?'}|{inside[3] if inside else '?'}"
                    exp.append((name, failing, impl))
    finally:
        mqtt_mod.AsyncioClient = orig
    if model_available and exp:
        for (name, failing, impl), mout in zip(exp, d.run()):
            o, c, t, entered, nsubs = mout.split("|")
            model = f"{o}|{t}|{entered}" if failing else f"{o}|{t}|{entered}|{nsubs}"
            if model != impl:
                fs.append({"kind": "corr", "sig": None,
                           "desc": f"MQTT connect model and implementation differ at fault position '{name}': model {model}, implementation {impl} (outcome | receive task | context entries minus exits | subscriptions)",
                           "case": {"fault": name}})
    seen = {}
    for f in fs:
        seen.setdefault((f["kind"], f["desc"][:70]), f)
    return list(seen.values())[:4], n


def two_gateways(base):
    """Two gateways with persistence on one event loop: one leaves (or fails to connect) while the
    other stays entered; the other one keeps saving every 15 minutes and saves when it leaves."""
    fs, n = [], 0
    for first in ("leaves", "connect-fails"):
        n += 1
        loop = VLoop()
        loop.set_default_executor(InlineExecutor())
        log: list = []
        pa, pb = os.path.join(base, f"tg{n}a.json"), os.path.join(base, f"tg{n}b.json")
        mt = {}

        async def main():
            ta = LTransport(log, ConnectionError("no broker") if first == "connect-fails" else None, None, 0)
            tb = LTransport(log, None, None, 0)
            ga, gb = Gateway(ta, Config(persistence_file=pa)), Gateway(tb, Config(persistence_file=pb))
            async with gb:
                gb.nodes[1] = Node(1, 17, "2.0")
                try:
                    async with ga:
                        ga.nodes[2] = Node(2, 17, "2.0")
                        await asyncio.sleep(5)
                except ConnectionError:
                    pass
                # B stays entered for an hour; its registry changes after every tick
                for k in range(4):
                    await asyncio.sleep(SAVE_INTERVAL)
                    gb.nodes[10 + k] = Node(10 + k, 17, "2.0")
                    await asyncio.sleep(1)
                    mt[k] = os.path.getmtime(pb), sorted(gb.nodes)
                    try:
                        with open(pb) as f:
                            mt[k] = sorted(int(x) for x in json.load(f)), sorted(gb.nodes)
                    except Exception as e:  # noqa: BLE001
                        mt[k] = f"unreadable {type(e).__name__}", sorted(gb.nodes)
                await asyncio.sleep(SAVE_INTERVAL + 1)
                try:
                    with open(pb) as f:
                        mt["tick"] = sorted(int(x) for x in json.load(f)), sorted(gb.nodes)
                except Exception as e:  # noqa: BLE001
                    mt["tick"] = f"unreadable {type(e).__name__}", sorted(gb.nodes)
            await asyncio.sleep(0)
            return [t for t in asyncio.all_tasks() if t is not asyncio.current_task() and not t.done()]

        try:
            left = loop.run_until_complete(main())
        finally:
            loop.close()
        saved, reg = mt["tick"]
        if saved != reg:
            fs.append({"kind": "oracle", "sig": "C16:two-gateways",
                       "desc": f"gateway A {first} while gateway B stays entered: 15 minutes after B's last change its file holds {saved}, its registry {reg} (B's periodic saver stopped)",
                       "case": {"first": first}})
        if left:
            fs.append({"kind": "oracle", "sig": "C16:two-gateways", "desc": f"gateway A {first}, B left later: {len(left)} task(s) still running", "case": {"first": first}})
    seen = {}
    for f in fs:
        seen.setdefault(f["desc"][:50], f)
    return list(seen.values())[:2], n


def import_in_session(base):
    """Inside a session the application calls the public Persistence.load(other) — a one-off import
    of another file, which may be missing.  Whatever that call does, "the file" of the property
    stays the configured one: the next periodic save and the final save write the registry there."""
    fs, n = [], 0
    for other in ("missing", "present"):
        n += 1
        loop = VLoop()
        loop.set_default_executor(InlineExecutor())
        log: list = []
        pa, pb = os.path.join(base, f"imp{n}a.json"), os.path.join(base, f"imp{n}b.json")
        if other == "present":
            with open(pb, "w") as f:
                f.write("{}")
        seen_at = {}

        def read_a():
            try:
                with open(pa) as f:
                    return sorted(int(x) for x in json.load(f))
            except Exception as e:  # noqa: BLE001
                return f"unreadable {type(e).__name__}"

        async def main():
            gw = Gateway(LTransport(log, None, None, 0), Config(persistence_file=pa))
            async with gw:
                gw.nodes[1] = Node(1, 17, "2.0")
                await gw.persistence.load(pb)
                gw.nodes[2] = Node(2, 17, "2.0")
                await asyncio.sleep(SAVE_INTERVAL + 1)
                seen_at["tick"] = read_a(), sorted(gw.nodes)
                gw.nodes[3] = Node(3, 17, "2.0")
            seen_at["exit"] = read_a(), sorted(gw.nodes)
            await asyncio.sleep(0)
            return [t for t in asyncio.all_tasks() if t is not asyncio.current_task() and not t.done()]

        try:
            left = loop.run_until_complete(main())
        finally:
            loop.close()
        for when in ("tick", "exit"):
            saved, reg = seen_at[when]
            if saved != reg:
                fs.append({"kind": "oracle", "sig": "C16:import-in-session",
                           "desc": f"after Persistence.load(<another, {other} file>) inside the session the configured file holds {saved} at the {'first periodic save' if when == 'tick' else 'exit'}, the registry {reg}",
                           "case": {"other": other}})
        if left:
            fs.append({"kind": "oracle", "sig": "C16:import-in-session", "desc": f"{len(left)} task(s) still running", "case": {"other": other}})
    return fs[:1], n


def run(ctx, model_available=True):
    rng = rng_for(ctx.seed, "C16")
    base = tempfile.mkdtemp(prefix="amsverif_c16_")
    failures = []
    dist = {"scenarios": 0, "exit_cancelled": 0, "saver_cancelled_midsave": 0, "saver_never_ran": 0, "with_periodic_saves": 0,
            "exceptions": {}}
    kinds = set()
    old_file = {"1": {"node_id": 1, "node_type": 17, "protocol_version": "2.0", "children": {}, "sketch_name": "saved",
                      "sketch_version": "", "battery_level": 5, "heartbeat": 0, "sleeping": False}}
    scs = []
    sid = 0
    for k in range(0, 13):
        for cf, br, df in ((False, False, False), (False, True, False), (False, False, True), (False, True, True), (True, False, False)):
            for slow in (0, 2):
                sid += 1
                scs.append(dict(id=sid, k=k, wait=0, connect_fails=cf, body_raises=br, disconnect_fails=df,
                                mutate_before=k % 2, mutate_after=1, slow=slow, old=old_file if k % 3 else None))
    for wait in (1, 899, 900, 901, 1800, 3 * 3600):
        for k in (0, 3):
            for br in (False, True):
                sid += 1
                scs.append(dict(id=sid, k=k, wait=wait, connect_fails=False, body_raises=br, disconnect_fails=False,
                                mutate_before=1, mutate_after=1, slow=0, old=old_file))
    for slow in (0, 1, 3):
        for old in (old_file, None):
            sid += 1
            scs.append(dict(id=sid, k=0, wait=0, connect_fails=False, body_raises=False, disconnect_fails=False,
                            mutate_before=0, mutate_after=0, slow=slow, old=old, connect_hangs=True))
    if ctx.quick:
        head = [s for s in scs if s["wait"] or s["k"] < 9]
        scs = head
    # the owner is cancelled / times out in the body: right after entering (the saver has not
    # started, is inside each file operation of its first save, sleeps) and around a 15-minute tick
    for j in range(0, 9 if ctx.quick else 14):
        for at in (0, SAVE_INTERVAL, 2 * SAVE_INTERVAL):
            sid += 1
            scs.append(dict(id=sid, k=0, wait=0, connect_fails=False, body_raises=False, disconnect_fails=False,
                            mutate_before=j % 2, mutate_after=0, slow=0, old=old_file if j % 3 else None,
                            exit="cancel", cancel_after=j, cancel_at=at))
    for at in (0.5, SAVE_INTERVAL - 0.001, SAVE_INTERVAL, SAVE_INTERVAL + 0.001, 2 * SAVE_INTERVAL):
        for slow in (0, 2):
            sid += 1
            scs.append(dict(id=sid, k=0, wait=0, connect_fails=False, body_raises=False, disconnect_fails=False,
                            mutate_before=1, mutate_after=0, slow=slow, old=old_file,
                            exit="timeout", cancel_after=0, cancel_at=at))
    # the same Gateway object entered a second time
    for k, cf, br, lf in ((0, False, False, False), (4, False, False, False), (2, False, True, False), (0, True, False, False),
                          (3, True, False, False), (0, False, False, True), (3, False, False, True)):
        for k2, wait2 in ((0, 0), (5, 0), (0, 1), (0, SAVE_INTERVAL + 1), (2, 2 * 3600)):
            for edit in (False, True):
                sid += 1
                scs.append(dict(id=sid, k=k, wait=wait2, connect_fails=cf, body_raises=br, disconnect_fails=False,
                                mutate_before=1, mutate_after=0, slow=0, old=old_file if (k + k2) % 2 == 0 else None,
                                two=True, k2=k2, edit_file=edit, listen_fails=lf))
    d = Driver()
    exp = []
    for sc in scs:
        sc["_base"] = base
        r = run_scenario(base, sc)
        dist["scenarios"] += 1
        en = type(r["exc"]).__name__ if r["exc"] else "none"
        dist["exceptions"][en] = dist["exceptions"].get(en, 0) + 1
        aborts = [x for x in r["log"] if x[1] == "save-abort"]
        if aborts:
            dist["saver_cancelled_midsave"] += 1
        if not any(x[0] == "S" for x in r["log"]):
            dist["saver_never_ran"] += 1
        if len([x for x in r["saves"] if x[2] == "S"]) > 1:
            dist["with_periodic_saves"] += 1
        kinds.add((sc["k"] if not sc["wait"] else -1, sc["wait"], sc["connect_fails"], sc["body_raises"], sc["disconnect_fails"], bool(aborts), en,
                   sc.get("exit"), sc.get("cancel_after"), sc.get("cancel_at"), sc.get("two"), sc.get("k2"), sc.get("edit_file")))
        for sig, desc in oracle(sc, r):
            failures.append({"kind": "oracle", "sig": sig,
                             "desc": f"scenario {'owner ' + sc['exit'] + ' ' + str(sc['cancel_after']) + ' iterations after t=' + str(sc['cancel_at']) + ' s: ' if sc.get('exit') else ''}{'second session on the same Gateway (k2=' + str(sc['k2']) + ', file edited between sessions=' + str(sc['edit_file']) + '): ' if sc.get('two') else ''}exit-after-{sc['k']}-iterations wait={sc['wait']}s connect_fails={sc['connect_fails']} body_raises={sc['body_raises']} disconnect_fails={sc['disconnect_fails']} slow={sc['slow']}: {desc}",
                             "case": {k: v for k, v in sc.items() if not k.startswith("_")}})
        # model: the conclusion of C16_exit_clean for the schedule class of this run
        want_exc = "connect" if sc["connect_fails"] else ("disconnect" if sc["disconnect_fails"] else ("body" if sc["body_raises"] else "none"))
        if sc.get("exit") in ("cancel", "timeout"):
            dist["owner_cancelled"] = dist.get("owner_cancelled", 0) + 1
        if sc.get("two"):
            dist["second_sessions"] = dist.get("second_sessions", 0) + 1
        ch = to_choices(sc, r)
        if not aborts and not sc.get("connect_hangs"):
            # runs in which the saver was cancelled inside a save do not expose the exact
            # number of file steps it took; all other runs are replayed exactly
            d.add(f"LC 1 0 {len(ch)} " + " ".join(ch))
            n_mut = sc["mutate_before"] + sc["mutate_after"] if not sc["connect_fails"] else 0
            exp.append((sc, ch, want_exc, n_mut, r))
    if model_available and exp:
        outs = d.run()
        for (sc, ch, want_exc, n_mut, r), mout in zip(exp, outs):
            # "done <saver> file=<v> reg=<v> disc=<n> exc=<kind> saves=<n>"
            parts = dict(p.split("=") for p in mout.split(" ")[2:])
            m_state, m_saver = mout.split(" ")[:2]
            impl_exc = ("owner-cancelled" if sc.get("exit") in ("cancel", "timeout") and isinstance(r["exc"], (asyncio.CancelledError, TimeoutError)) else
                        "cancelled" if isinstance(r["exc"], asyncio.CancelledError) else
                        "connect" if isinstance(r["exc"], ConnectionError) else
                        "disconnect" if isinstance(r["exc"], OSError) else
                        "body" if isinstance(r["exc"], BodyError) else "none" if r["exc"] is None else "other")
            impl_disc = sum(1 for x in r["log"] if x[1] == "disconnect")
            if sc.get("two"):
                # the model counts per session
                i_re = [x[1] for x in r["log"]].index("reenter")
                impl_disc = sum(1 for x in r["log"][i_re:] if x[1] == "disconnect")
            impl_saves = len([x for x in r["saves"] if not x[3]])
            ok = (m_state == "done" and parts["exc"] == impl_exc and int(parts["disc"]) == impl_disc
                  and parts["file"] == parts["reg"] and int(parts["saves"]) == impl_saves)
            if not ok:
                failures.append({"kind": "corr", "sig": None,
                                 "desc": f"lifecycle model and implementation differ for schedule {' '.join(ch)}: model '{mout}', implementation exc={impl_exc} disc={impl_disc} saves={impl_saves}",
                                 "case": {k: v for k, v in sc.items() if not k.startswith("_")}})
    bf, bn = builtin_transport_sessions(base)
    failures.extend(bf)
    dist["builtin_transport_sessions"] = bn
    mf, mn = builtin_mqtt_sessions(base, model_available)
    failures.extend(mf)
    dist["builtin_mqtt_sessions"] = mn
    tf, tn = two_gateways(base)
    failures.extend(tf)
    dist["two_gateway_runs"] = tn
    jf, jn = import_in_session(base)
    failures.extend(jf)
    dist["import_in_session_runs"] = jn
    shutil.rmtree(base, ignore_errors=True)
    seen = {}
    for f in failures:
        seen.setdefault((f["kind"], f["sig"]), f)
    return {
        "evaluations": dist["scenarios"] + bn + mn + tn + jn,
        "distinct_nontrivial": len(kinds),
        "rule": "the real Gateway context with persistence on a virtual-clock event loop with an inline executor: the owning task cancelled (task.cancel()) or timed out (asyncio.timeout) in the body 0..13 iterations after entering and after 900 / 1800 s; a second session on the same Gateway object (after a clean exit, a raising body, a failed connect; file edited between the sessions or not; 0 s .. 2 h); exit after k = 0..12 loop iterations x {clean, body raises, disconnect raises, both, connect raises} x {instant, slow} transport, and bodies lasting 1 s .. 3 h of virtual time; observed: exception leaving the context, tasks alive afterwards, file vs final registry, disconnect count, virtual times of the periodic saves; distinct = (k, wait, fault flags, saver cancelled inside a save?, exception class)",
        "samples": [str({k: v for k, v in scs[7].items() if k in ('k', 'wait', 'connect_fails', 'body_raises', 'disconnect_fails')})],
        "distribution": dist,
        "failures": list(seen.values()),
        "exhaustive": not ctx.quick,
        "assumptions": ["each aiofiles call completes after one loop iteration (inline executor); real executor threads and wall-clock time are not exercised"],
    }


def replay(ctx, rp):
    case = rp.get("case") or {}
    if "k" not in case:
        print(rp)
        return 0
    base = tempfile.mkdtemp(prefix="amsverif_c16r_")
    case["_base"] = base
    r = run_scenario(base, case)
    for x in r["log"]:
        print(x)
    fs = oracle(case, r)
    print("exception:", repr(r["exc"]))
    for f in fs:
        print("FAIL", f)
    shutil.rmtree(base, ignore_errors=True)
    return 1 if fs else 0
