"""C15 — a crash during save never destroys the previously saved registry.

The real Persistence.save runs against a real directory through an intercepting
file layer (aiofiles' sync_open and the os-level rename/remove calls): the run is
killed before its k-th low-level step, for every k, with nothing / half / all of
the data written so far having reached the disk; a fresh Persistence then loads
what is left."""

from __future__ import annotations

import asyncio
import os
import shutil
import tempfile

from common import Driver, Node, rng_for
from persist_common import show_registry


class Crash(BaseException):
    pass


class FileProxy:
    def __init__(self, fs, path, mode, real):
        self.fs, self.path, self.mode, self.real = fs, path, mode, real
        self.pending: list = []
        self.closed = False

    def write(self, data):
        self.fs.step("write", self)
        self.pending.append(data)
        return len(data)

    def flush(self):
        self.fs.step("flush", self)
        self._through()

    def truncate(self, size=None):
        self.fs.step("truncate", self)
        self._through()
        return self.real.truncate(size)

    def seek(self, *a):
        self._through()
        return self.real.seek(*a)

    def tell(self):
        return self.real.tell()

    def read(self, *a):
        return self.real.read(*a)

    def fileno(self):
        return self.real.fileno()

    def _through(self):
        for d in self.pending:
            self.real.write(d)
        self.pending = []
        self.real.flush()

    def close(self):
        self.fs.step("close", self)
        self._through()
        self.real.close()
        self.closed = True

    def __enter__(self):
        return self

    def __exit__(self, *a):
        self.close()


def _register_proxy():
    import aiofiles.threadpool as tp
    from aiofiles.threadpool.text import AsyncTextIOWrapper

    tp.wrap.register(FileProxy)(lambda f, *, loop=None, executor=None: AsyncTextIOWrapper(f, loop=loop, executor=executor))


_register_proxy()


class CrashFS:
    def __init__(self, crash_at=None, oserror_at=None, torn=0):
        self.crash_at = crash_at
        self.oserror_at = oserror_at      # the file operation number that fails with OSError (the process lives)
        self.torn = torn
        self.n = 0
        self.trace: list[str] = []
        self.files: list[FileProxy] = []
        self._orig = {}

    def step(self, kind, f=None, detail=""):
        if self.crash_at is not None and self.n == self.crash_at:
            raise Crash()
        if self.oserror_at is not None and self.n == self.oserror_at:
            self.n += 1
            self.trace.append(kind + ":EIO")
            if f is not None and kind in ("write", "flush", "close"):
                # disk full / quota / I/O error: of what was buffered, nothing or half reaches the file
                data = "".join(f.pending) if f.pending and isinstance(f.pending[0], str) else b"".join(f.pending)
                keep = data[: {0: 0, 1: len(data) // 2, 2: len(data)}[self.torn]]
                f.pending = []
                try:
                    if keep:
                        f.real.write(keep)
                    f.real.flush()
                    if kind == "close":
                        f.real.close()
                        f.closed = True
                except Exception:  # noqa: BLE001
                    pass
            raise OSError(28, "No space left on device")
        self.n += 1
        self.trace.append(kind + (":" + detail if detail else ""))

    def sync_open(self, path, mode="r", *a, **kw):
        self.step("open", detail=f"{os.path.basename(str(path))}:{mode}")
        real = open(path, mode, *a, **kw)  # noqa: SIM115
        fp = FileProxy(self, str(path), mode, real)
        self.files.append(fp)
        return fp

    def install(self):
        import aiofiles.threadpool as tp

        self._orig["sync_open"] = tp.sync_open
        tp.sync_open = self.sync_open
        for name in ("replace", "rename", "remove", "unlink", "fsync", "truncate", "link", "symlink"):
            orig = getattr(os, name, None)
            if orig is None:
                continue
            self._orig[name] = orig

            def wrapper(*a, _orig=orig, _name=name, **kw):
                self.step(_name, detail=",".join(os.path.basename(str(x)) for x in a if isinstance(x, (str, bytes, os.PathLike))))
                return _orig(*a, **kw)

            setattr(os, name, wrapper)
        self._orig["shutil.move"] = shutil.move

        def mv(*a, **kw):
            self.step("move")
            return self._orig["shutil.move"](*a, **kw)

        shutil.move = mv

    def uninstall(self):
        import aiofiles.threadpool as tp

        tp.sync_open = self._orig.pop("sync_open")
        shutil.move = self._orig.pop("shutil.move")
        for name, orig in self._orig.items():
            setattr(os, name, orig)
        self._orig = {}

    def settle(self, torn: int):
        """The process is dead: of the data written and not yet flushed, nothing (0),
        the first half (1) or everything (2) reached the disk."""
        for fp in self.files:
            if fp.closed:
                continue
            data = "".join(fp.pending) if fp.pending and isinstance(fp.pending[0], str) else b"".join(fp.pending)
            keep = data[: {0: 0, 1: len(data) // 2, 2: len(data)}[torn]]
            try:
                if keep:
                    fp.real.write(keep)
                fp.real.close()
            except Exception:  # noqa: BLE001
                pass


def mk_reg(spec):
    nodes = {}
    for nid, typ, name, children in spec:
        n = Node(nid, typ, "2.0", sketch_name=name, battery_level=nid % 101)
        for cid, vals in children:
            n.add_child(cid, 6, description="d", values=dict(vals))
        nodes[nid] = n
    return nodes


REGS = [
    [(1, 17, "a", [(0, {0: "20.5"})])],
    [(2, 17, "b", []), (3, 18, "", [(1, {2: "1", 3: "50"})])],
    [(1, 17, "changed", [(0, {0: "21.0"}), (1, {})])],
    [(200, 17, "x" * 300, [(i, {0: str(i)}) for i in range(12)])],
    [],
    [(0, 18, "gw", [])],
]


def run_save(loop, nodes, path, fs: CrashFS | None):
    from aiomysensors.persistence import Persistence

    p = Persistence(nodes, path)
    if fs is None:
        loop.run_until_complete(p.save())
        return "done"
    fs.install()
    try:
        loop.run_until_complete(p.save())
        return "done"
    except Crash:
        return "crashed"
    except Exception as e:  # noqa: BLE001
        return "raised " + type(e).__name__
    finally:
        fs.uninstall()


def load_dir(loop, path):
    from aiomysensors import exceptions as ex
    from aiomysensors.persistence import Persistence

    nodes: dict = {}
    p = Persistence(nodes, path)
    try:
        loop.run_until_complete(p.load())
    except ex.PersistenceReadError:
        return "ERR"
    except Exception as e:  # noqa: BLE001
        return "ESCAPE " + type(e).__name__
    return show_registry(nodes)


def restart(loop, path):
    """What an application start does with the post-crash file: enter and leave the gateway context."""
    from aiomysensors import exceptions as ex
    from aiomysensors.gateway import Config, Gateway
    from aiomysensors.transport import Transport

    class T(Transport):
        async def connect(self):
            pass

        async def disconnect(self):
            pass

        async def read(self):
            await asyncio.sleep(3600)

        async def write(self, decoded_message):
            pass

    async def go():
        gw = Gateway(T(), Config(persistence_file=path))
        async with gw:
            return show_registry(gw.nodes)

    try:
        return loop.run_until_complete(go())
    except ex.PersistenceReadError:
        return "ERR"
    except Exception as e:  # noqa: BLE001
        return "ESCAPE " + type(e).__name__


def run(ctx, model_available=True):
    rng = rng_for(ctx.seed, "C15")
    loop = asyncio.new_event_loop()
    base = tempfile.mkdtemp(prefix="amsverif_c15_")
    failures = []
    known_seen = 0
    d = Driver()
    exp = []
    dist = {"pairs": 0, "crash_points": 0, "post_crash_states": 0, "old": 0, "new": 0, "empty": 0, "read_error": 0, "other": 0, "traces": {}}
    kinds = set()
    pairs = [(o, n) for o in range(len(REGS)) for n in range(len(REGS)) if o != n]
    if ctx.quick:
        pairs = rng.sample(pairs, 20)
    case_i = 0
    for oi, ni in pairs:
        old, new = mk_reg(REGS[oi]), mk_reg(REGS[ni])
        old_show, new_show = show_registry(old), show_registry(new)
        dist["pairs"] += 1
        # dry run: the step sequence of this save
        dry = os.path.join(base, f"dry{case_i}")
        os.mkdir(dry)
        path = os.path.join(dry, "p.json")
        run_save(loop, old, path, None)
        fs = CrashFS(None)
        run_save(loop, new, path, fs)
        with open(path, "rb") as f:
            new_text = f.read()
        trace = fs.trace
        key = " ".join(t.split(":")[0] + (":" + t.split(":")[-1] if t.startswith("open") else "") for t in trace)
        dist["traces"][key] = dist["traces"].get(key, 0) + 1
        # an I/O error (not a crash) at every file operation of the save: either the save reports it
        # (PersistenceWriteError) or, if it returns normally, the file holds what was saved — a save
        # that swallowed the error would later count as "the registry as last successfully saved"
        for k in range(len(trace)):
            for torn in (0, 1):
                case_i += 1
                dist["io_fault_points"] = dist.get("io_fault_points", 0) + 1
                dr = os.path.join(base, f"e{case_i}")
                os.mkdir(dr)
                epath = os.path.join(dr, "p.json")
                run_save(loop, old, epath, None)
                efs = CrashFS(None, oserror_at=k, torn=torn)
                eres = run_save(loop, new, epath, efs)
                for fp in efs.files:
                    if not fp.closed:
                        try:
                            fp.real.close()
                        except Exception:  # noqa: BLE001
                            pass
                eout = load_dir(loop, epath)
                # model (SaveCrash.io_fault_category): is the error reported, what does the file load to
                kind = efs.trace[-1].split(":")[0] if efs.trace and efs.trace[-1].endswith(":EIO") else None
                if kind in ("open", "write", "close") and all(t == "write" for t in trace[1:-1]) and len(trace) == 3:
                    try:
                        with open(epath, "rb") as f:
                            on_disk = len(f.read())
                    except FileNotFoundError:
                        on_disk = 0
                    d.add(f"IOF {('open', 'write', 'close').index(kind)} {on_disk} {len(new_text)}")
                    exp.append((("iof", oi, ni, kind, torn, 0 if eres == "done" else 1), eout, old_show, new_show))
                if eres == "done" and eout != new_show:
                    failures.append({"kind": "oracle", "sig": "C15:save-reported-success",
                                     "desc": f"file operation {k} ({efs.trace[-1] if efs.trace else '?'}) of the save failed with OSError; save() returned normally, yet the file loads to {eout[:80]!r} instead of the registry that was saved",
                                     "case": {"old": oi, "new": ni, "op": k, "torn": torn, "trace": efs.trace}})
                elif eres not in ("done", "raised PersistenceWriteError"):
                    failures.append({"kind": "oracle", "sig": "C15:save-error-class",
                                     "desc": f"file operation {k} of the save failed with OSError; save() ended with {eres}", "case": {"old": oi, "new": ni, "op": k}})
        inplace_shape = len(trace) >= 2 and trace[0].startswith("open:p.json:w") and trace[-1] == "close" and all(t == "write" for t in trace[1:-1])
        for k in range(len(trace) + 1):
            for torn in (0, 1, 2):
                case_i += 1
                dist["crash_points"] += 1
                dr = os.path.join(base, f"c{case_i}")
                os.mkdir(dr)
                path = os.path.join(dr, "p.json")
                run_save(loop, old, path, None)
                fs = CrashFS(k)
                res = run_save(loop, new, path, fs)
                live_trunc_open = any((not fp.closed) and os.path.basename(fp.path) == "p.json" and "w" in fp.mode for fp in fs.files)
                had_pending = any(fp.pending for fp in fs.files if not fp.closed)
                fs.settle(torn)
                try:
                    with open(path, "rb") as f:
                        disk = f.read()
                except FileNotFoundError:
                    disk = None
                outcome = load_dir(loop, path)
                dist["post_crash_states"] += 1
                if outcome == old_show:
                    cat = "old"
                elif outcome == new_show:
                    cat = "new"
                elif outcome == "OK":
                    cat = "empty"
                elif outcome == "ERR":
                    cat = "read_error"
                else:
                    cat = "other"
                dist[cat] += 1
                kinds.add((len(REGS[oi]), len(REGS[ni]), k, torn if had_pending else -1, cat))
                if cat in ("old", "new"):
                    pass
                elif cat in ("empty", "read_error") and live_trunc_open and disk is not None and (disk == b"" or (new_text.startswith(disk) and disk != new_text)):
                    known_seen += 1
                    failures.append({"kind": "oracle", "sig": "C15:truncate-in-place",
                                     "desc": f"crash before step {k} of {trace}: the live file was truncated in place and holds {len(disk)} of {len(new_text)} bytes -> load gives {cat}",
                                     "case": {"old": oi, "new": ni, "k": k, "torn": torn}})
                else:
                    failures.append({"kind": "oracle", "sig": "C15:destroyed",
                                     "desc": f"crash before step {k} of {trace} (torn={torn}): afterwards the file {'is missing' if disk is None else 'holds %d bytes' % len(disk)} and loads as {outcome[:120]!r}; neither the old registry {old_show[:60]!r} nor the new one {new_show[:60]!r}, and not the known truncate-in-place window",
                                     "case": {"old": oi, "new": ni, "k": k, "torn": torn, "trace": trace}})
                # the application starts again after the crash: a file that cannot be read makes the
                # start fail and must stay as it is (a second start sees the same); a readable one
                # is what the session starts from and what it leaves behind
                if (k + torn) % 3 == 0 or cat == "read_error":
                    dist["restarts"] = dist.get("restarts", 0) + 1
                    r1 = restart(loop, path)
                    try:
                        with open(path, "rb") as f:
                            disk2 = f.read()
                    except FileNotFoundError:
                        disk2 = None
                    after = load_dir(loop, path)
                    if r1 != outcome or after != outcome or (cat == "read_error" and disk2 != disk):
                        failures.append({"kind": "oracle", "sig": "C15:restart-destroys",
                                         "desc": f"crash before step {k} of {trace} (torn={torn}) leaves a file that loads as {outcome[:60]!r}; starting the application on it (enter / leave the gateway context) gives {r1[:60]!r} and afterwards the file loads as {after[:60]!r}",
                                         "case": {"old": oi, "new": ni, "k": k, "torn": torn}})
                if inplace_shape and disk is not None:
                    before = k == 0
                    d.add(f"CRASH {1 if before else 0} {len(disk)} {len(new_text)}")
                    exp.append(({"old": oi, "new": ni, "k": k, "torn": torn}, outcome, old_show, new_show))
                if res == "done" and cat != "new":
                    failures.append({"kind": "oracle", "sig": "C15:completed-save", "desc": f"a completed save does not load as the new registry: {outcome[:100]}", "case": {"old": oi, "new": ni}})
                shutil.rmtree(dr, ignore_errors=True)
        if not inplace_shape:
            failures.append({"kind": "corr", "sig": None, "desc": f"save no longer performs open(w) / write / close on the live file: {trace}; the SaveCrash model does not describe it", "case": {"trace": trace}})
        shutil.rmtree(dry, ignore_errors=True)
    if model_available and exp:
        outs = d.run()
        for (case, outcome, old_show, new_show), mout in zip(exp, outs):
            if isinstance(case, tuple) and case and case[0] == "iof":
                rep, cat = (int(x) for x in mout.split())
                want = {0: old_show, 1: new_show, 2: "OK", 3: "ERR"}.get(cat, "?")
                if rep != case[5] or want != outcome:
                    failures.append({"kind": "corr", "sig": None,
                                     "desc": f"I/O error at the {case[3]} of a save (pair {case[1]}->{case[2]}, torn {case[4]}): implementation {'reported' if case[5] else 'did not report'} it and the file loads {outcome[:60]!r}; the model: {'reported' if rep else 'not reported'}, {want[:60]!r}",
                                     "case": list(case)})
                continue
            want = {0: old_show, 1: new_show, 2: "OK", 3: "ERR"}.get(int(mout), "?")
            if want != outcome:
                failures.append({"kind": "corr", "sig": None,
                                 "desc": f"crash point {case}: implementation loads {outcome[:80]!r}, the model predicts {want[:80]!r}", "case": case})
    loop.close()
    shutil.rmtree(base, ignore_errors=True)
    seen = {}
    for f in failures:
        seen.setdefault((f["kind"], f["sig"]), f)
    return {
        "evaluations": dist["post_crash_states"],
        "distinct_nontrivial": len(kinds),
        "rule": "real Persistence.save of every ordered pair of 6 registries (quick: 12 seeded pairs) on a real directory through an intercepting file layer; a crash before each low-level step (open / write / flush / truncate / close / replace / rename / remove) with none, half or all of the unflushed data on disk; a fresh Persistence loads the result; distinct = (|old|, |new|, step, torn, outcome class)",
        "samples": [str(t) for t in list(dist["traces"])[:2]],
        "distribution": dist,
        "failures": list(seen.values()),
        "exhaustive": not ctx.quick,
        "assumptions": ["open(path,'w') truncates at once; unflushed data reaches the disk as a prefix; OS-level durability (fsync, rename atomicity, torn sectors) is not modelled"],
        "extra_coverage": {"known_window_states": known_seen},
    }


def replay(ctx, rp):
    print(rp.get("what"))
    print(rp.get("case"))
    return 0
