"""C06 — writes are exactly the specified reactions, addressed to the asker, unbuffered."""

from __future__ import annotations

from gwcore import replay_ops, run_property
from histgen import Profile
from oracles import oracle_c06


def run(ctx, model_available=True):
    w = dict(node_pres=2, gw_pres=0.7, child_pres=2, set=4, req=4, battery=1, time=2, version=1, id_request=2, config=2,
             log=1, sketch=1, gw_ready=1.5, discover_resp=0.7, heartbeat=1.5, pre_sleep=1.5, post_sleep=0.5,
             other_internal=1, stream=0.7)
    profiles = [Profile(weights=w, p_manip=0.15, p_send=0.15, restore=0.6, start_versions=[None, None, "1.4", "2.0", "2.1", "2.2"]),
                Profile(weights=w, p_manip=0.1, p_send=0.1, restore=0.7, unknown_node=0.05, start_versions=[None, "1.5", "2.0", "2.2"])]
    # directed: a node flagged for reboot reports the value it reported before / a new value /
    # an empty value; a node asks for a stored empty value
    hs = []
    for v in (None, "1.4", "1.5", "2.0", "2.1", "2.2"):
        for stored, again in (("20.5", "20.5"), ("20.5", "21"), ("", ""), ("0", "0"), ("on", "")):
            ops = [("recv", f"0;255;3;0;2;{v}", ())] if v else []
            ops += [("put_node", 7, 17, "2.0", False), ("add_child", 7, 1, 3), ("recv", f"7;1;1;0;2;{stored}", ()),
                    ("recv", "7;1;2;0;2;", ()), ("set_reboot", 7, True), ("recv", f"7;1;1;0;2;{again}", ()),
                    ("recv", "7;1;2;0;2;", ()), ("recv", f"7;1;1;0;2;{again}", ())]
            hs.append(ops)
    # id requests at the top of the id range: the highest registered id is 252 / 253 / 254 (the
    # request that hands out 254 must still be answered), and nodes joining one after another
    for v in (None, "1.4", "1.5", "2.0", "2.1", "2.2"):
        for top in (1, 252, 253, 254):
            ops = [("recv", f"0;255;3;0;2;{v}", ())] if v else []
            ops += [("put_node", top, 17, "2.0", False)] + [("recv", "255;255;3;0;3;", ())] * 3
            hs.append(ops)
    # time requests under several time zones (fixed offsets, daylight saving in effect all year)
    import os
    import time as _time

    from histgen import run_history

    zones = ["UTC", "AAA-1BBB,J1/0,J365/23", "CCC+5", "DDD-9:30EEE,J1/0,J365/23", "FFF+3GGG,J1/0,J365/23"]
    counter = [0]

    def run_hist(ops, metric):
        counter[0] += 1
        tz = zones[counter[0] % len(zones)] if counter[0] % 2 == 0 else None
        old = os.environ.get("TZ")
        try:
            if tz:
                os.environ["TZ"] = tz
                _time.tzset()
            return run_history(ops, metric=metric)
        finally:
            if tz:
                if old is None:
                    os.environ.pop("TZ", None)
                else:
                    os.environ["TZ"] = old
                _time.tzset()

    for z in zones:
        for v in (None, "1.4", "2.2"):
            hs.append(([("recv", f"0;255;3;0;2;{v}", ())] if v else []) + [("recv", "7;255;3;0;1;", ()), ("recv", "0;255;3;0;1;", ())])
    res = run_property(ctx, "C06", profiles=profiles, histories=hs, run_hist=run_hist, n_quick=700, n_thorough=12000, oracle=oracle_c06,
                        model_available=model_available,
                        assumptions=["the time reply is compared with the controller clock bracketed around the step (calendar.timegm(time.localtime()))",
                                     "write-fault steps are excluded here (C08/C10 cover them); order between a presentation request and the version query is compared through the model, the oracle compares multisets"])
    res["failures"].extend(default_config_is_per_gateway())
    return res


def default_config_is_per_gateway():
    """'M' or 'I' per configuration: gateways built without an explicit Config each have their own;
    switching one of them to imperial must not change what another one (created before or after)
    answers to a config request."""
    import asyncio

    from common import Gateway, ScriptedTransport

    fs = []
    loop = asyncio.new_event_loop()

    def ask(gw, tr):
        tr.writes = []
        tr.inq.append("7;255;3;0;6;")
        agen = gw.listen()
        try:
            loop.run_until_complete(agen.__anext__())
        finally:
            loop.run_until_complete(agen.aclose())
        return [w for w, _ in tr.writes if w.split(";")[4] == "6"]

    ta, tb, tc = ScriptedTransport(), ScriptedTransport(), ScriptedTransport()
    a, b = Gateway(ta), Gateway(tb)
    for g in (a, b):
        g.protocol_version = "2.2"
    before = ask(b, tb)
    a.config.metric = False
    c = Gateway(tc)
    c.protocol_version = "2.2"
    got = {"a": ask(a, ta), "b": ask(b, tb), "c": ask(c, tc)}
    want = {"a": ["7;255;3;0;6;I\n"], "b": ["7;255;3;0;6;M\n"], "c": ["7;255;3;0;6;M\n"]}
    if before != want["b"] or got != want:
        fs.append({"kind": "oracle", "sig": "C06:config-shared",
                   "desc": f"three gateways built without an explicit Config, the first switched to imperial: config requests answered {got} (before the switch the second answered {before}), the property specifies {want}",
                   "case": {"got": got}})
    loop.close()
    return fs


def replay(ctx, rp):
    return replay_ops(ctx, rp, oracle_c06)
