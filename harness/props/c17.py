"""C17 — the serial/TCP transport delivers exactly the lines of the byte stream."""

from __future__ import annotations

import asyncio

from common import Driver, enc_bytes, ex, rng_for


def make_transport(reader, writer=None, open_error=None):
    from aiomysensors.transport import StreamTransport

    class T(StreamTransport):
        async def _open_connection(self):
            if open_error is not None:
                raise open_error
            return reader, writer

    return T()


class FakeWriter:
    def __init__(self, fail_write_at=(), fail_drain_at=(), fail_close=False, fail_wait_closed=False):
        self.out = bytearray()
        self.calls = 0
        self.fail_write_at, self.fail_drain_at = set(fail_write_at), set(fail_drain_at)
        self.fail_close, self.fail_wait_closed = fail_close, fail_wait_closed
        self.closed = 0

    def write(self, data: bytes):
        self.calls += 1
        if self.calls in self.fail_write_at:
            raise ConnectionResetError("write failed")
        self.out += data

    async def drain(self):
        if self.calls in self.fail_drain_at:
            raise BrokenPipeError("drain failed")

    def close(self):
        self.closed += 1
        if self.fail_close:
            raise OSError("close failed")

    async def wait_closed(self):
        if self.fail_wait_closed:
            raise ConnectionAbortedError("wait_closed failed")


def spin(loop, n=4):
    async def _s():
        for _ in range(n):
            await asyncio.sleep(0)
    loop.run_until_complete(_s())


def classify(e):
    if isinstance(e, ex.TransportReadError):
        return "RE"
    if isinstance(e, ex.TransportFailedError):
        return "RF"
    if isinstance(e, ex.TransportError):
        return "NC"
    return "ESCAPE " + type(e).__name__


def run_schedule(loop, limit, ops):
    """ops: ('F', bytes) | ('E',) | ('R',).  Returns the completed reads like the model prints them."""
    async def mk():
        return asyncio.StreamReader(limit=limit)

    reader = loop.run_until_complete(mk())
    t = make_transport(reader)
    loop.run_until_complete(t.connect())
    res = []
    for op in ops:
        if op[0] == "F":
            reader.feed_data(op[1])
        elif op[0] == "E":
            reader.feed_eof()
        else:
            task = loop.create_task(t.read())
            spin(loop)
            if task.done():
                e = task.exception()
                if e is None:
                    res.append("L " + " ".join(str(ord(ch)) for ch in task.result()) if task.result() else "L")
                else:
                    res.append(classify(e))
            else:
                task.cancel()
                spin(loop, 2)
    return res


def spec_reads(limit, data: bytes, n: int):
    """The property, from its text: the n first reads of the complete stream."""
    out = []
    buf = data
    for _ in range(n):
        i = buf.find(b"\n")
        if i == -1:
            out.append("RE")           # stream ends mid-line (or over-long without terminator)
            if len(buf) <= limit:
                buf = b""
            continue
        if i > limit:
            out.append("RE")           # over-long line
            continue
        line, buf = buf[: i + 1], buf[i + 1:]
        try:
            s = line.decode()
            out.append("L " + " ".join(str(ord(ch)) for ch in s))
        except UnicodeDecodeError:
            out.append("RE")
    return out


ALPHABET = [10, 10, 59, 49, 50, 65, 0xC3, 0xA9, 0xE2, 0x82, 0xAC, 0xF0, 0x9F, 0x98, 0x80, 0xFF, 0x80, 13, 32,
            0x7B, 0x7D, 0x25, 0x5C, 0x27, 0x22]   # { } % \ ' " : text that means something to str.format / % / repr


def gen_cases(ctx, rng):
    cases = []
    # every 2-cut chunking of short streams (exhaustive), reads after every feed
    shorts = [b"1;2\n3;4\n", b"a\nbb\n\nccc", b"\xc3\xa9\n\xff\n", b"12345678\n123456789\nx\n", b"\n\n", b"no newline", b"",
              b"\xe2\x82\xac;1\n\xf0\x9f\x98\x80\n", b"abcdefghijklmnopq\nr\n",
              b"1;2;{\n{0} {1}", b"{\"t\": 1}\n{x", b"%s %d\n}\xff{\n%(a)s"]
    for data in shorts:
        for limit in (8, 64):
            for i in range(len(data) + 1):
                for j in range(i, len(data) + 1):
                    chunks = [data[:i], data[i:j], data[j:]]
                    ops = []
                    for ch in chunks:
                        ops.append(("R",))
                        if ch:
                            ops.append(("F", ch))
                        ops.append(("R",))
                    ops.append(("E",))
                    ops += [("R",)] * 4
                    cases.append((limit, ops))
    for _ in range(ctx.budget(400, 8000)):
        limit = rng.choice([4, 8, 16, 64])
        n = rng.randint(0, 40)
        data = bytes(rng.choice(ALPHABET) for _ in range(n))
        ops = []
        pos = 0
        while pos < len(data):
            step = rng.randint(1, 9)
            ops.append(("F", data[pos:pos + step]))
            pos += step
            for _ in range(rng.choice([0, 1, 1, 2])):
                ops.append(("R",))
        if rng.random() < 0.9:
            ops.append(("E",))
        ops += [("R",)] * rng.randint(1, 4)
        cases.append((limit, ops))
    # around the default 64 KiB limit
    for n in (2 ** 16 - 1, 2 ** 16, 2 ** 16 + 1, 2 ** 16 + 5):
        data = b"x" * n + b"\nshort\n"
        cases.append((2 ** 16, [("F", data[:40000]), ("R",), ("F", data[40000:]), ("R",), ("R",), ("E",), ("R",)]))
    return cases


def enc_ops(limit, ops):
    parts = []
    for op in ops:
        if op[0] == "F":
            parts.append("F " + enc_bytes(op[1]))
        elif op[0] == "E":
            parts.append("E")
        else:
            parts.append("R")
    return f"SR {limit} {len(ops)} " + " ".join(parts)


def run_session(loop, limit, ops):
    """ops: ('C', ok) | ('D', close_fails) | ('F', bytes) | ('E',) | ('R', fails) | ('W', line, fails).
    One StreamTransport object over its whole life; returns (per-op outcomes, closes, bytes on the
    last connection) the way the model (Stream.trun) prints them."""
    from aiomysensors.transport import StreamTransport

    class Reader(asyncio.StreamReader):
        fail_next = False

        async def readuntil(self, separator=b"\n"):
            if self.fail_next:
                self.fail_next = False
                raise ConnectionResetError("reset by peer")
            return await super().readuntil(separator)

    class Writer(FakeWriter):
        fail_next = None       # None | "write" | "drain"

        def __init__(self):
            super().__init__()
            self.log = []      # [data, went through]

        def write(self, data: bytes):
            if self.fail_next == "write":
                self.fail_next = None
                raise ConnectionResetError("write failed")
            # like asyncio's transports, keep the object that was handed over (they queue it when the
            # socket is not ready) next to a copy of what it held at that moment
            self.log.append([bytes(data), True, data])
            super().write(data)

        async def drain(self):
            if self.fail_next == "drain":
                self.fail_next = None
                self.log[-1][1] = False     # queued, but reported as failed: not counted as written
                raise BrokenPipeError("drain failed")

    st = {"next_ok": True, "readers": [], "writers": []}

    class T(StreamTransport):
        async def _open_connection(self):
            if not st["next_ok"]:
                raise ConnectionRefusedError("refused")
            rd, w = Reader(limit=limit), Writer()
            st["readers"].append(rd)
            st["writers"].append(w)
            return rd, w

    t = T()
    outs = []
    conn = {"buf": b"", "pos": 0, "eof": False}      # the current connection's stream, from the property text

    def expect_read(res):
        """Successive reads return exactly the newline-terminated lines of the CURRENT connection's
        stream, in order; returns a complaint or None, and advances."""
        buf, pos = conn["buf"], conn["pos"]
        idx = buf.find(b"\n", pos)
        if res.startswith("L"):
            got = "".join(chr(int(x)) for x in res.split()[1:]).encode("utf-8", "surrogatepass")
            want = buf[pos:idx + 1] if idx >= 0 else None
            if want is not None:
                conn["pos"] = idx + 1
            if got != want:
                return f"read returned {got!r}, the next line of this connection's stream is {want!r}"
        elif res == "RE":
            if idx >= 0 and idx - pos <= limit:
                conn["pos"] = idx + 1                      # an undecodable line was consumed
            elif idx < 0 and len(buf) - pos <= limit and conn["eof"]:
                conn["pos"] = len(buf)                     # the incomplete tail at end of stream
        return None

    for op in ops:
        try:
            if op[0] == "C":
                st["next_ok"] = op[1]
                try:
                    loop.run_until_complete(t.connect())
                    outs.append("ok")
                    conn.update(buf=b"", pos=0, eof=False)
                except ex.TransportError:
                    outs.append("CE")
            elif op[0] == "D":
                for w in st["writers"]:
                    w.fail_close = w.fail_wait_closed = False
                if st["writers"]:
                    st["writers"][-1].fail_close = op[1] and len(outs) % 2 == 0
                    st["writers"][-1].fail_wait_closed = op[1] and len(outs) % 2 == 1
                loop.run_until_complete(t.disconnect())
                outs.append("ok")
            elif op[0] == "F":
                if st["readers"]:
                    st["readers"][-1].feed_data(op[1])
                    conn["buf"] += op[1]
                outs.append("ok")
            elif op[0] == "E":
                if st["readers"]:
                    st["readers"][-1].feed_eof()
                    conn["eof"] = True
                outs.append("ok")
            elif op[0] == "R":
                if st["readers"]:
                    st["readers"][-1].fail_next = op[1]
                task = loop.create_task(t.read())
                spin(loop)
                if task.done():
                    e = task.exception()
                    outs.append(("L " + " ".join(str(ord(ch)) for ch in task.result())).strip() if e is None else classify(e))
                else:
                    task.cancel()
                    spin(loop, 2)
                    outs.append("P")
                if st["readers"] and not op[1]:
                    complaint = expect_read(outs[-1])
                    if complaint:
                        st.setdefault("complaints", []).append(complaint)
                if st["readers"]:
                    st["readers"][-1].fail_next = False
            elif op[0] == "W":
                if st["writers"]:
                    st["writers"][-1].fail_next = (("write", "drain")[len(outs) % 2]) if op[2] else None
                try:
                    loop.run_until_complete(t.write(op[1]))
                    outs.append(("L " + " ".join(str(ord(ch)) for ch in op[1])).strip())
                except Exception as e:  # noqa: BLE001
                    outs.append(classify(e))
                if st["writers"]:
                    st["writers"][-1].fail_next = None
        except Exception as e:  # noqa: BLE001
            outs.append("ESCAPE " + type(e).__name__)
    closes = sum(w.closed for w in st["writers"])
    out = b"".join(e[0] for e in st["writers"][-1].log if e[1]) if st["writers"] else b""
    for cpl in st.get("complaints", [])[:1]:
        outs.append("ESCAPE-READ " + cpl)
    for w in st["writers"]:
        for e in w.log:
            if bytes(e[2]) != e[0]:
                outs.append(f"ESCAPE bytes handed to the stream changed after write() returned: {e[0]!r} became {bytes(e[2])!r}")
                break
    return outs, closes, out


def gen_sessions(ctx, rng):
    lines = ["1;2;1;0;2;x\n", "7;255;3;0;0;55\n", "\u00e5\u20ac\n", "no newline", ""]
    cases = []
    # a session that ends inside a line (or inside a multi-byte character), then the same object is
    # connected again: the new session starts clean, nothing of the old tail shows up
    for tail in (b"1;1;1;0", b"caf\xc3", b"7;255;3;0;0;5", b"\xe2\x82"):
        for nxt in (b"2;2;1;0;2;1\n", b"\xa9;1\n", b"\n", b"\xac\n"):
            for reads_before in (0, 1, 2):
                cases.append((64, [("C", True), ("F", b"ok;1\n" + tail)] + [("R", False)] * reads_before + [("E",)]
                              + [("R", False)] * (3 - reads_before) + [("D", False), ("C", True), ("F", nxt), ("R", False), ("R", False),
                                 ("W", "after\n", False), ("D", False)]))
    for _ in range(ctx.budget(250, 4000)):
        limit = rng.choice([8, 64])
        ops = [("C", True)] if rng.random() < 0.7 else []
        eof = False            # asyncio forbids feed_data after feed_eof on one reader
        for _ in range(rng.randint(2, 16)):
            x = rng.random()
            if x < 0.16:
                ops.append(("C", rng.random() < 0.7))
                eof = eof and not ops[-1][1]
            elif x < 0.28:
                ops.append(("D", rng.random() < 0.4))
            elif x < 0.5:
                if not eof:
                    ops.append(("F", bytes(rng.choice(ALPHABET) for _ in range(rng.randint(1, 12)))))
            elif x < 0.56:
                ops.append(("E",))
                eof = True
            elif x < 0.82:
                ops.append(("R", rng.random() < 0.12))
            else:
                ops.append(("W", rng.choice(lines), rng.random() < 0.2))
        cases.append((limit, ops))
    return cases


def enc_session(limit, ops):
    from common import enc_str

    parts = []
    for o in ops:
        if o[0] in ("C", "D", "R"):
            parts.append(f"{o[0]} {1 if o[1] else 0}")
        elif o[0] == "F":
            parts.append(f"F {enc_bytes(o[1])}")
        elif o[0] == "E":
            parts.append("E")
        else:
            parts.append(f"W {enc_str(o[1])} {1 if o[2] else 0}")
    return f"TS {limit} {len(ops)} " + " ".join(parts)


def run(ctx, model_available=True):
    rng = rng_for(ctx.seed, "C17")
    loop = asyncio.new_event_loop()
    failures = []
    d = Driver()
    exp = []
    dist = {"schedules": 0, "reads_completed": 0, "lines": 0, "read_errors": 0, "reads_not_ready": 0, "write_scenarios": 0}
    kinds = set()
    for limit, ops in gen_cases(ctx, rng):
        res = run_schedule(loop, limit, ops)
        dist["schedules"] += 1
        dist["reads_completed"] += len(res)
        dist["reads_not_ready"] += sum(1 for o in ops if o[0] == "R") - len(res)
        data = b"".join(o[1] for o in ops if o[0] == "F")
        eof = any(o[0] == "E" for o in ops)
        for r in res:
            if r.startswith("L"):
                dist["lines"] += 1
            else:
                dist["read_errors"] += 1
            if r.startswith("ESCAPE"):
                failures.append({"kind": "oracle", "sig": "C17:escape-decode" if "Unicode" in r else "C17:escape",
                                 "desc": f"read on stream {data[:60]!r} (limit {limit}) raised {r[7:]}", "case": {"limit": limit, "ops": [list(map(str, o)) for o in ops][:40]}})
        want = spec_reads(limit, data, len(res))
        # a read that completed before eof cannot be the incomplete-tail error
        if eof or all(x.startswith("L") or x == "RE" for x in res):
            if [x if not x.startswith("ESCAPE") else "RE" for x in res] != want:
                failures.append({"kind": "oracle", "sig": "C17:reads",
                                 "desc": f"stream {data[:80]!r} limit {limit} chunked as {[len(o[1]) for o in ops if o[0] == 'F']}: reads {res[:6]}, the lines of the stream are {want[:6]}",
                                 "case": {"limit": limit, "data": list(data[:300]), "ops": [[o[0]] + ([list(o[1])] if o[0] == 'F' else []) for o in ops][:60]}})
        kinds.add((limit, len(res), tuple(sorted({x[:2] for x in res})), eof))
        if len(data) < 3000:
            d.add(enc_ops(limit, ops))
            exp.append((limit, ops, res))
    # writes, connect / disconnect / unconnected use, OSError mapping
    lines = ["1;2;1;0;2;x\n", "åäö;\U0001f600\n", "", "a" * 1000 + "\n"]
    for scenario in range(ctx.budget(60, 600)):
        dist["write_scenarios"] += 1
        fw = rng.sample(range(1, 6), rng.choice([0, 0, 1]))
        fd = rng.sample(range(1, 6), rng.choice([0, 0, 1]))
        w = FakeWriter(fail_write_at=fw, fail_drain_at=fd, fail_close=rng.random() < 0.3, fail_wait_closed=rng.random() < 0.3)

        async def mk():
            return asyncio.StreamReader()

        t = make_transport(loop.run_until_complete(mk()), w)
        # before connect: every use is a transport error
        for coro in (t.read(), t.write("x\n")):
            try:
                loop.run_until_complete(coro)
                failures.append({"kind": "oracle", "sig": "C17:unconnected", "desc": "read/write before connect did not raise", "case": {}})
            except Exception as e:  # noqa: BLE001
                if not isinstance(e, ex.TransportError):
                    failures.append({"kind": "oracle", "sig": "C17:unconnected", "desc": f"use before connect raised {type(e).__name__}", "case": {}})
        loop.run_until_complete(t.connect())
        expect_out = bytearray()
        for i in range(1, 6):
            line = rng.choice(lines)
            try:
                loop.run_until_complete(t.write(line))
                ok = True
            except Exception as e:  # noqa: BLE001
                ok = False
                if not isinstance(e, ex.TransportError):
                    failures.append({"kind": "oracle", "sig": "C17:write-error-class", "desc": f"write with an I/O error raised {type(e).__name__}", "case": {}})
                if i not in fw and i not in fd:
                    failures.append({"kind": "oracle", "sig": "C17:write-spurious-error", "desc": f"write {i} raised without an injected fault", "case": {}})
            if i not in fw:
                expect_out += line.encode()
            if ok and (i in fw or i in fd):
                failures.append({"kind": "oracle", "sig": "C17:write-error-swallowed", "desc": f"write {i} hit an OSError but returned normally", "case": {}})
        if bytes(w.out) != bytes(expect_out):
            failures.append({"kind": "oracle", "sig": "C17:write-bytes", "desc": f"bytes on the stream {bytes(w.out)[:80]!r} differ from the UTF-8 of the written lines {bytes(expect_out)[:80]!r}", "case": {}})
        try:
            loop.run_until_complete(t.disconnect())
        except Exception as e:  # noqa: BLE001
            failures.append({"kind": "oracle", "sig": "C17:disconnect", "desc": f"disconnect raised {type(e).__name__} (OS-level errors must be absorbed)", "case": {}})
    import errno as _errno
    import socket as _socket

    for err in (ConnectionRefusedError("refused"), OSError("no route"), TimeoutError("timed out"),
                ConnectionRefusedError(_errno.ECONNREFUSED, "Connection refused"), OSError(_errno.ENOENT, "No such file or directory"),
                _socket.gaierror(-2, "Name or service not known"), _socket.gaierror(-3, "Temporary failure in name resolution"),
                OSError(524, "unknown to errno.errorcode"), OSError(0, "zero"), OSError(None, "none"), FileNotFoundError(2, "x", "/dev/ttyUSB9")):
        t = make_transport(None, None, open_error=err)
        try:
            loop.run_until_complete(t.connect())
            failures.append({"kind": "oracle", "sig": "C17:connect", "desc": "failed connection attempt did not raise", "case": {}})
        except Exception as e:  # noqa: BLE001
            if not isinstance(e, ex.TransportError):
                failures.append({"kind": "oracle", "sig": "C17:connect", "desc": f"failed connection attempt raised {type(e).__name__}", "case": {}})
    # the stream ends (cleanly between two lines, or inside a line): the read is a read error and
    # a later disconnect still closes the stream
    for tail in (b"", b"1;2;1;0;2", b"\xc3", b"{", b"1;2;{0}{1}", b"}\xff", b"%s{\"t\"}"):
        async def mk2():
            return asyncio.StreamReader()

        rd = loop.run_until_complete(mk2())
        w = FakeWriter()
        t = make_transport(rd, w)
        loop.run_until_complete(t.connect())
        rd.feed_data(b"1;2;1;0;2;x\n" + tail)
        rd.feed_eof()
        got = []
        for _ in range(2):
            try:
                got.append(loop.run_until_complete(t.read()))
            except Exception as e:  # noqa: BLE001
                got.append(classify(e))
        try:
            loop.run_until_complete(t.disconnect())
        except Exception as e:  # noqa: BLE001
            failures.append({"kind": "oracle", "sig": "C17:disconnect", "desc": f"disconnect after end of stream raised {type(e).__name__}", "case": {}})
        if got != ["1;2;1;0;2;x\n", "RE"] or w.closed != 1:
            failures.append({"kind": "oracle", "sig": "C17:eof-then-disconnect",
                             "desc": f"stream '1;2;1;0;2;x\\n' + {tail!r} then EOF: reads {got}; disconnect afterwards closed the stream {w.closed} time(s) (expected: the line, a read error, closed once)",
                             "case": {"tail": list(tail)}})
    # the same transport object over several connections: connect, use, disconnect, connect again
    from aiomysensors.transport import StreamTransport

    class Multi(StreamTransport):
        def __init__(self, conns):
            super().__init__()
            self.conns = list(conns)

        async def _open_connection(self):
            c = self.conns.pop(0)
            if isinstance(c, BaseException):
                raise c
            return c

    for _ in range(ctx.budget(30, 300)):
        dist["write_scenarios"] += 1

        async def mk2():
            return asyncio.StreamReader(), asyncio.StreamReader()

        r1, r2 = loop.run_until_complete(mk2())
        w1, w2 = FakeWriter(fail_close=rng.random() < 0.3), FakeWriter()
        third = rng.choice([ConnectionRefusedError("refused"), None])
        t = Multi([(r1, w1), (r2, w2)] + ([third] if third else []))
        r1.feed_data(b"first;1\nleft over")
        r2.feed_data(b"second;2\n")
        try:
            loop.run_until_complete(t.connect())
            a = loop.run_until_complete(t.read())
            loop.run_until_complete(t.write("to-first\n"))
            loop.run_until_complete(t.disconnect())
            loop.run_until_complete(t.connect())
            b = loop.run_until_complete(asyncio.wait_for(t.read(), 1))
            loop.run_until_complete(t.write("to-second\n"))
            loop.run_until_complete(t.disconnect())
        except Exception as e:  # noqa: BLE001
            failures.append({"kind": "oracle", "sig": "C17:reconnect", "desc": f"connect / use / disconnect / connect again on one transport object raised {type(e).__name__}: {e}", "case": {}})
            continue
        if (a, b) != ("first;1\n", "second;2\n") or bytes(w1.out) != b"to-first\n" or bytes(w2.out) != b"to-second\n":
            failures.append({"kind": "oracle", "sig": "C17:reconnect",
                             "desc": f"after disconnect and a second connect the transport still uses the first stream: reads {(a, b)}, first peer got {bytes(w1.out)!r}, second peer got {bytes(w2.out)!r}", "case": {}})
        if third:
            try:
                loop.run_until_complete(t.connect())
                failures.append({"kind": "oracle", "sig": "C17:reconnect", "desc": "a refused third connection attempt did not raise", "case": {}})
            except Exception as e:  # noqa: BLE001
                if not isinstance(e, ex.TransportError):
                    failures.append({"kind": "oracle", "sig": "C17:reconnect", "desc": f"a refused reconnect raised {type(e).__name__}", "case": {}})
    # an OSError while reading
    class BrokenReader:
        async def readuntil(self, sep):
            raise ConnectionResetError("reset")

    t = make_transport(BrokenReader(), FakeWriter())
    loop.run_until_complete(t.connect())
    try:
        loop.run_until_complete(t.read())
    except Exception as e:  # noqa: BLE001
        if not isinstance(e, ex.TransportError):
            failures.append({"kind": "oracle", "sig": "C17:read-oserror", "desc": f"OSError while reading raised {type(e).__name__}", "case": {}})
    # one transport object over its whole life, op by op against the model (Stream.trun)
    d2 = Driver()
    exp2 = []
    for limit, ops in gen_sessions(ctx, rng):
        outs_i, closes, out = run_session(loop, limit, ops)
        dist["sessions"] = dist.get("sessions", 0) + 1
        for o, x in zip(ops, outs_i):
            if x.startswith("ESCAPE"):
                failures.append({"kind": "oracle", "sig": "C17:escape-session", "desc": f"{o[0]} in a transport session raised {x[7:]} (not a transport error)",
                                 "case": {"limit": limit, "ops": [list(map(str, o)) for o in ops]}})
            if o[0] == "D" and x != "ok":
                failures.append({"kind": "oracle", "sig": "C17:disconnect", "desc": f"disconnect raised ({x})", "case": {"limit": limit, "ops": [list(map(str, o)) for o in ops]}})
        for extra in outs_i[len(ops):]:
            if extra.startswith("ESCAPE-READ "):
                failures.append({"kind": "oracle", "sig": "C17:reads-session", "desc": "one transport object over several connections: " + extra[12:],
                                 "case": {"limit": limit, "ops": [list(map(str, o)) for o in ops]}})
            else:
                failures.append({"kind": "oracle", "sig": "C17:write-aliased", "desc": extra[7:] + " (each write must put exactly the bytes of its line on the stream)",
                                 "case": {"limit": limit, "ops": [list(map(str, o)) for o in ops]}})
        outs_i = outs_i[:len(ops)]
        kinds.add(("session", tuple(sorted({x[:2] for x in outs_i}))))
        d2.add(enc_session(limit, ops))
        exp2.append((limit, ops, "".join(x + "|" for x in outs_i) + f"closes={closes} out=" + "".join(f"{b}," for b in out)))
    if model_available:
        for (limit, ops, want), mout in zip(exp2, d2.run()):
            if mout.strip() != want.strip():
                failures.append({"kind": "corr", "sig": None,
                                 "desc": f"transport session model and StreamTransport differ (limit {limit}, ops {[o[0] + (str(int(o[1])) if o[0] in 'CDR' else '') for o in ops]}): impl {want[:200]!r} model {mout[:200]!r}",
                                 "case": {"limit": limit, "ops": [list(map(str, o)) for o in ops]}})
        outs = d.run()
        for (limit, ops, res), mout in zip(exp, outs):
            m = [x.strip() for x in mout.split("|") if x.strip() != "" or False]
            m = [x for x in mout.split("|")][:-1]
            got = [x if not x.startswith("ESCAPE") else "RE" for x in res]
            if [x.strip() for x in m] != [x.strip() for x in got]:
                failures.append({"kind": "corr", "sig": None,
                                 "desc": f"stream reader model and asyncio.StreamReader differ (limit {limit}, feeds {[len(o[1]) for o in ops if o[0] == 'F']}): impl {got[:5]} model {m[:5]}",
                                 "case": {"limit": limit, "ops": [[o[0]] + ([list(o[1])] if o[0] == 'F' else []) for o in ops][:60]}})
    loop.close()
    seen = {}
    for f in failures:
        seen.setdefault((f["kind"], f["sig"]), f)
    return {
        "evaluations": dist["schedules"] + dist["write_scenarios"],
        "distinct_nontrivial": len(kinds),
        "rule": "a real asyncio.StreamReader behind a StreamTransport subclass: every 2-cut chunking of 9 short streams at two limits with reads issued before/after every feed, random byte streams (newlines, valid and invalid UTF-8) with random chunking and read timing, lines around the 64 KiB default limit; a recording writer with OSErrors injected at write / drain / close / wait_closed, failing connects, use before connect; distinct = (limit, #completed reads, result classes, eof?)",
        "samples": ["limit 8: feed b'1;2\\n3', read, feed b';4\\n', read, read, eof, read"],
        "distribution": dist,
        "failures": list(seen.values()),
        "exhaustive": False,
        "assumptions": ["asyncio.StreamReader.readuntil as implemented in CPython 3.12 (modelled in Stream.v and compared here)", "sockets, serial ports and flow control are not exercised"],
    }


def replay(ctx, rp):
    case = rp.get("case") or {}
    if "ops" not in case or "limit" not in case:
        print(rp)
        return 0
    loop = asyncio.new_event_loop()
    ops = []
    for o in case["ops"]:
        if o[0] == "F" and len(o) > 1 and isinstance(o[1], list):
            ops.append(("F", bytes(o[1])))
        elif o[0] in ("E", "R"):
            ops.append((o[0],))
    res = run_schedule(loop, case["limit"], ops)
    data = b"".join(o[1] for o in ops if o[0] == "F")
    print("reads", res)
    print("spec ", spec_reads(case["limit"], data, len(res)))
    loop.close()
    return 0 if res == spec_reads(case["limit"], data, len(res)) else 1
