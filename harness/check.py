"""Entry point of every registered check:  ./check <Cxx> --tier quick|thorough [--replay file]

1. regenerate coq/gen/*.v from /repo's working tree (introspection),
2. build the property's theorem file (full .vo build) and the extracted model driver,
3. run the property's correspondence (model vs implementation) and oracle,
4. verdict, replay files, evidence.
"""

from __future__ import annotations

import argparse
import fcntl
import glob
import importlib
import json
import os
import re
import subprocess
import sys
import time

VERIF = os.path.dirname(os.path.dirname(os.path.abspath(__file__)))
COQ = os.path.join(VERIF, "coq")
OCAML = os.path.join(VERIF, "ocaml")
BUILD = os.path.join(OCAML, "_build")
PY = "/venv/bin/python"

ENV = dict(os.environ)
ENV.update(
    PYTHONPATH="/repo/src:" + os.path.join(VERIF, "harness"),
    PYTHONHASHSEED="0",
    PYTHONDONTWRITEBYTECODE="1",
)

FORBIDDEN = re.compile(
    r"\b(Admitted|admit|Axiom|Axioms|Parameter|Parameters|Conjecture|Conjectures|"
    r"Admit Obligations|bypass_check)\b|Unset Guard|Unset Positivity|Unset Universe|"
    r"type-in-type|impredicative-set|native_compute"
)

TRUSTED_BASE = [
    "Coq 8.16.1 kernel (coqc); vm_compute used for finite table facts and witnesses; no native_compute",
    "harness/gen_tables.py: rendering of introspected enum tables, constants, handler MRO/decorator chains and marshmallow schema descriptors as Gallina literals",
    "extraction: ExtrOcamlBasic only (bool, option, unit, list, prod, sumbool, sumor mapped to OCaml types); no Extract Constant / Extract Inductive of our own; Z, N, positive, nat, string stay extracted inductives",
    "ocaml/driver.ml (op parsing / result printing) and OCaml 4.13.1",
    "correspondence harness (scripted transports, canonical rendering in harness/common.py vs coq/theories/Show.v): differential testing of the hand-written handler model against the implementation",
    "CPython 3.12 str/int/dict semantics as written in coq/theories/PyStr.v and Gateway.v (validated by the correspondence, not proved)",
]


def sh(cmd, timeout, cwd=None, env=None):
    t0 = time.time()
    try:
        p = subprocess.run(
            cmd, cwd=cwd, env=env or ENV, capture_output=True, timeout=timeout, check=False
        )
        return p.returncode, p.stdout.decode(errors="replace") + p.stderr.decode(errors="replace"), time.time() - t0
    except subprocess.TimeoutExpired as e:
        out = (e.stdout or b"").decode(errors="replace") + (e.stderr or b"").decode(errors="replace")
        return 124, out + "\nTIMEOUT", time.time() - t0


class Ctx:
    def __init__(self, pid: str, tier: str, seed: int):
        self.pid = pid
        self.tier = tier
        self.seed = seed
        self.t0 = time.time()
        self.notes: list[str] = []

    @property
    def quick(self) -> bool:
        return self.tier == "quick"

    def budget(self, quick: int, thorough: int) -> int:
        return quick if self.quick else thorough


def regenerate() -> tuple[bool, str]:
    os.makedirs(os.path.join(COQ, "gen"), exist_ok=True)
    rc, out, _ = sh([PY, os.path.join(VERIF, "harness", "gen_tables.py"), os.path.join(COQ, "gen")], 120)
    return rc == 0, out


def ensure_makefile() -> None:
    mk = os.path.join(COQ, "Makefile")
    cp = os.path.join(COQ, "_CoqProject")
    if not os.path.exists(mk) or os.path.getmtime(mk) < os.path.getmtime(cp):
        sh(["coq_makefile", "-f", "_CoqProject", "-o", "Makefile"], 60, cwd=COQ)


def count_theorems(path: str) -> list[tuple[int, str]]:
    res = []
    with open(path, encoding="utf-8") as f:
        for i, line in enumerate(f, 1):
            m = re.match(r"\s*(Theorem|Lemma|Example|Corollary)\s+([A-Za-z0-9_']+)", line)
            if m:
                res.append((i, m.group(2)))
    return res


def static_scan() -> list[str]:
    bad = []
    for path in glob.glob(os.path.join(COQ, "**", "*.v"), recursive=True):
        if os.sep + "gen" + os.sep in path:
            continue
        with open(path, encoding="utf-8") as f:
            text = f.read()
        # strip comments (non-nested approximation is enough: nested handled by loop)
        prev = None
        while prev != text:
            prev = text
            text = re.sub(r"\(\*(?:(?!\(\*|\*\)).)*\*\)", " ", text, flags=re.S)
        for m in FORBIDDEN.finditer(text):
            bad.append(f"{os.path.relpath(path, VERIF)}: {m.group(0)}")
    return bad


def build_proofs(pid: str, thorough: bool) -> dict:
    """Full .vo build of props/<pid>.v and its dependency cone."""
    ensure_makefile()
    prop_v = os.path.join(COQ, "props", f"{pid}.v")
    res = {
        "obligations": 0, "discharged": 0, "ok": False, "log": "", "axioms": [],
        "theorems": [], "failed": None, "checker_cmd":
        f"cd coq && coq_makefile -f _CoqProject -o Makefile && make props/{pid}.vo  (coqc 8.16.1, full .vo build; Print Assumptions under every theorem)",
    }
    if not os.path.exists(prop_v):
        res["failed"] = f"props/{pid}.v missing"
        return res
    thms = count_theorems(prop_v)
    res["theorems"] = [n for _, n in thms]
    res["obligations"] = len(thms)
    # force recompilation of the property file so Print Assumptions output is fresh
    for ext in (".vo", ".vok", ".vos", ".glob"):
        try:
            os.remove(os.path.join(COQ, "props", pid + ext))
        except FileNotFoundError:
            pass
    rc, out, wall = sh(["make", "-j8", f"props/{pid}.vo"], 1500, cwd=COQ)
    res["log"] = out[-6000:]
    res["make_wall_s"] = round(wall, 1)
    closed = out.count("Closed under the global context")
    axioms = re.findall(r"^Axioms:\s*\n((?:.+\n)+?)(?=\S|\Z)", out, flags=re.M)
    ax_names = sorted(set(re.findall(r"^([A-Za-z0-9_.']+)\s*:", "\n".join(axioms), flags=re.M)))
    res["axioms"] = ax_names
    if rc == 0:
        res["ok"] = True
        res["discharged"] = len(thms)
        res["closed"] = closed
    else:
        # which theorem of the property file failed, if the error is in it
        m = re.search(rf'File "\./props/{pid}\.v", line (\d+)', out)
        if m:
            line = int(m.group(1))
            res["discharged"] = sum(1 for ln, _ in thms if ln < line) - 1
            res["discharged"] = max(res["discharged"], 0)
            failing = [n for ln, n in thms if ln <= line]
            res["failed"] = f"props/{pid}.v line {line}: theorem {failing[-1] if failing else '?'}"
        else:
            m2 = re.search(r'File "\./([^"]+)", line (\d+)', out)
            res["failed"] = (
                f"{m2.group(1)} line {m2.group(2)}" if m2 else "make failed: " + out[-300:]
            )
            res["discharged"] = 0
    scan = static_scan()
    if scan:
        res["ok"] = False
        res["failed"] = "forbidden construct: " + "; ".join(scan[:5])
    if thorough and res["ok"]:
        rc2, out2, w2 = sh(["coqchk", "-silent", "-o", "-R", ".", "AMS", f"AMS.props.{pid}"], 1500, cwd=COQ)
        res["coqchk_rc"] = rc2
        res["coqchk_wall_s"] = round(w2, 1)
        res["coqchk_tail"] = out2[-1500:]
        if rc2 != 0:
            res["ok"] = False
            res["failed"] = "coqchk failed: " + out2[-300:]
    return res


def build_driver() -> tuple[bool, str]:
    """Extract the model and build the OCaml driver if anything changed."""
    os.makedirs(BUILD, exist_ok=True)
    ensure_makefile()
    # everything Extract.v requires must be up to date with the tables regenerated for this run
    # (a stale .vo compiled against other tables makes the extraction fail with "inconsistent assumptions")
    rc, out, _ = sh(["make", "-j8", "theories/Ops.vo", "theories/Models.vo", "theories/SaveCrash.vo",
                     "theories/GatewayInv.vo", "theories/OpsDrv.vo"], 1500, cwd=COQ)
    if rc != 0:
        return False, out[-3000:]
    drv = os.path.join(BUILD, "driver")
    srcs = [os.path.join(COQ, "extract", "Extract.v"), os.path.join(OCAML, "driver.ml")]
    srcs += glob.glob(os.path.join(COQ, "theories", "*.vo")) + glob.glob(os.path.join(COQ, "gen", "*.vo"))
    if os.path.exists(drv) and all(os.path.getmtime(s) <= os.path.getmtime(drv) for s in srcs):
        return True, "up to date"
    sh(["cp", os.path.join(COQ, "extract", "Extract.v"), os.path.join(BUILD, "Extract.v")], 10)
    rc, out, _ = sh(["coqc", "-R", COQ, "AMS", "Extract.v"], 600, cwd=BUILD)
    if rc != 0:
        return False, out[-3000:]
    sh(["cp", os.path.join(OCAML, "driver.ml"), os.path.join(BUILD, "driver.ml")], 10)
    rc, out, _ = sh(
        ["ocamlfind", "ocamlopt", "-O2", "-w", "-a", "model.mli", "model.ml", "driver.ml", "-o", "driver.tmp"],
        600, cwd=BUILD,
    )
    if rc != 0:
        return False, out[-3000:]
    os.replace(os.path.join(BUILD, "driver.tmp"), drv)
    return True, "rebuilt"


def load_known() -> list[dict]:
    with open(os.path.join(VERIF, "known_findings.json"), encoding="utf-8") as f:
        return json.load(f)["findings"]


def write_replay(pid: str, payload: dict) -> str:
    d = os.path.join(VERIF, "replays", pid)
    os.makedirs(d, exist_ok=True)
    n = 0
    while os.path.exists(os.path.join(d, f"{n}.json")):
        n += 1
    path = os.path.join(d, f"{n}.json")
    with open(path, "w", encoding="utf-8") as f:
        json.dump(payload, f, indent=1, default=repr)
    return os.path.relpath(path, VERIF)


# ---------------------------------------------------------------- exercise gate
# The correspondence run claims to have exercised the code the property is anchored in.
# Statement coverage of the anchor files is measured during the run; a statement that the run
# did not execute and that is not in the committed baseline (harness/exercise_baseline.json:
# the statements no quick / thorough run on the pinned tree reaches, identified by file,
# enclosing function and text — not by line number) is code the run says nothing about: the tie
# between model and implementation is incomplete there.

def _anchor_files(pid: str) -> list[str]:
    with open(os.path.join(VERIF, "properties.jsonl"), encoding="utf-8") as f:
        for line in f:
            p = json.loads(line)
            if p["id"] == pid:
                return [os.path.join("/repo", x) for x in p["anchors"]["files"] if x.endswith(".py")]
    return []


def _owners(path: str):
    """line -> qualified name of the innermost function / class BODY the line belongs to."""
    import ast

    with open(path, encoding="utf-8") as f:
        src = f.read().splitlines()
    owner: dict[int, str] = {}

    def visit(node, qual):
        for ch in ast.iter_child_nodes(node):
            q = qual
            if isinstance(ch, (ast.FunctionDef, ast.AsyncFunctionDef, ast.ClassDef)):
                q = (qual + "." + ch.name) if qual else ch.name
                first = ch.body[0].lineno if ch.body else ch.lineno
                for ln in range(first, getattr(ch, "end_lineno", first) + 1):
                    owner[ln] = q
            visit(ch, q)

    visit(ast.parse("\n".join(src)), "")
    return src, owner


def _function_hashes(path: str) -> dict[str, str]:
    """qualified name -> hash of the function's source text (whitespace-normalised)."""
    import ast
    import hashlib

    with open(path, encoding="utf-8") as f:
        text = f.read()
    src = text.splitlines()
    out: dict[str, str] = {}

    def visit(node, qual):
        for ch in ast.iter_child_nodes(node):
            q = qual
            if isinstance(ch, (ast.FunctionDef, ast.AsyncFunctionDef, ast.ClassDef)):
                q = (qual + "." + ch.name) if qual else ch.name
                if not isinstance(ch, ast.ClassDef):
                    first = min([ch.lineno] + [d.lineno for d in ch.decorator_list])
                    body = "\n".join(x.strip() for x in src[first - 1: ch.end_lineno])
                    out[q] = hashlib.sha1(body.encode()).hexdigest()
            visit(ch, q)

    visit(ast.parse(text), "")
    return out


def _inert_lines(path: str) -> set[int]:
    """Lines of statements that cannot change what the library does: `pass`, bare constants
    (docstrings, `...`), calls of a logger / `warnings.warn` / `print` whose arguments contain no
    call, await, walrus or comprehension, and `global` / `nonlocal` declarations.  An unexecuted
    statement of this kind (a debug message inside a guarded block, say) is not code the
    correspondence run has to reach."""
    import ast
    import re

    with open(path, encoding="utf-8") as f:
        tree = ast.parse(f.read())
    logger = re.compile(r"(?i)^_*(log|logger|logging|warnings)$|logger$")
    out: set[int] = set()

    def plain(e) -> bool:
        return not any(isinstance(x, (ast.Call, ast.Await, ast.NamedExpr, ast.ListComp, ast.SetComp, ast.DictComp,
                                      ast.GeneratorExp, ast.Yield, ast.YieldFrom, ast.Lambda)) for x in ast.walk(e))

    for node in ast.walk(tree):
        if isinstance(node, (ast.Pass, ast.Global, ast.Nonlocal)):
            out.add(node.lineno)
        elif isinstance(node, ast.Expr):
            v = node.value
            if isinstance(v, ast.Constant):
                out.add(node.lineno)
            elif isinstance(v, ast.Call):
                fn = v.func
                base = fn.value if isinstance(fn, ast.Attribute) else fn
                name = base.id if isinstance(base, ast.Name) else ""
                level = isinstance(fn, ast.Attribute) and fn.attr in (
                    "debug", "info", "warning", "warn", "error", "exception", "critical", "log")
                if ((logger.search(name) and level) or (isinstance(fn, ast.Name) and fn.id == "print")) \
                        and all(plain(a) for a in v.args) and all(plain(k.value) for k in v.keywords):
                    out.add(node.lineno)
    return out


def _function_sizes(path: str) -> dict[str, int]:
    """qualified name -> number of statements in the function (docstrings and nested bodies included)."""
    import ast

    with open(path, encoding="utf-8") as f:
        tree = ast.parse(f.read())
    out: dict[str, int] = {}

    def visit(node, qual):
        for ch in ast.iter_child_nodes(node):
            q = qual
            if isinstance(ch, (ast.FunctionDef, ast.AsyncFunctionDef, ast.ClassDef)):
                q = (qual + "." + ch.name) if qual else ch.name
                if not isinstance(ch, ast.ClassDef):
                    out[q] = sum(1 for x in ast.walk(ch) if isinstance(x, ast.stmt) and x is not ch
                                 and not (isinstance(x, ast.Expr) and isinstance(x.value, ast.Constant)))
            visit(ch, q)

    visit(tree, "")
    return out


def _statement_keys(path: str, statements, missing) -> list[tuple[str, str, str]]:
    """Unexecuted statements inside functions of which this run executed at least one statement
    (code the run reaches but does not cover); functions the run never enters are other
    properties' business."""
    src, owner = _owners(path)
    rel = os.path.relpath(path, "/repo")
    miss = set(missing) - _inert_lines(path)
    entered = {owner.get(ln, "") for ln in statements if ln not in set(missing) and owner.get(ln, "")}
    return sorted({(rel, owner.get(ln, ""), src[ln - 1].strip()) for ln in miss if owner.get(ln, "") in entered})


class Exercise:
    def __init__(self, pid: str):
        self.pid = pid
        self.files = [f for f in _anchor_files(pid) if os.path.exists(f)]
        self.cov = None
        try:
            import coverage

            self.cov = coverage.Coverage(data_file=None, include=self.files, config_file=False)
        except Exception:  # noqa: BLE001  no coverage module: the gate is skipped (and says so)
            self.cov = None

    def start(self):
        if self.cov:
            self.cov.start()

    def stop(self) -> dict:
        if not self.cov:
            return {"measured": False}
        self.cov.stop()
        statements, missing = 0, []
        for f in self.files:
            try:
                _, stm, _, miss, _ = self.cov.analysis2(f)
            except Exception:  # noqa: BLE001
                continue
            statements += len(stm)
            missing += _statement_keys(f, stm, miss)
        return {"measured": True, "statements": statements, "missing": missing}


def _anon(text: str) -> str:
    """The shape of a statement: string literals, names and attribute chains rooted at a name
    become one placeholder (the method name of a call is kept, numbers and keywords are kept):
    a message moved into a parameter, a renamed local, `message.node_id` bound to `node_id`
    leave the shape unchanged."""
    import keyword
    import re

    text = re.sub(r"""(?<![\w.])[fFrRbBuU]{0,2}("(?:\\.|[^"\\])*"|'(?:\\.|[^'\\])*')""", "_", text)

    def chain(m):
        parts = m.group(1).split(".")
        if len(parts) == 1 and keyword.iskeyword(parts[0]):
            return m.group(0)
        if m.group(2) and len(parts) > 1:
            return "_." + parts[-1] + "("
        return "_" + (m.group(2) or "")

    return re.sub(r"(?<![\w.])([A-Za-z_]\w*(?:\.[A-Za-z_]\w*)*)(\()?", chain, text)


def exercise_gaps(pid: str, tier: str, ex: dict) -> list[str]:
    """Statements of the anchor files not executed by this run and not in the baseline."""
    if not ex.get("measured"):
        return []
    dump = os.environ.get("VERIF_EXERCISE_DUMP")
    if dump:
        with open(dump, "w", encoding="utf-8") as f:
            json.dump([list(k) for k in ex["missing"]], f)
        return []
    path = os.path.join(VERIF, "harness", "exercise_baseline.json")
    if not os.path.exists(path):
        return []
    with open(path, encoding="utf-8") as f:
        base = json.load(f)
    # a baseline statement is recognised wherever it now lives in the file and whatever its local
    # names are (helper extraction, renames): compared by file and by text with identifiers that are
    # not attribute names replaced by a placeholder
    allowed = {(k[0], _anon(k[2])) for k in base.get(pid, [])}
    if pid not in base or "__functions__" not in base:
        return []
    # only code that differs from the pinned tree is in question: a function whose text is the one
    # the baseline was recorded for is covered by the baseline runs whatever this seed reaches
    changed: set[tuple[str, str]] = set()
    for f in _anchor_files(pid):
        if not os.path.exists(f):
            continue
        rel = os.path.relpath(f, "/repo")
        known = base["__functions__"].get(rel, {})
        for q, h in _function_hashes(f).items():
            if known.get(q) != h:
                changed.add((rel, q))
    # a function of which the runs on the pinned tree leave half or more unexecuted is not this
    # property's to vouch for (C02 enters handle_set only as far as the missing-node guard): its
    # unreached part is tied by the properties whose runs do go through it
    sizes = base.get("__sizes__", {})
    mine: dict[tuple[str, str], int] = {}
    for k in base.get(pid, []):
        mine[(k[0], k[1])] = mine.get((k[0], k[1]), 0) + 1
    def in_scope(rel: str, q: str) -> bool:
        n = sizes.get(rel, {}).get(q)
        return not n or 2 * mine.get((rel, q), 0) < n

    return [f"{k[0]}: {k[1] or '<module>'}: {k[2]}" for k in ex["missing"]
            if (k[0], _anon(k[2])) not in allowed and (k[0], k[1]) in changed and in_scope(k[0], k[1])]


def main() -> int:
    ap = argparse.ArgumentParser()
    ap.add_argument("pid")
    ap.add_argument("--tier", default=os.environ.get("VERIF_TIER", "quick"))
    ap.add_argument("--replay", default=None)
    args = ap.parse_args()
    pid = args.pid
    tier = args.tier if args.tier in ("quick", "thorough") else "quick"
    seed = int(os.environ.get("VERIF_SEED", "0") or 0)
    ctx = Ctx(pid, tier, seed)
    t0 = time.time()

    os.makedirs(os.path.join(VERIF, "evidence"), exist_ok=True)
    lock = open(os.path.join(COQ, ".lock"), "w")
    fcntl.flock(lock, fcntl.LOCK_EX)
    try:
        gen_ok, gen_out = regenerate()
        proof = build_proofs(pid, tier == "thorough") if gen_ok else {
            "obligations": len(count_theorems(os.path.join(COQ, "props", f"{pid}.v"))) if os.path.exists(os.path.join(COQ, "props", f"{pid}.v")) else 1,
            "discharged": 0, "ok": False, "failed": "table generation failed: " + gen_out[-500:],
            "axioms": [], "theorems": [], "log": gen_out[-3000:], "checker_cmd": "harness/gen_tables.py",
        }
        drv_ok, drv_out = build_driver() if gen_ok else (False, "tables not generated")
    finally:
        fcntl.flock(lock, fcntl.LOCK_UN)
        lock.close()

    sys.path.insert(0, os.path.join(VERIF, "harness"))
    sys.path.insert(0, "/repo/src")
    mod = importlib.import_module(f"props.{pid.lower()}")

    if args.replay:
        with open(args.replay, encoding="utf-8") as f:
            rp = json.load(f)
        return mod.replay(ctx, rp)

    from common import debug_logging

    debug_logging(True)
    exercise = Exercise(pid)
    exercise.start()
    try:
        result = mod.run(ctx, model_available=drv_ok)
    except Exception as e:  # noqa: BLE001  harness failure = broken tie, reported as such
        import traceback

        result = {
            "evaluations": 0, "distinct_nontrivial": 0, "rule": "harness crashed",
            "samples": [], "failures": [{
                "kind": "corr", "sig": "harness-exception",
                "desc": "correspondence harness raised: " + "".join(traceback.format_exception(e))[-3000:],
                "case": None,
            }],
        }

    ex_res = exercise.stop()
    gaps = exercise_gaps(pid, tier, ex_res)

    known = [k for k in load_known() if k["property"] == pid and k.get("status") == "known"]
    failures = result.get("failures", [])
    known_hit: dict[str, dict] = {}
    new_oracle = []
    corr = []
    for f in failures:
        if f["kind"] == "oracle":
            match = next((k for k in known if k["sig"] == f.get("sig")), None)
            if match:
                known_hit.setdefault(match["sig"], match)
            else:
                new_oracle.append(f)
        else:
            corr.append(f)
    # correspondence disagreements fully explained by a known finding are not alarms
    corr = [c for c in corr if not (c.get("sig") and any(k["sig"] == c["sig"] for k in known))]

    violations = 0
    lines = []
    for k in known_hit.values():
        lines.append(f"KNOWN-FINDING: property={pid} {k['what']}")
    # a known finding must still be backed by its _refuted theorem (checked in the proof step)

    if new_oracle:
        f = new_oracle[0]
        path = write_replay(pid, {
            "property": pid, "kind": "property fails on the implementation", "seed": seed, "tier": tier,
            "sig": f.get("sig"), "what": f["desc"], "case": f["case"],
            "how_to_rerun": f"./check {pid} --replay <this file>",
            "other_failures": [x["desc"] for x in new_oracle[1:6]],
        })
        lines.append(f"VIOLATION property={pid} replay={path}")
        violations = len(new_oracle)
    elif not proof["ok"] or corr or not drv_ok or gaps:
        reasons = []
        if gaps:
            reasons.append("code of the property's anchor files that this run did not execute and that no run on the pinned tree "
                           "leaves unexecuted (the correspondence says nothing about it): " + " | ".join(gaps[:8]))
        if not proof["ok"]:
            reasons.append(f"proof obligation no longer checks: {proof.get('failed')}")
        if not drv_ok:
            reasons.append("model driver could not be built: " + drv_out[-500:])
        if corr:
            reasons.append(f"model/implementation correspondence broken: {corr[0]['desc']}")
        path = write_replay(pid, {
            "property": pid, "kind": "no-failing-input-found", "seed": seed, "tier": tier,
            "unchecked": reasons,
            "smallest_disagreement": corr[0]["case"] if corr else None,
            "proof_log_tail": proof.get("log", "")[-2500:],
            "note": "the property's oracle was run on every generated implementation trace and found no input on which the property itself fails",
        })
        lines.append(f"VIOLATION property={pid} replay={path} no-failing-input-found")
        violations = 1

    wall = time.time() - t0
    cov = {
        "obligations": max(proof["obligations"], 1),
        "discharged": proof["discharged"],
        "checker_cmd": proof["checker_cmd"],
        "trusted_base": TRUSTED_BASE + result.get("trusted_extra", []),
        "theorems": proof.get("theorems", []),
        "axioms_reported_by_Print_Assumptions": proof.get("axioms", []),
        "closed_under_global_context": proof.get("closed", 0),
        "proof_ok": proof["ok"],
        "proof_failed": proof.get("failed"),
        "exercise": {"measured": ex_res.get("measured", False), "anchor_statements": ex_res.get("statements"),
                     "unexecuted_in_entered_functions": len(ex_res.get("missing", [])), "not_in_baseline": gaps[:20]},
        "evaluations": result.get("evaluations", 0),
        "distinct_nontrivial": result.get("distinct_nontrivial", 0),
        "rule": result.get("rule", ""),
        "samples": result.get("samples", [])[:8],
        "traces_validated_against_impl": result.get("traces_validated_against_impl", result.get("evaluations", 0)),
        "exhaustive": bool(result.get("exhaustive", False)),
        "distribution": result.get("distribution", {}),
        "known_findings_seen": sorted(known_hit),
        "correspondence_disagreements": len([f for f in failures if f["kind"] == "corr"]),
        "oracle_failures": len([f for f in failures if f["kind"] == "oracle"]),
        "model_driver": drv_out if not drv_ok else "ok",
    }
    for k in ("coqchk_rc", "coqchk_wall_s", "make_wall_s"):
        if k in proof:
            cov[k] = proof[k]
    cov.update(result.get("extra_coverage", {}))
    evidence = {
        "property_id": pid,
        "tier": tier,
        "seed": seed,
        "level": "proof",
        "coverage": cov,
        "assumptions": result.get("assumptions", []),
        "wall_s": round(wall, 2),
        "violations": violations,
    }
    with open(os.path.join(VERIF, "evidence", f"{pid}.json"), "w", encoding="utf-8") as f:
        json.dump(evidence, f, indent=1, default=repr)

    for l in lines:
        print(l)
    print(
        f"{pid} tier={tier} seed={seed} theorems={proof['discharged']}/{proof['obligations']} "
        f"cases={cov['evaluations']} nontrivial={cov['distinct_nontrivial']} "
        f"corr_disagreements={cov['correspondence_disagreements']} oracle_failures={cov['oracle_failures']} "
        f"known={len(known_hit)} wall={wall:.1f}s"
    )
    return 1 if violations else 0


if __name__ == "__main__":
    sys.exit(main())
