"""Regenerate coq/gen/Tables.v and coq/gen/RtTables.v from /repo's working tree.

Run in a fresh interpreter with PYTHONPATH=/repo/src.  Everything in the
implementation that is *data* (enum tables, constants, which class defines
which handler and under which decorators, marshmallow schema descriptors) is
introspected from the imported modules and rendered as Gallina literals.
Fail-closed: anything the renderer does not understand raises, and the caller
treats that as a broken tie to the source.
"""

from __future__ import annotations

import enum
import os
import sys
import unicodedata


def q(s: str) -> str:
    """Coq string literal."""
    assert all(32 <= ord(c) < 127 for c in s), s
    return '"' + s.replace('"', '""') + '"'


def cps(s: str) -> str:
    """Python str as list N of code points."""
    return "[" + "; ".join(f"{ord(c)}%N" for c in s) + "]"


def z(i: int) -> str:
    return f"({int(i)})%Z"


def zl(xs) -> str:
    return "[" + "; ".join(z(x) for x in xs) + "]"


def enum_table(e: type[enum.IntEnum]) -> str:
    # __members__ keeps aliases, in definition order; canonical name of a value
    # is the first member with that value (IntEnum semantics).
    rows = []
    for name, member in e.__members__.items():
        rows.append(f"({q(name)}, {q(name.lower())}, {z(member.value)})")
    return "[" + ";\n      ".join(rows) + "]"


def decorators_of(func) -> tuple[list[str], object]:
    """Peel decorator wrappers; return names of the decorators, outermost first."""
    decs = []
    f = getattr(func, "__func__", func)
    for _ in range(16):
        qn = f.__code__.co_qualname
        if "<locals>" not in qn:
            return decs, f
        decs.append(qn.split(".")[0])
        if hasattr(f, "__wrapped__"):
            f = f.__wrapped__
        else:
            cells = [
                c.cell_contents
                for c in (f.__closure__ or ())
                if callable(c.cell_contents)
            ]
            if len(cells) != 1:
                raise RuntimeError(f"cannot unwrap decorator of {qn}")
            f = cells[0]
    raise RuntimeError("decorator chain too deep")


def handler_table(cls) -> str:
    rows = []
    # Dispatch reaches "handle_" + <lower-cased member name> only (Gateway.names_ok): the public
    # handle_* methods are the table.  The two private names the pinned tree has are kept (the Coq
    # side skips them); any other private helper is part of a handler body, i.e. of the
    # hand-written model that the correspondence and the exercise gate tie to the code.
    names = sorted(
        n for n in dir(cls)
        if n.startswith("handle_") or n in ("_handle_message", "_handle_sleep_buffer")
    )
    for n in names:
        chain = []
        for c in cls.__mro__:
            if n in c.__dict__:
                decs, f = decorators_of(c.__dict__[n])
                if getattr(f, "__isabstractmethod__", False):
                    continue
                mod = c.__module__.rsplit(".", 1)[-1]
                chain.append(
                    f"({q(mod)}, [" + "; ".join(q(d) for d in decs) + "])"
                )
        rows.append(f"({q(n)}, [" + "; ".join(chain) + "])")
    return "[" + ";\n      ".join(rows) + "]"


def validator_desc(v) -> str:
    from marshmallow import validate

    if isinstance(v, validate.Range):
        def o(x):
            return "None" if x is None else f"(Some {z(x)})"
        return (
            f"(VRange {o(v.min)} {o(v.max)} "
            f"{str(bool(v.min_inclusive)).lower()} {str(bool(v.max_inclusive)).lower()})"
        )
    if isinstance(v, validate.OneOf):
        return f"(VOneOf {zl(v.choices)})"
    return f"(VOther {q(type(v).__name__)})"


def kind_of(f) -> str:
    from marshmallow import fields

    t = type(f)
    if t is fields.Nested:
        return "Nested:" + f.schema.__class__.__name__
    if t in (fields.Integer, fields.Int):
        return "Integer" + (":strict" if f.strict else "")
    return t.__name__


def schema_desc(schema_cls) -> str:
    from marshmallow import fields

    s = schema_cls()
    rows = []
    for name, f in s.fields.items():
        kind = kind_of(f)
        kk = vk = ""
        if isinstance(f, fields.Dict):
            kk = kind_of(f.key_field) if f.key_field is not None else ""
            vk = kind_of(f.value_field) if f.value_field is not None else ""
        vals = "[" + "; ".join(validator_desc(v) for v in f.validators) + "]"
        rows.append(
            "{| fd_name := %s; fd_kind := %s; fd_required := %s; fd_allow_none := %s; "
            "fd_validators := %s; fd_key_kind := %s; fd_value_kind := %s |}"
            % (
                q(name),
                q(kind),
                str(bool(f.required)).lower(),
                str(bool(f.allow_none)).lower(),
                vals,
                q(kk),
                q(vk),
            )
        )
    return "[" + ";\n    ".join(rows) + "]"


def hooks_of(schema_cls) -> str:
    s = schema_cls()
    rows = []
    for tag, hooks in sorted(s._hooks.items(), key=repr):
        for h in hooks:
            name = h[0] if isinstance(h, tuple) else h
            rows.append(f"({q(str(tag))}, {q(str(name))})")
    return "[" + "; ".join(rows) + "]"


def gen_tables() -> str:
    from aiomysensors import persistence
    from aiomysensors.model import const, message, node
    from aiomysensors.model import protocol as P
    from aiomysensors.transport import TERMINATOR
    from aiomysensors.transport import mqtt as mqtt_mod
    import importlib.metadata

    out = []
    w = out.append
    w("(* GENERATED by harness/gen_tables.py from /repo's working tree. Do not edit. *)")
    w("From Coq Require Import List ZArith NArith String.")
    w("From AMS Require Import TablesTypes.")
    w("Import ListNotations.")
    w("Local Open Scope string_scope.")
    w("")
    versions = sorted(P.PROTOCOL_VERSIONS)
    defs = []
    for v in versions:
        m = P.PROTOCOL_VERSIONS[v]
        ident = "proto_" + v.replace(".", "_")
        defs.append(ident)
        w(f"Definition {ident} : proto_tables := {{|")
        w(f"  pt_key := {cps(v)};")
        w(f"  pt_version := {cps(m.VERSION)};")
        w(f"  pt_module := {q(m.__name__.rsplit('.', 1)[-1])};")
        w(f"  pt_command := {enum_table(m.Command)};")
        w(f"  pt_presentation := {enum_table(m.Presentation)};")
        w(f"  pt_setreq := {enum_table(m.SetReq)};")
        w(f"  pt_internal := {enum_table(m.Internal)};")
        w(f"  pt_stream := {enum_table(m.Stream)};")
        w(f"  pt_internal_command_type := {z(m.INTERNAL_COMMAND_TYPE)};")
        w(f"  pt_node_id_request_types := {zl(sorted(int(x) for x in m.NODE_ID_REQUEST_TYPES))};")
        w(f"  pt_strict_system := {zl(sorted(int(x) for x in m.STRICT_SYSTEM_COMMAND_TYPES))};")
        w(f"  pt_valid_system := {zl(sorted(int(x) for x in m.VALID_SYSTEM_COMMAND_TYPES))};")
        w(f"  pt_incoming := {handler_table(m.IncomingMessageHandler)};")
        w(f"  pt_outgoing := {handler_table(m.OutgoingMessageHandler)}")
        w("|}.")
        w("")
    w("Definition protocols : list proto_tables := [" + "; ".join(defs) + "].")
    w(f"Definition default_protocol_version : list N := {cps(const.DEFAULT_PROTOCOL_VERSION)}.")
    w(f"Definition broadcast_id : Z := {z(const.BROADCAST_ID)}.")
    w(f"Definition max_node_id : Z := {z(const.MAX_NODE_ID)}.")
    w(f"Definition system_child_id : Z := {z(const.SYSTEM_CHILD_ID)}.")
    assert len(message.DELIMITER) == 1
    w(f"Definition delimiter : N := {ord(message.DELIMITER)}%N.")
    assert len(TERMINATOR) == 1
    w(f"Definition terminator : N := {TERMINATOR[0]}%N.")
    w(f"Definition save_interval : Z := {z(persistence.SAVE_INTERVAL)}.")
    w(f"Definition message_schema : list field_desc :=\n   {schema_desc(message.MessageSchema)}.")
    w(f"Definition message_schema_hooks : list (string * string) := {hooks_of(message.MessageSchema)}.")
    w(f"Definition node_schema : list field_desc :=\n   {schema_desc(node.NodeSchema)}.")
    w(f"Definition node_schema_hooks : list (string * string) := {hooks_of(node.NodeSchema)}.")
    w(f"Definition child_schema : list field_desc :=\n   {schema_desc(node.ChildSchema)}.")
    w(f"Definition child_schema_hooks : list (string * string) := {hooks_of(node.ChildSchema)}.")
    unknown = {
        "MessageSchema": message.MessageSchema().unknown,
        "NodeSchema": node.NodeSchema().unknown,
        "ChildSchema": node.ChildSchema().unknown,
    }
    w(
        "Definition schema_unknown : list (string * string) := ["
        + "; ".join(f"({q(k)}, {q(str(v))})" for k, v in unknown.items())
        + "]."
    )
    # Exception hierarchy: which classes derive from the library base.
    from aiomysensors import exceptions as ex

    lib = sorted(
        n
        for n, c in vars(ex).items()
        if isinstance(c, type) and issubclass(c, ex.AIOMySensorsError)
    )
    w("Definition library_errors : list string := [" + "; ".join(q(n) for n in lib) + "].")
    parents = []
    for n in lib:
        c = getattr(ex, n)
        parents.append(f"({q(n)}, {q(c.__mro__[1].__name__)})")
    w("Definition error_parent : list (string * string) := [" + "; ".join(parents) + "].")
    # MQTT: subscription suffixes are literals inside connect(); recover them by
    # running connect() on a recording subclass.
    import asyncio

    class Rec(mqtt_mod.MQTTTransport):
        def __init__(self):
            super().__init__(in_prefix="", out_prefix="")
            self.subs = []

        async def _connect(self):
            pass

        async def _disconnect(self):
            pass

        async def _publish(self, topic, payload, qos):
            pass

        async def _subscribe(self, topic, qos):
            self.subs.append((topic, qos))

    r = Rec()
    asyncio.run(r.connect())
    w(
        "Definition mqtt_subscriptions : list (list N * Z) := ["
        + "; ".join(f"({cps(t)}, {z(qos)})" for t, qos in r.subs)
        + "]."
    )
    d = mqtt_mod.MQTTTransport.__init__.__kwdefaults__
    w(f"Definition mqtt_default_in_prefix : list N := {cps(d['in_prefix'])}.")
    w(f"Definition mqtt_default_out_prefix : list N := {cps(d['out_prefix'])}.")
    w(f"Definition marshmallow_version : string := {q(importlib.metadata.version("marshmallow"))}.")
    return "\n".join(out) + "\n"


def gen_rt() -> str:
    out = []
    w = out.append
    w("(* GENERATED by harness/gen_tables.py from the running CPython. Do not edit. *)")
    w("From Coq Require Import List NArith.")
    w("Import ListNotations.")
    w("Local Open Scope N_scope.")
    sp = [c for c in range(0x110000) if chr(c).isspace()]
    w("Definition py_space_cps : list N := [" + "; ".join(map(str, sp)) + "].")
    nd = [c for c in range(0x110000) if unicodedata.category(chr(c)) == "Nd"]
    dec = [c for c in range(0x110000) if unicodedata.decimal(chr(c), None) is not None]
    assert nd == dec
    ranges = []
    st = pv = nd[0]
    for c in nd[1:]:
        if c != pv + 1:
            ranges.append((st, pv))
            st = c
        pv = c
    ranges.append((st, pv))
    for a, b in ranges:
        assert (b - a + 1) % 10 == 0 and unicodedata.decimal(chr(a)) == 0
        for c in range(a, b + 1):
            assert unicodedata.decimal(chr(c)) == (c - a) % 10
    # (first, last): digit value of c in the range is (c - first) mod 10
    w(
        "Definition py_nd_ranges : list (N * N) := ["
        + "; ".join(f"({a}, {b})" for a, b in ranges)
        + "]."
    )
    w(f"Definition py_max_str_digits : N := {sys.int_info.default_max_str_digits}.")
    lb = [c for c in range(0x110000) if len(("a" + chr(c) + "b").splitlines()) > 1]
    w("Definition py_linebreak_cps : list N := [" + "; ".join(map(str, lb)) + "].")
    return "\n".join(out) + "\n"


def write_if_changed(path: str, content: str) -> bool:
    try:
        with open(path, encoding="utf-8") as f:
            if f.read() == content:
                return False
    except FileNotFoundError:
        pass
    tmp = path + ".tmp"
    with open(tmp, "w", encoding="utf-8") as f:
        f.write(content)
    os.replace(tmp, path)
    return True


def main() -> int:
    gen_dir = sys.argv[1]
    changed = []
    if write_if_changed(os.path.join(gen_dir, "RtTables.v"), gen_rt()):
        changed.append("RtTables.v")
    if write_if_changed(os.path.join(gen_dir, "Tables.v"), gen_tables()):
        changed.append("Tables.v")
    print("changed:" + ",".join(changed))
    return 0


if __name__ == "__main__":
    sys.exit(main())
