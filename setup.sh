#!/bin/sh
# Build the framework from files on disk only (offline): regenerate the tables
# from /repo, full .vo build of the Coq development, extraction, OCaml driver.
set -e
cd "$(dirname "$0")"
export PYTHONPATH=/repo/src:/verif/harness PYTHONHASHSEED=0 PYTHONDONTWRITEBYTECODE=1
mkdir -p coq/gen ocaml/_build evidence replays
/venv/bin/python harness/gen_tables.py coq/gen
cd coq
coq_makefile -f _CoqProject -o Makefile
timeout 3000 make -j16
cd ../ocaml/_build
cp ../../coq/extract/Extract.v Extract.v
coqc -R ../../coq AMS Extract.v
cp ../driver.ml driver.ml
ocamlfind ocamlopt -O2 -w -a model.mli model.ml driver.ml -o driver
echo setup ok
