(* Types of the generated tables (gen/Tables.v is data only). *)
From Coq Require Import List ZArith NArith String.
Import ListNotations.

Inductive validator :=
| VRange (vmin vmax : option Z) (min_inclusive max_inclusive : bool)
| VOneOf (choices : list Z)
| VOther (name : string).

Record field_desc := {
  fd_name : string;
  fd_kind : string;          (* marshmallow field class, "Nested:<Schema>", "Integer[:strict]" *)
  fd_required : bool;
  fd_allow_none : bool;
  fd_validators : list validator;
  fd_key_kind : string;      (* Dict only *)
  fd_value_kind : string     (* Dict only *)
}.

(* handler name -> the classes of the MRO that define it (most derived first),
   each with the decorators applied there (outermost first) *)
Definition handler_chain := list (string * list string).

Record proto_tables := {
  pt_key : list N;                             (* key in PROTOCOL_VERSIONS *)
  pt_version : list N;                         (* module.VERSION *)
  pt_module : string;
  pt_command : list (string * string * Z);     (* (name, lower name, value), aliases kept, definition order *)
  pt_presentation : list (string * string * Z);
  pt_setreq : list (string * string * Z);
  pt_internal : list (string * string * Z);
  pt_stream : list (string * string * Z);
  pt_internal_command_type : Z;
  pt_node_id_request_types : list Z;
  pt_strict_system : list Z;
  pt_valid_system : list Z;
  pt_incoming : list (string * handler_chain);
  pt_outgoing : list (string * handler_chain)
}.
