(* Resolved forms of one listen step for specific message kinds, and the exact
   step theorems the properties C05-C08, C10-C12 need.  Dispatch through the
   generated tables is resolved by computation, per protocol. *)
From Coq Require Import List NArith ZArith Bool String Lia.
From AMS Require Import TablesTypes Tables PyStr Codec CodecFacts Gateway GatewayFacts GatewayInv.
Import ListNotations.
Local Open Scope Z_scope.

Section WithOracles.
  Variable bat : str -> option Z.
  Variable vlt : str -> str -> option bool.
  Variable now : Z.

  Notation listen_step := (listen_step bat vlt now).
  Notation dispatch2 := (dispatch2 bat vlt now).
  Notation run_body2 := (run_body2 bat vlt now).
  Notation run_body1 := (run_body1 bat vlt now).

  Definition no_super : msg -> M msg := fun _ => raise (EEscape "abstract handler").

  (* the level-1 handler an accepted line is dispatched to *)
  Definition internal_inner (m' : msg) : M msg :=
    w <- get_w ;;
    match enum_lname_of (pt_internal (proto_of w)) (m_type m') with
    | None => raise (EUnsupported m' (pv_or_default w))
    | Some ln => dispatch2 ("handle_" ++ ln) m'
    end.

  Lemma listen_internal line m s :
    decode (proto_of (s_w s)) line = DecOk m -> m_cmd m = 3 ->
    listen_step line s = dec_mpv internal_inner m s.
  Proof.
    intros Hd Hk. unfold Gateway.listen_step, bind, get_w. cbn beta iota. rewrite Hd.
    unfold proto_of. rewrite command_lname. unfold lname_cmd. rewrite Hk. cbn [Z.eqb Pos.eqb append].
    pattern (proto_at (w_proto (s_w s))). apply proto_at_cases; reflexivity.
  Qed.

  (* level-2 dispatch, resolved per protocol for the handlers the theorems are about *)
  Lemma dispatch_id_request m s :
    dispatch2 "handle_i_id_request" m s = run_body2 BIdRequest no_super m s.
  Proof.
    unfold Gateway.dispatch2, bind, get_w, proto_of. cbn beta iota.
    pattern (proto_at (w_proto (s_w s))). apply proto_at_cases; reflexivity.
  Qed.

  Lemma dispatch_config m s : dispatch2 "handle_i_config" m s = run_body2 BConfig no_super m s.
  Proof.
    unfold Gateway.dispatch2, bind, get_w, proto_of. cbn beta iota.
    pattern (proto_at (w_proto (s_w s))). apply proto_at_cases; reflexivity.
  Qed.

  Lemma dispatch_time m s : dispatch2 "handle_i_time" m s = run_body2 BTime no_super m s.
  Proof.
    unfold Gateway.dispatch2, bind, get_w, proto_of. cbn beta iota.
    pattern (proto_at (w_proto (s_w s))). apply proto_at_cases; reflexivity.
  Qed.

  (* transport.write in closed form *)
  Lemma write_eq m s :
    write_msg m s =
    (if hd false (s_faults s) then inr ETransport else inl tt,
     {| s_w := s_w s;
        s_log := {| we_line := encode m; we_ok := negb (hd false (s_faults s)); we_msg := m |} :: s_log s;
        s_faults := tl (s_faults s) |}).
  Proof. unfold write_msg. destruct (s_faults s) as [|[|] r]; reflexivity. Qed.

  Definition version_query_msg : msg := mk_msg 0 255 3 0 2 [].

  Definition version_query (w : world) : list str :=
    match w_pv w with None => [encode version_query_msg] | Some _ => [] end.

  Lemma internal_lname_3 i : enum_lname_of (pt_internal (proto_at i)) 3 = Some "i_id_request"%string.
  Proof. apply (proto_at_cases (fun p => enum_lname_of (pt_internal p) 3 = Some "i_id_request"%string)); reflexivity. Qed.


  Definition with_nodes (s : st) (ns : list (Z * node)) : st :=
    {| s_w := {| w_nodes := ns; w_pv := w_pv (s_w s); w_proto := w_proto (s_w s);
                 w_internal := w_internal (s_w s); w_set := w_set (s_w s); w_metric := w_metric (s_w s) |};
       s_log := s_log s; s_faults := s_faults s |}.

  (* an unbuffered send of an internal / set message is one write attempt *)
  Lemma send_unbuffered_internal m s : m_cmd m = 3 -> send m false s = write_msg m s.
  Proof. intros H. rewrite send_eq. unfold send_resolved. rewrite H. reflexivity. Qed.

  Lemma send_unbuffered_set m s : m_cmd m = 1 -> send m false s = write_msg m s.
  Proof.
    intros H. rewrite send_eq. unfold send_resolved, send_set_direct, bind, ret. rewrite H. cbn [Z.eqb Pos.eqb andb].
    destruct (dget Z.eqb (w_nodes (s_w s)) (m_node m)); destruct (write_msg m s) as [[[]|e] s']; reflexivity.
  Qed.

  (* handle_missing_protocol_version in closed form: run the handler, then (finally)
     one version query iff the version is still unknown and the message is not a
     log / gateway-ready message *)
  Definition wants_version_query (m : msg) : bool :=
    negb (m_cmd m =? 3) || negb ((m_type m =? 9) || (m_type m =? 14)).

  Definition mpv_finally {A} (m : msg) (r : A + exn) (s' : st) : (A + exn) * st :=
    match w_pv (s_w s') with
    | Some _ => (r, s')
    | None =>
        if wants_version_query m then
          match write_msg version_query_msg s' with
          | (inl _, s'') => (r, s'')
          | (inr e, s'') => (inr e, s'')
          end
        else (r, s')
    end.

  Theorem dec_mpv_eq f m s :
    dec_mpv f m s = mpv_finally m (fst (f m s)) (snd (f m s)).
  Proof.
    unfold dec_mpv, try_finally, mpv_finally. destruct (f m s) as [r s']. cbn [fst snd].
    unfold bind, get_w. cbn beta iota.
    destruct (w_pv (s_w s')); [reflexivity|].
    destruct consts_p14 as [C1 [C2 [C3 [C4 [C5 [C6 [C7 C8]]]]]]].
    rewrite C7, C3, C4, C5. cbn [need ret]. unfold wants_version_query.
    destruct (negb (m_cmd m =? 3) || negb ((m_type m =? 9) || (m_type m =? 14))).
    - rewrite send_unbuffered_internal by reflexivity. rewrite system_child_id_is.
      change (mk_msg 0 255 3 0 2 []) with version_query_msg.
      destruct (write_msg version_query_msg s') as [[[]|e] s'']; reflexivity.
    - reflexivity.
  Qed.

  (* handle_i_id_request in closed form *)
  Definition id_response (m : msg) (nxt : Z) : msg :=
    mk_msg (m_node m) (m_child m) (m_cmd m) 0 4 (str_of_Z nxt).

  Theorem body_id_request m s :
    m_cmd m = 3 ->
    run_body2 BIdRequest no_super m s =
    let nxt := next_id (keys (s_w s)) in
    if 254 <? nxt then (inr ETooManyNodes, s)
    else
      let s1 := with_nodes s (dset Z.eqb (w_nodes (s_w s)) nxt (new_node nxt 17 default_protocol_version)) in
      match write_msg (id_response m nxt) s1 with
      | (inl _, s2) => (inl m, s2)
      | (inr e, s2) => (inr e, s2)
      end.
  Proof.
    intros Hk. cbn [Gateway.run_body2]. unfold bind, get_w. cbn beta iota.
    change (match map fst (w_nodes (s_w s)) with [] => 1 | k :: ks => fold_left Z.max ks k + 1 end)
      with (next_id (keys (s_w s))).
    rewrite max_node_id_is. cbv zeta. destruct (254 <? next_id (keys (s_w s))); [reflexivity|].
    destruct consts_p14 as [C1 [C2 _]]. rewrite C1, C2. cbn [need ret].
    unfold set_nodes, modify_w. cbn beta iota.
    rewrite send_unbuffered_internal by exact Hk.
    unfold id_response, with_nodes.
    match goal with |- match write_msg ?l ?x with _ => _ end = match write_msg ?l' ?x' with _ => _ end =>
      change x with x'; change l with l' end.
    match goal with |- match ?x with _ => _ end = _ => destruct x as [[[]|e] s2] end; reflexivity.
  Qed.

  (* C11: the allocation step *)
  Lemma listen_id_request line m s :
    decode (proto_of (s_w s)) line = DecOk m -> m_cmd m = 3 -> m_type m = 3 ->
    listen_step line s =
    mpv_finally m (fst (run_body2 BIdRequest no_super m s)) (snd (run_body2 BIdRequest no_super m s)).
  Proof.
    intros Hd Hk Ht. rewrite (listen_internal line m s Hd Hk), dec_mpv_eq.
    assert (E : internal_inner m s = run_body2 BIdRequest no_super m s).
    { unfold internal_inner, bind, get_w. cbn beta iota. unfold proto_of.
      rewrite Ht, internal_lname_3. cbn [append]. apply dispatch_id_request. }
    rewrite E. reflexivity.
  Qed.

  Theorem id_request_step w faults line m :
    Inv vlt w -> decode (proto_of w) line = DecOk m -> m_cmd m = 3 -> m_type m = 3 ->
    let ks := keys w in
    let nxt := next_id ks in
    let r := recv bat vlt now w faults line in
    let w' := fst (fst r) in let out := snd (fst r) in let ws := snd r in
    (nxt <= 254 ->
       1 <= nxt /\ ~ In nxt ks
       /\ w_nodes w' = dset Z.eqb (w_nodes w) nxt (new_node nxt 17 default_protocol_version)
       /\ map we_line ws = encode (id_response m nxt) :: version_query w
       /\ (out = Yield m \/ out = Raise ETransport))
    /\ (254 < nxt ->
       (out = Raise ETooManyNodes \/ (w_pv w = None /\ hd false faults = true /\ out = Raise ETransport))
       /\ w_nodes w' = w_nodes w /\ map we_line ws = version_query w
       /\ exists k, In k ks /\ 254 <= k).
  Proof.
    intros Hi Hd Hk Ht. cbv zeta.
    pose proof (next_id_pos _ (inv_keys _ _ Hi)) as Hpos.
    pose proof (next_id_fresh (keys w)) as Hfresh.
    unfold recv, run_step.
    rewrite (listen_id_request line m {| s_w := w; s_log := []; s_faults := faults |} Hd Hk Ht).
    rewrite (body_id_request m _ Hk). cbv zeta. cbn [s_w].
    assert (Hvq : wants_version_query m = true).
    { unfold wants_version_query. rewrite Ht, Hk. reflexivity. }
    destruct (Z.ltb_spec 254 (next_id (keys w))) as [Hlt|Hle].
    - split; [lia|]. intros _. cbn [fst snd]. unfold mpv_finally, version_query. cbn [s_w].
      assert (Hex : exists k, In k (keys w) /\ 254 <= k).
      { unfold next_id in Hlt. destruct (keys w) as [|k r] eqn:Ek; [lia|].
        exists (fold_left Z.max r k). split; [|lia].
        assert (In (fold_left Z.max r k) (k :: r)).
        { clear. revert k. induction r as [|x r IH]; cbn; intros k; [left; reflexivity|].
          destruct (IH (Z.max k x)) as [H|H]; [|right; right; exact H].
          destruct (Z.max_spec k x) as [[_ E]|[_ E]]; rewrite E in *; [right; left|left]; exact H. }
        exact H. }
      destruct (w_pv w); [cbn; repeat split; try reflexivity; [left; reflexivity|exact Hex]|].
      rewrite Hvq, write_eq. cbn [s_faults s_w s_log].
      destruct (hd false faults); cbn; repeat split; try reflexivity; try exact Hex;
        [right; repeat split; reflexivity|left; reflexivity].
    - split; [|lia]. intros _. split; [exact Hpos|]. split; [exact Hfresh|].
      rewrite write_eq. unfold with_nodes. cbn [s_faults s_w s_log fst snd].
      unfold mpv_finally, version_query.
      destruct (hd false faults); cbn [fst snd s_w w_pv w_nodes];
        (destruct (w_pv w); [cbn; repeat split; try reflexivity; tauto|]);
        rewrite Hvq, write_eq; cbn [s_faults s_w s_log];
        destruct (hd false (tl faults)); cbn; repeat split; try reflexivity; tauto.
  Qed.

  (* ---------- C07 / C08: the release of parked commands ---------- *)

  Definition with_set (s : st) (b : list (key * msg)) : st :=
    {| s_w := {| w_nodes := w_nodes (s_w s); w_pv := w_pv (s_w s); w_proto := w_proto (s_w s);
                 w_internal := w_internal (s_w s); w_set := b; w_metric := w_metric (s_w s) |};
       s_log := s_log s; s_faults := s_faults s |}.

  (* entries written successfully before the first failing write *)
  Fixpoint delivered (es : list (key * msg)) (faults : list bool) : list (key * msg) :=
    match es with
    | [] => []
    | e :: r => if hd false faults then [] else e :: delivered r (tl faults)
    end.

  Definition pop_all (b : list (key * msg)) (d : list (key * msg)) : list (key * msg) :=
    fold_left (fun acc e => dpop key_eqb acc (fst e)) d b.

  Fixpoint log_of (es : list (key * msg)) (faults : list bool) : list wevent :=
    match es with
    | [] => []
    | e :: r =>
        {| we_line := encode (snd e); we_ok := negb (hd false faults); we_msg := snd e |}
        :: (if hd false faults then [] else log_of r (tl faults))
    end.

  Lemma flush_cons k bm r s :
    flush_entries ((k, bm) :: r) s =
    match send bm false s with
    | (inl _, s1) => flush_entries r (with_set s1 (dpop key_eqb (w_set (s_w s1)) k))
    | (inr e, s1) => (inr e, s1)
    end.
  Proof.
    cbn [flush_entries]. unfold bind. destruct (send bm false s) as [[[]|e] s1]; reflexivity.
  Qed.

  Theorem flush_entries_spec es : forall s,
    Forall (fun e => m_cmd (snd e) = 1) es ->
    let d := delivered es (s_faults s) in
    let r := flush_entries es s in
    fst r = (if Nat.eqb (List.length d) (List.length es) then inl tt else inr ETransport)
    /\ s_w (snd r) = s_w (with_set s (pop_all (w_set (s_w s)) d))
    /\ s_log (snd r) = rev (log_of es (s_faults s)) ++ s_log s.
  Proof.
    induction es as [|[k bm] r IH]; intros s Hc; cbv zeta.
    - cbn. destruct s as [[] ? ?]; repeat split; reflexivity.
    - inversion Hc as [|? ? H1 H2]; subst. cbn in H1.
      rewrite flush_cons, (send_unbuffered_set bm s H1), write_eq.
      cbn [delivered log_of snd].
      destruct (hd false (s_faults s)) eqn:Ef.
      + cbn. destruct s as [[] lg fl]; cbn in *. repeat split; reflexivity.
      + match goal with |- context [flush_entries r ?x] => specialize (IH x H2) end.
        cbv zeta in IH. unfold with_set, pop_all in *.
        cbn [s_faults s_w s_log w_set w_nodes w_pv w_proto w_internal w_metric fold_left fst] in *.
        destruct IH as [IH1 [IH2 IH3]].
        match goal with |- context [flush_entries r ?x] => destruct (flush_entries r x) as [rr ss] eqn:E end.
        cbn [fst snd] in *. rewrite IH1, IH2, IH3. cbn [List.length Nat.eqb]. split; [|split].
        * destruct (Nat.eqb (List.length (delivered r (tl (s_faults s)))) (List.length r)); reflexivity.
        * reflexivity.
        * cbn [rev negb]. rewrite <- app_assoc. reflexivity.
  Qed.

  Lemma delivered_nofault es faults : Forall (fun b => b = false) faults -> delivered es faults = es.
  Proof.
    revert faults. induction es as [|e r IH]; intros faults H; cbn; [reflexivity|].
    destruct faults as [|b f]; cbn.
    - rewrite IH; [reflexivity|constructor].
    - inversion H as [|? ? H1 H2]; subst. rewrite IH; [reflexivity|exact H2].
  Qed.

  Lemma delivered_prefix es faults : exists rest, es = delivered es faults ++ rest.
  Proof.
    revert faults. induction es as [|e r IH]; intros faults; cbn; [exists []; reflexivity|].
    destruct (hd false faults); [exists (e :: r); reflexivity|].
    destruct (IH (tl faults)) as [rest H]. exists rest. cbn. rewrite <- H. reflexivity.
  Qed.

  (* lines written successfully are exactly the delivered entries, in order; the
     attempts are those plus the one that failed *)
  Lemma log_of_ok es faults :
    map we_line (filter we_ok (log_of es faults)) = map (fun e => encode (snd e)) (delivered es faults).
  Proof.
    revert faults. induction es as [|e r IH]; intros faults; cbn; [reflexivity|].
    destruct (hd false faults); cbn; [reflexivity|]. rewrite IH. reflexivity.
  Qed.

  Lemma log_of_attempts es faults :
    map we_line (log_of es faults)
    = map (fun e => encode (snd e)) (firstn (S (List.length (delivered es faults))) es).
  Proof.
    revert faults. induction es as [|e r IH]; intros faults; cbn [log_of delivered map]; [reflexivity|].
    destruct (hd false faults); cbn [List.length firstn map]; [destruct r; reflexivity|].
    rewrite IH. reflexivity.
  Qed.

  Lemma dget_dpop (b : list (key * msg)) k' k :
    NoDup (map fst b) ->
    dget key_eqb (dpop key_eqb b k') k = if key_eqb k k' then None else dget key_eqb b k.
  Proof.
    intros Hn. destruct (key_eqb k k') eqn:E.
    - apply key_eqb_spec in E. subst. apply (notin_dget_None key_eqb key_eqb_spec).
      apply (dpop_notin key_eqb key_eqb_spec). exact Hn.
    - apply (dpop_other key_eqb key_eqb_spec). exact E.
  Qed.

  Lemma pop_all_get d : forall b k,
    NoDup (map fst b) ->
    dget key_eqb (pop_all b d) k
    = if existsb (fun e => key_eqb k (fst e)) d then None else dget key_eqb b k.
  Proof.
    induction d as [|e d IH]; intros b k Hn; cbn; [reflexivity|].
    change (fold_left (fun acc e0 => dpop key_eqb acc (fst e0)) d (dpop key_eqb b (fst e)))
      with (pop_all (dpop key_eqb b (fst e)) d).
    rewrite IH by (apply dpop_nodup; exact Hn). rewrite dget_dpop by exact Hn.
    destruct (key_eqb k (fst e)); cbn; [destruct (existsb _ d); reflexivity|reflexivity].
  Qed.

  Lemma pop_all_incl d : forall b, incl (pop_all b d) b.
  Proof.
    induction d as [|e d IH]; intros b; cbn; [apply incl_refl|].
    eapply incl_tran; [apply IH|apply dpop_incl].
  Qed.

  Lemma pop_all_nodup d : forall b, NoDup (map fst b) -> NoDup (map fst (pop_all b d)).
  Proof.
    induction d as [|e d IH]; intros b H; cbn; [exact H|]. apply IH. apply dpop_nodup. exact H.
  Qed.

  (* after releasing every entry of node n, no entry of n remains and the entries
     of other nodes are untouched *)
  Definition of_node (n : Z) (e : key * msg) : bool := m_node (snd e) =? n.

  Theorem pop_all_node b n :
    NoDup (map fst b) -> Forall (fun e => fst e = msg_key (snd e)) b ->
    forall e, In e (pop_all b (filter (of_node n) b)) <-> In e b /\ of_node n e = false.
  Proof.
    intros Hn Hk e. split.
    - intros He. pose proof (pop_all_incl _ _ _ He) as Hb. split; [exact Hb|].
      destruct (of_node n e) eqn:En; [|reflexivity]. exfalso.
      assert (Hd : dget key_eqb (pop_all b (filter (of_node n) b)) (fst e) = None).
      { rewrite pop_all_get by exact Hn.
        assert (Hex : existsb (fun e0 => key_eqb (fst e) (fst e0)) (filter (of_node n) b) = true).
        { apply existsb_exists. exists e. split; [apply filter_In; split; assumption|].
          apply key_eqb_spec. reflexivity. }
        rewrite Hex. reflexivity. }
      apply (dget_None_notin key_eqb key_eqb_spec) in Hd. apply Hd.
      apply in_map. exact He.
    - intros [Hb En].
      assert (Hget : dget key_eqb (pop_all b (filter (of_node n) b)) (fst e) = Some (snd e)).
      { rewrite pop_all_get by exact Hn.
        assert (Hex : existsb (fun e0 => key_eqb (fst e) (fst e0)) (filter (of_node n) b) = false).
        { apply not_true_is_false. intros Hex. apply existsb_exists in Hex.
          destruct Hex as [e0 [H0 Heq]]. apply filter_In in H0. destruct H0 as [H0 Hn0].
          apply key_eqb_spec in Heq. rewrite Forall_forall in Hk.
          rewrite (Hk e Hb), (Hk e0 H0) in Heq. unfold of_node in *.
          unfold msg_key in Heq. injection Heq as Hnode _ _. rewrite Hnode in En. congruence. }
        rewrite Hex. clear Hex.
        revert Hb Hn. clear. induction b as [|[k v] b IH]; cbn; [tauto|].
        intros [Hb|Hb] Hn; inversion Hn as [|? ? Hnot Hnd]; subst.
        - cbn. rewrite (proj2 (key_eqb_spec k k) eq_refl). reflexivity.
        - destruct (key_eqb (fst e) k) eqn:E.
          + apply key_eqb_spec in E. subst k. exfalso. apply Hnot. apply in_map. exact Hb.
          + apply IH; assumption. }
      apply (dget_In key_eqb key_eqb_spec) in Hget. destruct e. exact Hget.
  Qed.

  (* ---------- closed forms of small pieces ---------- *)

  Lemma require_node_eq id s :
    require_node id s =
    match dget Z.eqb (w_nodes (s_w s)) id with
    | Some n => (inl n, s)
    | None => (inr (EMissingNode id), s)
    end.
  Proof.
    unfold require_node, get_node, bind, get_w, ret. cbn beta iota.
    destruct (dget Z.eqb (w_nodes (s_w s)) id); reflexivity.
  Qed.

  Lemma update_node_eq id f s :
    update_node id f s =
    (inl tt, with_nodes s (match dget Z.eqb (w_nodes (s_w s)) id with
                           | Some n => dset Z.eqb (w_nodes (s_w s)) id (f n)
                           | None => w_nodes (s_w s)
                           end)).
  Proof. reflexivity. Qed.

  Definition node_woken (n : node) (hb : option Z) : node :=
    {| n_id := n_id n; n_type := n_type n; n_ver := n_ver n; n_children := n_children n;
       n_sketch_name := n_sketch_name n; n_sketch_version := n_sketch_version n;
       n_battery := n_battery n;
       n_heartbeat := match hb with Some h => h | None => n_heartbeat n end;
       n_reboot := n_reboot n; n_sleeping := true |}.

  Definition release (m : msg) (s1 : st) (es : list (key * msg)) : (msg + exn) * st :=
    match flush_entries es s1 with
    | (inl _, s2) => (inl m, s2)
    | (inr e, s2) => (inr e, s2)
    end.

  Theorem body_heartbeat20 m s :
    run_body2 BHeartbeat20 no_super m s =
    match dget Z.eqb (w_nodes (s_w s)) (m_node m) with
    | None => (inr (EMissingNode (m_node m)), s)
    | Some n =>
        match py_int (m_payload m) with
        | None => (inr EInvalidMessage, s)
        | Some hb =>
            release m (with_nodes s (dset Z.eqb (w_nodes (s_w s)) (m_node m) (node_woken n (Some hb))))
                    (filter (of_node (m_node m)) (w_set (s_w s)))
        end
    end.
  Proof.
    cbn [Gateway.run_body2]. unfold bind at 1. rewrite require_node_eq.
    destruct (dget Z.eqb (w_nodes (s_w s)) (m_node m)) as [n|] eqn:En; [|reflexivity].
    destruct (py_int (m_payload m)) as [hb|]; [|reflexivity].
    unfold bind at 1. rewrite update_node_eq, En. cbn [fst snd].
    unfold handle_sleep_buffer, release, bind, get_w, ret, with_nodes, of_node, node_woken.
    cbn [s_w w_set w_nodes s_log s_faults]. cbn beta iota.
    match goal with |- context [flush_entries ?es ?x] => destruct (flush_entries es x) as [[[]|e] s2] end; reflexivity.
  Qed.

  Theorem body_pre_sleep m s :
    run_body2 BPreSleep no_super m s =
    match dget Z.eqb (w_nodes (s_w s)) (m_node m) with
    | None => (inr (EMissingNode (m_node m)), s)
    | Some n =>
        release m (with_nodes s (dset Z.eqb (w_nodes (s_w s)) (m_node m) (node_woken n None)))
                (filter (of_node (m_node m)) (w_set (s_w s)))
    end.
  Proof.
    cbn [Gateway.run_body2]. unfold bind at 1. rewrite require_node_eq.
    destruct (dget Z.eqb (w_nodes (s_w s)) (m_node m)) as [n|] eqn:En; [|reflexivity].
    unfold bind at 1. rewrite update_node_eq, En. cbn [fst snd].
    unfold handle_sleep_buffer, release, bind, get_w, ret, with_nodes, of_node, node_woken.
    cbn [s_w w_set w_nodes s_log s_faults]. cbn beta iota.
    match goal with |- context [flush_entries ?es ?x] => destruct (flush_entries es x) as [[[]|e] s2] end; reflexivity.
  Qed.

  (* the wake signals, resolved per protocol *)
  Definition wake_body (i : nat) (t : Z) : option body :=
    match i, t with
    | 2%nat, 22 | 3%nat, 22 => Some BHeartbeat20
    | 4%nat, 32 => Some BPreSleep
    | _, _ => None
    end.

  Lemma dispatch_wake i t b m s :
    w_proto (s_w s) = i -> wake_body i t = Some b -> m_type m = t ->
    internal_inner m s = dec_mnc (run_body2 b no_super) m s.
  Proof.
    intros Hi Hb Ht.
    assert (Hc : (i = 2%nat /\ t = 22 /\ b = BHeartbeat20) \/ (i = 3%nat /\ t = 22 /\ b = BHeartbeat20)
                 \/ (i = 4%nat /\ t = 32 /\ b = BPreSleep)).
    { unfold wake_body in Hb.
      destruct i as [|[|[|[|[|i]]]]]; try discriminate Hb;
        destruct t as [|p|p]; try discriminate Hb;
        repeat (destruct p as [p|p|]; try discriminate Hb); injection Hb as <-; tauto. }
    unfold internal_inner, bind, get_w, proto_of. cbn beta iota. rewrite Hi, Ht.
    destruct Hc as [[-> [-> ->]]|[[-> [-> ->]]|[-> [-> ->]]]];
      (match goal with |- context [enum_lname_of ?t ?v] =>
         let r := eval vm_compute in (enum_lname_of t v) in change (enum_lname_of t v) with r end);
      cbn beta iota; unfold Gateway.dispatch2, bind, get_w, proto_of; cbn beta iota; rewrite Hi; reflexivity.
  Qed.

  (* C07 / C08: one wake step, for every fault stream *)
  Theorem wake_step w faults line m n b :
    Inv vlt w -> decode (proto_of w) line = DecOk m -> m_cmd m = 3 ->
    wake_body (w_proto w) (m_type m) = Some b ->
    dget Z.eqb (w_nodes w) (m_node m) = Some n ->
    (b = BHeartbeat20 -> exists hb, py_int (m_payload m) = Some hb) ->
    let es := filter (of_node (m_node m)) (w_set w) in
    let d := delivered es faults in
    let r := recv bat vlt now w faults line in
    snd (fst r) = (if Nat.eqb (List.length d) (List.length es) then Yield m else Raise ETransport)
    /\ snd r = log_of es faults
    /\ w_set (fst (fst r)) = pop_all (w_set w) d
    /\ w_internal (fst (fst r)) = w_internal w
    /\ keys (fst (fst r)) = keys w.
  Proof.
    intros Hi Hd Hk Hb Hn Hhb. cbv zeta.
    assert (Hpv : exists v, w_pv w = Some v).
    { pose proof (inv_agree _ _ Hi) as Ha. destruct (w_pv w) as [v|]; [exists v; reflexivity|].
      rewrite Ha in Hb. discriminate Hb. }
    destruct Hpv as [v Hpv].
    unfold recv, run_step.
    set (s0 := {| s_w := w; s_log := []; s_faults := faults |}).
    rewrite (listen_internal line m s0 Hd Hk), dec_mpv_eq.
    rewrite (dispatch_wake (w_proto w) (m_type m) b m s0 eq_refl Hb eq_refl).
    unfold dec_mnc.
    assert (Hbody : run_body2 b no_super m s0 =
              release m (with_nodes s0 (dset Z.eqb (w_nodes w) (m_node m)
                           (node_woken n (match b with BHeartbeat20 => py_int (m_payload m) | _ => None end))))
                      (filter (of_node (m_node m)) (w_set w))).
    { assert (Hbb : b = BHeartbeat20 \/ b = BPreSleep).
      { unfold wake_body in Hb. destruct (w_proto w) as [|[|[|[|[|i]]]]]; try discriminate Hb;
          destruct (m_type m) as [|p|p]; try discriminate Hb;
          repeat (destruct p as [p|p|]; try discriminate Hb); injection Hb as <-; tauto. }
      destruct Hbb as [->| ->].
      - destruct (Hhb eq_refl) as [hb Eh]. rewrite body_heartbeat20. cbn [s_w s0]. rewrite Hn, Eh. reflexivity.
      - rewrite body_pre_sleep. cbn [s_w s0]. rewrite Hn. reflexivity. }
    rewrite Hbody. unfold release.
    set (s1 := with_nodes s0 _).
    assert (Hcmd : Forall (fun e => m_cmd (snd e) = 1) (filter (of_node (m_node m)) (w_set w))).
    { apply Forall_forall. intros e He. apply filter_In in He. destruct He as [He _].
      pose proof (inv_set_keys _ _ Hi) as Hs. rewrite Forall_forall in Hs. apply (Hs e He). }
    destruct (flush_entries_spec (filter (of_node (m_node m)) (w_set w)) s1 Hcmd) as [F1 [F2 F3]].
    cbv zeta in F1, F2, F3. cbn [s1 s0 with_nodes s_faults s_w s_log w_set] in F1, F2, F3.
    destruct (flush_entries (filter (of_node (m_node m)) (w_set w)) s1) as [rr ss] eqn:E.
    cbn [fst snd] in F1, F2, F3. subst rr.
    assert (Hkeys : map fst (dset Z.eqb (w_nodes w) (m_node m)
               (node_woken n match b with BHeartbeat20 => py_int (m_payload m) | _ => None end)) = map fst (w_nodes w)).
    { eapply dset_keys_same. exact Hn. }
    destruct (Nat.eqb (List.length (delivered (filter (of_node (m_node m)) (w_set w)) faults))
                      (List.length (filter (of_node (m_node m)) (w_set w)))).
    - cbn [fst snd]. unfold mpv_finally. rewrite F2. unfold with_set, s1, with_nodes, s0. cbn [s_w w_pv]. rewrite Hpv.
      cbn [fst snd]. rewrite F2, F3. unfold with_set, s1, with_nodes, s0. cbn [w_set w_internal s_w s_log].
      rewrite app_nil_r, rev_involutive.
      unfold keys. cbn [w_nodes]. rewrite Hkeys. repeat split; reflexivity.
    - cbn [fst snd is_missing]. unfold mpv_finally. rewrite F2. unfold with_set, s1, with_nodes, s0. cbn [s_w w_pv]. rewrite Hpv.
      cbn [fst snd]. rewrite F2, F3. unfold with_set, s1, with_nodes, s0. cbn [w_set w_internal s_w s_log].
      rewrite app_nil_r, rev_involutive.
      unfold keys. cbn [w_nodes]. rewrite Hkeys. repeat split; reflexivity.
  Qed.

  (* ---------- C10: the presentation request ---------- *)

  Definition pres_request (n : Z) : msg := mk_msg n 255 3 0 19 [].
  Definition pres_key (n : Z) : key := (n, 255, 19).

  Definition with_internal (s : st) (b : list (key * msg)) : st :=
    {| s_w := {| w_nodes := w_nodes (s_w s); w_pv := w_pv (s_w s); w_proto := w_proto (s_w s);
                 w_internal := b; w_set := w_set (s_w s); w_metric := w_metric (s_w s) |};
       s_log := s_log s; s_faults := s_faults s |}.

  Theorem request_presentation_eq m e s :
    request_presentation m e s =
    let pm := pres_request (m_node m) in
    if dmem key_eqb (w_internal (s_w s)) (pres_key (m_node m))
    then (inr e, with_internal s (dset key_eqb (w_internal (s_w s)) (pres_key (m_node m)) pm))
    else
      match write_msg pm s with
      | (inl _, s1) => (inr e, with_internal s1 (dset key_eqb (w_internal (s_w s1)) (pres_key (m_node m)) pm))
      | (inr e', s1) => (inr e', s1)
      end.
  Proof.
    unfold request_presentation. destruct consts_p20 as [D1 [D2 D3]]. rewrite D3, D1. cbn [need].
    unfold bind, ret, get_w. cbn beta iota. rewrite system_child_id_is.
    change (mk_msg (m_node m) 255 3 0 19 []) with (pres_request (m_node m)).
    change (msg_key (pres_request (m_node m))) with (pres_key (m_node m)).
    cbv zeta.
    destruct (dmem key_eqb (w_internal (s_w s)) (pres_key (m_node m))).
    - rewrite send_eq. reflexivity.
    - rewrite send_unbuffered_internal by reflexivity.
      destruct (write_msg (pres_request (m_node m)) s) as [[[]|e'] s1]; [|reflexivity].
      rewrite send_eq. reflexivity.
  Qed.

  (* the wrapper: what happens around any handler f *)
  Theorem dec_mnc_eq f m s :
    dec_mnc f m s =
    match f m s with
    | (inl a, s') => (inl a, s')
    | (inr e, s') => if is_missing e then request_presentation m e s' else (inr e, s')
    end.
  Proof. unfold dec_mnc. destruct (f m s) as [[a|e] s']; reflexivity. Qed.

  (* a node presentation under 2.x first clears the marker of that node *)
  Theorem body_presentation20 super m s :
    run_body1 BPresentation20 super m s =
    super m (with_internal s (dpop key_eqb (w_internal (s_w s)) (m_node m, m_child m, 19))).
  Proof.
    cbn [Gateway.run_body1]. destruct consts_p20 as [D1 _]. rewrite D1. cbn [need].
    unfold bind, ret, set_internal, modify_w. reflexivity.
  Qed.

  (* which handlers are wrapped: under 2.x every command handler that can miss a
     node or child, and no handler at all before 2.0 *)
  Definition uses_mnc (c : handler_chain) : bool :=
    existsb (fun e => existsb (String.eqb "handle_missing_node_child") (snd e)) c.

  Lemma tables_mnc_pre20 :
    forallb (fun p => forallb (fun e => negb (uses_mnc (snd e))) (pt_incoming p)) [proto_1_4; proto_1_5] = true.
  Proof. vm_compute. reflexivity. Qed.

  Lemma tables_mnc_20 :
    forallb (fun p =>
      forallb (fun n => match lookup_chain (pt_incoming p) n with
                        | Some ((_, ds) :: _) => existsb (String.eqb "handle_missing_node_child") ds
                        | _ => false
                        end)
        ["handle_presentation"; "handle_set"; "handle_req"; "handle_stream"; "handle_i_battery_level";
         "handle_i_sketch_name"; "handle_i_sketch_version"; "handle_i_discover_response";
         "handle_i_heartbeat_response"]%string)
      [proto_2_0; proto_2_1; proto_2_2] = true.
  Proof. vm_compute. reflexivity. Qed.

  (* ---------- C12: the three ways a send can end ---------- *)

  Inductive send_end (m : msg) (w : world) (r : world * outcome * list wevent) : Prop :=
  | SendWritten : snd (fst r) = Done -> snd r = [{| we_line := encode m; we_ok := true; we_msg := m |}] -> send_end m w r
  | SendHeld n : snd (fst r) = Done -> snd r = [] -> m_cmd m = 1 ->
                 dget Z.eqb (w_nodes w) (m_node m) = Some n -> n_sleeping n = true ->
                 dget key_eqb (w_set (fst (fst r))) (msg_key m) = Some m -> send_end m w r
  | SendError e : snd (fst r) = Raise e -> (forall c, e <> EEscape c) -> send_end m w r.

  Theorem send_trichotomy_partial w faults m buffered :
    0 <= m_cmd m <= 4 -> (m_cmd m = 3 -> buffered = false) ->
    send_end m w (send_op w faults m buffered).
  Proof.
    intros Hk Hb. unfold send_op, run_step. rewrite send_eq. unfold send_resolved. cbn [s_w].
    assert (Hdirect : forall b, send_end m w
              (let '(r, s) := send_set_direct m b {| s_w := w; s_log := []; s_faults := faults |} in
               match r with inl _ => (s_w s, Done, rev (s_log s)) | inr e => (s_w s, Raise e, rev (s_log s)) end)).
    { intros b. unfold send_set_direct, bind. rewrite write_eq. cbn [s_faults s_w s_log].
      destruct (hd false faults).
      - eapply SendError; [reflexivity|discriminate].
      - destruct b; cbn; apply SendWritten; reflexivity. }
    destruct (Z.eqb_spec (m_cmd m) 1) as [E1|N1].
    { destruct (dget Z.eqb (w_nodes w) (m_node m)) as [n|] eqn:En; [|apply Hdirect].
      destruct buffered; cbn [andb]; [|apply Hdirect].
      destruct (n_sleeping n) eqn:Es; [|apply Hdirect]. cbn.
      eapply SendHeld; try reflexivity; try eassumption. cbn.
      apply (dget_dset_same key_eqb key_eqb_spec). }
    destruct (Z.eqb_spec (m_cmd m) 3) as [E3|N3].
    { rewrite (Hb E3). rewrite write_eq. cbn [s_faults s_w s_log].
      destruct (hd false faults); [eapply SendError; [reflexivity|discriminate]|apply SendWritten; reflexivity]. }
    assert (Hor : (m_cmd m =? 0) || (m_cmd m =? 2) || (m_cmd m =? 4) = true).
    { destruct (Z.eqb_spec (m_cmd m) 0), (Z.eqb_spec (m_cmd m) 2), (Z.eqb_spec (m_cmd m) 4); cbn; try reflexivity. lia. }
    rewrite Hor. eapply SendError; [reflexivity|discriminate].
  Qed.

  (* the remaining case is false: an internal command sent with buffering allowed is
     neither written, nor held in the sleep buffer, nor refused *)
  Theorem send_internal_buffered_refuted :
    exists w m, Inv vlt w /\ wf_msg m /\ ~ send_end m w (send_op w [] m true)
                /\ w_set (fst (fst (send_op w [] m true))) = w_set w.
  Proof.
    exists (init_world true), (mk_msg 1 255 3 0 13 []).
    split; [apply Inv_init|]. split; [apply wf_fields_b_spec; reflexivity|].
    split; [|reflexivity]. intros H. inversion H as [H1 H2|n H1 H2 H3|e H1 H2].
    - discriminate H2.
    - discriminate H3.
    - discriminate H1.
  Qed.

  (* ---------- C06 / C04: handler bodies in closed form ---------- *)

  Definition reply (m : msg) (pm : msg) (s : st) : (msg + exn) * st :=
    match write_msg pm s with
    | (inl _, s1) => (inl m, s1)
    | (inr e, s1) => (inr e, s1)
    end.

  Theorem body_config m s :
    m_cmd m = 3 ->
    run_body2 BConfig no_super m s =
    reply m (mk_msg (m_node m) (m_child m) 3 0 (m_type m) (if w_metric (s_w s) then [77%N] else [73%N])) s.
  Proof.
    intros Hk. cbn [Gateway.run_body2]. unfold bind, get_w, ret, reply. cbn beta iota.
    rewrite send_unbuffered_internal by exact Hk. rewrite Hk.
    match goal with |- match ?x with _ => _ end = _ => destruct x as [[[]|e] s1] end; reflexivity.
  Qed.

  Theorem body_time m s :
    m_cmd m = 3 ->
    run_body2 BTime no_super m s =
    reply m (mk_msg (m_node m) (m_child m) 3 0 (m_type m) (str_of_Z now)) s.
  Proof.
    intros Hk. cbn [Gateway.run_body2]. unfold bind, ret, reply.
    rewrite send_unbuffered_internal by exact Hk. rewrite Hk.
    match goal with |- match ?x with _ => _ end = _ => destruct x as [[[]|e] s1] end; reflexivity.
  Qed.

  Theorem body_gateway_ready m s :
    m_cmd m = 3 ->
    run_body2 BGatewayReady no_super m s = reply m (mk_msg 255 (m_child m) 3 0 20 []) s.
  Proof.
    intros Hk. cbn [Gateway.run_body2]. destruct consts_p20 as [_ [D2 _]]. rewrite D2. cbn [need].
    unfold bind, ret, reply. rewrite send_unbuffered_internal by exact Hk. rewrite Hk.
    match goal with |- match ?x with _ => _ end = _ => destruct x as [[[]|e] s1] end; reflexivity.
  Qed.

  Theorem body_req m s :
    run_body1 BReq14 no_super m s =
    match dget Z.eqb (w_nodes (s_w s)) (m_node m) with
    | None => (inr (EMissingNode (m_node m)), s)
    | Some n =>
        match dget Z.eqb (n_children n) (m_child m) with
        | None => (inr (EMissingChild (m_child m)), s)
        | Some c =>
            match dget Z.eqb (c_values c) (m_type m) with
            | None => (inl m, s)
            | Some v => reply m (mk_msg (m_node m) (m_child m) 1 0 (m_type m) v) s
            end
        end
    end.
  Proof.
    cbn [Gateway.run_body1]. unfold bind at 1. rewrite require_node_eq.
    destruct (dget Z.eqb (w_nodes (s_w s)) (m_node m)) as [n|]; [|reflexivity].
    destruct (dget Z.eqb (n_children n) (m_child m)) as [c|]; [|reflexivity].
    destruct (dget Z.eqb (c_values c) (m_type m)) as [v|]; [|reflexivity].
    destruct consts_p14 as [_ [_ [_ [_ [_ [_ [_ C8]]]]]]]. rewrite C8. cbn [need].
    unfold bind, ret, reply. rewrite send_unbuffered_set by reflexivity.
    match goal with |- match ?x with _ => _ end = _ => destruct x as [[[]|e] s1] end; reflexivity.
  Qed.

  Theorem body_set m s :
    run_body1 BSet14 no_super m s =
    match dget Z.eqb (w_nodes (s_w s)) (m_node m) with
    | None => (inr (EMissingNode (m_node m)), s)
    | Some n =>
        if dmem Z.eqb (n_children n) (m_child m) then
          let s1 := with_nodes s (dset Z.eqb (w_nodes (s_w s)) (m_node m)
                                    (set_child_value n (m_child m) (m_type m) (m_payload m))) in
          if n_reboot n then reply m (mk_msg (m_node m) 255 3 0 13 []) s1 else (inl m, s1)
        else (inr (EMissingChild (m_child m)), s)
    end.
  Proof.
    cbn [Gateway.run_body1]. unfold bind at 1. rewrite require_node_eq.
    destruct (dget Z.eqb (w_nodes (s_w s)) (m_node m)) as [n|] eqn:En; [|reflexivity].
    destruct (dmem Z.eqb (n_children n) (m_child m)); cbn [negb]; [|reflexivity].
    unfold bind at 1. rewrite update_node_eq, En. cbn [fst snd]. cbv zeta.
    destruct (n_reboot n); [|reflexivity].
    destruct consts_p14 as [_ [_ [_ [_ [_ [C6 [C7 _]]]]]]]. rewrite C7, C6. cbn [need].
    unfold bind, ret, reply. rewrite send_unbuffered_internal by reflexivity. rewrite system_child_id_is.
    match goal with |- match ?x with _ => _ end = _ => destruct x as [[[]|e] s1] end; reflexivity.
  Qed.

  Theorem body_presentation_child m s :
    m_child m <> 255 ->
    run_body1 BPresentation14 no_super m s =
    match dget Z.eqb (w_nodes (s_w s)) (m_node m) with
    | None => (inr (EMissingNode (m_node m)), s)
    | Some n =>
        (inl m, with_nodes s (dset Z.eqb (w_nodes (s_w s)) (m_node m)
           {| n_id := n_id n; n_type := n_type n; n_ver := n_ver n;
              n_children := dset Z.eqb (n_children n) (m_child m)
                 {| c_id := m_child m; c_type := m_type m; c_desc := m_payload m; c_values := [] |};
              n_sketch_name := n_sketch_name n; n_sketch_version := n_sketch_version n;
              n_battery := n_battery n; n_heartbeat := n_heartbeat n;
              n_reboot := n_reboot n; n_sleeping := n_sleeping n |}))
    end.
  Proof.
    intros Hc. cbn [Gateway.run_body1]. rewrite system_child_id_is.
    destruct (Z.eqb_spec (m_child m) 255) as [E|_]; [contradiction|].
    unfold bind at 1. rewrite require_node_eq.
    destruct (dget Z.eqb (w_nodes (s_w s)) (m_node m)) as [n|] eqn:En; [|reflexivity].
    unfold bind. rewrite update_node_eq, En. reflexivity.
  Qed.

  Theorem body_presentation_node m s :
    m_child m = 255 -> m_node m <> 0 ->
    run_body1 BPresentation14 no_super m s =
    (inl m, with_nodes s (dset Z.eqb (w_nodes (s_w s)) (m_node m) (new_node (m_node m) (m_type m) (m_payload m)))).
  Proof.
    intros Hc Hn. cbn [Gateway.run_body1]. rewrite system_child_id_is, Hc. cbn [Z.eqb Pos.eqb].
    destruct (Z.eqb_spec (m_node m) 0) as [E|_]; [contradiction|]. reflexivity.
  Qed.

  Theorem body_battery m s :
    run_body2 BBattery no_super m s =
    match dget Z.eqb (w_nodes (s_w s)) (m_node m) with
    | None => (inr (EMissingNode (m_node m)), s)
    | Some n =>
        match bat (m_payload m) with
        | Some lvl =>
            if (0 <=? lvl) && (lvl <=? 100) then
              (inl m, with_nodes s (dset Z.eqb (w_nodes (s_w s)) (m_node m)
                 {| n_id := n_id n; n_type := n_type n; n_ver := n_ver n; n_children := n_children n;
                    n_sketch_name := n_sketch_name n; n_sketch_version := n_sketch_version n;
                    n_battery := lvl; n_heartbeat := n_heartbeat n; n_reboot := n_reboot n;
                    n_sleeping := n_sleeping n |}))
            else (inr EInvalidMessage, s)
        | None => (inr EInvalidMessage, s)
        end
    end.
  Proof.
    cbn [Gateway.run_body2]. unfold bind at 1. rewrite require_node_eq.
    destruct (dget Z.eqb (w_nodes (s_w s)) (m_node m)) as [n|] eqn:En; [|reflexivity].
    destruct (bat (m_payload m)) as [lvl|]; [|reflexivity].
    destruct ((0 <=? lvl) && (lvl <=? 100)); [|reflexivity].
    unfold bind. rewrite update_node_eq, En. reflexivity.
  Qed.

  (* the stored battery level of every node stays within 0..100 along the receive path
     is a consequence of body_battery being the only writer of n_battery: see C13 *)
End WithOracles.
