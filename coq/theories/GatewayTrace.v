(* The footprint of one listen step, for every message, state, oracle and fault
   stream: which steps may release parked commands (change the sleep buffer),
   which may write a presentation request, which may touch the outstanding-request
   markers.  What a step is allowed to do is COMPUTED from the generated dispatch
   tables ([listen_allow]); the generic theorem [tr_listen_step] shows the model
   never does more. *)
From Coq Require Import List NArith ZArith Bool String Lia.
From AMS Require Import TablesTypes Tables PyStr Codec CodecFacts Gateway GatewayFacts GatewayInv GatewaySteps.
Import ListNotations.
Local Open Scope Z_scope.

Record allow := { a_release : bool; a_request : bool; a_marker : bool }.

Definition a_none : allow := {| a_release := false; a_request := false; a_marker := false |}.
Definition a_or (a b : allow) : allow :=
  {| a_release := a_release a || a_release b; a_request := a_request a || a_request b;
     a_marker := a_marker a || a_marker b |}.
Definition a_le (a b : allow) : Prop :=
  (a_release a = true -> a_release b = true) /\ (a_request a = true -> a_request b = true)
  /\ (a_marker a = true -> a_marker b = true).

Lemma a_le_refl a : a_le a a. Proof. repeat split; auto. Qed.
Lemma a_le_or_l a b : a_le a (a_or a b).
Proof. repeat split; cbn; intros ->; reflexivity. Qed.
Lemma a_le_or_r a b : a_le b (a_or a b).
Proof. repeat split; cbn; intros ->; apply orb_true_r. Qed.
Lemma a_le_trans a b c : a_le a b -> a_le b c -> a_le a c.
Proof. intros [H1 [H2 H3]] [G1 [G2 G3]]. repeat split; auto. Qed.
Lemma a_le_none a : a_le a_none a.
Proof. repeat split; cbn; discriminate. Qed.

(* what the generated tables allow *)
Definition allow_body (b : body) : allow :=
  match b with
  | BHeartbeat20 | BPreSleep => {| a_release := true; a_request := false; a_marker := false |}
  | BPresentation20 => {| a_release := false; a_request := false; a_marker := true |}
  | _ => a_none
  end.

Definition allow_decs (ds : list string) : allow :=
  if existsb (String.eqb "handle_missing_node_child") ds
  then {| a_release := false; a_request := true; a_marker := true |} else a_none.

Fixpoint allow_chain (name : string) (c : handler_chain) : allow :=
  match c with
  | [] => a_none
  | (md, ds) :: r =>
      a_or (allow_decs ds)
           (match body_of md name with
            | Some b => a_or (allow_body b) (if calls_super b then allow_chain name r else a_none)
            | None => a_none
            end)
  end.

Definition allow_dispatch (i : nat) (name : string) : allow :=
  match lookup_chain (pt_incoming (proto_at i)) name with
  | Some c => allow_chain name c
  | None => a_none
  end.

Definition listen_allow (i : nat) (m : msg) : allow :=
  match lname_cmd (m_cmd m) with
  | None => a_none
  | Some cname =>
      a_or (allow_dispatch i ("handle_" ++ cname))
           (a_or (allow_dispatch i "handle_i_version")
                 (a_or (match enum_lname_of (pt_internal (proto_at i)) (m_type m) with
                        | Some ln => allow_dispatch i ("handle_" ++ ln)
                        | None => a_none
                        end)
                       (match enum_lname_of (pt_stream (proto_at i)) (m_type m) with
                        | Some ln => allow_dispatch i ("handle_" ++ ln)
                        | None => a_none
                        end)))
  end.

Definition notreq (e : wevent) : Prop := forall n, we_msg e <> pres_request n.

Definition sbuf_ok (w : world) : Prop := Forall (fun e => m_cmd (snd e) = 1) (w_set w).

Section WithOracles.
  Variable bat : str -> option Z.
  Variable vlt : str -> str -> option bool.
  Variable now : Z.

  (* the footprint predicate.  It carries the one fact about the sleep buffer it needs
     (parked messages are set commands) as its own invariant, so it composes without
     any other hypothesis. *)
  Definition tr_at (a : allow) {A} (c : M A) (s : st) : Prop :=
    sbuf_ok (s_w s) ->
    sbuf_ok (s_w (snd (c s)))
    /\ (a_release a = false -> w_set (s_w (snd (c s))) = w_set (s_w s))
    /\ (a_marker a = false -> w_internal (s_w (snd (c s))) = w_internal (s_w s))
    /\ exists new, s_log (snd (c s)) = new ++ s_log s /\ (a_request a = false -> Forall notreq new).

  Definition tr (a : allow) {A} (c : M A) : Prop := forall s, tr_at a c s.

  Lemma tr_weaken_at a b {A} (c : M A) s : a_le a b -> tr_at a c s -> tr_at b c s.
  Proof.
    intros [L1 [L2 L3]] H Hi. destruct (H Hi) as [H0 [H1 [H2 [new [H3 H4]]]]].
    split; [exact H0|]. split; [|split; [|exists new; split; [exact H3|]]].
    - intros E. apply H1. destruct (a_release a); [specialize (L1 eq_refl); congruence|reflexivity].
    - intros E. apply H2. destruct (a_marker a); [specialize (L3 eq_refl); congruence|reflexivity].
    - intros E. apply H4. destruct (a_request a); [specialize (L2 eq_refl); congruence|reflexivity].
  Qed.

  Lemma tr_weaken a b {A} (c : M A) : a_le a b -> tr a c -> tr b c.
  Proof. intros L H s. apply (tr_weaken_at a b c s L (H s)). Qed.

  Lemma tr_same_at a {A} (c : M A) s :
    w_set (s_w (snd (c s))) = w_set (s_w s) -> w_internal (s_w (snd (c s))) = w_internal (s_w s) ->
    s_log (snd (c s)) = s_log s -> tr_at a c s.
  Proof.
    intros H1 H2 H3 Hi. split; [unfold sbuf_ok; rewrite H1; exact Hi|].
    split; [auto|split; [auto|exists []; split; [exact H3|constructor]]].
  Qed.

  Lemma tr_ret a {A} (x : A) : tr a (ret x).
  Proof. intros s. apply tr_same_at; reflexivity. Qed.

  Lemma tr_raise a {A} e : tr a (@raise A e).
  Proof. intros s. apply tr_same_at; reflexivity. Qed.

  Lemma tr_bind_at a {A B} (m : M A) (f : A -> M B) s :
    tr_at a m s -> (forall x, fst (m s) = inl x -> tr_at a (f x) (snd (m s))) ->
    tr_at a (bind m f) s.
  Proof.
    intros Hm Hf Hi. destruct (Hm Hi) as [H0 [H1 [H2 [n1 [H3 H4]]]]].
    unfold bind. destruct (m s) as [[x|e] s'] eqn:E; cbn [fst snd] in *.
    - destruct (Hf x eq_refl H0) as [G0 [G1 [G2 [n2 [G3 G4]]]]].
      split; [exact G0|].
      split; [intros Ea; rewrite (G1 Ea); exact (H1 Ea)|].
      split; [intros Ea; rewrite (G2 Ea); exact (H2 Ea)|].
      exists (n2 ++ n1). split; [rewrite G3, H3, app_assoc; reflexivity|].
      intros Ea. apply Forall_app. split; [exact (G4 Ea)|exact (H4 Ea)].
    - split; [exact H0|split; [exact H1|split; [exact H2|exists n1; split; assumption]]].
  Qed.

  Lemma tr_bind a {A B} (m : M A) (f : A -> M B) :
    tr a m -> (forall x, tr a (f x)) -> tr a (bind m f).
  Proof. intros Hm Hf s. apply tr_bind_at; [apply Hm|intros x _; apply Hf]. Qed.

  Lemma tr_get_w a {B} (f : world -> M B) : (forall s, tr_at a (f (s_w s)) s) -> tr a (bind get_w f).
  Proof. intros H s. exact (H s). Qed.

  Lemma tr_bind_ret a {A B} (x : A) (f : A -> M B) : tr a (f x) -> tr a (bind (ret x) f).
  Proof. intros H s. exact (H s). Qed.

  Lemma tr_bind_ret_at a {A B} (x : A) (f : A -> M B) s : tr_at a (f x) s -> tr_at a (bind (ret x) f) s.
  Proof. intros H. exact H. Qed.

  Lemma tr_try_finally_at a {A} (body : M A) (fin : M unit) s :
    tr_at a body s -> tr a fin -> tr_at a (try_finally body fin) s.
  Proof.
    intros Hb Hf Hi. destruct (Hb Hi) as [H0 [H1 [H2 [n1 [H3 H4]]]]].
    unfold try_finally. destruct (body s) as [r s'] eqn:E. cbn [fst snd] in *.
    destruct (Hf s' H0) as [G0 [G1 [G2 [n2 [G3 G4]]]]].
    destruct (fin s') as [[u|e] s''] eqn:E2; cbn [fst snd] in *.
    all: split; [exact G0|]; split; [intros Ea; rewrite (G1 Ea); exact (H1 Ea)|];
         (split; [intros Ea; rewrite (G2 Ea); exact (H2 Ea)|]);
         exists (n2 ++ n1); (split; [rewrite G3, H3, app_assoc; reflexivity|]);
         intros Ea; apply Forall_app; split; [exact (G4 Ea)|exact (H4 Ea)].
  Qed.

  Lemma tr_try_finally a {A} (body : M A) (fin : M unit) :
    tr a body -> tr a fin -> tr a (try_finally body fin).
  Proof. intros Hb Hf s. apply tr_try_finally_at; [apply Hb|exact Hf]. Qed.

  (* ---------- primitives ---------- *)

  Lemma tr_write a pm : (forall n, pm <> pres_request n) -> tr a (write_msg pm).
  Proof.
    intros Hn s Hi. rewrite write_eq. cbn [snd s_w s_log].
    split; [exact Hi|]. split; [reflexivity|split; [reflexivity|]]. eexists [_]. split; [reflexivity|].
    intros _. constructor; [exact Hn|constructor].
  Qed.

  Lemma tr_set_nodes a f : tr a (set_nodes f).
  Proof. intros s. apply tr_same_at; reflexivity. Qed.

  Lemma tr_update_node a id f : tr a (update_node id f).
  Proof. apply tr_set_nodes. Qed.

  Lemma tr_require_node a id : tr a (require_node id).
  Proof. intros s. apply tr_same_at; rewrite require_node_eq; destruct (dget Z.eqb (w_nodes (s_w s)) id); reflexivity. Qed.

  Lemma tr_set_protocol_version a v : tr a (set_protocol_version vlt v).
  Proof.
    intros s. unfold set_protocol_version. destruct (get_protocol vlt v); apply tr_same_at; reflexivity.
  Qed.

  Lemma tr_need a {A} (o : option A) what : tr a (need o what).
  Proof. destruct o; [apply tr_ret|apply tr_raise]. Qed.

  Lemma tr_set_internal a f : a_marker a = true -> tr a (set_internal f).
  Proof.
    intros Ha s Hi. cbn. split; [exact Hi|].
    split; [reflexivity|split; [rewrite Ha; discriminate|exists []; split; [reflexivity|constructor]]].
  Qed.

  Lemma tr_set_setbuf_pop a k : a_release a = true -> tr a (set_setbuf (fun b => dpop key_eqb b k)).
  Proof.
    intros Ha s Hi. cbn. split; [apply dpop_Forall; exact Hi|].
    split; [rewrite Ha; discriminate|split; [reflexivity|exists []; split; [reflexivity|constructor]]].
  Qed.

  (* an unbuffered send issued by a handler *)
  Lemma tr_send_unbuffered a pm : (forall n, pm <> pres_request n) -> tr a (send pm false).
  Proof.
    intros Hn s. unfold tr_at. rewrite send_eq. unfold send_resolved.
    destruct (m_cmd pm =? 1).
    - assert (G : tr a (send_set_direct pm false)).
      { unfold send_set_direct. apply tr_bind; [apply tr_write; exact Hn|intros _; apply tr_ret]. }
      destruct (dget Z.eqb (w_nodes (s_w s)) (m_node pm)) as [n|]; cbn [andb]; apply G.
    - destruct (m_cmd pm =? 3); [apply tr_write; exact Hn|].
      destruct ((m_cmd pm =? 0) || (m_cmd pm =? 2) || (m_cmd pm =? 4)); apply tr_same_at; reflexivity.
  Qed.

  Lemma str_of_Z_nonnil z : str_of_Z z <> [].
  Proof.
    destruct z as [|p|p]; cbn; try discriminate.
    intros H. eapply PyStrFacts.uint_cps_nonnil; [apply DecimalPos.Unsigned.to_uint_nonnil|exact H].
  Qed.

  Lemma tr_flush_entries a es :
    a_release a = true -> Forall (fun e => m_cmd (snd e) = 1) es -> tr a (flush_entries es).
  Proof.
    intros Ha. induction es as [|[k bm] r IH]; cbn [flush_entries]; intros H; [apply tr_ret|].
    inversion H as [|? ? H1 H2]; subst. cbn in H1.
    apply tr_bind.
    - apply tr_send_unbuffered. intros n E. rewrite E in H1. discriminate H1.
    - intros _. apply tr_bind; [apply tr_set_setbuf_pop; exact Ha|intros _; apply IH; exact H2].
  Qed.

  Lemma tr_handle_sleep_buffer a m : a_release a = true -> tr a (handle_sleep_buffer m).
  Proof.
    intros Ha. unfold handle_sleep_buffer. apply tr_get_w. intros s Hi.
    assert (Hc : Forall (fun e => m_cmd (snd e) = 1) (filter (fun e => m_node (snd e) =? m_node m) (w_set (s_w s)))).
    { apply Forall_forall. intros e He. apply filter_In in He. destruct He as [He _].
      unfold sbuf_ok in Hi. rewrite Forall_forall in Hi. apply (Hi e He). }
    refine (tr_bind_at a _ _ s _ _ Hi).
    - apply tr_flush_entries; assumption.
    - intros _ _. apply tr_ret.
  Qed.

  (* ---------- bodies ---------- *)

  Ltac nr := let n := fresh "n" in let H := fresh "H" in
             intros n H; unfold pres_request, mk_msg in H; injection H; intros; subst;
             try discriminate; try lia; try congruence.

  Lemma tr_body2 b super m a :
    level2 b = true -> a_le (allow_body b) a -> (b = BSuper -> tr a (super m)) ->
    tr a (run_body2 bat vlt now b super m).
  Proof.
    intros Hl Hle Hs. destruct consts_p14 as [C1 [C2 [C3 [C4 [C5 [C6 [C7 C8]]]]]]].
    destruct consts_p20 as [D1 [D2 D3]].
    assert (Hrel : forall x, allow_body x = {| a_release := true; a_request := false; a_marker := false |} ->
                             x = b -> a_release a = true).
    { intros x Hx ->. destruct Hle as [L _]. apply L. rewrite Hx. reflexivity. }
    destruct b; try discriminate Hl; cbn [run_body2].
    - apply Hs. reflexivity.
    - apply tr_bind; [apply tr_set_protocol_version|intros _; apply tr_ret].
    - apply tr_get_w. intros s.
      match goal with |- context [if ?c then _ else _] => destruct c end; [apply tr_raise|].
      rewrite C1, C2. cbn [need]. apply tr_bind_ret. apply tr_bind_ret.
      apply tr_bind; [apply tr_set_nodes|intros _].
      apply tr_bind; [apply tr_send_unbuffered; nr|intros _; apply tr_ret].
    - apply tr_get_w. intros s.
      apply tr_bind; [apply tr_send_unbuffered|intros _; apply tr_ret].
      destruct (w_metric (s_w s)); nr.
    - apply tr_bind; [apply tr_send_unbuffered|intros _; apply tr_ret].
      intros n H. unfold pres_request, mk_msg in H. injection H as _ _ _ _ Hp. exact (str_of_Z_nonnil now Hp).
    - apply tr_bind; [apply tr_require_node|intros _].
      destruct (bat (m_payload m)) as [lvl|]; [|apply tr_raise].
      destruct ((0 <=? lvl) && (lvl <=? 100)); [|apply tr_raise].
      apply tr_bind; [apply tr_update_node|intros _; apply tr_ret].
    - apply tr_bind; [apply tr_require_node|intros _].
      apply tr_bind; [apply tr_update_node|intros _; apply tr_ret].
    - apply tr_bind; [apply tr_require_node|intros _].
      apply tr_bind; [apply tr_update_node|intros _; apply tr_ret].
    - rewrite D2. cbn [need]. apply tr_bind_ret.
      apply tr_bind; [apply tr_send_unbuffered; nr|intros _; apply tr_ret].
    - apply tr_bind; [apply tr_require_node|intros _; apply tr_ret].
    - apply tr_bind; [apply tr_require_node|intros _].
      destruct (py_int (m_payload m)); [|apply tr_raise].
      apply tr_bind; [apply tr_update_node|intros _]. apply tr_handle_sleep_buffer.
      apply (Hrel BHeartbeat20); reflexivity.
    - apply tr_bind; [apply tr_require_node|intros _].
      destruct (py_int (m_payload m)); [|apply tr_raise].
      apply tr_bind; [apply tr_update_node|intros _; apply tr_ret].
    - apply tr_bind; [apply tr_require_node|intros _].
      apply tr_bind; [apply tr_update_node|intros _]. apply tr_handle_sleep_buffer.
      apply (Hrel BPreSleep); reflexivity.
  Qed.

  (* ---------- decorators ---------- *)

  Lemma tr_dec_mpv_at a f m s : tr_at a (f m) s -> tr_at a (dec_mpv f m) s.
  Proof.
    intros Hf. destruct consts_p14 as [C1 [C2 [C3 [C4 [C5 [C6 [C7 C8]]]]]]].
    unfold dec_mpv. apply tr_try_finally_at; [exact Hf|].
    apply tr_get_w. intros s0. destruct (w_pv (s_w s0)); [apply tr_ret|].
    rewrite C7, C3, C4, C5. cbn [need]. repeat apply tr_bind_ret.
    match goal with |- context [if ?c then _ else _] => destruct c end;
      [apply tr_send_unbuffered; nr|apply tr_ret].
  Qed.

  Lemma tr_request_presentation a m e :
    a_request a = true -> a_marker a = true -> tr a (request_presentation m e).
  Proof.
    intros Hr Hm s Hi. rewrite request_presentation_eq. cbv zeta.
    destruct (dmem key_eqb (w_internal (s_w s)) (pres_key (m_node m))).
    - cbn. split; [exact Hi|]. split; [reflexivity|split; [rewrite Hm; discriminate|]].
      exists []. split; [reflexivity|constructor].
    - rewrite write_eq. cbn [s_w s_log s_faults]. destruct (hd false (s_faults s)); cbn [snd with_internal s_w s_log w_set].
      + split; [exact Hi|]. split; [reflexivity|split; [rewrite Hm; discriminate|]].
        eexists [_]. split; [reflexivity|rewrite Hr; discriminate].
      + split; [exact Hi|]. split; [reflexivity|split; [rewrite Hm; discriminate|]].
        eexists [_]. split; [reflexivity|rewrite Hr; discriminate].
  Qed.

  Lemma tr_dec_mnc_at a f m s :
    a_request a = true -> a_marker a = true -> tr_at a (f m) s -> tr_at a (dec_mnc f m) s.
  Proof.
    intros Hr Hm Hf Hi. rewrite dec_mnc_eq. destruct (Hf Hi) as [H0 [H1 [H2 [n1 [H3 H4]]]]].
    destruct (f m s) as [[x|e] s'] eqn:E; cbn [fst snd] in *.
    - split; [exact H0|split; [exact H1|split; [exact H2|exists n1; split; assumption]]].
    - destruct (is_missing e).
      + destruct (tr_request_presentation a m e Hr Hm s' H0) as [G0 [G1 [G2 [n2 [G3 G4]]]]].
        split; [exact G0|].
        split; [intros Ea; rewrite (G1 Ea); exact (H1 Ea)|].
        split; [intros Ea; rewrite (G2 Ea); exact (H2 Ea)|].
        exists (n2 ++ n1). split; [rewrite G3, H3, app_assoc; reflexivity|rewrite Hr; discriminate].
      + cbn [snd]. split; [exact H0|split; [exact H1|split; [exact H2|exists n1; split; assumption]]].
  Qed.

  Lemma tr_apply_decs_at a ds f m s :
    forallb known_dec ds = true -> a_le (allow_decs ds) a -> tr_at a (f m) s -> tr_at a (apply_decs ds f m) s.
  Proof.
    induction ds as [|d r IH]; cbn [apply_decs fold_right forallb]; intros Hd Hle Hf; [exact Hf|].
    apply andb_true_iff in Hd. destruct Hd as [Hd Hr]. unfold apply_dec.
    assert (Hle' : a_le (allow_decs r) a).
    { eapply a_le_trans; [|exact Hle]. unfold allow_decs. cbn [existsb].
      destruct (existsb (String.eqb "handle_missing_node_child") r); [|apply a_le_none].
      rewrite orb_true_r. apply a_le_refl. }
    destruct (String.eqb d "handle_missing_protocol_version") eqn:E1.
    - apply tr_dec_mpv_at. apply IH; assumption.
    - destruct (String.eqb d "handle_missing_node_child") eqn:E2.
      + assert (Hex : existsb (String.eqb "handle_missing_node_child") (d :: r) = true).
        { cbn [existsb]. rewrite String.eqb_sym, E2. reflexivity. }
        unfold allow_decs in Hle. rewrite Hex in Hle. destruct Hle as [_ [L2 L3]].
        apply tr_dec_mnc_at; [apply L2; reflexivity|apply L3; reflexivity|]. apply IH; assumption.
      + unfold known_dec in Hd. rewrite E1, E2 in Hd. discriminate.
  Qed.

  (* ---------- chains ---------- *)

  Lemma tr_chain2 name chain m a :
    chain_ok level2 name chain = true -> a_le (allow_chain name chain) a ->
    tr a (run_chain2 bat vlt now name chain m).
  Proof.
    revert a. induction chain as [|[md ds] r IH]; intros a; [discriminate|].
    cbn [chain_ok run_chain2 allow_chain]. intros Hok Hle.
    assert (Hd : forallb known_dec ds = true /\ exists b, body_of md name = Some b /\ level2 b = true
                 /\ (calls_super b = true -> chain_ok level2 name r = true)).
    { destruct r as [|e r'].
      - apply andb_true_iff in Hok. destruct Hok as [Hd Hb]. split; [exact Hd|].
        destruct (body_of md name) as [b|]; [|discriminate]. apply andb_true_iff in Hb. destruct Hb as [Hl Hn].
        exists b. split; [reflexivity|split; [exact Hl|]]. intros Hc. rewrite Hc in Hn. discriminate.
      - apply andb_true_iff in Hok. destruct Hok as [Hok Hr]. apply andb_true_iff in Hok. destruct Hok as [Hd Hb].
        split; [exact Hd|]. destruct (body_of md name) as [b|]; [|discriminate]. exists b.
        split; [reflexivity|split; [exact Hb|intros _; exact Hr]]. }
    destruct Hd as [Hd [b [Eb [Hl Hsup]]]]. rewrite Eb in *.
    intros s0. apply tr_apply_decs_at; [exact Hd|eapply a_le_trans; [apply a_le_or_l|exact Hle]|].
    apply tr_body2; [exact Hl|eapply a_le_trans; [apply a_le_or_l|eapply a_le_trans; [apply a_le_or_r|exact Hle]]|].
    intros ->. apply IH; [apply Hsup; reflexivity|].
    eapply a_le_trans; [|exact Hle]. eapply a_le_trans; [|apply a_le_or_r]. cbn [calls_super]. apply a_le_or_r.
  Qed.

  Lemma tr_dispatch2 name m s a :
    l2name name -> a_le (allow_dispatch (w_proto (s_w s)) name) a -> tr_at a (dispatch2 bat vlt now name m) s.
  Proof.
    intros Hn Hle. unfold dispatch2, bind, get_w, tr_at. cbn beta iota. unfold proto_of, allow_dispatch in *.
    destruct (lookup_chain (pt_incoming (proto_at (w_proto (s_w s)))) name) as [c|] eqn:E; [|exact (tr_ret a m s)].
    apply tr_chain2; [|exact Hle]. apply (incoming_lookup _ _ _ E). exact Hn.
  Qed.

  (* what the dynamic dispatch inside handle_internal / handle_stream / the gateway
     presentation may reach, for this message under protocol i *)
  Definition allow_dynamic (i : nat) (m : msg) : allow :=
    a_or (allow_dispatch i "handle_i_version")
         (a_or (match enum_lname_of (pt_internal (proto_at i)) (m_type m) with
                | Some ln => allow_dispatch i ("handle_" ++ ln)
                | None => a_none
                end)
               (match enum_lname_of (pt_stream (proto_at i)) (m_type m) with
                | Some ln => allow_dispatch i ("handle_" ++ ln)
                | None => a_none
                end)).

  Lemma tr_body1 b super m s a :
    level1 b = true -> a_le (allow_body b) a -> a_le (allow_dynamic (w_proto (s_w s)) m) a ->
    (b = BSuper \/ b = BPresentation20 -> forall s', w_proto (s_w s') = w_proto (s_w s) -> tr_at a (super m) s') ->
    tr_at a (run_body1 bat vlt now b super m) s.
  Proof.
    intros Hl Hle Hdyn Hs. destruct consts_p14 as [C1 [C2 [C3 [C4 [C5 [C6 [C7 C8]]]]]]].
    destruct consts_p20 as [D1 [D2 D3]].
    destruct b; try discriminate Hl; cbn [run_body1].
    - apply Hs; [left; reflexivity|reflexivity].
    - rewrite D1. cbn [need]. apply tr_bind_ret_at. apply tr_bind_at.
      + apply tr_set_internal. destruct Hle as [_ [_ L]]. apply L. reflexivity.
      + intros _ _. apply Hs; [right; reflexivity|reflexivity].
    - destruct (m_child m =? system_child_id).
      + apply tr_bind_at; [apply tr_set_nodes|intros _ _].
        destruct (m_node m =? 0); [|apply tr_ret].
        apply tr_dispatch2; [repeat split; reflexivity|].
        eapply a_le_trans; [|exact Hdyn]. cbn [s_w set_nodes modify_w snd w_proto]. apply a_le_or_l.
      + apply tr_bind; [apply tr_require_node|intros _].
        apply tr_bind; [apply tr_update_node|intros _; apply tr_ret].
    - apply tr_bind; [apply tr_require_node|intros n].
      destruct (negb (dmem Z.eqb (n_children n) (m_child m))); [apply tr_raise|].
      apply tr_bind; [apply tr_update_node|intros _].
      destruct (n_reboot n); [|apply tr_ret].
      rewrite C7, C6. cbn [need]. repeat apply tr_bind_ret.
      apply tr_bind; [apply tr_send_unbuffered; nr|intros _; apply tr_ret].
    - apply tr_bind; [apply tr_require_node|intros n].
      destruct (dget Z.eqb (n_children n) (m_child m)) as [c|]; [|apply tr_raise].
      destruct (dget Z.eqb (c_values c) (m_type m)) as [v|]; [|apply tr_ret].
      rewrite C8. cbn [need]. apply tr_bind_ret.
      apply tr_bind; [apply tr_send_unbuffered; nr|intros _; apply tr_ret].
    - unfold bind, get_w, tr_at. cbn beta iota. unfold proto_of.
      destruct (enum_lname_of (pt_internal (proto_at (w_proto (s_w s)))) (m_type m)) as [ln|] eqn:E;
        [|exact (tr_raise a _ s)].
      apply tr_dispatch2; [eapply member_l2name; left; exact E|].
      eapply a_le_trans; [|exact Hdyn]. unfold allow_dynamic. rewrite E.
      eapply a_le_trans; [apply a_le_or_l|apply a_le_or_r].
    - apply tr_bind_at; [apply tr_require_node|intros _ _].
      assert (Hsame : snd (require_node (m_node m) s) = s).
      { rewrite require_node_eq. destruct (dget Z.eqb (w_nodes (s_w s)) (m_node m)); reflexivity. }
      rewrite Hsame. unfold bind, get_w, tr_at. cbn beta iota. unfold proto_of.
      destruct (enum_lname_of (pt_stream (proto_at (w_proto (s_w s)))) (m_type m)) as [ln|] eqn:E;
        [|exact (tr_raise a _ s)].
      apply tr_dispatch2; [eapply member_l2name; right; exact E|].
      eapply a_le_trans; [|exact Hdyn]. unfold allow_dynamic. rewrite E.
      eapply a_le_trans; [apply a_le_or_r|apply a_le_or_r].
  Qed.

  Lemma tr_chain1 name chain m a i :
    chain_ok level1 name chain = true -> a_le (allow_chain name chain) a -> a_le (allow_dynamic i m) a ->
    forall s, w_proto (s_w s) = i -> tr_at a (run_chain1 bat vlt now name chain m) s.
  Proof.
    induction chain as [|[md ds] r IH]; [discriminate|].
    cbn [chain_ok run_chain1 allow_chain]. intros Hok Hle Hdyn s Hi.
    assert (Hd : forallb known_dec ds = true /\ exists b, body_of md name = Some b /\ level1 b = true
                 /\ (calls_super b = true -> chain_ok level1 name r = true)).
    { destruct r as [|e r'].
      - apply andb_true_iff in Hok. destruct Hok as [Hd Hb]. split; [exact Hd|].
        destruct (body_of md name) as [b|]; [|discriminate]. apply andb_true_iff in Hb. destruct Hb as [Hl Hn].
        exists b. split; [reflexivity|split; [exact Hl|]]. intros Hc. rewrite Hc in Hn. discriminate.
      - apply andb_true_iff in Hok. destruct Hok as [Hok Hr]. apply andb_true_iff in Hok. destruct Hok as [Hd Hb].
        split; [exact Hd|]. destruct (body_of md name) as [b|]; [|discriminate]. exists b.
        split; [reflexivity|split; [exact Hb|intros _; exact Hr]]. }
    destruct Hd as [Hd [b [Eb [Hl Hsup]]]]. rewrite Eb in *.
    apply tr_apply_decs_at; [exact Hd|eapply a_le_trans; [apply a_le_or_l|exact Hle]|].
    apply tr_body1; [exact Hl|eapply a_le_trans; [apply a_le_or_l|eapply a_le_trans; [apply a_le_or_r|exact Hle]]
                    |rewrite Hi; exact Hdyn|].
    intros Hb s' Hs'. assert (Hc : calls_super b = true) by (destruct Hb as [-> | ->]; reflexivity).
    apply IH; [apply Hsup; exact Hc| |exact Hdyn|rewrite Hs'; exact Hi].
    eapply a_le_trans; [|exact Hle]. eapply a_le_trans; [|apply a_le_or_r]. rewrite Hc. apply a_le_or_r.
  Qed.

  (* THE FOOTPRINT THEOREM: one listen step does to the sleep buffer, the markers and
     the transport no more than the generated tables allow for this message *)
  Theorem tr_listen_step line s :
    match decode (proto_of (s_w s)) line with
    | DecOk m => tr_at (listen_allow (w_proto (s_w s)) m) (listen_step bat vlt now line) s
    | _ => tr_at a_none (listen_step bat vlt now line) s
    end.
  Proof.
    destruct (decode (proto_of (s_w s)) line) as [m| |c] eqn:E.
    - unfold listen_step, bind, get_w, tr_at. cbn beta iota. rewrite E. unfold proto_of in *.
      rewrite command_lname. unfold listen_allow.
      destruct (lname_cmd (m_cmd m)) as [cname|] eqn:Ec; [|exact (tr_raise a_none _ s)].
      destruct (command_handler_lookup (w_proto (s_w s)) _ _ Ec) as [Hc [c Hl]]. rewrite Hl.
      apply (tr_chain1 _ c m _ (w_proto (s_w s))).
      + apply (incoming_lookup _ _ _ Hl). exact Hc.
      + unfold allow_dispatch. rewrite Hl. apply a_le_or_l.
      + unfold allow_dynamic. apply a_le_or_r.
      + reflexivity.
    - unfold listen_step, bind, get_w, tr_at. cbn beta iota. rewrite E. exact (tr_raise a_none _ s).
    - unfold listen_step, bind, get_w, tr_at. cbn beta iota. rewrite E. exact (tr_raise a_none _ s).
  Qed.
End WithOracles.

(* ---------- what the generated tables allow, by computation ---------- *)

Definition allow_is_none (a : allow) : bool := negb (a_release a || a_request a || a_marker a).

(* before 2.0: no handler chain may release, request or touch a marker *)
Lemma tables_pre20_allow_nothing :
  forallb (fun p => forallb (fun e => allow_is_none (allow_chain (fst e) (snd e))) (pt_incoming p))
          [proto_1_4; proto_1_5] = true.
Proof. vm_compute. reflexivity. Qed.

(* from 2.0: the only chains that may release parked commands are the wake signals *)
Definition releasing_handlers (p : proto_tables) : list string :=
  map fst (filter (fun e => a_release (allow_chain (fst e) (snd e))) (pt_incoming p)).

Lemma tables_release_only_at_wake :
  map releasing_handlers protocols
  = [[]; []; ["handle_i_heartbeat_response"]; ["handle_i_heartbeat_response"];
     ["handle_i_pre_sleep_notification"]]%string.
Proof. vm_compute. reflexivity. Qed.

Lemma lookup_chain_in t n c : lookup_chain t n = Some c -> In (n, c) t.
Proof.
  induction t as [|[n' c'] r IH]; cbn; [discriminate|].
  destruct (String.eqb n' n) eqn:E; [|intros H; right; exact (IH H)].
  intros H. injection H as ->. apply String.eqb_eq in E. subst. left. reflexivity.
Qed.

Lemma allow_dispatch_pre20 i name : (i < 2)%nat -> allow_dispatch i name = a_none.
Proof.
  intros Hi. unfold allow_dispatch.
  destruct (lookup_chain (pt_incoming (proto_at i)) name) as [c|] eqn:E; [|reflexivity].
  apply lookup_chain_in in E. pose proof tables_pre20_allow_nothing as T.
  cbn [forallb] in T. apply andb_true_iff in T. destruct T as [T0 T1]. apply andb_true_iff in T1. destruct T1 as [T1 _].
  assert (Hn : allow_is_none (allow_chain name c) = true).
  { destruct i as [|[|i]]; [| |lia]; cbn [proto_at nth protocols] in E;
      [rewrite forallb_forall in T0; exact (T0 _ E)|rewrite forallb_forall in T1; exact (T1 _ E)]. }
  unfold allow_is_none in Hn. apply negb_true_iff in Hn.
  destruct (allow_chain name c) as [r q k]. cbn in Hn.
  destruct r, q, k; try discriminate. reflexivity.
Qed.

Theorem listen_allow_pre20 i m : (i < 2)%nat -> listen_allow i m = a_none.
Proof.
  intros Hi. unfold listen_allow. destruct (lname_cmd (m_cmd m)); [|reflexivity].
  rewrite !allow_dispatch_pre20 by exact Hi.
  destruct (enum_lname_of (pt_internal (proto_at i)) (m_type m)); [rewrite allow_dispatch_pre20 by exact Hi|];
    (destruct (enum_lname_of (pt_stream (proto_at i)) (m_type m)); [rewrite allow_dispatch_pre20 by exact Hi|]);
    reflexivity.
Qed.

(* ---------- corollaries used by the property files ---------- *)

Lemma Inv_sbuf_ok vlt w : Inv vlt w -> sbuf_ok w.
Proof.
  intros Hi. pose proof (inv_set_keys _ _ Hi) as H. unfold sbuf_ok. rewrite Forall_forall in *.
  intros e He. apply (H e He).
Qed.

Section Corollaries.
  Variable bat : str -> option Z.
  Variable vlt : str -> str -> option bool.
  Variable now : Z.

  (* C07: a received line that is not a wake signal of the active protocol neither
     writes nor removes a parked command *)
  Theorem nonwake_keeps_buffer line s m :
    Inv vlt (s_w s) -> decode (proto_of (s_w s)) line = DecOk m ->
    a_release (listen_allow (w_proto (s_w s)) m) = false ->
    w_set (s_w (snd (listen_step bat vlt now line s))) = w_set (s_w s).
  Proof.
    intros Hi Hd Ha. pose proof (tr_listen_step bat vlt now line s) as T. rewrite Hd in T.
    destruct (T (Inv_sbuf_ok _ _ Hi)) as [_ [H _]]. exact (H Ha).
  Qed.

  Theorem rejected_line_keeps_everything line s :
    Inv vlt (s_w s) -> (forall m, decode (proto_of (s_w s)) line <> DecOk m) ->
    w_set (s_w (snd (listen_step bat vlt now line s))) = w_set (s_w s)
    /\ w_internal (s_w (snd (listen_step bat vlt now line s))) = w_internal (s_w s)
    /\ exists new, s_log (snd (listen_step bat vlt now line s)) = new ++ s_log s /\ Forall notreq new.
  Proof.
    intros Hi Hn. pose proof (tr_listen_step bat vlt now line s) as T.
    destruct (decode (proto_of (s_w s)) line) as [m| |c]; [exfalso; exact (Hn m eq_refl)| |];
      destruct (T (Inv_sbuf_ok _ _ Hi)) as [_ [H1 [H2 [new [H3 H4]]]]];
      (split; [exact (H1 eq_refl)|split; [exact (H2 eq_refl)|exists new; split; [exact H3|exact (H4 eq_refl)]]]).
  Qed.

  (* C10: a presentation request is only ever written when the tables put the
     missing-node/child wrapper on the path of this message *)
  Theorem request_only_from_wrapper line s m :
    Inv vlt (s_w s) -> decode (proto_of (s_w s)) line = DecOk m ->
    a_request (listen_allow (w_proto (s_w s)) m) = false ->
    exists new, s_log (snd (listen_step bat vlt now line s)) = new ++ s_log s /\ Forall notreq new.
  Proof.
    intros Hi Hd Ha. pose proof (tr_listen_step bat vlt now line s) as T. rewrite Hd in T.
    destruct (T (Inv_sbuf_ok _ _ Hi)) as [_ [_ [_ [new [H3 H4]]]]]. exists new. split; [exact H3|exact (H4 Ha)].
  Qed.

  (* C10 / C07 before 2.0: whatever arrives, no presentation request is written, no
     marker changes, nothing leaves the sleep buffer *)
  Theorem pre20_quiet line s :
    Inv vlt (s_w s) -> (w_proto (s_w s) < 2)%nat ->
    w_set (s_w (snd (listen_step bat vlt now line s))) = w_set (s_w s)
    /\ w_internal (s_w (snd (listen_step bat vlt now line s))) = w_internal (s_w s)
    /\ exists new, s_log (snd (listen_step bat vlt now line s)) = new ++ s_log s /\ Forall notreq new.
  Proof.
    intros Hi Hp. pose proof (tr_listen_step bat vlt now line s) as T.
    destruct (decode (proto_of (s_w s)) line) as [m| |c]; try rewrite (listen_allow_pre20 _ m Hp) in T;
      destruct (T (Inv_sbuf_ok _ _ Hi)) as [_ [H1 [H2 [new [H3 H4]]]]];
      (split; [exact (H1 eq_refl)|split; [exact (H2 eq_refl)|exists new; split; [exact H3|exact (H4 eq_refl)]]]).
  Qed.
End Corollaries.

(* which messages may release, per protocol: examples of the computed allowance *)
Example listen_allow_examples :
  a_release (listen_allow 2 (mk_msg 1 255 3 0 22 [])) = true        (* heartbeat response, 2.0 *)
  /\ a_release (listen_allow 4 (mk_msg 1 255 3 0 22 [])) = false    (* heartbeat response, 2.2 *)
  /\ a_release (listen_allow 4 (mk_msg 1 255 3 0 32 [])) = true     (* pre-sleep notification, 2.2 *)
  /\ a_release (listen_allow 3 (mk_msg 1 255 3 0 32 [])) = false    (* no such type in 2.1 *)
  /\ a_release (listen_allow 4 (mk_msg 1 1 1 0 2 [])) = false       (* a set message *)
  /\ a_request (listen_allow 4 (mk_msg 1 1 1 0 2 [])) = true        (* ... may trigger a request *)
  /\ a_request (listen_allow 4 (mk_msg 1 255 3 0 6 [])) = false     (* a config request may not *)
  /\ a_request (listen_allow 4 (mk_msg 0 255 3 0 9 [])) = false     (* nor a log message *)
  /\ listen_allow 1 (mk_msg 1 1 1 0 2 []) = a_none.
Proof. vm_compute. repeat split. Qed.
