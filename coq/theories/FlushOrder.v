(* C09, order: in every schedule of the flush / send race whose racing sends park, the values
   written for one key reach the wire in the order in which they were sent — an older value is
   never written after a newer one.  Tags number the sends in time order (strictly increasing),
   which is what the harness does (one counter per history). *)
From Coq Require Import List NArith ZArith Bool String Lia Sorted.
From AMS Require Import TablesTypes Tables PyStr Codec Gateway GatewayFacts Flush FlushFacts.
Import ListNotations.
Local Open Scope Z_scope.

(* every later write for the same key carries a larger tag *)
Fixpoint word (l : list entry) : Prop :=
  match l with
  | [] => True
  | e :: r => (forall t2, In (fst e, t2) r -> snd e < t2) /\ word r
  end.

Lemma word_snoc l k t : word l -> (forall tw, In (k, tw) l -> tw < t) -> word (l ++ [(k, t)]).
Proof.
  induction l as [|[k0 t0] l IH]; cbn [word app fst snd]; intros Hw Hlt.
  - split; [intros t2 []|exact I].
  - destruct Hw as [Hw1 Hw2]. split.
    + intros t2 Hin. apply in_app_or in Hin. destruct Hin as [Hin|[Hin|[]]].
      * apply Hw1. exact Hin.
      * injection Hin as <- <-. apply Hlt. left. reflexivity.
    + apply IH; [exact Hw2|]. intros tw Hin. apply Hlt. right. exact Hin.
Qed.

Lemma word_split l : word l -> forall a k t1 b t2, l = a ++ (k, t1) :: b -> In (k, t2) b -> t1 < t2.
Proof.
  intros Hw a. revert l Hw. induction a as [|x a IH]; intros l Hw k t1 b t2 -> Hin.
  - cbn in Hw. destruct Hw as [Hw _]. apply Hw. exact Hin.
  - cbn in Hw. destruct Hw as [_ Hw]. exact (IH _ Hw k t1 b t2 eq_refl Hin).
Qed.

Record OInv (s : fstate) : Prop := {
  oi_written_live : forall k tw tl,
      In (k, tw) (f_written s) -> In (k, tl) (f_buf s ++ pending s) -> tw < tl;
  oi_pend_buf : forall k tp tb, In (k, tp) (pending s) -> bget (f_buf s) k = Some tb -> tp <= tb;
  oi_word : word (f_written s)
}.

Lemma OInv_init : OInv finit.
Proof. constructor; cbn; [intros k tw tl []|intros k tp tb []|exact I]. Qed.

Lemma in_tags_of l k t : In (k, t) l -> In t (tags l).
Proof. intros H. unfold tags. apply in_map_iff. exists (k, t). split; [reflexivity|exact H]. Qed.

Lemma OInv_send s k t :
  FInv s -> OInv s -> (forall t', In t' (tags (f_sent s)) -> t' < t) -> OInv (fstep true s (FSend k t)).
Proof.
  intros Hi [O1 O2 O3] Hlt.
  constructor; cbn [fstep f_buf f_snap f_cur f_written f_sent pending cur_list].
  - intros k0 tw tl Hw Hl. apply in_app_or in Hl. destruct Hl as [Hl|Hl].
    + apply bset_entries in Hl; [|exact (fi_buf_nodup _ Hi)]. destruct Hl as [Hl|[Hl _]].
      * injection Hl as -> ->. apply Hlt. apply (in_tags_of _ k). apply (fi_written_sent _ Hi). exact Hw.
      * apply (O1 k0 tw tl Hw). apply in_or_app. left. exact Hl.
    + apply (O1 k0 tw tl Hw). apply in_or_app. right. exact Hl.
  - intros k0 tp tb Hp Hb. destruct (key_eq_dec k0 k) as [->|Hne].
    + rewrite bget_bset_same in Hb. injection Hb as <-.
      assert (tp < t); [|lia]. apply Hlt. apply (in_tags_of _ k). apply (fi_live_sent _ Hi).
      apply in_or_app. right. exact Hp.
    + rewrite bget_bset_other in Hb by exact Hne. exact (O2 k0 tp tb Hp Hb).
  - exact O3.
Qed.

Lemma OInv_wake s n : FInv s -> OInv s -> OInv (fstep true s (FWake n)).
Proof.
  intros Hi Ho. cbn [fstep]. destruct (f_cur s) eqn:Ec; [exact Ho|].
  destruct (f_snap s) eqn:Es; [|exact Ho].
  destruct Ho as [O1 O2 O3]. unfold pending, cur_list in *. rewrite Ec, Es in *.
  constructor; unfold pending, cur_list; cbn [f_buf f_snap f_cur f_written f_sent app].
  - intros k tw tl Hw Hl. apply (O1 k tw tl Hw). cbn. rewrite app_nil_r.
    apply in_app_or in Hl. destruct Hl as [Hl|Hl]; [exact Hl|]. apply filter_In in Hl. tauto.
  - intros k tp tb Hp Hb. apply filter_In in Hp. destruct Hp as [Hp _].
    rewrite (In_bget _ _ _ (fi_buf_nodup _ Hi) Hp) in Hb. injection Hb as <-. lia.
  - exact O3.
Qed.

Lemma OInv_begin s : OInv s -> OInv (fstep true s FBegin).
Proof.
  intros Ho. cbn [fstep]. destruct (f_cur s) eqn:Ec; [exact Ho|].
  destruct (f_snap s) as [|e r] eqn:Es; [exact Ho|].
  destruct Ho as [O1 O2 O3]. unfold pending, cur_list in *. rewrite Ec, Es in *.
  constructor; unfold pending, cur_list; cbn [f_buf f_snap f_cur f_written f_sent app] in *; assumption.
Qed.

Lemma OInv_end s ok : FInv s -> OInv s -> OInv (fstep true s (FEnd ok)).
Proof.
  intros Hi Ho. cbn [fstep]. destruct (f_cur s) as [[k t]|] eqn:Ec; [|exact Ho].
  destruct Hi as [H1 H2 H3 H4 H5 H6 H7 H8 H9]. destruct Ho as [O1 O2 O3].
  unfold pending, cur_list in *. rewrite Ec in *. cbn [app] in *.
  assert (Hsnapk : forall tl, ~ In (k, tl) (f_snap s)).
  { intros tl Hin. cbn in H2. inversion H2 as [|? ? Hnot _]; subst. apply Hnot.
    apply in_map_iff. exists (k, tl). split; [reflexivity|exact Hin]. }
  destruct ok.
  - set (buf' := match bget (f_buf s) k with
                 | Some t' => if Z.eqb t' t then bpop (f_buf s) k else f_buf s
                 | None => f_buf s end).
    assert (Hsub : forall e, In e buf' -> In e (f_buf s)).
    { intros e He. unfold buf' in He. destruct (bget (f_buf s) k) as [t'|]; [|exact He].
      destruct (Z.eqb t' t); [|exact He]. exact (proj1 (bpop_entries _ _ _ H1 He)). }
    assert (Hother : forall k0, k0 <> k -> bget buf' k0 = bget (f_buf s) k0).
    { intros k0 Hne. unfold buf'. destruct (bget (f_buf s) k) as [t'|]; [|reflexivity].
      destruct (Z.eqb t' t); [|reflexivity]. apply bget_bpop_other. exact Hne. }
    constructor; unfold pending, cur_list; cbn [f_buf f_snap f_cur f_written f_sent app]; fold buf'.
    + intros k0 tw tl Hw Hl. apply in_app_or in Hw. destruct Hw as [Hw|[Hw|[]]].
      * apply (O1 k0 tw tl Hw). apply in_app_or in Hl. apply in_or_app.
        destruct Hl as [Hl|Hl]; [left; exact (Hsub _ Hl)|right; right; exact Hl].
      * injection Hw as <- <-. apply in_app_or in Hl. destruct Hl as [Hl|Hl]; [|exfalso; exact (Hsnapk tl Hl)].
        unfold buf' in Hl. destruct (bget (f_buf s) k) as [t'|] eqn:Eb.
        -- destruct (Z.eqb t' t) eqn:Et.
           ++ apply bpop_entries in Hl; [|exact H1]. exfalso. apply (proj2 Hl). reflexivity.
           ++ rewrite (In_bget _ _ _ H1 Hl) in Eb. injection Eb as <-.
              apply Z.eqb_neq in Et. pose proof (O2 k t tl (or_introl eq_refl) (In_bget _ _ _ H1 Hl)). lia.
        -- rewrite (In_bget _ _ _ H1 Hl) in Eb. discriminate.
    + intros k0 tp tb Hp Hb. assert (Hne : k0 <> k). { intros ->. exact (Hsnapk tp Hp). }
      rewrite (Hother k0 Hne) in Hb. apply (O2 k0 tp tb); [right; exact Hp|exact Hb].
    + apply word_snoc; [exact O3|]. intros tw Hw. apply (O1 k tw t Hw).
      apply in_or_app. right. left. reflexivity.
  - constructor; unfold pending, cur_list; cbn [f_buf f_snap f_cur f_written f_sent app].
    + intros k0 tw tl Hw Hl. apply (O1 k0 tw tl Hw). rewrite app_nil_r in Hl. apply in_or_app. left. exact Hl.
    + intros k0 tp tb [].
    + exact O3.
Qed.

Lemma sorted_app_head (a : list Z) t r : StronglySorted Z.lt (a ++ t :: r) -> forall x, In x a -> x < t.
Proof.
  induction a as [|y a IH]; cbn; intros Hs x Hin; [destruct Hin|].
  inversion Hs as [|? ? Hs' Hall]; subst. destruct Hin as [->|Hin].
  - rewrite Forall_forall in Hall. apply Hall. apply in_or_app. right. left. reflexivity.
  - exact (IH Hs' x Hin).
Qed.

Lemma sorted_nodup (l : list Z) : StronglySorted Z.lt l -> NoDup l.
Proof.
  induction 1 as [|x l Hs IH Hall]; constructor; [|exact IH].
  intros Hin. rewrite Forall_forall in Hall. specialize (Hall x Hin). lia.
Qed.

Theorem OInv_run ops : forall s,
  Forall parks_only ops ->
  FInv s -> OInv s -> StronglySorted Z.lt (tags (f_sent s) ++ sent_tags ops) ->
  OInv (frun true s ops).
Proof.
  induction ops as [|o r IH]; intros s Hpo Hi Ho Hs; cbn [frun fold_left]; [exact Ho|].
  inversion Hpo as [|? ? Hp1 Hp2]; subst.
  assert (Hfresh : forall k t, o = FSend k t -> forall t', In t' (tags (f_sent s)) -> t' < t).
  { intros k t ->. cbn [sent_tags flat_map app] in Hs. exact (sorted_app_head _ _ _ Hs). }
  assert (Hstep : FInv (fstep true s o)).
  { apply FInv_step; [exact Hi|exact Hp1|]. intros k t Ho' Hin. specialize (Hfresh k t Ho' t Hin). lia. }
  assert (Hostep : OInv (fstep true s o)).
  { destruct o as [k t|n| |ok|k t|ok]; try contradiction.
    - apply OInv_send; [exact Hi|exact Ho|exact (Hfresh k t eq_refl)].
    - apply OInv_wake; assumption.
    - apply OInv_begin; assumption.
    - apply OInv_end; assumption. }
  apply (IH (fstep true s o) Hp2 Hstep Hostep).
  rewrite (sent_step s o Hp1). rewrite <- app_assoc. exact Hs.
Qed.

(* Writes leave in send order: for every schedule whose racing sends park and whose tags number
   the sends in time order, whenever a value for key k is written after another value for k,
   it was sent after it. *)
Theorem writes_in_send_order ops :
  Forall parks_only ops -> StronglySorted Z.lt (sent_tags ops) ->
  let s := frun true finit ops in
  forall a k t1 b t2, f_written s = a ++ (k, t1) :: b -> In (k, t2) b -> t1 < t2.
Proof.
  intros Hpo Hs. cbv zeta. apply word_split.
  apply (oi_word _ (OInv_run ops finit Hpo FInv_init OInv_init Hs)).
Qed.

(* ... and still at quiescence (the flush in progress finished, every node of [nodes] woken once more) *)
Lemma FO_drain s : FInv s -> OInv s -> let s' := drain (drain_fuel s) true s in FInv s' /\ OInv s'.
Proof.
  intros Hi Ho. cbv zeta.
  destruct (drain_inv (fun x => FInv x /\ OInv x)
              (fun x e r H _ _ => conj (FInv_begin x (proj1 H)) (OInv_begin x (proj2 H)))
              (fun x e H _ => conj (FInv_end x true (proj1 H)) (OInv_end x true (proj1 H) (proj2 H)))
              (drain_fuel s) s (conj Hi Ho) (drain_fuel_ok s)) as [G _].
  exact G.
Qed.

Lemma FO_quiesce nodes : forall s, FInv s -> OInv s ->
  let s' := fold_left (fun st n => let st1 := fstep true st (FWake n) in drain (drain_fuel st1) true st1) nodes s in
  FInv s' /\ OInv s'.
Proof.
  induction nodes as [|n r IH]; intros s Hi Ho; cbn [fold_left]; [split; assumption|].
  destruct (FO_drain _ (FInv_wake s n Hi) (OInv_wake s n Hi Ho)) as [G1 G2]. cbv zeta in *.
  exact (IH _ G1 G2).
Qed.

Theorem writes_in_send_order_quiesced ops nodes :
  Forall parks_only ops -> StronglySorted Z.lt (sent_tags ops) ->
  let s := quiesce true (frun true finit ops) nodes in
  forall a k t1 b t2, f_written s = a ++ (k, t1) :: b -> In (k, t2) b -> t1 < t2.
Proof.
  intros Hpo Hs. cbv zeta. apply word_split.
  destruct (FInv_run ops finit Hpo FInv_init (sorted_nodup _ Hs)) as [Hi _].
  pose proof (OInv_run ops finit Hpo FInv_init OInv_init Hs) as Ho.
  unfold quiesce. destruct (FO_drain _ Hi Ho) as [G1 G2]. cbv zeta in *.
  destruct (FO_quiesce nodes _ G1 G2) as [_ K]. cbv zeta in K. exact (oi_word _ K).
Qed.

(* the known finding C09:direct-race is exactly a violation of this order: with a direct send in
   flight the stale parked value 100 is written after the newer 101 *)
Theorem send_order_direct_race_refuted :
  exists ops a k t1 b t2,
    StronglySorted Z.lt (flat_map (fun o => match o with FSend _ t | FDirectBegin _ t => [t] | _ => [] end) ops)
    /\ f_written (frun true finit ops) = a ++ (k, t1) :: b /\ In (k, t2) b /\ ~ t1 < t2.
Proof.
  exists [FSend (1, 0, 2) 100; FDirectBegin (1, 0, 2) 101; FWake 1; FBegin; FDirectEnd true; FEnd true],
         [], (1, 0, 2), 101, [((1, 0, 2), 100)], 100.
  split; [cbn; repeat constructor; lia|]. vm_compute. split; [reflexivity|]. split; [left; reflexivity|].
  intros H; discriminate H.
Qed.

Example writes_in_send_order_example :
  let ops := [FSend (3, 1, 2) 100; FSend (3, 0, 2) 200; FWake 3; FBegin; FSend (3, 1, 2) 201;
              FEnd true; FBegin; FEnd true; FWake 3; FBegin; FEnd true] in
  StronglySorted Z.lt (sent_tags ops)
  /\ f_written (frun true finit ops) = [((3, 1, 2), 100); ((3, 0, 2), 200); ((3, 1, 2), 201)].
Proof. split; [cbn; repeat constructor; lia|vm_compute; reflexivity]. Qed.
