(* Model of the wire codec: MessageSchema.load / MessageSchema.dump
   (src/aiomysensors/model/message.py).  Executable definitions only. *)
From Coq Require Import List NArith ZArith Bool String.
From AMS Require Import TablesTypes Tables PyStr.
Import ListNotations.
Local Open Scope Z_scope.

Record msg := {
  m_node : Z; m_child : Z; m_cmd : Z; m_ack : Z; m_type : Z; m_payload : str
}.

Inductive dec_result :=
| DecOk (m : msg)
| DecInvalid                 (* marshmallow ValidationError -> InvalidMessageError *)
| DecEscape (cls : string).  (* any other exception type *)

Definition memZ (x : Z) (l : list Z) : bool := existsb (Z.eqb x) l.

Definition enum_values (t : list (string * string * Z)) : list Z := map snd t.

(* marshmallow validators on an already coerced integer *)
Definition validator_ok (v : validator) (x : Z) : bool :=
  match v with
  | VRange lo hi li hi_i =>
      (match lo with
       | None => true
       | Some l => if li then Z.leb l x else Z.ltb l x
       end)
      && (match hi with
          | None => true
          | Some h => if hi_i then Z.leb x h else Z.ltb x h
          end)
  | VOneOf cs => memZ x cs
  | VOther _ => false
  end.

Definition validators_ok (vs : list validator) (x : Z) : bool :=
  forallb (fun v => validator_ok v x) vs.

Definition field_validators (schema : list field_desc) (name : string) : list validator :=
  match find (fun f => String.eqb (fd_name f) name) schema with
  | Some f => fd_validators f
  | None => [VOther "missing field"]
  end.

(* validate_child_id: range, then the cross-field rule *)
Definition child_rule (p : proto_tables) (child cmd typ : Z) : bool :=
  Z.leb 0 child && Z.leb child system_child_id &&
  (if Z.eqb cmd (pt_internal_command_type p) && memZ typ (pt_node_id_request_types p)
   then true
   else if memZ cmd (pt_strict_system p) then Z.eqb child system_child_id
   else true).

(* CommandField.validate_command *)
Definition cmd_rule (p : proto_tables) (child cmd : Z) : bool :=
  if Z.eqb child system_child_id then memZ cmd (pt_valid_system p)
  else memZ cmd (enum_values (pt_command p)).

Definition accept_fields (p : proto_tables) (n c k a t : Z) : bool :=
  validators_ok (field_validators message_schema "node_id") n
  && child_rule p c k t
  && cmd_rule p c k
  && validators_ok (field_validators message_schema "ack") a.

(* MessageSchema.load on a line of text *)
Definition decode (p : proto_tables) (line : str) : dec_result :=
  match splitn 5 delimiter (rstrip line) with
  | [f1; f2; f3; f4; f5; f6] =>
      match py_int f1, py_int f2, py_int f3, py_int f4, py_int f5 with
      | Some n, Some c, Some k, Some a, Some t =>
          if accept_fields p n c k a t
          then DecOk {| m_node := n; m_child := c; m_cmd := k; m_ack := a;
                        m_type := t; m_payload := f6 |}
          else DecInvalid
      | _, _, _, _, _ => DecInvalid
      end
  | _ => DecInvalid
  end.

(* MessageSchema.dump on a Message object *)
Definition encode (m : msg) : str :=
  join delimiter
    [str_of_Z (m_node m); str_of_Z (m_child m); str_of_Z (m_cmd m);
     str_of_Z (m_ack m); str_of_Z (m_type m); m_payload m] ++ [10%N].
