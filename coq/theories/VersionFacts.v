(* C05: which protocol a reported release string selects.  Inside the
   dotted-numeric grammar the comparison is the model of Version.v; outside it
   is an arbitrary oracle, for which nothing is claimed here. *)
From Coq Require Import List NArith ZArith Bool String Lia.
From AMS Require Import TablesTypes Tables RtTables PyStr Codec Gateway Version Show.
Import ListNotations.
Local Open Scope N_scope.

Lemma supported_keys_parse :
  map (fun p => parse_ver (pt_key p)) protocols
  = [Some [1; 4]; Some [1; 5]; Some [2; 0]; Some [2; 1]; Some [2; 2]].
Proof. vm_compute. reflexivity. Qed.

(* (maj, min) < (a, b) lexicographically *)
Definition pair_lt (maj mi a b : N) : bool := (maj <? a) || ((maj =? a) && (mi <? b)).

Lemma sec_lt_two maj mi rest a b : sec_lt (maj :: mi :: rest) [a; b] = pair_lt maj mi a b.
Proof.
  unfold pair_lt. cbn [sec_lt].
  destruct (N.ltb_spec maj a), (N.ltb_spec a maj), (N.eqb_spec maj a); try lia; cbn; try reflexivity.
  destruct (N.ltb_spec mi b), (N.ltb_spec b mi); try lia; cbn; try reflexivity.
  destruct rest; reflexivity.
Qed.

Definition select (maj mi : N) : nat :=
  if negb (pair_lt maj mi 2 2) then 4%nat
  else if negb (pair_lt maj mi 2 1) then 3%nat
  else if negb (pair_lt maj mi 2 0) then 2%nat
  else if negb (pair_lt maj mi 1 5) then 1%nat
  else 0%nat.

Section Sel.
  Variable orc : str -> str -> option bool.

  Theorem get_protocol_select s maj mi rest :
    parse_ver s = Some (maj :: mi :: rest) ->
    get_protocol (vlt_full orc) s = Some (select maj mi).
  Proof.
    intros Hp. unfold get_protocol.
    cbv [indexed protocols List.length seq combine rev app].
    cbn [get_protocol_from]. unfold vlt_full. rewrite Hp.
    assert (K0 : parse_ver (pt_key proto_1_4) = Some [1; 4]) by (vm_compute; reflexivity).
    assert (K1 : parse_ver (pt_key proto_1_5) = Some [1; 5]) by (vm_compute; reflexivity).
    assert (K2 : parse_ver (pt_key proto_2_0) = Some [2; 0]) by (vm_compute; reflexivity).
    assert (K3 : parse_ver (pt_key proto_2_1) = Some [2; 1]) by (vm_compute; reflexivity).
    assert (K4 : parse_ver (pt_key proto_2_2) = Some [2; 2]) by (vm_compute; reflexivity).
    rewrite K0, K1, K2, K3, K4.
    rewrite !sec_lt_two. unfold select.
    destruct (pair_lt maj mi 2 2); cbn [negb]; [|reflexivity].
    destruct (pair_lt maj mi 2 1); cbn [negb]; [|reflexivity].
    destruct (pair_lt maj mi 2 0); cbn [negb]; [|reflexivity].
    destruct (pair_lt maj mi 1 5); cbn [negb]; [|reflexivity].
    destruct (pair_lt maj mi 1 4); reflexivity.
  Qed.
End Sel.

(* the property's wording: the newest supported (a, b) with (a, b) <= (maj, min), else 1.4 *)
Definition supported : list (N * N) := [(1, 4); (1, 5); (2, 0); (2, 1); (2, 2)].

Definition pair_le (a b maj mi : N) : Prop := a < maj \/ (a = maj /\ b <= mi).

Theorem select_spec maj mi :
  let i := select maj mi in
  (i < 5)%nat
  /\ (i = 0%nat \/ pair_le (fst (nth i supported (0, 0))) (snd (nth i supported (0, 0))) maj mi)
  /\ forall j, (i < j < 5)%nat ->
       ~ pair_le (fst (nth j supported (0, 0))) (snd (nth j supported (0, 0))) maj mi.
Proof.
  cbv zeta. unfold select, pair_lt, pair_le.
  destruct (N.ltb_spec maj 2), (N.eqb_spec maj 2), (N.ltb_spec mi 2), (N.ltb_spec mi 1), (N.ltb_spec mi 0),
    (N.ltb_spec maj 1), (N.eqb_spec maj 1), (N.ltb_spec mi 5); cbn [orb andb negb]; try lia.
  all: split; [lia|split; [cbn; lia|]].
  all: intros j Hj; destruct j as [|[|[|[|[|j]]]]]; try lia; cbn; lia.
Qed.

Example select_examples :
  forall orc,
  map (get_protocol (vlt_full orc))
      (map lit ["2.2.0"; "2.3.2"; "2.1.1"; "2.0.0"; "1.5.0"; "1.4.9"; "1.3"; "0.9.1"; "v2.2"; " 2.1 "; "2.10.0"; "3.0"]%string)
  = [Some 4; Some 4; Some 3; Some 2; Some 1; Some 0; Some 0; Some 0; Some 4; Some 3; Some 4; Some 4]%nat.
Proof. intros orc. vm_compute. reflexivity. Qed.
