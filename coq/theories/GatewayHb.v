(* C19, the extent of its one exception: the heartbeat response differs between 2.0/2.1
   and 2.2 only in what it does to a REGISTERED node (sleeping flag, release of parked
   commands).  From a node that is not registered it is handled identically under 2.0, 2.1
   and 2.2: the step is given here in a closed form that does not mention the protocol. *)
From Coq Require Import List NArith ZArith Bool String Lia.
From AMS Require Import TablesTypes Tables PyStr Codec CodecFacts Gateway GatewayFacts GatewayInv GatewaySteps.
Import ListNotations.
Local Open Scope Z_scope.

Section WithOracles.
  Variable bat : str -> option Z.
  Variable vlt : str -> str -> option bool.
  Variable now : Z.

  Notation run_body2 := (run_body2 bat vlt now).
  Notation internal_inner := (internal_inner bat vlt now).

  (* the handler a heartbeat response is dispatched to under each 2.x protocol *)
  Definition hb_body (i : nat) : option body :=
    match i with 2%nat | 3%nat => Some BHeartbeat20 | 4%nat => Some BHeartbeat22 | _ => None end.

  Lemma dispatch_heartbeat i b m s :
    w_proto (s_w s) = i -> hb_body i = Some b -> m_type m = 22 ->
    exists super, internal_inner m s = dec_mnc (run_body2 b super) m s.
  Proof.
    intros Hi Hb Ht.
    assert (Hc : (i = 2%nat /\ b = BHeartbeat20) \/ (i = 3%nat /\ b = BHeartbeat20) \/ (i = 4%nat /\ b = BHeartbeat22)).
    { unfold hb_body in Hb. destruct i as [|[|[|[|[|i]]]]]; try discriminate Hb; injection Hb as <-; tauto. }
    unfold GatewaySteps.internal_inner, bind, get_w, proto_of. cbn beta iota. rewrite Hi, Ht.
    destruct Hc as [[-> ->]|[[-> ->]|[-> ->]]];
      (match goal with |- context [enum_lname_of ?t ?v] =>
         let r := eval vm_compute in (enum_lname_of t v) in change (enum_lname_of t v) with r end);
      cbn beta iota; unfold Gateway.dispatch2, bind, get_w, proto_of; cbn beta iota; rewrite Hi;
      exists no_super; reflexivity.
  Qed.

  Lemma body_heartbeat_missing b super m s :
    b = BHeartbeat20 \/ b = BHeartbeat22 ->
    dget Z.eqb (w_nodes (s_w s)) (m_node m) = None ->
    run_body2 b super m s = (inr (EMissingNode (m_node m)), s).
  Proof.
    intros [-> | ->] Hn; cbn [Gateway.run_body2]; unfold bind at 1; rewrite require_node_eq, Hn; reflexivity.
  Qed.

  Lemma mpv_finally_known {A} m (r : A + exn) s' v :
    w_pv (s_w s') = Some v -> mpv_finally m r s' = (r, s').
  Proof. unfold mpv_finally. intros ->. reflexivity. Qed.

  Theorem heartbeat_unknown_step w faults line m :
    Inv vlt w -> (2 <= w_proto w)%nat ->
    decode (proto_of w) line = DecOk m -> m_cmd m = 3 -> m_type m = 22 ->
    dget Z.eqb (w_nodes w) (m_node m) = None ->
    recv bat vlt now w faults line =
      (let r := request_presentation m (EMissingNode (m_node m)) {| s_w := w; s_log := []; s_faults := faults |} in
       (s_w (snd r), match fst r with inl x => Yield x | inr e => Raise e end, rev (s_log (snd r)))).
  Proof.
    intros Hi Hp Hd Hk Ht Hn.
    assert (Hpv : exists v, w_pv w = Some v).
    { pose proof (inv_agree _ _ Hi) as Ha. destruct (w_pv w) as [v|]; [exists v; reflexivity|]. rewrite Ha in Hp. lia. }
    destruct Hpv as [v Hpv].
    assert (Hb : exists b, hb_body (w_proto w) = Some b /\ (b = BHeartbeat20 \/ b = BHeartbeat22)).
    { pose proof (inv_proto _ _ Hi) as Hlt. unfold hb_body.
      destruct (w_proto w) as [|[|[|[|[|i]]]]]; try lia; eexists; split; try reflexivity; tauto. }
    destruct Hb as [b [Hb Hbb]].
    unfold recv, run_step. set (s0 := {| s_w := w; s_log := []; s_faults := faults |}).
    rewrite (listen_internal bat vlt now line m s0 Hd Hk), dec_mpv_eq.
    destruct (dispatch_heartbeat (w_proto w) b m s0 eq_refl Hb Ht) as [super Hdisp].
    rewrite Hdisp, dec_mnc_eq, (body_heartbeat_missing b super m s0 Hbb Hn).
    cbn [is_missing]. cbv zeta.
    (* the presentation request leaves the reported version alone, so no version query follows *)
    rewrite request_presentation_eq. cbv zeta.
    destruct (dmem key_eqb (w_internal (s_w s0)) (pres_key (m_node m))).
    - cbn [fst snd]. rewrite (mpv_finally_known _ _ _ v) by exact Hpv. reflexivity.
    - rewrite write_eq. cbn [s_faults s0].
      destruct (hd false faults); cbn [fst snd negb]; rewrite (mpv_finally_known _ _ _ v) by exact Hpv; reflexivity.
  Qed.

  (* hence: two gateways under any two 2.x protocols whose registries and request markers
     agree react to it in the same way — same error or presentation request, same writes,
     same registry and markers afterwards, sleep buffers untouched *)
  Corollary heartbeat_unknown_agree w w' faults line m :
    Inv vlt w -> Inv vlt w' -> (2 <= w_proto w)%nat -> (2 <= w_proto w')%nat ->
    decode (proto_of w) line = DecOk m -> decode (proto_of w') line = DecOk m ->
    m_cmd m = 3 -> m_type m = 22 ->
    dget Z.eqb (w_nodes w) (m_node m) = None ->
    w_nodes w = w_nodes w' -> w_internal w = w_internal w' ->
    let r := recv bat vlt now w faults line in
    let r' := recv bat vlt now w' faults line in
    snd (fst r) = snd (fst r') /\ snd r = snd r'
    /\ w_nodes (fst (fst r)) = w_nodes (fst (fst r')) /\ w_internal (fst (fst r)) = w_internal (fst (fst r'))
    /\ w_set (fst (fst r)) = w_set w /\ w_set (fst (fst r')) = w_set w'
    /\ w_proto (fst (fst r)) = w_proto w /\ w_proto (fst (fst r')) = w_proto w'.
  Proof.
    intros Hi Hi' Hp Hp' Hd Hd' Hk Ht Hn En Ei. cbv zeta.
    assert (Hn' : dget Z.eqb (w_nodes w') (m_node m) = None) by (rewrite <- En; exact Hn).
    rewrite (heartbeat_unknown_step w faults line m Hi Hp Hd Hk Ht Hn).
    rewrite (heartbeat_unknown_step w' faults line m Hi' Hp' Hd' Hk Ht Hn').
    cbv zeta. rewrite !request_presentation_eq. cbv zeta. cbn [s_w]. rewrite <- Ei.
    destruct (dmem key_eqb (w_internal w) (pres_key (m_node m))).
    - cbn. rewrite En. repeat split; reflexivity.
    - rewrite !write_eq. cbn [s_faults]. destruct (hd false faults); cbn; rewrite ?En, <- ?Ei; repeat split; reflexivity.
  Qed.
End WithOracles.
