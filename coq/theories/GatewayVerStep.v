(* C05, the positive half: a version reply is applied whatever the registry holds.  For every
   protocol, state, oracle and fault stream: an I_VERSION line whose payload selects protocol i
   leaves the gateway with that reported version and that protocol, writes nothing and is
   yielded; the registry is untouched. *)
From Coq Require Import List NArith ZArith Bool String Lia.
From AMS Require Import TablesTypes Tables PyStr Codec CodecFacts Gateway GatewayFacts GatewayInv GatewaySteps GatewayHb GatewayRegSpec.
Import ListNotations.
Local Open Scope Z_scope.

Section WithOracles.
  Variable bat : str -> option Z.
  Variable vlt : str -> str -> option bool.
  Variable now : Z.

  Notation run_body2 := (run_body2 bat vlt now).
  Notation internal_inner := (internal_inner bat vlt now).

  Lemma dispatch_version m s :
    (w_proto (s_w s) < 5)%nat -> m_type m = 2 ->
    internal_inner m s = run_body2 BVersion no_super m s.
  Proof.
    intros Hp Ht. unfold GatewaySteps.internal_inner, bind, get_w, proto_of. cbn beta iota. rewrite Ht.
    destruct (w_proto (s_w s)) as [|[|[|[|[|k]]]]] eqn:Hi; try lia;
      (match goal with |- context [enum_lname_of ?t ?v] =>
         let r := eval vm_compute in (enum_lname_of t v) in change (enum_lname_of t v) with r end);
      cbn beta iota; unfold Gateway.dispatch2, bind, get_w, proto_of; cbn beta iota; rewrite Hi; reflexivity.
  Qed.

  Theorem version_reply_step w faults line m i :
    (w_proto w < 5)%nat ->
    decode (proto_of w) line = DecOk m -> m_cmd m = 3 -> m_type m = 2 ->
    get_protocol vlt (m_payload m) = Some i ->
    let r := recv bat vlt now w faults line in
    w_pv (fst (fst r)) = Some (m_payload m) /\ w_proto (fst (fst r)) = i
    /\ snd (fst r) = Yield m /\ snd r = []
    /\ w_nodes (fst (fst r)) = w_nodes w /\ w_set (fst (fst r)) = w_set w /\ w_internal (fst (fst r)) = w_internal w.
  Proof.
    intros Hp Hd Hk Ht Hg. cbv zeta. unfold recv, run_step.
    set (s0 := {| s_w := w; s_log := []; s_faults := faults |}).
    rewrite (listen_internal bat vlt now line m s0 Hd Hk), dec_mpv_eq.
    rewrite (dispatch_version m s0 Hp Ht).
    cbn [Gateway.run_body2]. unfold bind at 1. unfold set_protocol_version. rewrite Hg.
    unfold modify_w, bind, get_w, put_w, ret. cbn [fst snd s_w s0].
    rewrite (mpv_finally_known _ _ _ (m_payload m)) by reflexivity.
    cbn. repeat split; reflexivity.
  Qed.

  (* a payload the version parser / comparator rejects changes nothing and is an invalid message *)
  Theorem version_reply_rejected w faults line m :
    (w_proto w < 5)%nat ->
    decode (proto_of w) line = DecOk m -> m_cmd m = 3 -> m_type m = 2 ->
    get_protocol vlt (m_payload m) = None ->
    let r := recv bat vlt now w faults line in
    w_pv (fst (fst r)) = w_pv w /\ w_proto (fst (fst r)) = w_proto w /\ w_nodes (fst (fst r)) = w_nodes w
    /\ (snd (fst r) = Raise EInvalidMessage \/ (w_pv w = None /\ snd (fst r) = Raise ETransport)).
  Proof.
    intros Hp Hd Hk Ht Hg. cbv zeta. unfold recv, run_step.
    set (s0 := {| s_w := w; s_log := []; s_faults := faults |}).
    rewrite (listen_internal bat vlt now line m s0 Hd Hk), dec_mpv_eq.
    rewrite (dispatch_version m s0 Hp Ht).
    cbn [Gateway.run_body2]. unfold set_protocol_version. rewrite Hg. unfold bind, raise. cbn beta iota.
    unfold raise. cbn [fst snd]. unfold mpv_finally. subst s0. cbn [s_w].
    destruct (w_pv w) as [v|] eqn:Hpv.
    - cbn [fst snd s_w]. split; [exact Hpv|]. split; [reflexivity|]. split; [reflexivity|]. left. reflexivity.
    - assert (Hw : wants_version_query m = true) by (unfold wants_version_query; rewrite Hk, Ht; reflexivity).
      rewrite Hw, write_eq. cbn [s_faults].
      destruct (hd false faults); cbn [fst snd s_w negb s_log];
        (split; [exact Hpv|]; split; [reflexivity|]; split; [reflexivity|]);
        [right; split; reflexivity|left; reflexivity].
  Qed.

  (* ---------- the gateway's own presentation (0;255;0;...): the same, through the 1.x / 2.x
     wrappers of handle_presentation ---------- *)

  Definition pvp_of {A} (o : (A + exn) * st) : option str * nat := (w_pv (s_w (snd o)), w_proto (s_w (snd o))).

  Lemma pvp_dec_mpv f m s : pvp_of (dec_mpv f m s) = pvp_of (f m s).
  Proof.
    rewrite dec_mpv_eq. unfold mpv_finally, pvp_of. destruct (f m s) as [r t]. cbn [fst snd].
    destruct (w_pv (s_w t)) eqn:E; [cbn [snd]; rewrite E; reflexivity|]. destruct (wants_version_query m); [|cbn [snd]; rewrite E; reflexivity].
    rewrite write_eq. destruct (hd false (s_faults t)); cbn [snd s_w]; rewrite E; reflexivity.
  Qed.

  Lemma pvp_request_presentation m e s : pvp_of (request_presentation m e s) = (w_pv (s_w s), w_proto (s_w s)).
  Proof.
    rewrite request_presentation_eq. cbv zeta. unfold pvp_of.
    destruct (dmem key_eqb (w_internal (s_w s)) (pres_key (m_node m))); [reflexivity|].
    rewrite write_eq. destruct (hd false (s_faults s)); reflexivity.
  Qed.

  Lemma pvp_dec_mnc f m s : pvp_of (dec_mnc f m s) = pvp_of (f m s).
  Proof.
    rewrite dec_mnc_eq. unfold pvp_of at 2. destruct (f m s) as [[x|e] t]; [reflexivity|].
    destruct (is_missing e); [|reflexivity]. apply pvp_request_presentation.
  Qed.

  Lemma pvp_pres20 super m s :
    pvp_of (run_body1 bat vlt now BPresentation20 super m s)
    = pvp_of (super m (with_internal s (dpop key_eqb (w_internal (s_w s)) (m_node m, m_child m, 19)))).
  Proof. rewrite body_presentation20. reflexivity. Qed.

  Lemma body_super1 super m s : run_body1 bat vlt now BSuper super m s = super m s.
  Proof. reflexivity. Qed.

  Ltac peelp :=
    repeat first
      [ rewrite pvp_dec_mnc | rewrite pvp_dec_mpv | rewrite pvp_pres20 | rewrite body_super1
      | progress cbn beta
      | progress cbn [run_chain1 apply_decs fold_right apply_dec body_of body_of_in body_table
                      String.eqb Ascii.eqb Bool.eqb andb] ].

  Lemma listen_presentation_pvp line s m :
    decode (proto_of (s_w s)) line = DecOk m -> m_cmd m = 0 ->
    exists s1, w_nodes (s_w s1) = w_nodes (s_w s) /\ w_proto (s_w s1) = w_proto (s_w s) /\ w_pv (s_w s1) = w_pv (s_w s)
      /\ pvp_of (listen_step bat vlt now line s) = pvp_of (run_body1 bat vlt now BPresentation14 no_super m s1).
  Proof.
    intros Hd Hk. unfold Gateway.listen_step, bind, get_w. cbn beta iota. rewrite Hd.
    unfold proto_of. rewrite command_lname. unfold lname_cmd. rewrite Hk. cbn [Z.eqb append].
    pattern (proto_at (w_proto (s_w s))); apply proto_at_cases;
      cbn [lookup_chain pt_incoming proto_1_4 proto_1_5 proto_2_0 proto_2_1 proto_2_2 String.eqb Ascii.eqb Bool.eqb];
      peelp;
      first [exists s; repeat split; reflexivity
            |eexists; split; [|split; [|split; [|reflexivity]]]; reflexivity].
  Qed.

  Theorem gateway_presentation_step line s m i :
    (w_proto (s_w s) < 5)%nat ->
    decode (proto_of (s_w s)) line = DecOk m -> m_cmd m = 0 -> m_child m = 255 -> m_node m = 0 ->
    get_protocol vlt (m_payload m) = Some i ->
    pvp_of (listen_step bat vlt now line s) = (Some (m_payload m), i).
  Proof.
    intros Hp Hd Hk Hc Hn Hg.
    destruct (listen_presentation_pvp line s m Hd Hk) as [s1 [_ [Hp1 [_ H]]]]. rewrite H. clear H.
    cbn [Gateway.run_body1]. rewrite Hc, Hn. change (255 =? system_child_id) with true. cbn [Z.eqb].
    unfold bind at 1. unfold set_nodes, modify_w, bind, get_w, put_w, ret. cbn beta iota. cbn [fst snd].
    set (s2 := {| s_w := _; s_log := _; s_faults := _ |}).
    assert (Hp2 : (w_proto (s_w s2) < 5)%nat) by (subst s2; cbn [s_w w_proto]; rewrite Hp1; exact Hp).
    unfold Gateway.dispatch2, bind, get_w, proto_of. cbn beta iota.
    destruct (w_proto (s_w s2)) as [|[|[|[|[|k]]]]] eqn:Hi; try lia;
      cbn [proto_at nth protocols lookup_chain pt_incoming proto_1_4 proto_1_5 proto_2_0 proto_2_1 proto_2_2 String.eqb Ascii.eqb Bool.eqb
           run_chain2 apply_decs fold_right body_of body_of_in body_table andb Gateway.run_body2];
      unfold bind, set_protocol_version; rewrite Hg; unfold modify_w, bind, get_w, put_w, ret; reflexivity.
  Qed.
End WithOracles.
