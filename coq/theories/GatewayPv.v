(* Unary facts used by the cross-major simulation: a listen step / a send never forgets the
   reported version (w_pv only ever goes to Some _). *)
From Coq Require Import List NArith ZArith Bool String Lia.
From AMS Require Import TablesTypes Tables PyStr Codec CodecFacts Gateway GatewayFacts GatewayInv GatewaySteps GatewayTrace GatewayReg.
Import ListNotations.
Local Open Scope Z_scope.

Definition pv_known (s : st) : bool := match w_pv (s_w s) with Some _ => true | None => false end.

Section Pvk.
  Variable bat : str -> option Z.
  Variable vlt : str -> str -> option bool.
  Variable now : Z.

  Definition pk_at {A} (c : M A) (s : st) : Prop := pv_known s = true -> pv_known (snd (c s)) = true.
  Definition pk {A} (c : M A) : Prop := forall s, pk_at c s.

  Lemma pk_same_at {A} (c : M A) s : w_pv (s_w (snd (c s))) = w_pv (s_w s) -> pk_at c s.
  Proof. intros H Hk. unfold pv_known. rewrite H. exact Hk. Qed.

  Lemma pk_ret {A} (x : A) : pk (ret x).
  Proof. intros s. apply pk_same_at. reflexivity. Qed.
  Lemma pk_raise {A} e : pk (@raise A e).
  Proof. intros s. apply pk_same_at. reflexivity. Qed.

  Lemma pk_bind_at {A B} (m : M A) (f : A -> M B) s :
    pk_at m s -> (forall x, fst (m s) = inl x -> pk_at (f x) (snd (m s))) -> pk_at (bind m f) s.
  Proof.
    intros Hm Hf Hk. unfold bind. specialize (Hm Hk).
    destruct (m s) as [[x|e] s'] eqn:E; cbn [fst snd] in *; [|exact Hm]. exact (Hf x eq_refl Hm).
  Qed.

  Lemma pk_bind {A B} (m : M A) (f : A -> M B) : pk m -> (forall x, pk (f x)) -> pk (bind m f).
  Proof. intros Hm Hf s. apply pk_bind_at; [apply Hm|intros x _; apply Hf]. Qed.

  Lemma pk_get_w {B} (f : world -> M B) : (forall s, pk_at (f (s_w s)) s) -> pk (bind get_w f).
  Proof. intros H s. exact (H s). Qed.
  Lemma pk_bind_ret {A B} (x : A) (f : A -> M B) : pk (f x) -> pk (bind (ret x) f).
  Proof. intros H s. exact (H s). Qed.
  Lemma pk_bind_ret_at {A B} (x : A) (f : A -> M B) s : pk_at (f x) s -> pk_at (bind (ret x) f) s.
  Proof. intros H. exact H. Qed.

  Lemma pk_try_finally_at {A} (body : M A) (fin : M unit) s :
    pk_at body s -> pk fin -> pk_at (try_finally body fin) s.
  Proof.
    intros Hb Hf Hk. unfold try_finally. specialize (Hb Hk).
    destruct (body s) as [r s'] eqn:E. cbn [fst snd] in *. specialize (Hf s' Hb).
    destruct (fin s') as [[u|e] s''] eqn:E2; cbn [fst snd] in *; exact Hf.
  Qed.

  Lemma pk_write pm : pk (write_msg pm).
  Proof. intros s. apply pk_same_at. rewrite write_eq. reflexivity. Qed.

  Lemma pk_send pm b : pk (send pm b).
  Proof.
    intros s. apply pk_same_at. rewrite send_eq. unfold send_resolved.
    assert (G : forall bb, w_pv (s_w (snd (send_set_direct pm bb s))) = w_pv (s_w s)).
    { intros bb. unfold send_set_direct, bind. rewrite write_eq. destruct (hd false (s_faults s)); [reflexivity|].
      destruct bb; reflexivity. }
    destruct (m_cmd pm =? 1).
    - destruct (dget Z.eqb (w_nodes (s_w s)) (m_node pm)) as [n|]; [destruct (b && n_sleeping n); [reflexivity|apply G]|apply G].
    - destruct (m_cmd pm =? 3); [destruct b; [reflexivity|rewrite write_eq; reflexivity]|].
      destruct ((m_cmd pm =? 0) || (m_cmd pm =? 2) || (m_cmd pm =? 4)); reflexivity.
  Qed.

  Lemma pk_require_node id : pk (require_node id).
  Proof. intros s. apply pk_same_at. rewrite require_node_eq. destruct (dget Z.eqb (w_nodes (s_w s)) id); reflexivity. Qed.
  Lemma pk_update_node id f : pk (update_node id f).
  Proof. intros s. apply pk_same_at. reflexivity. Qed.
  Lemma pk_set_nodes f : pk (set_nodes f).
  Proof. intros s. apply pk_same_at. reflexivity. Qed.
  Lemma pk_set_internal f : pk (set_internal f).
  Proof. intros s. apply pk_same_at. reflexivity. Qed.
  Lemma pk_set_setbuf f : pk (set_setbuf f).
  Proof. intros s. apply pk_same_at. reflexivity. Qed.
  Lemma pk_set_protocol_version v : pk (set_protocol_version vlt v).
  Proof. intros s Hk. unfold set_protocol_version. destruct (get_protocol vlt v); [reflexivity|exact Hk]. Qed.

  Lemma pk_flush es : pk (flush_entries es).
  Proof.
    induction es as [|[k bm] r IH]; cbn [flush_entries]; [apply pk_ret|].
    apply pk_bind; [apply pk_send|intros _]. apply pk_bind; [apply pk_set_setbuf|intros _; exact IH].
  Qed.

  Lemma pk_handle_sleep_buffer m : pk (handle_sleep_buffer m).
  Proof.
    unfold handle_sleep_buffer. apply pk_get_w. intros s. apply pk_bind; [apply pk_flush|intros _; apply pk_ret].
  Qed.

  Lemma pk_body2 b super m :
    (b = BSuper -> pk (super m)) -> pk (run_body2 bat vlt now b super m).
  Proof.
    intros Hs. destruct consts_p14 as [C1 [C2 [C3 [C4 [C5 [C6 [C7 C8]]]]]]].
    destruct consts_p20 as [D1 [D2 D3]].
    destruct b; cbn [run_body2]; try apply pk_raise.
    - apply Hs. reflexivity.
    - apply pk_bind; [apply pk_set_protocol_version|intros _; apply pk_ret].
    - apply pk_get_w. intros s.
      match goal with |- context [if ?c then _ else _] => destruct c end; [exact (pk_raise _ s)|].
      rewrite C1, C2. cbn [need]. apply pk_bind_ret_at. apply pk_bind_ret_at.
      apply pk_bind; [apply pk_set_nodes|intros _].
      apply pk_bind; [apply pk_send|intros _; apply pk_ret].
    - apply pk_get_w. intros s. apply pk_bind; [apply pk_send|intros _; apply pk_ret].
    - apply pk_bind; [apply pk_send|intros _; apply pk_ret].
    - apply pk_bind; [apply pk_require_node|intros _].
      destruct (bat (m_payload m)) as [lvl|]; [|apply pk_raise].
      destruct ((0 <=? lvl) && (lvl <=? 100)); [|apply pk_raise].
      apply pk_bind; [apply pk_update_node|intros _; apply pk_ret].
    - apply pk_bind; [apply pk_require_node|intros _].
      apply pk_bind; [apply pk_update_node|intros _; apply pk_ret].
    - apply pk_bind; [apply pk_require_node|intros _].
      apply pk_bind; [apply pk_update_node|intros _; apply pk_ret].
    - rewrite D2. cbn [need]. apply pk_bind_ret.
      apply pk_bind; [apply pk_send|intros _; apply pk_ret].
    - apply pk_bind; [apply pk_require_node|intros _; apply pk_ret].
    - apply pk_bind; [apply pk_require_node|intros _].
      destruct (py_int (m_payload m)); [|apply pk_raise].
      apply pk_bind; [apply pk_update_node|intros _]. apply pk_handle_sleep_buffer.
    - apply pk_bind; [apply pk_require_node|intros _].
      destruct (py_int (m_payload m)); [|apply pk_raise].
      apply pk_bind; [apply pk_update_node|intros _; apply pk_ret].
    - apply pk_bind; [apply pk_require_node|intros _].
      apply pk_bind; [apply pk_update_node|intros _]. apply pk_handle_sleep_buffer.
  Qed.

  Lemma pk_dec_mpv_at f m s : pk_at (f m) s -> pk_at (dec_mpv f m) s.
  Proof.
    intros Hf. destruct consts_p14 as [C1 [C2 [C3 [C4 [C5 [C6 [C7 C8]]]]]]].
    unfold dec_mpv. apply pk_try_finally_at; [exact Hf|].
    apply pk_get_w. intros s0. destruct (w_pv (s_w s0)); [exact (pk_ret _ s0)|].
    rewrite C7, C3, C4, C5. cbn [need]. repeat apply pk_bind_ret_at.
    match goal with |- context [if ?c then _ else _] => destruct c end; [apply pk_send|apply pk_ret].
  Qed.

  Lemma pk_request_presentation m e : pk (request_presentation m e).
  Proof.
    intros s. apply pk_same_at. rewrite request_presentation_eq. cbv zeta.
    destruct (dmem key_eqb (w_internal (s_w s)) (pres_key (m_node m))); [reflexivity|].
    rewrite write_eq. destruct (hd false (s_faults s)); reflexivity.
  Qed.

  Lemma pk_dec_mnc_at f m s : pk_at (f m) s -> pk_at (dec_mnc f m) s.
  Proof.
    intros Hf Hk. rewrite dec_mnc_eq. specialize (Hf Hk).
    destruct (f m s) as [[x|e] s'] eqn:E; cbn [fst snd] in *; [exact Hf|].
    destruct (is_missing e); [|exact Hf]. exact (pk_request_presentation m e s' Hf).
  Qed.

  Lemma pk_apply_decs_at ds f m s :
    forallb known_dec ds = true -> pk_at (f m) s -> pk_at (apply_decs ds f m) s.
  Proof.
    induction ds as [|d r IH]; cbn [apply_decs fold_right forallb]; intros Hd Hf; [exact Hf|].
    apply andb_true_iff in Hd. destruct Hd as [Hd Hr]. unfold apply_dec.
    destruct (String.eqb d "handle_missing_protocol_version") eqn:E1; [apply pk_dec_mpv_at; apply IH; assumption|].
    destruct (String.eqb d "handle_missing_node_child") eqn:E2; [apply pk_dec_mnc_at; apply IH; assumption|].
    unfold known_dec in Hd. rewrite E1, E2 in Hd. discriminate.
  Qed.

  Lemma pk_apply_decs_any ds f m : pk (f m) -> pk (apply_decs ds f m).
  Proof.
    intros Hf. induction ds as [|d r IH]; cbn [apply_decs fold_right]; [exact Hf|].
    intros s. unfold apply_dec.
    destruct (String.eqb d "handle_missing_protocol_version"); [apply pk_dec_mpv_at; apply IH|].
    destruct (String.eqb d "handle_missing_node_child"); [apply pk_dec_mnc_at; apply IH|exact (pk_raise _ s)].
  Qed.

  Lemma pk_chain2 name chain m : pk (run_chain2 bat vlt now name chain m).
  Proof.
    induction chain as [|[md ds] r IH]; cbn [run_chain2]; [apply pk_raise|].
    apply pk_apply_decs_any. destruct (body_of md name) as [b|]; [|apply pk_raise].
    apply pk_body2. intros _. exact IH.
  Qed.

  Lemma pk_dispatch2 name m : pk (dispatch2 bat vlt now name m).
  Proof.
    unfold dispatch2. apply pk_get_w. intros s.
    destruct (lookup_chain (pt_incoming (proto_of (s_w s))) name) as [c|]; [apply pk_chain2|exact (pk_ret m s)].
  Qed.

  Lemma pk_body1 b super m :
    (b = BSuper \/ b = BPresentation20 -> pk (super m)) -> pk (run_body1 bat vlt now b super m).
  Proof.
    intros Hs. destruct consts_p14 as [C1 [C2 [C3 [C4 [C5 [C6 [C7 C8]]]]]]].
    destruct consts_p20 as [D1 [D2 D3]].
    destruct b; cbn [run_body1]; try apply pk_raise.
    - apply Hs. left. reflexivity.
    - rewrite D1. cbn [need]. apply pk_bind_ret. apply pk_bind; [apply pk_set_internal|intros _]. apply Hs. right. reflexivity.
    - destruct (m_child m =? system_child_id).
      + apply pk_bind; [apply pk_set_nodes|intros _].
        destruct (m_node m =? 0); [apply pk_dispatch2|apply pk_ret].
      + apply pk_bind; [apply pk_require_node|intros _].
        apply pk_bind; [apply pk_update_node|intros _; apply pk_ret].
    - apply pk_bind; [apply pk_require_node|intros n].
      destruct (negb (dmem Z.eqb (n_children n) (m_child m))); [apply pk_raise|].
      apply pk_bind; [apply pk_update_node|intros _].
      destruct (n_reboot n); [|apply pk_ret].
      rewrite C7, C6. cbn [need]. apply pk_bind_ret. apply pk_bind_ret.
      apply pk_bind; [apply pk_send|intros _; apply pk_ret].
    - apply pk_bind; [apply pk_require_node|intros n].
      destruct (dget Z.eqb (n_children n) (m_child m)) as [c|]; [|apply pk_raise].
      destruct (dget Z.eqb (c_values c) (m_type m)) as [v|]; [|apply pk_ret].
      rewrite C8. cbn [need]. apply pk_bind_ret.
      apply pk_bind; [apply pk_send|intros _; apply pk_ret].
    - apply pk_get_w. intros s.
      destruct (enum_lname_of (pt_internal (proto_of (s_w s))) (m_type m)) as [ln|]; [|exact (pk_raise _ s)].
      apply pk_dispatch2.
    - apply pk_bind; [apply pk_require_node|intros _]. apply pk_get_w. intros s.
      destruct (enum_lname_of (pt_stream (proto_of (s_w s))) (m_type m)) as [ln|]; [|exact (pk_raise _ s)].
      apply pk_dispatch2.
  Qed.

  Lemma pk_chain1 name chain m : pk (run_chain1 bat vlt now name chain m).
  Proof.
    induction chain as [|[md ds] r IH]; cbn [run_chain1]; [apply pk_raise|].
    apply pk_apply_decs_any. destruct (body_of md name) as [b|]; [|apply pk_raise].
    apply pk_body1. intros _. exact IH.
  Qed.


  Theorem pk_listen_step line : pk (listen_step bat vlt now line).
  Proof.
    intros s. unfold listen_step, bind, get_w, pk_at. cbn beta iota.
    destruct (decode (proto_of (s_w s)) line) as [m| |c]; [|exact (pk_raise _ s)|exact (pk_raise _ s)].
    destruct (enum_lname_of (pt_command (proto_of (s_w s))) (m_cmd m)) as [cname|]; [|exact (pk_raise _ s)].
    destruct (lookup_chain (pt_incoming (proto_of (s_w s))) ("handle_" ++ cname)) as [c|]; [|exact (pk_raise _ s)].
    apply pk_chain1.
  Qed.
End Pvk.
