(* C16: for every schedule, when the main task has left the context the transport
   was disconnected (once, if it was connected), the saver task has ended, the file
   holds the registry as of exit, and the exception that leaves is the one that was
   raised — never CancelledError. *)
From Coq Require Import List NArith ZArith Bool Lia.
From AMS Require Import Lifecycle.
Import ListNotations.

Definition saver_alive (sp : spc) : Prop :=
  match sp with SCreated | SSleeping => True | SSaving k _ => (1 <= k <= save_steps)%nat | _ => False end.

Definition saver_ended (sp : spc) : Prop := match sp with SEnded _ => True | _ => False end.

(* what is known about the exception and the disconnect count once the context is being left *)
Definition leaving_ok (s : lstate) : Prop :=
  l_connected s = false
  /\ ((l_disc s = 1%nat /\ (l_exc s = None \/ l_exc s = Some EBody \/ l_exc s = Some EDisconnect \/ l_exc s = Some EOwnerCancelled))
      \/ (l_disc s = 0%nat /\ l_exc s = Some EConnect)).

Definition linv (s : lstate) : Prop :=
  match l_m s with
  | MLoad | MStart => l_s s = SNone /\ l_cancel s = false /\ l_disc s = 0%nat /\ l_exc s = None /\ l_connected s = false
  | MConnect => saver_alive (l_s s) /\ l_cancel s = false /\ l_disc s = 0%nat /\ l_exc s = None /\ l_connected s = false
  | MBody => saver_alive (l_s s) /\ l_cancel s = false /\ l_disc s = 0%nat /\ l_exc s = None /\ l_connected s = true
  | MDisconnect => saver_alive (l_s s) /\ l_cancel s = false /\ l_disc s = 0%nat
                   /\ (l_exc s = None \/ l_exc s = Some EBody \/ l_exc s = Some EOwnerCancelled) /\ l_connected s = true
  | MCancel => saver_alive (l_s s) /\ l_cancel s = false /\ leaving_ok s
  | MAwait => ((saver_alive (l_s s) /\ l_cancel s = true) \/ (saver_ended (l_s s) /\ l_cancel s = false))
              /\ leaving_ok s
  | MFinal k => saver_ended (l_s s) /\ l_cancel s = false /\ leaving_ok s /\ l_final s = l_reg s
                /\ (1 <= k <= save_steps)%nat
  | MDone => saver_ended (l_s s) /\ l_cancel s = false /\ leaving_ok s /\ l_file s = FHolds (l_reg s)
  end.

Lemma linv_init v : linv (linit v).
Proof. cbn. repeat split. Qed.

Ltac crush :=
  repeat match goal with
         | H : _ /\ _ |- _ => destruct H
         end; cbn in *; subst; cbn in *;
  intuition (try lia; try congruence; auto).

Lemma linv_step s c : linv s -> linv (lstep true s c).
Proof.
  unfold linv, leaving_ok. destruct s as [m sp cn reg f fin d conn e sv]. cbn [l_m l_s l_cancel l_reg l_file l_final l_disc l_connected l_exc l_saves].
  destruct c as [ok| | | | |].
  - (* main *)
    destruct m as [| | | | | | |k|]; cbn [lstep main_step set_m l_m l_s l_cancel l_reg l_file l_final l_disc l_connected l_exc l_saves]; intros H.
    + crush.
    + crush.
    + destruct ok; cbn; crush.
    + destruct ok; cbn; crush.
    + destruct ok; cbn; crush.
    + destruct H as [Ha [Hc Hl]]. destruct sp as [| |k v| |c]; cbn in *; try tauto; crush.
    + destruct H as [[[Ha Hc]|[He Hc]] Hl].
      * destruct sp as [| |k v| |c]; cbn in *; try tauto; crush.
      * destruct sp as [| |k v| |c]; cbn in *; try tauto. destruct c; cbn; unfold save_steps; crush.
    + destruct H as [He [Hc [Hl [Hf Hk]]]]. unfold save_steps in *.
      destruct k as [|[|[|[|k]]]]; cbn; try lia; crush.
    + exact H.
  - (* saver *)
    destruct m as [| | | | | | |k|]; cbn [lstep saver_step set_s l_m l_s l_cancel l_reg l_file l_final l_disc l_connected l_exc l_saves];
      intros H; unfold save_steps, begin_save in *;
      destruct sp as [| |k' v| |c]; cbn [l_m l_s l_cancel] in *;
      try (destruct cn; cbn); try exact H; try (crush; fail);
      try (destruct k' as [|[|[|[|k']]]]; cbn; crush; fail).
    all: try (destruct H as [[[Ha Hc]|[He Hc]] Hl]; cbn in *; try discriminate; try tauto; crush; fail).
    all: try (destruct k' as [|[|[|[|k']]]]; cbn in *; crush).
    all: unfold save_steps in *; crush.
  - (* timer *)
    destruct m as [| | | | | | |k|]; cbn [lstep set_s l_m l_s l_cancel l_reg l_file l_final l_disc l_connected l_exc l_saves];
      intros H; unfold save_steps, begin_save in *;
      destruct sp as [| |k' v| |c]; try exact H; destruct cn; try exact H; cbn in *; unfold save_steps in *; crush.
  - (* registry change *)
    destruct m as [| | | | | | |k|]; cbn [lstep l_m]; intros H; try exact H.
  - (* the owner is cancelled in the body *)
    destruct m as [| | | | | | |k|]; cbn [lstep l_m l_s l_cancel l_reg l_file l_final l_disc l_connected l_exc l_saves]; intros H; try exact H.
    crush.
  - (* re-entry *)
    destruct m as [| | | | | | |k|]; cbn [lstep l_m l_s l_cancel l_reg l_file l_final l_disc l_connected l_exc l_saves]; intros H; try exact H.
    repeat split.
Qed.

Theorem linv_run cs : forall s, linv s -> linv (lrun true s cs).
Proof.
  induction cs as [|c r IH]; intros s H; cbn [lrun fold_left]; [exact H|].
  apply IH. apply linv_step. exact H.
Qed.

(* C16: leaving the context, at whatever moment relative to the saver's progress *)
Theorem exit_clean v cs :
  let s := lrun true (linit v) cs in
  l_m s = MDone ->
  (exists c, l_s s = SEnded c)                       (* no background task left *)
  /\ l_file s = FHolds (l_reg s)                     (* the file holds the registry as of exit *)
  /\ l_connected s = false
  /\ l_exc s <> Some ECancelled                      (* never CancelledError *)
  /\ ((l_disc s = 1%nat /\ (l_exc s = None \/ l_exc s = Some EBody \/ l_exc s = Some EDisconnect \/ l_exc s = Some EOwnerCancelled))
      \/ (l_disc s = 0%nat /\ l_exc s = Some EConnect)).
Proof.
  cbv zeta. intros Hm. pose proof (linv_run cs (linit v) (linv_init v)) as H.
  unfold linv in H. rewrite Hm in H. destruct H as [He [Hc [[Hconn Hl] Hf]]].
  split; [destruct (l_s (lrun true (linit v) cs)); try contradiction; eexists; reflexivity|].
  split; [exact Hf|]. split; [exact Hconn|]. split; [|exact Hl].
  destruct Hl as [[_ [E|[E|[E|E]]]]|[_ E]]; rewrite E; discriminate.
Qed.

(* in every session — the first and every re-entry — a saver task exists while the
   body runs, and none exists before start() *)
Theorem saver_in_every_session v cs :
  let s := lrun true (linit v) cs in
  (l_m s = MBody \/ l_m s = MConnect -> saver_alive (l_s s))
  /\ (l_m s = MLoad \/ l_m s = MStart -> l_s s = SNone).
Proof.
  cbv zeta. pose proof (linv_run cs (linit v) (linv_init v)) as H. unfold linv in H.
  split; intros [E|E]; rewrite E in H; apply H.
Qed.

(* start() creates the saver, and its first step begins a save of the registry: "saves once entered" *)
Theorem entry_save s :
  l_m s = MStart ->
  let s1 := main_step true s true in
  l_s s1 = SCreated /\ l_s (saver_step s1) = SSaving save_steps (l_reg s).
Proof. intros H. unfold main_step. rewrite H. cbn. split; reflexivity. Qed.

(* the main task is never stuck: while it waits for the saver, one saver step ends the saver *)
Theorem await_unblocks s :
  linv s -> l_m s = MAwait -> (exists c, l_s s = SEnded c) \/ (exists c, l_s (saver_step s) = SEnded c).
Proof.
  unfold linv. intros H Hm. rewrite Hm in H. destruct H as [[[Ha Hc]|[He Hc]] _].
  - right. unfold saver_step. destruct (l_s s) as [| |k v| |c]; cbn in Ha; try contradiction;
      rewrite Hc; cbn; eexists; reflexivity.
  - left. destruct (l_s s); try contradiction. eexists; reflexivity.
Qed.

(* with the original stop() (CancelledError not suppressed) the property fails:
   leave right after entering, before the saver task ran *)
Theorem unguarded_refuted :
  exists cs, let s := lrun false (linit 7) cs in
    l_m s = MDone /\ l_exc s = Some ECancelled /\ l_saves s = 0%nat.
Proof.
  exists [CMain true; CMain true; CMain true; CMain true; CMain true; CMain true; CSaver; CMain true].
  vm_compute. repeat split.
Qed.

(* ... and if the saver was inside a save the file is left truncated *)
Theorem unguarded_truncated_refuted :
  exists cs, let s := lrun false (linit 7) cs in
    l_m s = MDone /\ l_exc s = Some ECancelled /\ l_file s = FPartial.
Proof.
  exists [CMain true; CMain true; CMain true; CSaver; CSaver; CMain true; CMain true; CMain true; CSaver; CMain true].
  vm_compute. repeat split.
Qed.

(* the periodic save: whenever SAVE_INTERVAL elapses for the sleeping saver a save of the current registry starts *)
Theorem timer_starts_save s :
  l_s s = SSleeping -> l_cancel s = false ->
  l_s (lstep true s CTimer) = SSaving save_steps (l_reg s).
Proof. intros H Hc. cbn [lstep]. rewrite H, Hc. reflexivity. Qed.

(* a save, once started and not cancelled, completes in save_steps steps with the file holding its version *)
Theorem save_completes s v :
  l_s s = SSaving save_steps v -> l_cancel s = false ->
  let s3 := saver_step (saver_step (saver_step s)) in
  l_s s3 = SSleeping /\ l_file s3 = FHolds v /\ l_saves s3 = S (l_saves s).
Proof.
  intros H Hc. destruct s as [m sp cn reg f fin d conn e sv]. cbn in *. subst. cbn. repeat split.
Qed.

(* two sessions on one object: leave, enter again, the registry changes, the owner is cancelled *)
Example reenter_example :
  let s := lrun true (linit 7)
    [CMain true; CMain true; CMain true; CMain true; CMain true; CMain true; CSaver; CMain true; CMain true; CMain true; CMain true;
     CReenter; CMain true; CMain true; CMain true; CSaver; CSaver; CMutate; CCancelOwner; CMain true; CMain true; CSaver;
     CMain true; CMain true; CMain true; CMain true] in
  (l_m s, l_exc s, l_disc s, l_s s, l_file s, l_reg s) = (MDone, Some EOwnerCancelled, 1%nat, SEnded true, FHolds 8, 8%nat).
Proof. vm_compute. reflexivity. Qed.

Example exit_examples :
  let run cs := lrun true (linit 7) cs in
  (* leave immediately *)
  l_file (run [CMain true; CMain true; CMain true; CMain true; CMain true; CMain true; CSaver; CMain true; CMain true; CMain true; CMain true]) = FHolds 7
  (* connect fails while the saver is in the middle of its first save *)
  /\ (let s := run [CMain true; CMain true; CSaver; CSaver; CMain false; CMain true; CSaver; CMain true; CMain true; CMain true; CMain true] in
      (l_m s, l_exc s, l_disc s, l_s s, l_file s) = (MDone, Some EConnect, 0%nat, SEnded true, FHolds 7))
  (* body changes the registry twice and raises, disconnect fails too *)
  /\ (let s := run [CMain true; CMain true; CMain true; CSaver; CSaver; CSaver; CSaver; CMutate; CMutate; CMain false; CMain false;
                    CMain true; CSaver; CMain true; CMain true; CMain true; CMain true] in
      (l_m s, l_exc s, l_disc s, l_s s, l_file s, l_saves s) = (MDone, Some EDisconnect, 1%nat, SEnded false, FHolds 9, 2%nat)).
Proof. vm_compute. repeat split. Qed.
