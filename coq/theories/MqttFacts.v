(* C18: topics and lines correspond one to one; subscriptions cover every message;
   the queue is FIFO; reception does not end silently. *)
From Coq Require Import List NArith ZArith Bool String Lia.
From AMS Require Import TablesTypes Tables RtTables PyStr PyStrFacts Codec CodecFacts Mqtt Utf8Facts.
Import ListNotations.

Lemma str_eqb_refl_ x : str_eqb x x = true.
Proof. unfold str_eqb. induction x as [|c x IH]; cbn; [reflexivity|]. rewrite N.eqb_refl, IH. reflexivity. Qed.

Lemma split_nosep sep s : no_sep sep s -> split sep s = [s].
Proof.
  unfold no_sep. induction s as [|c r IH]; cbn; intros H; [reflexivity|].
  destruct (N.eqb_spec c sep) as [->|Hne]; [exfalso; apply H; left; reflexivity|].
  rewrite IH; [reflexivity|]. intros Hin. apply H. right. exact Hin.
Qed.

Lemma split_nonnil sep s : split sep s <> [].
Proof. destruct s as [|c r]; cbn; [discriminate|]. destruct (N.eqb c sep); [discriminate|]. destruct (split sep r); discriminate. Qed.

(* splitting distributes over a separator *)
Lemma split_app sep a b : split sep (a ++ sep :: b) = split sep a ++ split sep b.
Proof.
  induction a as [|c r IH]; cbn.
  - rewrite N.eqb_refl. reflexivity.
  - destruct (N.eqb c sep); [rewrite IH; reflexivity|].
    rewrite IH. destruct (split sep r) as [|h t] eqn:E; [exfalso; exact (split_nonnil sep r E)|]. reflexivity.
Qed.

Lemma split_join sep fs : fs <> [] -> Forall (no_sep sep) fs -> split sep (join sep fs) = fs.
Proof.
  induction fs as [|f r IH]; intros Hne Hf; [contradiction|].
  inversion Hf as [|? ? H1 H2]; subst. destruct r as [|g r'].
  - cbn. apply split_nosep. exact H1.
  - rewrite join_cons. rewrite split_app, (split_nosep sep f H1). cbn [app]. f_equal.
    apply IH; [discriminate|exact H2].
Qed.

Lemma lastn_app {A} (a b : list A) n : List.length b = n -> lastn n (a ++ b) = b.
Proof.
  intros H. unfold lastn. rewrite app_length, H.
  replace (List.length a + n - n)%nat with (List.length a) by lia.
  rewrite skipn_app, skipn_all, Nat.sub_diag. reflexivity.
Qed.

Lemma no_slash_digits z : no_sep slash (str_of_Z z).
Proof.
  unfold no_sep. intros Hin. pose proof (str_of_Z_chars z) as Hc. rewrite Forall_forall in Hc.
  destruct (Hc _ Hin) as [Hd|Hd]; unfold is_digit_cp, slash in *; lia.
Qed.

Lemma num_fields_no_slash m : Forall (no_sep slash) (num_fields m).
Proof. repeat constructor; apply no_slash_digits. Qed.

(* writing: the topic is out-prefix/node/child/command/ack/type, the payload goes
   unchanged (';' included), QoS is the ack flag — for every prefix *)
Theorem publish_form pre m :
  wf_msg m -> digits_ok (m_type m) -> rstrip (m_payload m) = m_payload m ->
  to_mqtt pre (encode m) = Some (pre ++ slash :: join slash (num_fields m), m_payload m, m_ack m).
Proof.
  intros Hwf Hd Hp. unfold to_mqtt. rewrite rstrip_encode by exact Hp.
  change 5%nat with (List.length (num_fields m)).
  rewrite splitn_join by apply num_fields_no_delim. cbn [num_fields app].
  destruct Hwf as [_ [_ [_ [Ha _]]]].
  rewrite py_int_str_of_Z by (apply digits_ok_small; lia). reflexivity.
Qed.

(* ... and that is what reaches the broker client: QoS = ack and no retain for every
   message, the empty payload included *)
Theorem client_publish_form pre m :
  wf_msg m -> digits_ok (m_type m) -> rstrip (m_payload m) = m_payload m ->
  client_write pre (encode m)
  = Some (pre ++ slash :: join slash (num_fields m), m_ack m, false,
          match m_payload m with [] => None | _ => Some (m_payload m) end).
Proof.
  intros Hwf Hd Hp. unfold client_write. rewrite (publish_form pre m Hwf Hd Hp). reflexivity.
Qed.

(* reading back: a broker message on in-prefix/node/child/command/ack/type is read
   as the line 'node;child;command;ack;type;payload', whatever the prefix contains *)
Theorem echo_line inpre m p :
  of_mqtt (inpre ++ slash :: join slash (num_fields m)) p = join delimiter (num_fields m ++ [p]).
Proof.
  unfold of_mqtt. rewrite split_app.
  rewrite (split_join slash (num_fields m)) by (first [discriminate | apply num_fields_no_slash]).
  rewrite lastn_app by reflexivity. reflexivity.
Qed.

(* ... so a message sent through MQTT and echoed under the in-prefix decodes to the same message *)
Theorem echo_roundtrip pt outpre inpre m :
  In pt protocols -> wf_msg m -> digits_ok (m_type m) -> rstrip (m_payload m) = m_payload m ->
  exists topic_tail payload qos,
    to_mqtt outpre (encode m) = Some (outpre ++ slash :: topic_tail, payload, qos)
    /\ qos = m_ack m
    /\ decode pt (of_mqtt (inpre ++ slash :: topic_tail) payload) = DecOk m.
Proof.
  intros Hin Hwf Hd Hp. exists (join slash (num_fields m)), (m_payload m), (m_ack m).
  split; [apply publish_form; assumption|]. split; [reflexivity|].
  rewrite echo_line.
  pose proof (decode_encode pt m Hin Hwf Hd Hp) as Hdec. rewrite encode_eq in Hdec.
  unfold decode in *. rewrite rstrip_app_space in Hdec by reflexivity. exact Hdec.
Qed.

(* the subscriptions cover every topic in-prefix/n/c/k/a/t with command k in 0..4 *)
Lemma levels_match_refl l : levels_match l l = true.
Proof.
  induction l as [|x l IH]; cbn; [reflexivity|]. rewrite IH.
  assert (str_eqb x x = true).
  { unfold str_eqb. induction x as [|c x IHx]; cbn; [reflexivity|]. rewrite N.eqb_refl, IHx. reflexivity. }
  rewrite H, orb_true_r. reflexivity.
Qed.

Lemma levels_match_app a f t : levels_match f t = true -> levels_match (a ++ f) (a ++ t) = true.
Proof.
  induction a as [|x a IH]; cbn; intros H; [exact H|]. rewrite (IH H).
  assert (E : str_eqb x x = true).
  { unfold str_eqb. induction x as [|c x IHx]; cbn; [reflexivity|]. rewrite N.eqb_refl, IHx. reflexivity. }
  rewrite E, orb_true_r. reflexivity.
Qed.

Theorem subscribed inpre n c k a t :
  (0 <= k <= 4)%Z -> no_sep slash n -> no_sep slash c -> no_sep slash a -> no_sep slash t ->
  exists flt, In flt (map fst (subscriptions inpre))
              /\ filter_matches flt (inpre ++ slash :: join slash [n; c; str_of_Z k; a; t]) = true.
Proof.
  intros Hk Hn Hc Ha Ht.
  assert (Hs : map fst mqtt_subscriptions
               = map (fun k => slash :: join slash [[43%N]; [43%N]; str_of_Z k; [43%N]; [43%N]]) [0; 1; 2; 3; 4]%Z)
    by reflexivity.
  exists (inpre ++ slash :: join slash [[43%N]; [43%N]; str_of_Z k; [43%N]; [43%N]]).
  split.
  - unfold subscriptions. rewrite map_map. cbn [fst].
    assert (Hk5 : In k [0; 1; 2; 3; 4]%Z) by (cbn; lia).
    apply in_map_iff.
    assert (Hin : In (slash :: join slash [[43%N]; [43%N]; str_of_Z k; [43%N]; [43%N]]) (map fst mqtt_subscriptions)).
    { rewrite Hs. apply in_map_iff. exists k. split; [reflexivity|exact Hk5]. }
    apply in_map_iff in Hin. destruct Hin as [s [Es Hin]]. exists s. split; [rewrite Es; reflexivity|exact Hin].
  - unfold filter_matches. rewrite !split_app.
    apply levels_match_app.
    rewrite !split_join; try discriminate.
    + cbn. rewrite str_eqb_refl_. rewrite !orb_true_r. reflexivity.
    + repeat constructor; try assumption. apply no_slash_digits.
    + repeat constructor; try (unfold no_sep, slash; cbn; intuition lia). apply no_slash_digits.
Qed.

(* ---------- the receive loop and the queue ---------- *)

Definition entry_of (ev : broker_event) : queue_entry :=
  match ev with
  | BMsg topic payload => match utf8_decode payload with
                          | Some p => QLine (of_mqtt topic p)
                          | None => QReadError
                          end
  | BError => QFailed
  end.

Definition is_msg (ev : broker_event) : bool := match ev with BMsg _ _ => true | BError => false end.

(* every broker message yields exactly one queue entry, in arrival order — an
   undecodable payload a read error, after which later messages are still delivered *)
Theorem receive_all_messages evs :
  forallb is_msg evs = true -> receive_loop evs = map entry_of evs.
Proof.
  induction evs as [|ev r IH]; cbn; intros H; [reflexivity|].
  apply andb_true_iff in H. destruct H as [H1 H2]. destruct ev as [topic payload|]; [|discriminate].
  cbn. rewrite (IH H2). destruct (utf8_decode payload); reflexivity.
Qed.

(* a broker error is not silent: it surfaces as one transport error after everything that arrived before it *)
Theorem receive_until_error pre rest :
  forallb is_msg pre = true ->
  receive_loop (pre ++ BError :: rest) = map entry_of pre ++ [QFailed].
Proof.
  induction pre as [|ev r IH]; cbn; intros H; [reflexivity|].
  apply andb_true_iff in H. destruct H as [H1 H2]. destruct ev as [topic payload|]; [|discriminate].
  cbn. rewrite (IH H2). destruct (utf8_decode payload); reflexivity.
Qed.

(* read() delivers the entries in arrival order, each exactly once *)
Theorem reads_fifo q n : reads q n = (firstn n q, skipn n q).
Proof.
  revert q. induction n as [|n IH]; intros q; [destruct q; reflexivity|].
  destruct q as [|e r]; [reflexivity|]. cbn [reads firstn skipn]. rewrite IH. reflexivity.
Qed.

(* a payload that is the UTF-8 encoding of a text is delivered as that text *)
Theorem receive_text topic s bs :
  utf8_encode s = Some bs -> entry_of (BMsg topic bs) = QLine (of_mqtt topic s).
Proof. intros H. cbn. rewrite (utf8_roundtrip s bs H). reflexivity. Qed.

(* connect(), every fault position: a failed connect leaves no receive task and has left the
   broker client's context as often as it entered it; a successful one has the task, the
   client and every subscription *)
Theorem connect_no_leftover pre enter_fails sub_faults :
  let r := mqtt_connect pre enter_fails sub_faults mc_init in
  match snd r with
  | ConnOk => mc_task (fst r) = true /\ mc_client (fst r) = true /\ mc_entered (fst r) = 1%Z
              /\ mc_subs (fst r) = subscriptions pre
              /\ enter_fails = false
              /\ forallb negb (firstn (List.length (subscriptions pre)) sub_faults) = true
  | ConnTransportError => mc_task (fst r) = false /\ mc_entered (fst r) = 0%Z
  | ConnRuntimeError => False
  end.
Proof.
  unfold mqtt_connect, mc_init. cbn [mc_client mc_task orb].
  destruct enter_fails; cbn [snd fst mc_task mc_entered]; [split; reflexivity|].
  destruct (existsb (fun b => b) (firstn (List.length (subscriptions pre)) sub_faults)) eqn:E.
  - cbn. split; reflexivity.
  - cbn. repeat split; try reflexivity.
    apply forallb_forall. intros x Hx. destruct x; [|reflexivity].
    exfalso. assert (H : existsb (fun b => b) (firstn (List.length (subscriptions pre)) sub_faults) = true).
    { apply existsb_exists. exists true. split; [exact Hx|reflexivity]. }
    rewrite H in E. discriminate E.
Qed.

(* connect after a successful connect and a disconnect behaves like the first connect *)
Theorem connect_disconnect_connect pre faults :
  let s1 := fst (mqtt_connect pre false [] mc_init) in
  let s2 := fst (mqtt_disconnect s1) in
  snd (mqtt_disconnect s1) = ConnOk /\ s2 = mc_init
  /\ mqtt_connect pre false faults s2 = mqtt_connect pre false faults mc_init.
Proof. cbn. repeat split. Qed.

(* over the whole life of a client — any interleaving of connects, disconnects, deliveries
   and reads: what the reads returned, followed by what is still queued, is exactly what was
   queued at the start followed by what the receive loops accepted, in arrival order.  So
   every received message or error is read once, in order, also across reconnects; nothing
   is dropped by a disconnect and nothing is read twice. *)
Theorem life_fifo ops : forall s,
  gots (snd (life_run s ops)) ++ ml_queue (fst (life_run s ops)) = ml_queue s ++ life_received s ops.
Proof.
  induction ops as [|o r IH]; intros s; cbn [life_run life_received gots flat_map snd fst].
  - rewrite app_nil_r. reflexivity.
  - destruct (life_step s o) as [s1 out] eqn:E1. destruct (life_run s1 r) as [s2 outs] eqn:E2.
    cbn [snd fst gots flat_map]. specialize (IH s1). rewrite E2 in IH. cbn [snd fst] in IH.
    change (flat_map (fun o0 => match o0 with LGot e => [e] | _ => [] end) outs) with (gots outs).
    destruct o as [| |e|]; cbn [life_step] in E1.
    + destruct (ml_connected s); injection E1 as <- <-; cbn [app]; rewrite IH; reflexivity.
    + destruct (ml_connected s); injection E1 as <- <-; cbn [app]; rewrite IH; reflexivity.
    + destruct (ml_connected s && ml_receiving s); injection E1 as <- <-; cbn [app]; rewrite IH; cbn [ml_queue].
      * rewrite <- app_assoc. reflexivity.
      * reflexivity.
    + destruct (ml_queue s) as [|e q] eqn:Eq; injection E1 as <- <-; cbn [app]; rewrite IH; cbn [ml_queue].
      * rewrite Eq. reflexivity.
      * reflexivity.
Qed.

(* a read returns nothing only when everything received so far has been read *)
Theorem life_read_pending s : snd (life_step s LRead) = LPending <-> ml_queue s = [].
Proof. cbn [life_step]. destruct (ml_queue s); cbn; split; intros H; try reflexivity; discriminate H. Qed.

(* a broker error ends reception on that connection only: after disconnect + connect deliveries are received again *)
Theorem life_reconnect_receives s e :
  ml_connected s = true ->
  let s2 := fst (life_step (fst (life_step s LDisconnect)) LConnect) in
  ml_queue (fst (life_step s2 (LDeliver e))) = ml_queue s ++ [entry_of e].
Proof. intros H. cbn [life_step]. rewrite H. cbn. reflexivity. Qed.
