(* C10 at the level of one listen step and of whole histories: the life of the
   "presentation request outstanding" marker of one node n, and of the requests
   written to n.

   For every line, state, oracle and fault stream (sleep buffer holding set commands):
   - a step for a message of ANOTHER node leaves n's marker as it is and writes no
     request to n;
   - a step for a message of n itself either writes no request to n (and an
     outstanding marker stays, unless the message is n's own node presentation), or
     it writes EXACTLY ONE request to n, which happens only if no marker was
     outstanding, ends in an error, records the marker if the write succeeded, and if
     the marker is not recorded afterwards the error is not a missing-node/child error
     (it is the transport error of the failed write). *)
From Coq Require Import List NArith ZArith Bool String Lia.
From AMS Require Import TablesTypes Tables PyStr Codec CodecFacts Gateway GatewayFacts GatewayInv GatewaySteps GatewayTrace GatewayReg.
Import ListNotations.
Local Open Scope Z_scope.

Lemma body_eq_dec (a b : body) : {a = b} + {a <> b}.
Proof. decide equality. Qed.

Definition a_rel : allow := {| a_release := true; a_request := false; a_marker := false |}.

Section Marker.
  Variable bat : str -> option Z.
  Variable vlt : str -> str -> option bool.
  Variable now : Z.
  Variable n : Z.          (* the node whose marker and requests are followed *)

  Definition hm (s : st) : bool := dmem key_eqb (w_internal (s_w s)) (pres_key n).
  Definition nr (e : wevent) : Prop := we_msg e <> pres_request n.
  Definition isreq (e : wevent) : Prop := we_msg e = pres_request n.

  Definition err_of {A} (r : A + exn) : option exn := match r with inr e => Some e | inl _ => None end.

  (* own = the message being handled comes from n *)
  Definition post {A} (own : bool) (h0 : bool) (s : st) (o : (A + exn) * st) : Prop :=
    let s' := snd o in
    sbuf_ok (s_w s')
    /\ exists new, s_log s' = new ++ s_log s
       /\ ((Forall nr new /\ (h0 = true -> hm s' = true) /\ (own = false -> hm s' = hm s))
           \/ (own = true /\ h0 = false
               /\ (exists err, err_of (fst o) = Some err /\ (hm s' = false -> is_missing err = false))
               /\ exists a e b, new = a ++ e :: b /\ isreq e /\ Forall nr a /\ Forall nr b
                  /\ (we_ok e = true -> hm s' = true))).

  Definition mkv {A} (own : bool) (h0 : bool) (c : M A) (s : st) : Prop :=
    sbuf_ok (s_w s) -> post own h0 s (c s).
  Definition mk {A} (own : bool) (c : M A) : Prop := forall s, mkv own (hm s) c s.

  Lemma mkv_weaken {A} own h0 h1 (c : M A) s : (h0 = true -> h1 = true) -> mkv own h1 c s -> mkv own h0 c s.
  Proof.
    intros Hh H Hi. destruct (H Hi) as [H0 [new [Hl [[Hn [Hk Ho]]|[Hown [Hh1 R]]]]]]; split; try exact H0; exists new; (split; [exact Hl|]).
    - left. split; [exact Hn|split; [intros E; apply Hk; apply Hh; exact E|exact Ho]].
    - right. split; [exact Hown|split; [|exact R]]. destruct h0; [rewrite (Hh eq_refl) in Hh1; discriminate|reflexivity].
  Qed.

  Lemma notreq_nr e : notreq e -> nr e.
  Proof. intros H. exact (H n). Qed.

  Lemma Forall_notreq_nr l : Forall notreq l -> Forall nr l.
  Proof. intros H. eapply Forall_impl; [|exact H]. intros e. apply notreq_nr. Qed.

  (* computations that neither touch the markers nor write a request (the footprint theorem's a_rel) *)
  Lemma mkv_of_tr {A} own a (c : M A) s :
    a_request a = false -> a_marker a = false -> tr_at a c s -> mkv own (hm s) c s.
  Proof.
    intros Hr Hm H Hi. destruct (H Hi) as [H0 [_ [H2 [new [H3 H4]]]]]. split; [exact H0|].
    exists new. split; [exact H3|]. left.
    assert (E : hm (snd (c s)) = hm s) by (unfold hm; rewrite (H2 Hm); reflexivity).
    split; [apply Forall_notreq_nr; apply H4; exact Hr|split; [intros Eh; rewrite E; exact Eh|intros _; exact E]].
  Qed.

  Lemma mk_of_tr {A} own a (c : M A) : a_request a = false -> a_marker a = false -> tr a c -> mk own c.
  Proof. intros Hr Hm H s. apply (mkv_of_tr own a c s Hr Hm (H s)). Qed.

  Lemma mk_ret {A} own (x : A) : mk own (ret x).
  Proof. apply (mk_of_tr own a_none); [reflexivity|reflexivity|apply tr_ret]. Qed.
  Lemma mk_raise {A} own e : mk own (@raise A e).
  Proof. apply (mk_of_tr own a_none); [reflexivity|reflexivity|apply tr_raise]. Qed.

  Lemma mkv_bind {A B} own h0 (m : M A) (f : A -> M B) s :
    mkv own h0 m s ->
    (forall x, fst (m s) = inl x -> mkv own (hm (snd (m s))) (f x) (snd (m s))) ->
    mkv own h0 (bind m f) s.
  Proof.
    intros Hm Hf Hi. unfold bind. destruct (Hm Hi) as [H0 [new [Hl Hc]]].
    destruct (m s) as [[x|e] t] eqn:E; cbn [fst snd] in *.
    - destruct (Hf x eq_refl H0) as [G0 [new2 [Gl Gc]]]. split; [exact G0|].
      exists (new2 ++ new). split; [rewrite Gl, Hl, app_assoc; reflexivity|].
      destruct Hc as [[Hn [Hk Ho]]|[Hown [Hh [[err [Eerr _]] _]]]]; [|discriminate Eerr].
      destruct Gc as [[Gn [Gk Go]]|[Gown [Gh [Gerr [a [e [b [Ga [Ge [Gna [Gnb Gok]]]]]]]]]]].
      + left. split; [apply Forall_app; split; assumption|].
        split; [intros Eh; apply Gk; apply Hk; exact Eh|intros Eo; rewrite (Go Eo); apply Ho; exact Eo].
      + right. split; [exact Gown|]. split.
        { destruct h0; [rewrite (Hk eq_refl) in Gh; discriminate|reflexivity]. }
        split; [exact Gerr|]. exists a, e, (b ++ new). split; [rewrite Ga, <- app_assoc; reflexivity|].
        split; [exact Ge|split; [exact Gna|split; [apply Forall_app; split; assumption|exact Gok]]].
    - split; [exact H0|]. exists new. split; [exact Hl|exact Hc].
  Qed.

  Lemma mk_bind {A B} own (m : M A) (f : A -> M B) : mk own m -> (forall x, mk own (f x)) -> mk own (bind m f).
  Proof. intros Hm Hf s. apply mkv_bind; [apply Hm|intros x _; apply Hf]. Qed.

  (* the version query of the `finally` block: one write that is not a request, markers untouched *)
  Lemma mkv_dec_mpv own h0 f m s : mkv own h0 (f m) s -> mkv own h0 (dec_mpv f m) s.
  Proof.
    intros Hf Hi. rewrite dec_mpv_eq. destruct (Hf Hi) as [H0 [new [Hl Hc]]].
    destruct (f m s) as [r t]. cbn [fst snd] in *. unfold mpv_finally.
    destruct (w_pv (s_w t)); [split; [exact H0|exists new; split; [exact Hl|exact Hc]]|].
    destruct (wants_version_query m); [|split; [exact H0|exists new; split; [exact Hl|exact Hc]]].
    rewrite write_eq.
    set (ev := {| we_line := encode version_query_msg; we_ok := negb (hd false (s_faults t)); we_msg := version_query_msg |}).
    assert (Hev : nr ev) by (unfold nr, ev; cbn; discriminate).
    destruct (hd false (s_faults t)); cbn [fst snd s_w s_log].
    - split; [exact H0|]. exists (ev :: new). split; [cbn; rewrite Hl; reflexivity|].
      destruct Hc as [[Hn [Hk Ho]]|[Hown [Hh [[err [Eerr Hmiss]] [a [e [b [Ga [Ge [Gna [Gnb Gok]]]]]]]]]]].
      + left. split; [constructor; assumption|split; [exact Hk|exact Ho]].
      + right. split; [exact Hown|split; [exact Hh|]]. split; [exists ETransport; split; [reflexivity|reflexivity]|].
        exists (ev :: a), e, b. split; [rewrite Ga; reflexivity|split; [exact Ge|split; [constructor; assumption|split; assumption]]].
    - split; [exact H0|]. exists (ev :: new). split; [cbn; rewrite Hl; reflexivity|].
      destruct Hc as [[Hn [Hk Ho]]|[Hown [Hh [[err [Eerr Hmiss]] [a [e [b [Ga [Ge [Gna [Gnb Gok]]]]]]]]]]].
      + left. split; [constructor; assumption|split; [exact Hk|exact Ho]].
      + right. split; [exact Hown|split; [exact Hh|]]. split; [exists err; split; [exact Eerr|exact Hmiss]|].
        exists (ev :: a), e, b. split; [rewrite Ga; reflexivity|split; [exact Ge|split; [constructor; assumption|split; assumption]]].
  Qed.

  Lemma pres_key_inj a b : key_eqb (pres_key a) (pres_key b) = false <-> a <> b.
  Proof.
    unfold pres_key, key_eqb. rewrite !Z.eqb_refl, !andb_true_r. rewrite Z.eqb_neq. tauto.
  Qed.

  Lemma dmem_dset_same (d : list (key * msg)) k v : dmem key_eqb (dset key_eqb d k v) k = true.
  Proof. unfold dmem. rewrite (dget_dset_same key_eqb key_eqb_spec). reflexivity. Qed.

  Lemma dmem_dset_other (d : list (key * msg)) k k' v :
    key_eqb k' k = false -> dmem key_eqb (dset key_eqb d k v) k' = dmem key_eqb d k'.
  Proof. intros H. unfold dmem. rewrite (dget_dset_other key_eqb key_eqb_spec) by exact H. reflexivity. Qed.

  Lemma dmem_dpop_other (d : list (key * msg)) k k' :
    key_eqb k' k = false -> dmem key_eqb (dpop key_eqb d k) k' = dmem key_eqb d k'.
  Proof. intros H. unfold dmem. rewrite (dpop_other key_eqb key_eqb_spec) by exact H. reflexivity. Qed.

  (* the request logic *)
  Lemma mk_request_presentation m e :
    mk (m_node m =? n) (request_presentation m e).
  Proof.
    intros s Hi. rewrite request_presentation_eq. cbv zeta. unfold post.
    destruct (Z.eqb_spec (m_node m) n) as [En|En].
    - (* a message of n *)
      rewrite En. fold (hm s). destruct (hm s) eqn:Eh.
      + cbn [snd fst with_internal s_w s_log w_set]. split; [exact Hi|]. exists []. split; [reflexivity|]. left.
        split; [constructor|]. split; [intros _; unfold hm; cbn; apply dmem_dset_same|discriminate].
      + rewrite write_eq.
        destruct (hd false (s_faults s)) eqn:Ef; cbn [negb];
        match goal with |- context [{| we_line := ?l; we_ok := ?o; we_msg := ?mm |}] =>
          set (ev := {| we_line := l; we_ok := o; we_msg := mm |}) end;
        cbn [fst snd with_internal s_w s_log w_set w_internal].
        * split; [exact Hi|]. exists [ev]. split; [reflexivity|]. right. split; [reflexivity|split; [reflexivity|]].
          split; [exists ETransport; split; reflexivity|].
          exists [], ev, []. split; [reflexivity|split; [reflexivity|split; [constructor|split; [constructor|]]]].
          unfold ev. cbn. discriminate.
        * split; [exact Hi|]. exists [ev]. split; [reflexivity|]. right. split; [reflexivity|split; [reflexivity|]].
          split; [exists e; split; [reflexivity|]|].
          { unfold hm. cbn. rewrite dmem_dset_same. discriminate. }
          exists [], ev, []. split; [reflexivity|split; [reflexivity|split; [constructor|split; [constructor|]]]].
          intros _. unfold hm. cbn. apply dmem_dset_same.
    - (* a message of another node: n's marker is not touched, the request is not to n *)
      assert (Hk : key_eqb (pres_key n) (pres_key (m_node m)) = false) by (apply pres_key_inj; congruence).
      assert (Hne : pres_request (m_node m) <> pres_request n).
      { unfold pres_request, mk_msg. intros H. injection H as H. contradiction. }
      destruct (dmem key_eqb (w_internal (s_w s)) (pres_key (m_node m))).
      + cbn [snd fst with_internal s_w s_log w_set]. split; [exact Hi|]. exists []. split; [reflexivity|]. left.
        assert (E : hm (with_internal s (dset key_eqb (w_internal (s_w s)) (pres_key (m_node m)) (pres_request (m_node m)))) = hm s).
        { unfold hm. cbn. apply dmem_dset_other. exact Hk. }
        split; [constructor|]. split; [intros Eh; rewrite E; exact Eh|intros _; exact E].
      + rewrite write_eq.
        set (ev := {| we_line := encode (pres_request (m_node m)); we_ok := negb (hd false (s_faults s)); we_msg := pres_request (m_node m) |}).
        assert (Hev : nr ev) by (unfold nr, ev; cbn; exact Hne).
        destruct (hd false (s_faults s)); cbn [fst snd with_internal s_w s_log w_set w_internal].
        * split; [exact Hi|]. exists [ev]. split; [reflexivity|]. left. split; [constructor; [exact Hev|constructor]|].
          split; [intros Eh; exact Eh|reflexivity].
        * split; [exact Hi|]. exists [ev]. split; [reflexivity|]. left. split; [constructor; [exact Hev|constructor]|].
          match goal with |- (_ -> hm ?t = true) /\ _ =>
            assert (E : hm t = hm s) by (unfold hm; cbn; apply dmem_dset_other; exact Hk) end.
          split; [intros Eh; rewrite E; exact Eh|intros _; exact E].
  Qed.

  Lemma rp_err m e t : exists err, err_of (fst (request_presentation m e t)) = Some err.
  Proof.
    rewrite request_presentation_eq. cbv zeta.
    destruct (dmem key_eqb (w_internal (s_w t)) (pres_key (m_node m))); [eexists; reflexivity|].
    rewrite write_eq. destruct (hd false (s_faults t)); eexists; reflexivity.
  Qed.

  Lemma mkv_dec_mnc h0 f m s :
    mkv (m_node m =? n) h0 (f m) s -> mkv (m_node m =? n) h0 (dec_mnc f m) s.
  Proof.
    intros Hf Hi. rewrite dec_mnc_eq. destruct (Hf Hi) as [H0 [new [Hl Hc]]].
    destruct (f m s) as [[x|e] t] eqn:E; cbn [fst snd] in *.
    - split; [exact H0|exists new; split; [exact Hl|exact Hc]].
    - destruct (is_missing e) eqn:Em; [|split; [exact H0|exists new; split; [exact Hl|exact Hc]]].
      destruct (mk_request_presentation m e t H0) as [G0 [new2 [Gl Gc]]]. split; [exact G0|].
      exists (new2 ++ new). split; [rewrite Gl, Hl, app_assoc; reflexivity|].
      destruct Hc as [[Hn [Hk Ho]]|[Hown [Hh [[err [Eerr Hmiss]] [a [ev [b [Ga [Ge [Gna [Gnb Gok]]]]]]]]]]].
      + destruct Gc as [[Gn [Gk Go]]|[Gown [Gh [Gerr [a [ev [b [Ga [Ge [Gna [Gnb Gok]]]]]]]]]]].
        * left. split; [apply Forall_app; split; assumption|].
          split; [intros Eh; apply Gk; apply Hk; exact Eh|intros Eo; rewrite (Go Eo); apply Ho; exact Eo].
        * right. split; [exact Gown|]. split.
          { destruct h0; [rewrite (Hk eq_refl) in Gh; discriminate|reflexivity]. }
          split; [exact Gerr|]. exists a, ev, (b ++ new). split; [rewrite Ga, <- app_assoc; reflexivity|].
          split; [exact Ge|split; [exact Gna|split; [apply Forall_app; split; assumption|exact Gok]]].
      + (* f already wrote the request and raised a missing error: the marker is recorded, so the outer request logic is silent *)
        injection Eerr as <-.
        assert (Ht : hm t = true) by (destruct (hm t); [reflexivity|rewrite (Hmiss eq_refl) in Em; discriminate]).
        destruct Gc as [[Gn [Gk Go]]|[_ [Gh _]]]; [|rewrite Ht in Gh; discriminate].
        right. split; [exact Hown|split; [exact Hh|]]. split.
        { destruct (rp_err m e t) as [err2 Eerr2]. exists err2. split; [exact Eerr2|].
          intros Hfalse. rewrite (Gk Ht) in Hfalse. discriminate. }
        exists (new2 ++ a), ev, b. split; [rewrite Ga, <- app_assoc; reflexivity|].
        split; [exact Ge|split; [apply Forall_app; split; assumption|split; [exact Gnb|]]].
        intros _. apply Gk. exact Ht.
  Qed.

  Lemma mkv_apply_decs h0 ds f m s :
    forallb known_dec ds = true ->
    mkv (m_node m =? n) h0 (f m) s -> mkv (m_node m =? n) h0 (apply_decs ds f m) s.
  Proof.
    induction ds as [|d r IH]; cbn [apply_decs fold_right forallb]; intros Hd Hf; [exact Hf|].
    apply andb_true_iff in Hd. destruct Hd as [Hd Hr]. unfold apply_dec.
    destruct (String.eqb d "handle_missing_protocol_version") eqn:E1; [apply mkv_dec_mpv; apply IH; assumption|].
    destruct (String.eqb d "handle_missing_node_child") eqn:E2; [apply mkv_dec_mnc; apply IH; assumption|].
    unfold known_dec in Hd. rewrite E1, E2 in Hd. discriminate.
  Qed.

  (* ---------- level 2 ---------- *)

  Lemma mk_body2 own b super m : level2 b = true -> (b = BSuper -> mk own (super m)) -> mk own (run_body2 bat vlt now b super m).
  Proof.
    intros Hl Hs. destruct (body_eq_dec b BSuper) as [->|Hb]; [cbn [run_body2]; apply Hs; reflexivity|].
    apply (mk_of_tr own a_rel); [reflexivity|reflexivity|].
    apply tr_body2; [exact Hl| |intros E; contradiction].
    destruct b; try discriminate Hl; repeat split; cbn; try discriminate; try reflexivity; intros; try reflexivity.
  Qed.
  Lemma chain_head_ok level name md ds r :
    chain_ok level name ((md, ds) :: r) = true ->
    forallb known_dec ds = true /\ exists b, body_of md name = Some b /\ level b = true
      /\ (calls_super b = true -> chain_ok level name r = true).
  Proof.
    cbn [chain_ok]. intros Hok. destruct r as [|e r'].
    - apply andb_true_iff in Hok. destruct Hok as [Hd Hb]. split; [exact Hd|].
      destruct (body_of md name) as [b|]; [|discriminate]. apply andb_true_iff in Hb. destruct Hb as [Hl Hn].
      exists b. split; [reflexivity|split; [exact Hl|]]. intros Hc. rewrite Hc in Hn. discriminate.
    - apply andb_true_iff in Hok. destruct Hok as [Hok Hr]. apply andb_true_iff in Hok. destruct Hok as [Hd Hb].
      split; [exact Hd|]. destruct (body_of md name) as [b|]; [|discriminate]. exists b.
      split; [reflexivity|split; [exact Hb|intros _; exact Hr]].
  Qed.

  Lemma mk_chain2 name chain m :
    chain_ok level2 name chain = true -> mk (m_node m =? n) (run_chain2 bat vlt now name chain m).
  Proof.
    induction chain as [|[md ds] r IH]; [discriminate|]. intros Hok.
    destruct (chain_head_ok level2 name md ds r Hok) as [Hd [b [Eb [Hl Hsup]]]].
    cbn [run_chain2]. rewrite Eb. intros s. apply mkv_apply_decs; [exact Hd|].
    apply mk_body2; [exact Hl|]. intros ->. apply IH. apply Hsup. reflexivity.
  Qed.

  Lemma mkv_dispatch2 name m s :
    l2name name -> mkv (m_node m =? n) (hm s) (dispatch2 bat vlt now name m) s.
  Proof.
    intros Hn. unfold dispatch2, bind, get_w, mkv. cbn beta iota. unfold proto_of.
    destruct (lookup_chain (pt_incoming (proto_at (w_proto (s_w s)))) name) as [c|] eqn:E; [|exact (mk_ret _ m s)].
    apply mk_chain2. apply (incoming_lookup _ _ _ E). exact Hn.
  Qed.

  (* ---------- level 1 ---------- *)

  Ltac nrq := let n0 := fresh "n" in let H := fresh "H" in
              intros n0 H; unfold pres_request, mk_msg in H; injection H; intros; subst;
              try discriminate; try lia; try congruence.

  Lemma mk_bind_ret {A B} own (x : A) (f : A -> M B) : mk own (f x) -> mk own (bind (ret x) f).
  Proof. intros H s. exact (H s). Qed.

  Lemma mk_tr0 {A} own (c : M A) : tr a_none c -> mk own c.
  Proof. apply (mk_of_tr own a_none); reflexivity. Qed.

  Lemma mkv_body1_leaf b super m s :
    level1 b = true -> b <> BSuper -> b <> BPresentation20 ->
    mkv (m_node m =? n) (hm s) (run_body1 bat vlt now b super m) s.
  Proof.
    intros Hl Hb1 Hb2. destruct consts_p14 as [C1 [C2 [C3 [C4 [C5 [C6 [C7 C8]]]]]]].
    set (own := m_node m =? n).
    destruct b; try discriminate Hl; try contradiction; cbn [run_body1].
    - destruct (m_child m =? system_child_id).
      + apply mkv_bind; [apply (mk_tr0 own); apply tr_set_nodes|intros _ _].
        destruct (m_node m =? 0); [|apply mk_ret].
        apply mkv_dispatch2. repeat split; reflexivity.
      + apply (mk_bind own); [apply mk_tr0; apply tr_require_node|intros _].
        apply mk_bind; [apply mk_tr0; apply tr_update_node|intros _; apply mk_ret].
    - apply (mk_bind own); [apply mk_tr0; apply tr_require_node|intros nd].
      destruct (negb (dmem Z.eqb (n_children nd) (m_child m))); [apply mk_raise|].
      apply mk_bind; [apply mk_tr0; apply tr_update_node|intros _].
      destruct (n_reboot nd); [|apply mk_ret].
      rewrite C7, C6. cbn [need]. apply mk_bind_ret. apply mk_bind_ret.
      apply mk_bind; [apply mk_tr0; apply tr_send_unbuffered; nrq|intros _; apply mk_ret].
    - apply (mk_bind own); [apply mk_tr0; apply tr_require_node|intros nd].
      destruct (dget Z.eqb (n_children nd) (m_child m)) as [c|]; [|apply mk_raise].
      destruct (dget Z.eqb (c_values c) (m_type m)) as [v|]; [|apply mk_ret].
      rewrite C8. cbn [need]. apply mk_bind_ret.
      apply mk_bind; [apply mk_tr0; apply tr_send_unbuffered; nrq|intros _; apply mk_ret].
    - unfold bind, get_w, mkv. cbn beta iota. unfold proto_of.
      destruct (enum_lname_of (pt_internal (proto_at (w_proto (s_w s)))) (m_type m)) as [ln|] eqn:E;
        [|exact (mk_raise own _ s)].
      apply mkv_dispatch2. eapply member_l2name. left. exact E.
    - apply mkv_bind; [apply (mk_tr0 own); apply tr_require_node|intros _ _].
      assert (Hsame : snd (require_node (m_node m) s) = s).
      { rewrite require_node_eq. destruct (dget Z.eqb (w_nodes (s_w s)) (m_node m)); reflexivity. }
      rewrite Hsame. unfold bind, get_w, mkv. cbn beta iota. unfold proto_of.
      destruct (enum_lname_of (pt_stream (proto_at (w_proto (s_w s)))) (m_type m)) as [ln|] eqn:E;
        [|exact (mk_raise own _ s)].
      apply mkv_dispatch2. eapply member_l2name. right. exact E.
  Qed.

  (* a state whose log and sleep buffer are those of s: facts about the rest of the run carry over *)
  Lemma post_rebase {A} own h0 h1 s s1 (o : (A + exn) * st) :
    s_log s1 = s_log s -> (h0 = true -> h1 = true) -> (own = false -> hm s1 = hm s) ->
    post own h1 s1 o -> post own h0 s o.
  Proof.
    intros Hlog Hh Ho [H0 [new [Hl Hc]]]. split; [exact H0|]. exists new. split; [rewrite Hl, Hlog; reflexivity|].
    destruct Hc as [[Hn [Hk Hoo]]|[Hown [Hh1 R]]].
    - left. split; [exact Hn|split; [intros E; apply Hk; apply Hh; exact E|intros E; rewrite (Hoo E); apply Ho; exact E]].
    - right. split; [exact Hown|split; [|exact R]]. destruct h0; [rewrite (Hh eq_refl) in Hh1; discriminate|reflexivity].
  Qed.

  Lemma body_name20 md name : body_of md name = Some BPresentation20 -> name = "handle_presentation"%string.
  Proof.
    intros H. apply body_of_in_In in H. destruct H as [md' H]. unfold body_table in H. cbn [In] in H.
    repeat (destruct H as [H|H]; [injection H; intros; subst; try discriminate; try reflexivity|]).
    contradiction.
  Qed.

  (* the effective "marker outstanding" at the start of a step for message m: n's own node
     presentation (child 255) clears it before anything else (under 2.x) *)
  Definition h_start (name : string) (m : msg) (s : st) : bool :=
    if String.eqb name "handle_presentation" && (m_node m =? n) && (m_child m =? 255) then false else hm s.

  Lemma mkv_chain1 name chain m : forall s h0,
    chain_ok level1 name chain = true ->
    (h0 = true -> hm s = true) ->
    (h0 = true -> name = "handle_presentation"%string -> key_eqb (pres_key n) (m_node m, m_child m, 19) = false) ->
    mkv (m_node m =? n) h0 (run_chain1 bat vlt now name chain m) s.
  Proof.
    induction chain as [|[md ds] r IH]; [discriminate|]. intros s h0 Hok Hh Hp.
    destruct (chain_head_ok level1 name md ds r Hok) as [Hd [b [Eb [Hl Hsup]]]].
    cbn [run_chain1]. rewrite Eb. apply mkv_apply_decs; [exact Hd|].
    destruct (body_eq_dec b BSuper) as [->|Hb1].
    { cbn [run_body1]. apply IH; [apply Hsup; reflexivity|exact Hh|exact Hp]. }
    destruct (body_eq_dec b BPresentation20) as [->|Hb2].
    { intros Hi. rewrite body_presentation20.
      set (s1 := with_internal s (dpop key_eqb (w_internal (s_w s)) (m_node m, m_child m, 19))).
      assert (Hname := body_name20 md name Eb).
      assert (Hown : (m_node m =? n) = false -> hm s1 = hm s).
      { intros En. unfold hm, s1. cbn. apply dmem_dpop_other. unfold pres_key, key_eqb.
        rewrite (Z.eqb_sym n), En. reflexivity. }
      apply (post_rebase _ h0 h0 s s1); [reflexivity|auto|exact Hown|].
      apply (IH s1 h0); [apply Hsup; reflexivity| |exact Hp|exact Hi].
      intros E. unfold hm, s1. cbn. rewrite dmem_dpop_other by (apply Hp; assumption). apply Hh. exact E. }
    apply (mkv_weaken _ h0 (hm s)); [exact Hh|]. apply mkv_body1_leaf; assumption.
  Qed.

  (* ---------- ONE LISTEN STEP ---------- *)

  Definition is_node_presentation_of_n (m : msg) : bool :=
    (m_cmd m =? 0) && (m_node m =? n) && (m_child m =? 255).

  Theorem mk_listen_step line s m :
    decode (proto_of (s_w s)) line = DecOk m ->
    mkv (m_node m =? n) (if is_node_presentation_of_n m then false else hm s) (listen_step bat vlt now line) s.
  Proof.
    intros E. unfold listen_step, bind, get_w, mkv. cbn beta iota. rewrite E. unfold proto_of in *.
    rewrite command_lname. destruct (lname_cmd (m_cmd m)) as [cname|] eqn:Ec.
    2:{ intros Hi. apply (mkv_weaken _ _ (hm s)); [destruct (is_node_presentation_of_n m); [discriminate|auto]| |exact Hi].
        exact (mk_raise _ _ s). }
    destruct (command_handler_lookup (w_proto (s_w s)) _ _ Ec) as [Hc [c Hl]]. rewrite Hl.
    apply mkv_chain1.
    - apply (incoming_lookup _ _ _ Hl). exact Hc.
    - destruct (is_node_presentation_of_n m); [discriminate|auto].
    - unfold is_node_presentation_of_n. intros Hh Hname.
      assert (K : m_cmd m = 0).
      { unfold lname_cmd in Ec. destruct (Z.eqb_spec (m_cmd m) 0) as [K|K]; [exact K|].
        destruct (m_cmd m =? 1); [injection Ec as <-; discriminate Hname|].
        destruct (m_cmd m =? 2); [injection Ec as <-; discriminate Hname|].
        destruct (m_cmd m =? 3); [injection Ec as <-; discriminate Hname|].
        destruct (m_cmd m =? 4); [injection Ec as <-; discriminate Hname|discriminate]. }
      rewrite K in Hh. cbn [Z.eqb andb] in Hh. unfold pres_key, key_eqb.
      destruct (Z.eqb_spec (m_node m) n) as [->|Hn].
      + rewrite Z.eqb_refl in *. cbn [andb] in *. destruct (m_child m =? 255) eqn:Ech; [discriminate Hh|].
        rewrite Z.eqb_sym, Ech. reflexivity.
      + rewrite (proj2 (Z.eqb_neq n (m_node m))) by congruence. reflexivity.
  Qed.
  (* ---------- step-level corollaries ---------- *)

  Definition new_events (line : str) (s : st) : list wevent -> Prop :=
    fun new => s_log (snd (listen_step bat vlt now line s)) = new ++ s_log s.

  (* a message of another node: n's marker is as it was, no request to n *)
  Theorem foreign_step line s m :
    sbuf_ok (s_w s) -> decode (proto_of (s_w s)) line = DecOk m -> m_node m <> n ->
    hm (snd (listen_step bat vlt now line s)) = hm s
    /\ exists new, new_events line s new /\ Forall nr new.
  Proof.
    intros Hi E Hn. destruct (mk_listen_step line s m E Hi) as [_ [new [Hl Hc]]].
    assert (Eo : (m_node m =? n) = false) by (apply Z.eqb_neq; exact Hn). rewrite Eo in Hc.
    destruct Hc as [[Hnr [_ Ho]]|[Hown _]]; [|discriminate].
    split; [apply Ho; reflexivity|exists new; split; assumption].
  Qed.

  (* an outstanding request: whatever arrives, other than n's own node presentation, writes no
     request to n and leaves the marker outstanding *)
  Theorem outstanding_step line s m :
    sbuf_ok (s_w s) -> decode (proto_of (s_w s)) line = DecOk m ->
    hm s = true -> is_node_presentation_of_n m = false ->
    hm (snd (listen_step bat vlt now line s)) = true
    /\ exists new, new_events line s new /\ Forall nr new.
  Proof.
    intros Hi E Hh Hp. destruct (mk_listen_step line s m E Hi) as [_ [new [Hl Hc]]].
    rewrite Hp, Hh in Hc. destruct Hc as [[Hnr [Hk _]]|[_ [Hf _]]]; [|discriminate].
    split; [apply Hk; reflexivity|exists new; split; assumption].
  Qed.

  (* in every step: no request to n, or exactly one — written for a message of n itself, when no
     marker was outstanding (or n had just presented itself), ending in an error; if the write
     succeeded the marker is recorded, and if it is not recorded the error is not a
     missing-node/child error *)
  Theorem one_request_step line s m :
    sbuf_ok (s_w s) -> decode (proto_of (s_w s)) line = DecOk m ->
    exists new, new_events line s new
      /\ (Forall nr new
          \/ (m_node m = n
              /\ (hm s = false \/ is_node_presentation_of_n m = true)
              /\ (exists err, fst (listen_step bat vlt now line s) = inr err
                              /\ (hm (snd (listen_step bat vlt now line s)) = false -> is_missing err = false))
              /\ exists a e b, new = a ++ e :: b /\ isreq e /\ Forall nr a /\ Forall nr b
                 /\ (we_ok e = true -> hm (snd (listen_step bat vlt now line s)) = true))).
  Proof.
    intros Hi E. destruct (mk_listen_step line s m E Hi) as [_ [new [Hl Hc]]]. exists new. split; [exact Hl|].
    destruct Hc as [[Hnr _]|[Hown [Hh [[err [Eerr Hmiss]] R]]]]; [left; exact Hnr|right].
    split; [apply Z.eqb_eq; exact Hown|]. split.
    { destruct (is_node_presentation_of_n m); [right; reflexivity|left; exact Hh]. }
    split; [|exact R]. exists err. split; [|exact Hmiss].
    destruct (fst (listen_step bat vlt now line s)) as [x|e0]; cbn in Eerr; [discriminate|injection Eerr as ->; reflexivity].
  Qed.

  (* ---------- histories ---------- *)

  Definition wm (w : world) : bool := dmem key_eqb (w_internal w) (pres_key n).

  (* operations of an application that sends set commands; received lines are arbitrary *)
  Definition app_op (o : op) : Prop :=
    match o with OSend m _ _ => wf_msg m /\ m_cmd m = 1 | _ => True end.

  (* the line is not n's own node presentation *)
  Definition not_presentation_of_n (o : op) : Prop :=
    match o with
    | ORecv line _ => forall m, decode (proto_at 0) line = DecOk m -> is_node_presentation_of_n m = false
    | _ => True
    end.

  Lemma decode_any_proto i line : decode (proto_at i) line = decode (proto_at 0) line.
  Proof.
    assert (Hin : forall k, In (proto_at k) protocols).
    { intros k. apply (proto_at_cases (fun p => In p protocols)); cbn; tauto. }
    unfold decode. destruct (splitn 5 delimiter (rstrip line)) as [|f1 [|f2 [|f3 [|f4 [|f5 [|f6 [|f7 r]]]]]]]; try reflexivity.
    destruct (py_int f1), (py_int f2), (py_int f3), (py_int f4), (py_int f5); try reflexivity.
    rewrite !accept_fields_spec by apply Hin. reflexivity.
  Qed.

  Lemma silent_step w o :
    Inv vlt w -> app_op o -> not_presentation_of_n o -> wm w = true ->
    let x := step_op bat vlt now w o in
    wm (fst (fst x)) = true /\ Forall nr (snd x).
  Proof.
    intros Hi Ha Hp Hw. destruct o as [line faults|m b faults|]; cbn [step_op app_op not_presentation_of_n] in *.
    - unfold recv, run_step. set (s0 := {| s_w := w; s_log := []; s_faults := faults |}).
      assert (Hsb : sbuf_ok (s_w s0)) by (apply (Inv_sbuf_ok vlt); exact Hi).
      destruct (decode (proto_of (s_w s0)) line) as [m| |c] eqn:E.
      + assert (Hnp : is_node_presentation_of_n m = false).
        { apply Hp. rewrite <- E. unfold proto_of. symmetry. apply decode_any_proto. }
        destruct (outstanding_step line s0 m Hsb E Hw Hnp) as [Hk [new [Hl Hn]]].
        unfold new_events in Hl. cbn [s_log s0] in Hl. rewrite app_nil_r in Hl.
        destruct (listen_step bat vlt now line s0) as [[x|e] t]; cbn [fst snd] in *;
          (split; [exact Hk|rewrite Hl; apply Forall_rev; exact Hn]).
      + destruct (rejected_line_keeps_everything bat vlt now line s0 Hi) as [_ [Hint [new [Hl Hn]]]].
        { intros m Em. rewrite E in Em. discriminate. }
        cbn [s_log s0] in Hl. rewrite app_nil_r in Hl.
        destruct (listen_step bat vlt now line s0) as [[x|e] t]; cbn [fst snd] in *;
          (split; [unfold wm; rewrite Hint; exact Hw|rewrite Hl; apply Forall_rev; apply Forall_notreq_nr; exact Hn]).
      + destruct (rejected_line_keeps_everything bat vlt now line s0 Hi) as [_ [Hint [new [Hl Hn]]]].
        { intros m Em. rewrite E in Em. discriminate. }
        cbn [s_log s0] in Hl. rewrite app_nil_r in Hl.
        destruct (listen_step bat vlt now line s0) as [[x|e] t]; cbn [fst snd] in *;
          (split; [unfold wm; rewrite Hint; exact Hw|rewrite Hl; apply Forall_rev; apply Forall_notreq_nr; exact Hn]).
    - destruct Ha as [_ Hk]. unfold send_op, run_step. set (s0 := {| s_w := w; s_log := []; s_faults := faults |}).
      assert (Hm : forall n0, m <> pres_request n0).
      { intros n0 ->. discriminate Hk. }
      rewrite send_eq. unfold send_resolved. rewrite Hk. cbn [Z.eqb Pos.eqb].
      assert (G : forall bb, let r := send_set_direct m bb s0 in
                  wm (s_w (snd r)) = true /\ Forall nr (rev (s_log (snd r)))).
      { intros bb. unfold send_set_direct, bind. rewrite write_eq. cbn [s0 s_faults s_w s_log].
        destruct (hd false faults); cbn [fst snd s_w s_log].
        - split; [exact Hw|]. cbn. constructor; [|constructor]. unfold nr. cbn. apply Hm.
        - destruct bb; cbn [snd s_w s_log w_internal]; (split; [exact Hw|cbn; constructor; [unfold nr; cbn; apply Hm|constructor]]). }
      destruct (dget Z.eqb (w_nodes (s_w s0)) (m_node m)) as [nd|].
      + destruct (b && n_sleeping nd).
        * cbn. split; [exact Hw|constructor].
        * specialize (G b). cbv zeta in G. destruct (send_set_direct m b s0) as [[u|e] t]; cbn [fst snd] in *; exact G.
      + specialize (G b). cbv zeta in G. destruct (send_set_direct m b s0) as [[u|e] t]; cbn [fst snd] in *; exact G.
    - cbn. split; [exact Hw|constructor].
  Qed.

  (* THE EPISODE: while a request to n is outstanding, no continuation of the history writes
     another request to n — whatever arrives from whichever node, with whatever faults —
     until n presents itself *)
  Theorem outstanding_history ops : forall w,
    Inv vlt w -> Forall (fun o => op_ok o /\ app_op o /\ not_presentation_of_n o) ops -> wm w = true ->
    Forall (fun x => Forall nr (snd x)) (trace bat vlt now w ops)
    /\ wm (run_ops bat vlt now w ops) = true.
  Proof.
    induction ops as [|o r IH]; intros w Hi Ho Hw; cbn [trace].
    - split; [constructor|exact Hw].
    - inversion Ho as [|? ? [H1 [H2 H3]] Hr]; subst.
      destruct (silent_step w o Hi H2 H3 Hw) as [G1 G2].
      destruct (step_op_inv bat vlt now w o Hi H1) as [Hi' _].
      destruct (IH _ Hi' Hr G1) as [K1 K2]. split.
      + constructor; [exact G2|exact K1].
      + unfold run_ops. cbn [fold_left]. exact K2.
  Qed.
End Marker.
