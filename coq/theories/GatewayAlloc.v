(* C11 over whole histories: an id handed out is a key of every later registry,
   so no later allocation hands it out again. *)
From Coq Require Import List NArith ZArith Bool String Lia.
From AMS Require Import TablesTypes Tables PyStr Codec CodecFacts Gateway GatewayFacts GatewayInv GatewaySteps.
Import ListNotations.
Local Open Scope Z_scope.

Section WithOracles.
  Variable bat : str -> option Z.
  Variable vlt : str -> str -> option bool.
  Variable now : Z.

  Notation run_ops := (run_ops bat vlt now).
  Notation world_after := (world_after bat vlt now).
  Notation step_op := (step_op bat vlt now).

  (* the id the gateway answers an id request with, if it answers: by id_request_step
     exactly the payload of the only id response attempted in that step *)
  Definition handed_out (w : world) (line : str) : option Z :=
    match decode (proto_of w) line with
    | DecOk m =>
        if (m_cmd m =? 3) && (m_type m =? 3) && (next_id (keys w) <=? 254)
        then Some (next_id (keys w)) else None
    | _ => None
    end.

  Lemma handed_out_spec w line a :
    handed_out w line = Some a ->
    exists m, decode (proto_of w) line = DecOk m /\ m_cmd m = 3 /\ m_type m = 3
              /\ a = next_id (keys w) /\ a <= 254.
  Proof.
    unfold handed_out. destruct (decode (proto_of w) line) as [m| |] eqn:Ed; try discriminate.
    destruct (m_cmd m =? 3) eqn:E1; cbn [andb]; [|discriminate].
    destruct (m_type m =? 3) eqn:E2; cbn [andb]; [|discriminate].
    destruct (next_id (keys w) <=? 254) eqn:E3; [|discriminate].
    intros H. inversion H; subst. exists m. repeat split; try lia.
  Qed.

  (* the step that hands an id out registers it, whatever the fault stream *)
  Lemma handed_out_registered w line faults a :
    Inv vlt w -> handed_out w line = Some a ->
    ~ In a (keys w) /\ 1 <= a <= 254 /\ In a (keys (world_after w (ORecv line faults))).
  Proof.
    intros Hi Ha. destruct (handed_out_spec _ _ _ Ha) as [m [Hd [Hc [Ht [Ea Hle]]]]].
    destruct (id_request_step bat vlt now w faults line m Hi Hd Hc Ht) as [H1 _].
    cbv zeta in H1. rewrite <- Ea in H1. destruct (H1 Hle) as [Hpos [Hfresh [Hn _]]].
    split; [exact Hfresh|split; [lia|]].
    unfold world_after, keys. cbn [GatewayInv.step_op]. rewrite Hn. apply (dset_keys_in Z.eqb).
    intros x y. apply Z.eqb_eq.
  Qed.

  Theorem never_twice w ops1 l1 f1 ops2 l2 f2 a b :
    Inv vlt w -> Forall op_ok ops1 -> Forall op_ok ops2 ->
    let w1 := run_ops w ops1 in
    let w2 := run_ops (world_after w1 (ORecv l1 f1)) ops2 in
    handed_out w1 l1 = Some a -> handed_out w2 l2 = Some b ->
    a <> b /\ In a (keys w2) /\ In a (keys (world_after w2 (ORecv l2 f2)))
    /\ In b (keys (world_after w2 (ORecv l2 f2))).
  Proof.
    intros Hi H1 H2 w1 w2 Ha Hb.
    destruct (run_ops_inv bat vlt now ops1 w Hi H1) as [Hi1 _]. fold w1 in Hi1.
    destruct (handed_out_registered w1 l1 f1 a Hi1 Ha) as [_ [_ Hin1]].
    destruct (step_op_inv bat vlt now w1 (ORecv l1 f1) Hi1 I) as [Hi1' _].
    destruct (run_ops_inv bat vlt now ops2 _ Hi1' H2) as [Hi2 Hincl]. fold w2 in Hi2, Hincl.
    destruct (handed_out_registered w2 l2 f2 b Hi2 Hb) as [Hnb [_ Hinb]].
    assert (Hin2 : In a (keys w2)) by (apply Hincl; exact Hin1).
    split; [intros E; subst; exact (Hnb Hin2)|].
    split; [exact Hin2|]. split; [|exact Hinb].
    destruct (step_op_inv bat vlt now w2 (ORecv l2 f2) Hi2 I) as [_ [Hk _]]. apply Hk. exact Hin2.
  Qed.
End WithOracles.
