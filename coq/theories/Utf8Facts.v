(* strict UTF-8: decoding the encoding of a string of Unicode scalar values gives the string back *)
From Coq Require Import List NArith ZArith Bool Lia ZifyBool ZifyN.
From AMS Require Import PyStr.
Import ListNotations.
Ltac Zify.zify_post_hook ::= Z.div_mod_to_equations.
Local Open Scope N_scope.
Arguments N.add : simpl never.
Arguments N.mul : simpl never.
Arguments N.div : simpl never.
Arguments N.modulo : simpl never.
Arguments N.sub : simpl never.
Arguments N.ltb : simpl never.
Arguments N.leb : simpl never.

Lemma decode_nil fuel : utf8_decode_fuel fuel [] = Some [].
Proof. destruct fuel; reflexivity. Qed.

Lemma utf8_roundtrip_fuel s : forall bs fuel,
  utf8_encode s = Some bs -> (List.length bs <= fuel)%nat -> utf8_decode_fuel fuel bs = Some s.
Proof.
  induction s as [|c r IH]; intros bs fuel He Hf.
  - cbn in He. injection He as <-. apply decode_nil.
  - cbn [utf8_encode] in He.
    destruct (utf8_encode_cp c) as [b|] eqn:Ec; [|discriminate].
    destruct (utf8_encode r) as [br|] eqn:Er; [|discriminate].
    injection He as <-. specialize (IH br).
    unfold utf8_encode_cp in Ec.
    destruct (N.ltb_spec c 128) as [H1|H1].
    { injection Ec as <-. cbn [app List.length] in *. destruct fuel as [|f]; [lia|].
      cbn [utf8_decode_fuel]. assert (E : (c <? 128) = true) by lia. rewrite E.
      rewrite (IH f eq_refl) by lia. reflexivity. }
    destruct (N.ltb_spec c 2048) as [H2|H2].
    { injection Ec as <-. cbn [app List.length] in *. destruct fuel as [|f]; [lia|].
      cbn [utf8_decode_fuel].
      assert (E1 : (192 + c / 64 <? 128) = false) by lia. rewrite E1.
      assert (E2 : (192 + c / 64 <? 194) = false) by lia. rewrite E2.
      assert (E3 : (192 + c / 64 <? 224) = true) by lia. rewrite E3.
      unfold is_cont.
      assert (E4 : (128 <=? 128 + c mod 64) && (128 + c mod 64 <? 192) = true) by lia. rewrite E4.
      rewrite (IH f eq_refl) by lia. cbn [option_map]. f_equal. f_equal. lia. }
    destruct (N.ltb_spec c 65536) as [H3|H3].
    { destruct ((55296 <=? c) && (c <=? 57343)) eqn:Es; [discriminate|].
      injection Ec as <-. cbn [app List.length] in *. destruct fuel as [|f]; [lia|].
      cbn [utf8_decode_fuel].
      assert (E1 : (224 + c / 4096 <? 128) = false) by lia. rewrite E1.
      assert (E2 : (224 + c / 4096 <? 194) = false) by lia. rewrite E2.
      assert (E3 : (224 + c / 4096 <? 224) = false) by lia. rewrite E3.
      assert (E4 : (224 + c / 4096 <? 240) = true) by lia. rewrite E4.
      unfold is_cont.
      assert (Ev : (224 + c / 4096 - 224) * 4096 + (128 + c / 64 mod 64 - 128) * 64 + (128 + c mod 64 - 128) = c) by lia.
      rewrite Ev.
      assert (E5 : (128 <=? 128 + c / 64 mod 64) && (128 + c / 64 mod 64 <? 192)
                   && ((128 <=? 128 + c mod 64) && (128 + c mod 64 <? 192))
                   && (2048 <=? c) && negb ((55296 <=? c) && (c <=? 57343)) = true).
      { rewrite Es. cbn [negb]. lia. }
      rewrite E5. rewrite (IH f eq_refl) by lia. reflexivity. }
    destruct (N.ltb_spec c 1114112) as [H4|H4]; [|discriminate].
    { injection Ec as <-. cbn [app List.length] in *. destruct fuel as [|f]; [lia|].
      cbn [utf8_decode_fuel].
      assert (E1 : (240 + c / 262144 <? 128) = false) by lia. rewrite E1.
      assert (E2 : (240 + c / 262144 <? 194) = false) by lia. rewrite E2.
      assert (E3 : (240 + c / 262144 <? 224) = false) by lia. rewrite E3.
      assert (E4 : (240 + c / 262144 <? 240) = false) by lia. rewrite E4.
      assert (E5 : (240 + c / 262144 <? 245) = true) by lia. rewrite E5.
      unfold is_cont.
      assert (Ev : (240 + c / 262144 - 240) * 262144 + (128 + c / 4096 mod 64 - 128) * 4096
                   + (128 + c / 64 mod 64 - 128) * 64 + (128 + c mod 64 - 128) = c) by lia.
      rewrite Ev.
      assert (E6 : (128 <=? 128 + c / 4096 mod 64) && (128 + c / 4096 mod 64 <? 192)
                   && ((128 <=? 128 + c / 64 mod 64) && (128 + c / 64 mod 64 <? 192))
                   && ((128 <=? 128 + c mod 64) && (128 + c mod 64 <? 192))
                   && (65536 <=? c) && (c <? 1114112) = true) by lia.
      rewrite E6. rewrite (IH f eq_refl) by lia. reflexivity. }
Qed.

Theorem utf8_roundtrip s bs : utf8_encode s = Some bs -> utf8_decode bs = Some s.
Proof. intros H. unfold utf8_decode. apply (utf8_roundtrip_fuel s bs _ H). lia. Qed.

(* every string of Unicode scalar values has an encoding *)
Definition scalar (c : N) : Prop := c < 1114112 /\ ~ (55296 <= c <= 57343).

Theorem utf8_encode_total s : Forall scalar s -> exists bs, utf8_encode s = Some bs.
Proof.
  induction s as [|c r IH]; intros H; [exists []; reflexivity|].
  inversion H as [|? ? [Hc Hs] Hr]; subst. destruct (IH Hr) as [br Eb]. cbn [utf8_encode]. rewrite Eb.
  unfold utf8_encode_cp.
  destruct (N.ltb_spec c 128); [eexists; reflexivity|].
  destruct (N.ltb_spec c 2048); [eexists; reflexivity|].
  destruct (N.ltb_spec c 65536).
  - assert (E : (55296 <=? c) && (c <=? 57343) = false) by lia. rewrite E. eexists; reflexivity.
  - assert (E : (c <? 1114112) = true) by lia. rewrite E. eexists; reflexivity.
Qed.
