(* C09: for every schedule of the flush / send race, no update is lost, every
   write carries a value that was sent, and no value is written twice. *)
From Coq Require Import List NArith ZArith Bool String Lia.
From AMS Require Import TablesTypes Tables PyStr Codec Gateway GatewayFacts Flush.
Import ListNotations.
Local Open Scope Z_scope.

Definition tags (l : list entry) : list Z := map snd l.
Definition cur_list (s : fstate) : list entry := match f_cur s with Some e => [e] | None => [] end.
Definition pending (s : fstate) : list entry := cur_list s ++ f_snap s.

Lemma last_for_app_same k t l : last_for k (l ++ [(k, t)]) = Some t.
Proof.
  induction l as [|[k' t'] l IH]; cbn.
  - unfold fkey_eqb. rewrite (proj2 (key_eqb_spec k k) eq_refl). reflexivity.
  - rewrite IH. reflexivity.
Qed.

Lemma last_for_app_other k k' t l : key_eqb k k' = false -> last_for k (l ++ [(k', t)]) = last_for k l.
Proof.
  intros H. induction l as [|[k0 t0] l IH]; cbn.
  - unfold fkey_eqb. rewrite H. reflexivity.
  - rewrite IH. reflexivity.
Qed.

Lemma key_eqb_false a b : a <> b -> key_eqb a b = false.
Proof.
  intros H. destruct (key_eqb a b) eqn:E; [|reflexivity]. apply key_eqb_spec in E. contradiction.
Qed.

Lemma key_eq_dec (a b : fkey) : {a = b} + {a <> b}.
Proof.
  destruct (key_eqb a b) eqn:E; [left; apply key_eqb_spec; exact E|right].
  intros ->. rewrite (proj2 (key_eqb_spec b b) eq_refl) in E. discriminate.
Qed.

Record FInv (s : fstate) : Prop := {
  fi_buf_nodup : NoDup (map fst (f_buf s));
  fi_pend_nodup : NoDup (map fst (pending s));
  fi_pend_in_buf : forall e, In e (pending s) -> bget (f_buf s) (fst e) <> None;
  fi_last : forall k,
      match bget (f_buf s) k with
      | Some t => last_for k (f_sent s) = Some t
      | None => last_for k (f_sent s) = None \/ last_for k (f_written s) = last_for k (f_sent s)
      end;
  fi_sent_nodup : NoDup (tags (f_sent s));
  fi_live_sent : forall e, In e (f_buf s ++ pending s) -> In e (f_sent s);
  fi_written_sent : incl (f_written s) (f_sent s);
  fi_written_nodup : NoDup (tags (f_written s));
  fi_live_unwritten : forall e, In e (f_buf s ++ pending s) -> ~ In (snd e) (tags (f_written s))
}.

Lemma FInv_init : FInv finit.
Proof.
  constructor; cbn.
  - constructor.
  - constructor.
  - intros e [].
  - intros k. left. reflexivity.
  - constructor.
  - intros e [].
  - intros x [].
  - constructor.
  - intros e [].
Qed.

Lemma bget_In b k t : bget b k = Some t -> In (k, t) b.
Proof. apply (dget_In key_eqb key_eqb_spec). Qed.

Lemma In_bget b k t : NoDup (map fst b) -> In (k, t) b -> bget b k = Some t.
Proof.
  unfold bget. induction b as [|[k' t'] b IH]; cbn; [tauto|].
  intros Hn [H|H]; inversion Hn as [|? ? Hnot Hnd]; subst.
  - injection H as -> ->. rewrite (proj2 (key_eqb_spec k k) eq_refl). reflexivity.
  - destruct (key_eqb k k') eqn:E.
    + apply key_eqb_spec in E. subst k'. exfalso. apply Hnot.
      apply in_map_iff. exists (k, t). split; [reflexivity|exact H].
    + apply IH; assumption.
Qed.

Lemma tag_unique l k1 k2 t : NoDup (tags l) -> In (k1, t) l -> In (k2, t) l -> k1 = k2.
Proof.
  unfold tags. induction l as [|[k0 t0] l IH]; cbn; [tauto|].
  intros Hn H1 H2. inversion Hn as [|? ? Hnot Hnd]; subst.
  destruct H1 as [H1|H1], H2 as [H2|H2].
  - congruence.
  - injection H1 as -> ->. exfalso. apply Hnot. apply in_map_iff. exists (k2, t). split; [reflexivity|exact H2].
  - injection H2 as -> ->. exfalso. apply Hnot. apply in_map_iff. exists (k1, t). split; [reflexivity|exact H1].
  - apply IH; assumption.
Qed.

(* entries of (bset b k t): the new one, and the old ones under other keys *)
Lemma bset_entries b k t e :
  NoDup (map fst b) -> In e (bset b k t) -> e = (k, t) \/ (In e b /\ fst e <> k).
Proof.
  unfold bset. induction b as [|[k' t'] b IH]; cbn; intros Hn.
  - intros [H|[]]. left. symmetry. exact H.
  - inversion Hn as [|? ? Hnot Hnd]; subst. destruct (key_eqb k k') eqn:E; cbn.
    + apply key_eqb_spec in E. subst k'. intros [H|H].
      * left. symmetry. exact H.
      * right. split; [right; exact H|]. intros Hk. apply Hnot. rewrite <- Hk.
        apply in_map. exact H.
    + intros [H|H].
      * right. subst e. split; [left; reflexivity|]. cbn. intros ->.
        rewrite (proj2 (key_eqb_spec k k) eq_refl) in E. discriminate.
      * destruct (IH Hnd H) as [H1|[H1 H2]]; [left; exact H1|right; split; [right; exact H1|exact H2]].
  Qed.

Lemma nodup_filter_keys (f : entry -> bool) b : NoDup (map fst b) -> NoDup (map fst (filter f b)).
Proof.
  induction b as [|e b IH]; cbn; intros H; [constructor|].
  inversion H as [|? ? Hnot Hnd]; subst. destruct (f e); cbn; [|exact (IH Hnd)].
  constructor; [|exact (IH Hnd)]. intros Hin. apply Hnot.
  apply in_map_iff in Hin. destruct Hin as [x [Hx Hf]]. apply filter_In in Hf.
  apply in_map_iff. exists x. split; [exact Hx|tauto].
Qed.

Lemma bget_bset_same b k t : bget (bset b k t) k = Some t.
Proof. apply (dget_dset_same key_eqb key_eqb_spec). Qed.

Lemma bget_bset_other b k k' t : k' <> k -> bget (bset b k t) k' = bget b k'.
Proof. intros H. apply (dget_dset_other key_eqb key_eqb_spec). apply key_eqb_false. exact H. Qed.

Lemma bget_bpop_same b k : NoDup (map fst b) -> bget (bpop b k) k = None.
Proof.
  intros H. apply (notin_dget_None key_eqb key_eqb_spec). apply (dpop_notin key_eqb key_eqb_spec). exact H.
Qed.

Lemma bget_bpop_other b k k' : k' <> k -> bget (bpop b k) k' = bget b k'.
Proof. intros H. apply (dpop_other key_eqb key_eqb_spec). apply key_eqb_false. exact H. Qed.

Lemma bpop_entries b k e : NoDup (map fst b) -> In e (bpop b k) -> In e b /\ fst e <> k.
Proof.
  intros Hn He. split; [exact (dpop_incl key_eqb b k e He)|].
  intros Hk. subst k. apply (dpop_notin key_eqb key_eqb_spec b (fst e) Hn). apply (in_map fst). exact He.
Qed.

Lemma tags_app a b : tags (a ++ b) = tags a ++ tags b.
Proof. apply map_app. Qed.

Lemma in_tags l t : In t (tags l) -> exists k, In (k, t) l.
Proof.
  unfold tags. intros H. apply in_map_iff in H. destruct H as [[k t'] [E H]]. cbn in E. subst. exists k. exact H.
Qed.

Lemma NoDup_app_single {A} (l : list A) x : NoDup l -> ~ In x l -> NoDup (l ++ [x]).
Proof.
  induction l as [|y l IH]; cbn; intros Hn Hx; [constructor; [tauto|constructor]|].
  inversion Hn as [|? ? Hnot Hnd]; subst. constructor.
  - intros Hin. apply in_app_or in Hin. destruct Hin as [Hin|[Hin|[]]]; [exact (Hnot Hin)|].
    apply Hx. left. symmetry. exact Hin.
  - apply IH; [exact Hnd|]. intros H. apply Hx. right. exact H.
Qed.

Lemma FInv_send s k t : FInv s -> ~ In t (tags (f_sent s)) -> FInv (fstep true s (FSend k t)).
Proof.
  intros [H1 H2 H3 H4 H5 H6 H7 H8 H9] Hf. constructor; cbn [fstep f_buf f_snap f_cur f_written f_sent pending cur_list].
  - apply dset_nodup; [exact key_eqb_spec|exact H1].
  - exact H2.
  - intros e He. destruct (key_eq_dec (fst e) k) as [->|Hne].
    + rewrite bget_bset_same. discriminate.
    + rewrite bget_bset_other by exact Hne. apply H3. exact He.
  - intros k0. destruct (key_eq_dec k0 k) as [->|Hne].
    + rewrite bget_bset_same. apply last_for_app_same.
    + rewrite bget_bset_other by exact Hne. rewrite (last_for_app_other k0 k t) by (apply key_eqb_false; exact Hne).
      apply H4.
  - rewrite tags_app. cbn. apply NoDup_app_single; assumption.
  - intros e He. apply in_or_app. apply in_app_or in He. destruct He as [He|He].
    + apply bset_entries in He; [|exact H1]. destruct He as [->|[He _]]; [right; left; reflexivity|].
      left. apply H6. apply in_or_app. left. exact He.
    + left. apply H6. apply in_or_app. right. exact He.
  - intros e He. apply in_or_app. left. exact (H7 e He).
  - exact H8.
  - intros e He. apply in_app_or in He. destruct He as [He|He].
    + apply bset_entries in He; [|exact H1]. destruct He as [->|[He _]].
      * cbn. intros Ht. apply in_tags in Ht. destruct Ht as [k' Ht]. apply Hf.
        apply in_map_iff. exists (k', t). split; [reflexivity|exact (H7 _ Ht)].
      * apply H9. apply in_or_app. left. exact He.
    + apply H9. apply in_or_app. right. exact He.
Qed.

Lemma FInv_wake s n : FInv s -> FInv (fstep true s (FWake n)).
Proof.
  intros Hi. cbn [fstep]. destruct (f_cur s) eqn:Ec; [exact Hi|].
  destruct (f_snap s) eqn:Es; [|exact Hi].
  destruct Hi as [H1 H2 H3 H4 H5 H6 H7 H8 H9]. unfold pending, cur_list in *. rewrite Ec, Es in *.
  constructor; unfold pending, cur_list; cbn [f_buf f_snap f_cur f_written f_sent app].
  - exact H1.
  - apply nodup_filter_keys. exact H1.
  - intros e He. apply filter_In in He. destruct He as [He _]. destruct e as [k t].
    cbn [fst]. rewrite (In_bget _ _ _ H1 He). discriminate.
  - exact H4.
  - exact H5.
  - intros e He. apply H6. cbn. rewrite app_nil_r. apply in_app_or in He.
    destruct He as [He|He]; [exact He|]. apply filter_In in He. tauto.
  - exact H7.
  - exact H8.
  - intros e He. apply H9. cbn. rewrite app_nil_r. apply in_app_or in He.
    destruct He as [He|He]; [exact He|]. apply filter_In in He. tauto.
Qed.

Lemma FInv_begin s : FInv s -> FInv (fstep true s FBegin).
Proof.
  intros Hi. cbn [fstep]. destruct (f_cur s) eqn:Ec; [exact Hi|].
  destruct (f_snap s) as [|e r] eqn:Es; [exact Hi|].
  destruct Hi as [H1 H2 H3 H4 H5 H6 H7 H8 H9]. unfold pending, cur_list in *. rewrite Ec, Es in *.
  constructor; unfold pending, cur_list; cbn [f_buf f_snap f_cur f_written f_sent app] in *; assumption.
Qed.

Lemma FInv_end s ok : FInv s -> FInv (fstep true s (FEnd ok)).
Proof.
  intros Hi. cbn [fstep]. destruct (f_cur s) as [[k t]|] eqn:Ec; [|exact Hi].
  destruct Hi as [H1 H2 H3 H4 H5 H6 H7 H8 H9]. unfold pending, cur_list in *. rewrite Ec in *.
  cbn [app] in *.
  destruct ok.
  - (* the write succeeded *)
    assert (Hcur_sent : In (k, t) (f_sent s)).
    { apply H6. apply in_or_app. right. left. reflexivity. }
    assert (Hcur_unw : ~ In t (tags (f_written s))).
    { apply (H9 (k, t)). apply in_or_app. right. left. reflexivity. }
    assert (Hsnap_key : forall e, In e (f_snap s) -> fst e <> k).
    { intros e He Hk. cbn in H2. inversion H2 as [|x l Hnot Hnd Heq]. apply Hnot.
      rewrite <- Hk. apply (in_map fst). exact He. }
    assert (Hother_tag : forall e, In e (f_sent s) -> fst e <> k -> snd e <> t).
    { intros [k' t'] He Hk Ht. cbn [fst snd] in *. subst t'. apply Hk.
      exact (tag_unique (f_sent s) k' k t H5 He Hcur_sent). }
    destruct (bget (f_buf s) k) as [t'|] eqn:Eb;
      [|exfalso; apply (H3 (k, t)); [left; reflexivity|exact Eb]].
    destruct (Z.eqb_spec t' t) as [->|Hne].
    + (* still the message that was written: pop it *)
      constructor; unfold pending, cur_list; cbn [f_buf f_snap f_cur f_written f_sent app].
      * apply dpop_nodup. exact H1.
      * cbn in H2. inversion H2; assumption.
      * intros e He. rewrite bget_bpop_other by (apply Hsnap_key; exact He).
        apply H3. right. exact He.
      * intros k0. destruct (key_eq_dec k0 k) as [->|Hk0].
        -- rewrite bget_bpop_same by exact H1. right. rewrite last_for_app_same.
           specialize (H4 k). rewrite Eb in H4. symmetry. exact H4.
        -- rewrite bget_bpop_other by exact Hk0.
           rewrite (last_for_app_other k0 k t) by (apply key_eqb_false; exact Hk0). apply H4.
      * exact H5.
      * intros e He. apply H6. apply in_app_or in He. apply in_or_app. destruct He as [He|He].
        -- left. apply (bpop_entries _ _ _ H1 He).
        -- right. right. exact He.
      * intros e He. apply in_app_or in He. destruct He as [He|[<-|[]]]; [exact (H7 e He)|exact Hcur_sent].
      * rewrite tags_app. cbn. apply NoDup_app_single; assumption.
      * intros e He. rewrite tags_app. cbn. intros Hin. apply in_app_or in Hin.
        assert (He' : In e (f_buf s ++ (k, t) :: f_snap s) /\ fst e <> k).
        { apply in_app_or in He. destruct He as [He|He].
          - destruct (bpop_entries _ _ _ H1 He) as [Hb Hk]. split; [apply in_or_app; left; exact Hb|exact Hk].
          - split; [apply in_or_app; right; right; exact He|apply Hsnap_key; exact He]. }
        destruct He' as [Hlive Hk]. destruct Hin as [Hin|[Hin|[]]].
        -- exact (H9 e Hlive Hin).
        -- apply (Hother_tag e (H6 e Hlive) Hk). symmetry. exact Hin.
    + (* replaced by a concurrent send: keep the new message *)
      constructor; unfold pending, cur_list; cbn [f_buf f_snap f_cur f_written f_sent app].
      * exact H1.
      * cbn in H2. inversion H2; assumption.
      * intros e He. apply H3. right. exact He.
      * intros k0. destruct (key_eq_dec k0 k) as [->|Hk0].
        -- rewrite Eb. specialize (H4 k). rewrite Eb in H4. exact H4.
        -- rewrite (last_for_app_other k0 k t) by (apply key_eqb_false; exact Hk0). apply H4.
      * exact H5.
      * intros e He. apply H6. apply in_app_or in He. apply in_or_app.
        destruct He as [He|He]; [left; exact He|right; right; exact He].
      * intros e He. apply in_app_or in He. destruct He as [He|[<-|[]]]; [exact (H7 e He)|exact Hcur_sent].
      * rewrite tags_app. cbn. apply NoDup_app_single; assumption.
      * intros e He. rewrite tags_app. cbn. intros Hin. apply in_app_or in Hin.
        assert (Hlive : In e (f_buf s ++ (k, t) :: f_snap s)).
        { apply in_app_or in He. apply in_or_app. destruct He as [He|He]; [left; exact He|right; right; exact He]. }
        destruct Hin as [Hin|[Hin|[]]]; [exact (H9 e Hlive Hin)|].
        apply in_app_or in He. destruct He as [He|He].
        -- destruct e as [k' te]. cbn in Hin. subst te.
           assert (k' = k) by (eapply tag_unique; [exact H5|apply H6; exact Hlive|exact Hcur_sent]). subst k'.
           rewrite (In_bget _ _ _ H1 He) in Eb. injection Eb as ->. apply Hne. reflexivity.
        -- apply (Hother_tag e (H6 e Hlive) (Hsnap_key e He)). symmetry. exact Hin.
  - (* the write failed: the flush ends, nothing is popped *)
    constructor; unfold pending, cur_list; cbn [f_buf f_snap f_cur f_written f_sent app].
    + exact H1.
    + constructor.
    + intros e [].
    + exact H4.
    + exact H5.
    + intros e He. apply H6. rewrite app_nil_r in He. apply in_or_app. left. exact He.
    + exact H7.
    + exact H8.
    + intros e He. apply H9. rewrite app_nil_r in He. apply in_or_app. left. exact He.
Qed.

(* ---------- every schedule ---------- *)

Definition sent_tags (ops : list fop) : list Z :=
  flat_map (fun o => match o with FSend _ t => [t] | _ => [] end) ops.

(* the operations of the theorem: every racing send parks (its node is flagged sleeping for the
   whole flush).  Sends to a node flagged awake while a flush is in progress (FDirectBegin /
   FDirectEnd) are outside it: see direct_race_refuted *)
Definition parks_only (o : fop) : Prop :=
  match o with FDirectBegin _ _ | FDirectEnd _ => False | _ => True end.

Lemma FInv_step s o : FInv s -> parks_only o -> (forall k t, o = FSend k t -> ~ In t (tags (f_sent s))) -> FInv (fstep true s o).
Proof.
  intros Hi Hp Hf. destruct o as [k t|n| |ok|k t|ok]; try contradiction.
  - apply FInv_send; [exact Hi|]. apply (Hf k t). reflexivity.
  - apply FInv_wake. exact Hi.
  - apply FInv_begin. exact Hi.
  - apply FInv_end. exact Hi.
Qed.

Lemma sent_step s o :
  parks_only o ->
  tags (f_sent (fstep true s o)) = tags (f_sent s) ++ match o with FSend _ t => [t] | _ => [] end.
Proof.
  intros Hp. destruct o as [k t|n| |ok|k t|ok]; try contradiction; cbn [fstep].
  - cbn. rewrite tags_app. reflexivity.
  - destruct (f_cur s); [rewrite app_nil_r; reflexivity|]. destruct (f_snap s); rewrite app_nil_r; reflexivity.
  - destruct (f_cur s); [rewrite app_nil_r; reflexivity|]. destruct (f_snap s); rewrite app_nil_r; reflexivity.
  - destruct (f_cur s) as [[k t]|]; [|rewrite app_nil_r; reflexivity].
    destruct ok; rewrite app_nil_r; reflexivity.
Qed.

Theorem FInv_run ops : forall s,
  Forall parks_only ops ->
  FInv s -> NoDup (tags (f_sent s) ++ sent_tags ops) ->
  FInv (frun true s ops) /\ tags (f_sent (frun true s ops)) = tags (f_sent s) ++ sent_tags ops.
Proof.
  induction ops as [|o r IH]; intros s Hpo Hi Hn; cbn [frun fold_left sent_tags flat_map].
  - split; [exact Hi|rewrite app_nil_r; reflexivity].
  - inversion Hpo as [|? ? Hp1 Hp2]; subst.
    assert (Hstep : FInv (fstep true s o)).
    { apply FInv_step; [exact Hi|exact Hp1|]. intros k t ->. cbn in Hn.
      intros Hin. apply NoDup_remove_2 in Hn. apply Hn. apply in_or_app. left. exact Hin. }
    specialize (IH (fstep true s o) Hp2 Hstep). rewrite (sent_step s o Hp1) in IH.
    rewrite <- app_assoc in IH. destruct (IH Hn) as [G1 G2]. split; [exact G1|].
    unfold frun in G2. rewrite G2. reflexivity.
Qed.

(* ---------- quiescence: finish the flush, wake every node once more ---------- *)

Definition fmeasure (s : fstate) : nat :=
  (2 * List.length (f_snap s) + match f_cur s with Some _ => 1 | None => 0 end)%nat.

Lemma drain_inv (Q : fstate -> Prop) :
  (forall s e r, Q s -> f_cur s = None -> f_snap s = e :: r -> Q (fstep true s FBegin)) ->
  (forall s e, Q s -> f_cur s = Some e -> Q (fstep true s (FEnd true))) ->
  forall fuel s, Q s -> (fmeasure s <= fuel)%nat ->
    Q (drain fuel true s) /\ f_cur (drain fuel true s) = None /\ f_snap (drain fuel true s) = [].
Proof.
  intros Hb He. induction fuel as [|fuel IH]; intros s Hq Hm.
  - unfold fmeasure in Hm. destruct (f_cur s) eqn:Ec; [lia|]. destruct (f_snap s) eqn:Es; [|cbn in Hm; lia].
    cbn. rewrite Ec, Es. tauto.
  - cbn [drain]. destruct (f_cur s) as [e|] eqn:Ec.
    + apply IH; [eapply He; eassumption|].
      unfold fmeasure in *. rewrite Ec in Hm. cbn [fstep]. rewrite Ec. destruct e as [k t]. cbn. lia.
    + destruct (f_snap s) as [|e r] eqn:Es; [rewrite Ec, Es; tauto|].
      apply IH; [eapply Hb; eassumption|].
      unfold fmeasure in *. rewrite Ec, Es in Hm. cbn [fstep]. rewrite Ec, Es. cbn in *. lia.
Qed.

Lemma drain_fuel_ok s : (fmeasure s <= drain_fuel s)%nat.
Proof. unfold fmeasure, drain_fuel. destruct (f_cur s); lia. Qed.

(* while draining without concurrent sends *)
Record Draining (n : Z) (sent0 : list entry) (cleared : list Z) (s : fstate) : Prop := {
  dr_inv : FInv s;
  dr_sent : f_sent s = sent0;
  dr_exact : forall e, In e (pending s) -> bget (f_buf s) (fst e) = Some (snd e);
  dr_cov : forall k t, bget (f_buf s) k = Some t -> node_of (k, t) = n -> In (k, t) (pending s);
  dr_cleared : forall k t, bget (f_buf s) k = Some t -> ~ In (node_of (k, t)) cleared
}.

Lemma Draining_begin n sent0 cl s e r :
  Draining n sent0 cl s -> f_cur s = None -> f_snap s = e :: r -> Draining n sent0 cl (fstep true s FBegin).
Proof.
  intros [H1 H2 H3 H4 H5] Ec Es. pose proof (FInv_begin s H1) as Hi.
  cbn [fstep] in *. rewrite Ec, Es in *. constructor; unfold pending, cur_list in *;
    cbn [f_buf f_snap f_cur f_sent app] in *; rewrite ?Ec, ?Es in *; cbn [app] in *; assumption.
Qed.

Lemma Draining_end n sent0 cl s e :
  Draining n sent0 cl s -> f_cur s = Some e -> Draining n sent0 cl (fstep true s (FEnd true)).
Proof.
  intros [H1 H2 H3 H4 H5] Ec. pose proof (FInv_end s true H1) as Hi. destruct e as [k t].
  assert (Eb : bget (f_buf s) k = Some t).
  { apply (H3 (k, t)). unfold pending, cur_list. rewrite Ec. left. reflexivity. }
  assert (Hsnap_key : forall e, In e (f_snap s) -> fst e <> k).
  { intros e He Hk. pose proof (fi_pend_nodup _ H1) as Hn. unfold pending, cur_list in Hn. rewrite Ec in Hn.
    cbn in Hn. inversion Hn as [|x l Hnot Hnd Heq]. apply Hnot. rewrite <- Hk. apply (in_map fst). exact He. }
  cbn [fstep] in *. rewrite Ec in *. rewrite Eb in *. rewrite Z.eqb_refl in *.
  constructor; unfold pending, cur_list in *; cbn [f_buf f_snap f_cur f_sent app] in *; rewrite ?Ec in *; cbn [app] in *.
  - exact Hi.
  - exact H2.
  - intros e He. rewrite bget_bpop_other by (apply Hsnap_key; exact He). apply H3. right. exact He.
  - intros k0 t0 Hg Hnode. destruct (key_eq_dec k0 k) as [->|Hne].
    + rewrite bget_bpop_same in Hg by (apply (fi_buf_nodup _ H1)). discriminate.
    + rewrite bget_bpop_other in Hg by exact Hne. destruct (H4 k0 t0 Hg Hnode) as [E|Hin]; [|exact Hin].
      injection E as -> _. contradiction.
  - intros k0 t0 Hg. destruct (key_eq_dec k0 k) as [->|Hne].
    + rewrite bget_bpop_same in Hg by (apply (fi_buf_nodup _ H1)). discriminate.
    + rewrite bget_bpop_other in Hg by exact Hne. apply (H5 k0 t0 Hg).
Qed.

Definition idle (s : fstate) : Prop := f_cur s = None /\ f_snap s = [].

Lemma wake_drain n cl s :
  FInv s -> idle s -> (forall k t, bget (f_buf s) k = Some t -> ~ In (node_of (k, t)) cl) ->
  let s1 := fstep true s (FWake n) in
  let s' := drain (drain_fuel s1) true s1 in
  FInv s' /\ idle s' /\ f_sent s' = f_sent s
  /\ (forall k t, bget (f_buf s') k = Some t -> ~ In (node_of (k, t)) (n :: cl)).
Proof.
  intros Hi [Ec Es] Hcl. cbv zeta.
  assert (Hd : Draining n (f_sent s) cl (fstep true s (FWake n))).
  { pose proof (FInv_wake s n Hi) as Hw. cbn [fstep] in *. rewrite Ec, Es in *.
    constructor; unfold pending, cur_list; cbn [f_buf f_snap f_cur f_sent app].
    - exact Hw.
    - reflexivity.
    - intros [k t] He. apply filter_In in He. destruct He as [He _]. cbn [fst snd].
      apply In_bget; [apply (fi_buf_nodup _ Hi)|exact He].
    - intros k t Hg Hn. apply filter_In. split; [apply bget_In; exact Hg|]. rewrite Hn. apply Z.eqb_refl.
    - exact Hcl. }
  destruct (drain_inv (Draining n (f_sent s) cl) (Draining_begin n (f_sent s) cl)
              (fun x e => Draining_end n (f_sent s) cl x e)
              (drain_fuel (fstep true s (FWake n))) _ Hd (drain_fuel_ok _)) as [[G1 G2 G3 G4 G5] [Gc Gs]].
  split; [exact G1|]. split; [split; assumption|]. split; [exact G2|].
  intros k t Hg [Hn|Hin].
  - specialize (G4 k t Hg (eq_sym Hn)). unfold pending, cur_list in G4. rewrite Gc, Gs in G4. exact G4.
  - exact (G5 k t Hg Hin).
Qed.

Lemma sent_step_eq_begin s : f_sent (fstep true s FBegin) = f_sent s.
Proof. cbn [fstep]. destruct (f_cur s); [reflexivity|]. destruct (f_snap s); reflexivity. Qed.

Lemma sent_step_eq_end s : f_sent (fstep true s (FEnd true)) = f_sent s.
Proof. cbn [fstep]. destruct (f_cur s) as [[k t]|]; reflexivity. Qed.

Lemma drain_plain s :
  FInv s -> let s' := drain (drain_fuel s) true s in FInv s' /\ idle s' /\ f_sent s' = f_sent s.
Proof.
  intros Hi. cbv zeta.
  destruct (drain_inv (fun x => FInv x /\ f_sent x = f_sent s)
              (fun x e r H Ec Es => conj (FInv_begin x (proj1 H))
                 (eq_trans (eq_trans (sent_step_eq_begin x) eq_refl) (proj2 H)))
              (fun x e H Ec => conj (FInv_end x true (proj1 H)) (eq_trans (sent_step_eq_end x) (proj2 H)))
              (drain_fuel s) s (conj Hi eq_refl) (drain_fuel_ok s)) as [[G1 G2] [Gc Gs]].
  split; [exact G1|]. split; [split; assumption|exact G2].
Qed.

(* ---------- the theorems of C09 ---------- *)

Lemma quiesce_spec nodes : forall s cl,
  FInv s -> idle s -> (forall k t, bget (f_buf s) k = Some t -> ~ In (node_of (k, t)) cl) ->
  let s' := fold_left (fun st n => let st1 := fstep true st (FWake n) in drain (drain_fuel st1) true st1) nodes s in
  FInv s' /\ idle s' /\ f_sent s' = f_sent s
  /\ (forall k t, bget (f_buf s') k = Some t -> ~ In (node_of (k, t)) (cl ++ nodes)).
Proof.
  induction nodes as [|n r IH]; intros s cl Hi Hidle Hcl; cbn [fold_left].
  - rewrite app_nil_r. split; [exact Hi|split; [exact Hidle|split; [reflexivity|exact Hcl]]].
  - destruct (wake_drain n cl s Hi Hidle Hcl) as [G1 [G2 [G3 G4]]]. cbv zeta in *.
    specialize (IH _ (n :: cl) G1 G2 G4). cbv zeta in IH. destruct IH as [K1 [K2 [K3 K4]]].
    split; [exact K1|]. split; [exact K2|]. split; [congruence|].
    intros k t Hg Hin. apply (K4 k t Hg). apply in_app_or in Hin. apply in_or_app.
    destruct Hin as [Hin|[Hin|Hin]]; [left; right; exact Hin|left; left; exact Hin|right; exact Hin].
Qed.

(* No lost update: after ANY schedule of sends racing with flushes (including
   failing writes), once the flush in progress has finished and every node has
   woken once more, the last value written for each key is the last value sent *)
Theorem no_lost_update ops nodes :
  Forall parks_only ops -> NoDup (sent_tags ops) ->
  let s := quiesce true (frun true finit ops) nodes in
  forall k t, In (node_of (k, t)) nodes ->
    last_for k (f_sent s) = Some t -> last_for k (f_written s) = Some t.
Proof.
  intros Hpo Hn. cbv zeta. intros k t Hnode Hlast.
  destruct (FInv_run ops finit Hpo FInv_init Hn) as [Hi _].
  unfold quiesce in *. destruct (drain_plain _ Hi) as [G1 [G2 G3]]. cbv zeta in *.
  destruct (quiesce_spec nodes _ [] G1 G2 (fun _ _ _ H => H)) as [K1 [K2 [K3 K4]]]. cbv zeta in *.
  cbn [app] in K4.
  set (s' := fold_left _ nodes _) in *.
  pose proof (fi_last _ K1 k) as Hl. destruct (bget (f_buf s') k) as [t'|] eqn:Eb.
  - exfalso. apply (K4 k t' Eb). exact Hnode.
  - destruct Hl as [Hl|Hl]; [congruence|]. rewrite Hl. exact Hlast.
Qed.

(* every write carries a value that was sent, and no value is written more often
   than it was sent (tags are unique per send) *)
Theorem writes_were_sent ops :
  Forall parks_only ops -> NoDup (sent_tags ops) ->
  let s := frun true finit ops in
  incl (f_written s) (f_sent s) /\ NoDup (tags (f_written s)).
Proof.
  intros Hpo Hn. destruct (FInv_run ops finit Hpo FInv_init Hn) as [Hi _].
  split; [apply (fi_written_sent _ Hi)|apply (fi_written_nodup _ Hi)].
Qed.

(* the same holds at quiescence *)
Theorem writes_were_sent_quiesced ops nodes :
  Forall parks_only ops -> NoDup (sent_tags ops) ->
  let s := quiesce true (frun true finit ops) nodes in
  incl (f_written s) (f_sent s) /\ NoDup (tags (f_written s))
  /\ tags (f_sent s) = sent_tags ops.
Proof.
  intros Hpo Hn. cbv zeta. destruct (FInv_run ops finit Hpo FInv_init Hn) as [Hi Hs].
  unfold quiesce. destruct (drain_plain _ Hi) as [G1 [G2 G3]]. cbv zeta in *.
  destruct (quiesce_spec nodes _ [] G1 G2 (fun _ _ _ H => H)) as [K1 [K2 [K3 K4]]]. cbv zeta in *.
  split; [apply (fi_written_sent _ K1)|]. split; [apply (fi_written_nodup _ K1)|].
  rewrite K3, G3. exact Hs.
Qed.

(* with the unconditional pop of the original code the update IS lost: the three
   step witness of D8 *)
Theorem lost_update_refuted :
  exists ops nodes k t,
    NoDup (sent_tags ops) /\ In (node_of (k, t)) nodes
    /\ let s := quiesce false (frun false finit ops) nodes in
       last_for k (f_sent s) = Some t /\ last_for k (f_written s) <> Some t.
Proof.
  exists [FSend (3, 1, 2) 100; FWake 3; FBegin; FSend (3, 1, 2) 101; FEnd true], [3], (3, 1, 2), 101.
  split; [repeat constructor; cbn; intuition discriminate|].
  split; [left; reflexivity|]. vm_compute. split; [reflexivity|discriminate].
Qed.

(* OUTSIDE the theorem: a command is parked, the node is flagged awake again (it presented itself),
   the application sends a newer value — written directly, the write suspends — and the node's
   wake signal arrives: the flush writes the stale parked value after the newer one.
   The repaired code (guarded pops on both paths) still does this: a known finding. *)
Theorem direct_race_refuted :
  exists ops nodes k t,
    In (node_of (k, t)) nodes
    /\ let s := quiesce true (frun true finit ops) nodes in
       last_for k (f_sent s) = Some t /\ last_for k (f_written s) <> Some t /\ f_buf s = [].
Proof.
  exists [FSend (1, 0, 2) 100; FDirectBegin (1, 0, 2) 101; FWake 1; FBegin; FDirectEnd true; FEnd true], [1], (1, 0, 2), 101.
  split; [left; reflexivity|]. vm_compute. split; [reflexivity|split; [discriminate|reflexivity]].
Qed.

Example no_lost_update_example :
  let ops := [FSend (3, 1, 2) 100; FSend (3, 0, 2) 200; FWake 3; FBegin; FSend (3, 1, 2) 101;
              FSend (3, 0, 2) 201; FEnd true; FBegin; FEnd false; FSend (3, 1, 2) 102] in
  let s := quiesce true (frun true finit ops) [3] in
  NoDup (sent_tags ops)
  /\ f_written s = [((3, 1, 2), 100); ((3, 1, 2), 102); ((3, 0, 2), 201)]
  /\ f_buf s = [].
Proof. split; [repeat constructor; cbn; intuition discriminate|]. vm_compute. split; reflexivity. Qed.
