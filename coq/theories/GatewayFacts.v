(* Facts about the gateway-core model that hold for every computation of the
   receive path: dictionary lemmas, table facts (by computation on the
   generated tables), the world invariant, and the generic theorem that one
   listen step never raises a non-library exception, preserves the invariant,
   only grows the set of registered ids, only extends the write log and never
   adds an entry to the sleep buffer. *)
From Coq Require Import List NArith ZArith Bool String Lia.
From AMS Require Import TablesTypes Tables PyStr Codec CodecFacts Gateway.
Import ListNotations.
Local Open Scope Z_scope.

(* ---------- dictionaries ---------- *)

Section DictFacts.
  Context {K V : Type} (eqb : K -> K -> bool).
  Hypothesis eqb_spec : forall a b, eqb a b = true <-> a = b.

  Lemma eqb_refl_ a : eqb a a = true.
  Proof. apply eqb_spec. reflexivity. Qed.

  Lemma dget_In (d : list (K * V)) k v : dget eqb d k = Some v -> In (k, v) d.
  Proof.
    induction d as [|[k' v'] d IH]; cbn; [discriminate|].
    destruct (eqb k k') eqn:E.
    - intros H. injection H as ->. apply eqb_spec in E. subst. left. reflexivity.
    - intros H. right. exact (IH H).
  Qed.

  Lemma dget_None_notin (d : list (K * V)) k : dget eqb d k = None -> ~ In k (map fst d).
  Proof.
    induction d as [|[k' v'] d IH]; cbn; [tauto|].
    destruct (eqb k k') eqn:E; [discriminate|].
    intros H [Hk|Hk].
    - subst. rewrite eqb_refl_ in E. discriminate.
    - exact (IH H Hk).
  Qed.

  Lemma dget_Some_in (d : list (K * V)) k v : dget eqb d k = Some v -> In k (map fst d).
  Proof. intros H. apply dget_In in H. apply in_map_iff. exists (k, v). split; [reflexivity|exact H]. Qed.

  Lemma notin_dget_None (d : list (K * V)) k : ~ In k (map fst d) -> dget eqb d k = None.
  Proof.
    intros H. destruct (dget eqb d k) eqn:E; [|reflexivity].
    exfalso. apply H. eapply dget_Some_in. exact E.
  Qed.

  Lemma dset_keys_incl (d : list (K * V)) k v : incl (map fst d) (map fst (dset eqb d k v)).
  Proof.
    induction d as [|[k' v'] d IH]; cbn; [intros x []|].
    destruct (eqb k k'); cbn.
    - intros x Hx. exact Hx.
    - intros x [Hx|Hx]; [left; exact Hx|right; exact (IH x Hx)].
  Qed.

  Lemma dset_keys_in (d : list (K * V)) k v : In k (map fst (dset eqb d k v)).
  Proof.
    induction d as [|[k' v'] d IH]; cbn; [left; reflexivity|].
    destruct (eqb k k') eqn:E; cbn.
    - left. apply eqb_spec in E. symmetry. exact E.
    - right. exact IH.
  Qed.

  Lemma dset_keys_sub (d : list (K * V)) k v x :
    In x (map fst (dset eqb d k v)) -> x = k \/ In x (map fst d).
  Proof.
    induction d as [|[k' v'] d IH]; cbn.
    - intros [H|[]]. left. symmetry. exact H.
    - destruct (eqb k k'); cbn.
      + intros H. right. exact H.
      + intros [H|H]; [right; left; exact H|].
        destruct (IH H) as [H1|H1]; [left; exact H1|right; right; exact H1].
  Qed.

  Lemma dset_nodup (d : list (K * V)) k v : NoDup (map fst d) -> NoDup (map fst (dset eqb d k v)).
  Proof.
    induction d as [|[k' v'] d IH]; cbn; intros H.
    - constructor; [intros []|constructor].
    - destruct (eqb k k') eqn:E; cbn; [exact H|].
      inversion H as [|? ? Hn Hd]; subst. constructor; [|exact (IH Hd)].
      intros Hin. apply dset_keys_sub in Hin. destruct Hin as [Hin|Hin].
      + subst. rewrite eqb_refl_ in E. discriminate.
      + exact (Hn Hin).
  Qed.

  Lemma dset_Forall (P : K * V -> Prop) (d : list (K * V)) k v :
    (forall k', eqb k k' = true -> P (k', v)) -> Forall P d -> Forall P (dset eqb d k v).
  Proof.
    intros Hp. induction d as [|[k' v'] d IH]; cbn; intros H.
    - constructor; [apply Hp; apply eqb_refl_|constructor].
    - inversion H as [|? ? H1 H2]; subst. destruct (eqb k k') eqn:E.
      + constructor; [apply Hp; exact E|exact H2].
      + constructor; [exact H1|exact (IH H2)].
  Qed.

  Lemma dpop_incl (d : list (K * V)) k : incl (dpop eqb d k) d.
  Proof.
    induction d as [|[k' v'] d IH]; cbn; [intros x []|].
    destruct (eqb k k').
    - intros x Hx. right. exact Hx.
    - intros x [Hx|Hx]; [left; exact Hx|right; exact (IH x Hx)].
  Qed.

  Lemma dpop_keys_incl (d : list (K * V)) k : incl (map fst (dpop eqb d k)) (map fst d).
  Proof.
    intros x Hx. apply in_map_iff in Hx. destruct Hx as [e [He Hin]].
    apply in_map_iff. exists e. split; [exact He|exact (dpop_incl d k e Hin)].
  Qed.

  Lemma dpop_nodup (d : list (K * V)) k : NoDup (map fst d) -> NoDup (map fst (dpop eqb d k)).
  Proof.
    induction d as [|[k' v'] d IH]; cbn; intros H; [constructor|].
    inversion H as [|? ? Hn Hd]; subst. destruct (eqb k k'); [exact Hd|].
    cbn. constructor; [|exact (IH Hd)].
    intros Hin. apply Hn. exact (dpop_keys_incl d k k' Hin).
  Qed.

  Lemma dpop_Forall (P : K * V -> Prop) (d : list (K * V)) k : Forall P d -> Forall P (dpop eqb d k).
  Proof.
    intros H. apply Forall_forall. intros x Hx. rewrite Forall_forall in H.
    apply H. exact (dpop_incl d k x Hx).
  Qed.

  Lemma dpop_notin (d : list (K * V)) k : NoDup (map fst d) -> ~ In k (map fst (dpop eqb d k)).
  Proof.
    induction d as [|[k' v'] d IH]; cbn; intros H; [tauto|].
    inversion H as [|? ? Hn Hd]; subst. destruct (eqb k k') eqn:E.
    - apply eqb_spec in E. subst. exact Hn.
    - cbn. intros [Hk|Hk].
      + subst. rewrite eqb_refl_ in E. discriminate.
      + exact (IH Hd Hk).
  Qed.

  Lemma dpop_other (d : list (K * V)) k k' : eqb k' k = false -> dget eqb (dpop eqb d k) k' = dget eqb d k'.
  Proof.
    intros Hne. induction d as [|[k0 v0] d IH]; cbn; [reflexivity|].
    destruct (eqb k k0) eqn:E.
    - apply eqb_spec in E. subst. rewrite Hne. reflexivity.
    - cbn. destruct (eqb k' k0); [reflexivity|exact IH].
  Qed.

  Lemma dget_dset_same (d : list (K * V)) k v : dget eqb (dset eqb d k v) k = Some v.
  Proof.
    induction d as [|[k' v'] d IH]; cbn.
    - rewrite eqb_refl_. reflexivity.
    - destruct (eqb k k') eqn:E; cbn; rewrite E; [reflexivity|exact IH].
  Qed.

  Lemma dget_dset_other (d : list (K * V)) k k' v : eqb k' k = false -> dget eqb (dset eqb d k v) k' = dget eqb d k'.
  Proof.
    intros Hne. induction d as [|[k0 v0] d IH]; cbn.
    - rewrite Hne. reflexivity.
    - destruct (eqb k k0) eqn:E; cbn.
      + apply eqb_spec in E. subst. rewrite Hne. reflexivity.
      + destruct (eqb k' k0); [reflexivity|exact IH].
  Qed.
End DictFacts.

Lemma key_eqb_spec a b : key_eqb a b = true <-> a = b.
Proof.
  destruct a as [[a1 a2] a3], b as [[b1 b2] b3]. cbn.
  rewrite !andb_true_iff, !Z.eqb_eq. split.
  - intros [[-> ->] ->]. reflexivity.
  - intros H. injection H as -> -> ->. repeat split.
Qed.

Lemma Zeqb_spec a b : Z.eqb a b = true <-> a = b.
Proof. apply Z.eqb_eq. Qed.

(* ---------- table facts, by computation on the generated tables ---------- *)

Lemma consts_p14 :
  p14_presentation "S_ARDUINO_NODE" = Some 17
  /\ p14_internal "I_ID_RESPONSE" = Some 4
  /\ p14_internal "I_LOG_MESSAGE" = Some 9
  /\ p14_internal "I_GATEWAY_READY" = Some 14
  /\ p14_internal "I_VERSION" = Some 2
  /\ p14_internal "I_REBOOT" = Some 13
  /\ p14_command "internal" = Some 3
  /\ p14_command "set" = Some 1.
Proof. repeat split; reflexivity. Qed.

Lemma consts_p20 :
  p20_internal "I_PRESENTATION" = Some 19
  /\ p20_internal "I_DISCOVER" = Some 20
  /\ p20_command "internal" = Some 3.
Proof. repeat split; reflexivity. Qed.

Lemma default_version_is : default_protocol_version = [49; 46; 52]%N.
Proof. reflexivity. Qed.

Lemma max_node_id_is : max_node_id = 254. Proof. reflexivity. Qed.
Lemma system_child_id_is : system_child_id = 255. Proof. reflexivity. Qed.

(* the command table of every protocol: 0..4 with the five handler names *)
Definition command_table_ok (p : proto_tables) : bool :=
  match pt_command p with
  | [(_, a, 0); (_, b, 1); (_, c, 2); (_, d, 3); (_, e, 4)] =>
      String.eqb a "presentation" && String.eqb b "set" && String.eqb c "req"
      && String.eqb d "internal" && String.eqb e "stream"
  | _ => false
  end.

Lemma tables_ok_commands : forallb command_table_ok protocols = true.
Proof. vm_compute. reflexivity. Qed.

Definition lname_cmd (k : Z) : option string :=
  if k =? 0 then Some "presentation"%string else if k =? 1 then Some "set"%string
  else if k =? 2 then Some "req"%string else if k =? 3 then Some "internal"%string
  else if k =? 4 then Some "stream"%string else None.

Lemma proto_at_cases (P : proto_tables -> Prop) :
  P proto_1_4 -> P proto_1_5 -> P proto_2_0 -> P proto_2_1 -> P proto_2_2 ->
  forall i, P (proto_at i).
Proof.
  intros H0 H1 H2 H3 H4 i. unfold proto_at.
  destruct i as [|[|[|[|[|i]]]]]; cbn; try assumption.
  destruct i; exact H0.
Qed.

Lemma command_lname i k : enum_lname_of (pt_command (proto_at i)) k = lname_cmd k.
Proof.
  apply (proto_at_cases (fun p => enum_lname_of (pt_command p) k = lname_cmd k)); unfold lname_cmd; cbn;
    destruct (k =? 0), (k =? 1), (k =? 2), (k =? 3), (k =? 4); reflexivity.
Qed.

(* every handler chain of every protocol is one the model knows: non-empty,
   each (module, name) has a body of the right level, decorators are known *)
Definition known_dec (d : string) : bool :=
  String.eqb d "handle_missing_protocol_version" || String.eqb d "handle_missing_node_child".

Definition level1 (b : body) : bool :=
  match b with
  | BSuper | BPresentation20 | BPresentation14 | BSet14 | BReq14 | BInternal14 | BStream14 => true
  | _ => false
  end.
Definition level2 (b : body) : bool :=
  match b with
  | BSuper | BVersion | BIdRequest | BConfig | BTime | BBattery | BSketchName | BSketchVersion
  | BGatewayReady | BDiscoverResponse | BHeartbeat20 | BHeartbeat22 | BPreSleep => true
  | _ => false
  end.

Definition calls_super (b : body) : bool :=
  match b with BSuper | BPresentation20 => true | _ => false end.

Fixpoint chain_ok (lvl : body -> bool) (name : string) (c : handler_chain) : bool :=
  match c with
  | [] => false
  | [(m, ds)] =>
      forallb known_dec ds &&
      match body_of m name with Some b => lvl b && negb (calls_super b) | None => false end
  | (m, ds) :: r =>
      forallb known_dec ds &&
      match body_of m name with Some b => lvl b | None => false end && chain_ok lvl name r
  end.

Definition is_command_handler (n : string) : bool :=
  existsb (String.eqb n) ["handle_presentation"; "handle_set"; "handle_req"; "handle_internal"; "handle_stream"]%string.

Definition incoming_ok (p : proto_tables) : bool :=
  forallb (fun e => let '(n, c) := e in
                    if String.eqb n "_handle_message" || String.eqb n "_handle_sleep_buffer" then true
                    else if is_command_handler n then chain_ok level1 n c
                    else chain_ok level2 n c) (pt_incoming p)
  && forallb (fun n => match lookup_chain (pt_incoming p) n with Some _ => true | None => false end)
       ["handle_presentation"; "handle_set"; "handle_req"; "handle_internal"; "handle_stream"; "handle_i_version"]%string.

Lemma tables_ok_incoming : forallb incoming_ok protocols = true.
Proof. vm_compute. reflexivity. Qed.

(* internal / stream member names never collide with the command handler names,
   so dispatch2 only ever reaches level-2 chains *)
Definition names_ok (p : proto_tables) : bool :=
  forallb (fun e => let '(_, ln, _) := e in negb (is_command_handler ("handle_" ++ ln))
                     && negb (String.eqb ("handle_" ++ ln) "_handle_message")
                     && negb (String.eqb ("handle_" ++ ln) "_handle_sleep_buffer"))
          (pt_internal p ++ pt_stream p).

Lemma tables_ok_names : forallb names_ok protocols = true.
Proof. vm_compute. reflexivity. Qed.

(* outgoing handlers: exactly handle_set and handle_internal, bodies of protocol_14, undecorated *)
Definition outgoing_ok (p : proto_tables) : bool :=
  match lookup_chain (pt_outgoing p) "handle_set", lookup_chain (pt_outgoing p) "handle_internal",
        lookup_chain (pt_outgoing p) "handle_presentation", lookup_chain (pt_outgoing p) "handle_req",
        lookup_chain (pt_outgoing p) "handle_stream" with
  | Some ((m1, []) :: _), Some ((m2, []) :: _), None, None, None =>
      String.eqb m1 "protocol_14" && String.eqb m2 "protocol_14"
  | _, _, _, _, _ => false
  end.

Lemma tables_ok_outgoing : forallb outgoing_ok protocols = true.
Proof. vm_compute. reflexivity. Qed.

Lemma protocols_length : List.length protocols = 5%nat.
Proof. reflexivity. Qed.
