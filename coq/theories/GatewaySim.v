(* C19 as a SIMULATION: two gateways whose states agree on everything but the
   reported version / active protocol (pinned to protocols i and j) stay in that
   relation — or become equal, once a version report has been processed by both —
   and produce the same results and the same write log, for every line on which
   the two protocols' tables agree (same decoding, same handler chains for the
   names this message is dispatched to).  Which (i, j, message) agree is a
   computation on the generated tables (agree_b below). *)
From Coq Require Import List NArith ZArith Bool String Lia.
From AMS Require Import TablesTypes Tables PyStr Codec CodecFacts Gateway GatewayFacts GatewayInv GatewaySteps GatewayReg.
Import ListNotations.
Local Open Scope Z_scope.

Definition known (o : option str) : bool := match o with Some _ => true | None => false end.

(* equal except for the reported version / the active protocol *)
Definition sbv (t t' : st) : Prop :=
  w_nodes (s_w t) = w_nodes (s_w t') /\ w_internal (s_w t) = w_internal (s_w t')
  /\ w_set (s_w t) = w_set (s_w t') /\ w_metric (s_w t) = w_metric (s_w t')
  /\ s_log t = s_log t' /\ s_faults t = s_faults t'
  /\ known (w_pv (s_w t)) = known (w_pv (s_w t')).

(* the unsupported-message error carries the reported version string *)
Definition norm_exn (e : exn) : exn :=
  match e with EUnsupported m _ => EUnsupported m [] | _ => e end.

Definition res_rel {A} (r r' : A + exn) : Prop :=
  match r, r' with
  | inl x, inl y => x = y
  | inr e, inr e' => norm_exn e = norm_exn e'
  | _, _ => False
  end.

Section Sim.
  Variable bat : str -> option Z.
  Variable vlt : str -> str -> option bool.
  Variable now : Z.
  Variables i j : nat.

  (* pinned to (i, j), or equal *)
  Definition R (t t' : st) : Prop :=
    (sbv t t' /\ w_proto (s_w t) = i /\ w_proto (s_w t') = j) \/ t = t'.

  Definition out_rel {A} (o o' : (A + exn) * st) : Prop :=
    res_rel (fst o) (fst o') /\ R (snd o) (snd o').

  Definition sim_at {A} (c : M A) (s s' : st) : Prop := out_rel (c s) (c s').
  Definition sim {A} (c : M A) : Prop := forall s s', R s s' -> sim_at c s s'.

  Lemma res_rel_refl {A} (r : A + exn) : res_rel r r.
  Proof. destruct r; reflexivity. Qed.

  Lemma out_refl {A} (c : M A) s : out_rel (c s) (c s).
  Proof. split; [apply res_rel_refl|right; reflexivity]. Qed.

  (* to prove [sim c] it is enough to look at pinned pairs of states *)
  Lemma sim_pinned {A} (c : M A) :
    (forall s s', sbv s s' -> w_proto (s_w s) = i -> w_proto (s_w s') = j -> out_rel (c s) (c s')) -> sim c.
  Proof. intros H s s' [[Hs [Hi Hj]]| ->]; [apply H; assumption|apply out_refl]. Qed.

  Lemma sim_ret {A} (x : A) : sim (ret x).
  Proof. intros s s' H. split; [reflexivity|exact H]. Qed.

  Lemma sim_raise {A} e : sim (@raise A e).
  Proof. intros s s' H. split; [reflexivity|exact H]. Qed.

  Lemma sim_bind_at {A B} (m : M A) (f : A -> M B) s s' :
    sim_at m s s' -> (forall x, fst (m s) = inl x -> sim_at (f x) (snd (m s)) (snd (m s'))) ->
    sim_at (bind m f) s s'.
  Proof.
    unfold sim_at, out_rel, bind. intros [Hr HR] Hf.
    destruct (m s) as [[x|e] t], (m s') as [[x'|e'] t']; cbn [fst snd res_rel] in *; try contradiction.
    - subst x'. exact (Hf x eq_refl).
    - split; assumption.
  Qed.

  Lemma sim_bind {A B} (m : M A) (f : A -> M B) : sim m -> (forall x, sim (f x)) -> sim (bind m f).
  Proof.
    intros Hm Hf s s' H. apply sim_bind_at; [apply Hm; exact H|].
    intros x _. apply Hf. destruct (Hm s s' H) as [_ HR]. exact HR.
  Qed.

  Lemma sim_try_finally_at {A} (body : M A) (fin : M unit) s s' :
    sim_at body s s' -> sim fin -> sim_at (try_finally body fin) s s'.
  Proof.
    unfold sim_at, out_rel, try_finally. intros [Hr HR] Hf.
    destruct (body s) as [r t], (body s') as [r' t']; cbn [fst snd] in *.
    destruct (Hf t t' HR) as [Hr2 HR2].
    destruct (fin t) as [[u|e] t2], (fin t') as [[u'|e'] t2']; cbn [fst snd res_rel] in *; try contradiction; split; assumption.
  Qed.

  Lemma sim_get_w_at {B} (f : world -> M B) s s' :
    out_rel (f (s_w s) s) (f (s_w s') s') -> sim_at (bind get_w f) s s'.
  Proof. intros H. exact H. Qed.

  Lemma sim_apply {A} (c : M A) s s' : sim c -> R s s' -> out_rel (c s) (c s').
  Proof. intros H HR. exact (H s s' HR). Qed.

  (* ---------- primitives ---------- *)

  Ltac fields s := destruct s as [[?nodes ?pv ?proto ?ib ?sb ?metric] ?log ?faults].
  Ltac open_sbv H :=
    unfold sbv in H; cbn [s_w s_log s_faults w_nodes w_pv w_proto w_internal w_set w_metric] in H;
    destruct H as (? & ? & ? & ? & ? & ? & ?); subst.
  Ltac pinned :=
    apply sim_pinned;
    let s := fresh "s" in let s' := fresh "s'" in let H := fresh "H" in let Hi := fresh "Hi" in let Hj := fresh "Hj" in
    intros s s' H Hi Hj; fields s; fields s'; cbn [s_w w_proto] in Hi, Hj; open_sbv H.
  Ltac mkR := left; split; [unfold sbv; cbn; repeat split; assumption|split; reflexivity].
  Ltac done_pinned :=
    split; [cbn [fst snd]; apply res_rel_refl|left; split; [unfold sbv; cbn; repeat split; assumption|split; reflexivity]].

  Lemma sim_write m : sim (write_msg m).
  Proof.
    pinned. rewrite !write_eq. cbn [s_faults s_w s_log].
    split; [cbn [fst snd]; apply res_rel_refl|]. left. split; [unfold sbv; cbn; repeat split; assumption|split; reflexivity].
  Qed.

  Lemma sim_set_setbuf f : sim (set_setbuf f).
  Proof. pinned. done_pinned. Qed.
  Lemma sim_set_internal f : sim (set_internal f).
  Proof. pinned. done_pinned. Qed.
  Lemma sim_set_nodes f : sim (set_nodes f).
  Proof. pinned. done_pinned. Qed.
  Lemma sim_update_node id f : sim (update_node id f).
  Proof. apply sim_set_nodes. Qed.

  Lemma sim_require_node id : sim (require_node id).
  Proof.
    pinned. rewrite !require_node_eq. cbn [s_w w_nodes].
    match goal with |- context [dget Z.eqb ?ns id] => destruct (dget Z.eqb ns id) end; done_pinned.
  Qed.

  Lemma sim_send m b : sim (send m b).
  Proof.
    intros s s' H. unfold sim_at. rewrite !send_eq. revert s s' H. change (sim (send_resolved m b)).
    assert (G : forall bb, sim (send_set_direct m bb)).
    { intros bb. unfold send_set_direct. apply sim_bind; [apply sim_write|intros _].
      destruct bb; [apply sim_set_setbuf|apply sim_ret]. }
    pinned.
    match goal with |- out_rel (send_resolved _ _ ?a) (send_resolved _ _ ?b) =>
      assert (Hp : R a b) by (left; split; [unfold sbv; cbn; repeat split; assumption|split; reflexivity]) end.
    unfold send_resolved. cbn [s_w w_nodes].
    destruct (m_cmd m =? 1).
    - match goal with |- context [dget Z.eqb ?ns (m_node m)] => destruct (dget Z.eqb ns (m_node m)) as [n|] end.
      + destruct (b && n_sleeping n); [exact (sim_set_setbuf _ _ _ Hp)|exact (G b _ _ Hp)].
      + exact (G b _ _ Hp).
    - destruct (m_cmd m =? 3).
      + destruct b; [exact (sim_set_internal _ _ _ Hp)|exact (sim_write m _ _ Hp)].
      + destruct ((m_cmd m =? 0) || (m_cmd m =? 2) || (m_cmd m =? 4)).
        * split; [reflexivity|exact Hp].
        * split; [cbn [fst snd]; apply res_rel_refl|exact Hp].
  Qed.

  (* the version setter: both worlds end up with the same version and protocol *)
  Lemma sim_set_protocol_version v : sim (set_protocol_version vlt v).
  Proof.
    pinned. unfold set_protocol_version. destruct (get_protocol vlt v) as [k|].
    - split; [cbn [fst snd]; apply res_rel_refl|]. right. reflexivity.
    - done_pinned.
  Qed.

  Lemma sim_flush es : sim (flush_entries es).
  Proof.
    induction es as [|[k bm] r IH]; cbn [flush_entries]; [apply sim_ret|].
    apply sim_bind; [apply sim_send|intros _]. apply sim_bind; [apply sim_set_setbuf|intros _; exact IH].
  Qed.

  Lemma sim_handle_sleep_buffer m : sim (handle_sleep_buffer m).
  Proof.
    pinned. unfold handle_sleep_buffer. apply sim_get_w_at. cbn [s_w w_set].
    apply sim_apply; [|mkR].
    apply sim_bind; [apply sim_flush|intros _; apply sim_ret].
  Qed.

  (* ---------- level-2 bodies ---------- *)

  Lemma sim_body2 b super m : (b = BSuper -> sim (super m)) -> sim (run_body2 bat vlt now b super m).
  Proof.
    intros Hs. destruct consts_p14 as [C1 [C2 [C3 [C4 [C5 [C6 [C7 C8]]]]]]].
    destruct consts_p20 as [D1 [D2 D3]].
    destruct b; cbn [run_body2]; try apply sim_raise.
    - apply Hs. reflexivity.
    - apply sim_bind; [apply sim_set_protocol_version|intros _; apply sim_ret].
    - (* id request: reads the registry keys *)
      pinned. apply sim_get_w_at. cbn [s_w w_nodes].
      match goal with |- context [if ?c then _ else _] => destruct c end.
      + done_pinned.
      + rewrite C1, C2. cbn [need].
        apply sim_apply; [|mkR].
        apply (sim_bind (ret 17)); [apply sim_ret|intros typ]. apply (sim_bind (ret 4)); [apply sim_ret|intros resp].
        apply sim_bind; [apply sim_set_nodes|intros _].
        apply sim_bind; [apply sim_send|intros _; apply sim_ret].
    - (* config: reads the metric flag *)
      pinned. apply sim_get_w_at. cbn [s_w w_metric].
      apply sim_apply; [|mkR].
      apply sim_bind; [apply sim_send|intros _; apply sim_ret].
    - apply sim_bind; [apply sim_send|intros _; apply sim_ret].
    - apply sim_bind; [apply sim_require_node|intros _].
      destruct (bat (m_payload m)) as [lvl|]; [|apply sim_raise].
      destruct ((0 <=? lvl) && (lvl <=? 100)); [|apply sim_raise].
      apply sim_bind; [apply sim_update_node|intros _; apply sim_ret].
    - apply sim_bind; [apply sim_require_node|intros _].
      apply sim_bind; [apply sim_update_node|intros _; apply sim_ret].
    - apply sim_bind; [apply sim_require_node|intros _].
      apply sim_bind; [apply sim_update_node|intros _; apply sim_ret].
    - rewrite D2. cbn [need]. apply (sim_bind (ret 20)); [apply sim_ret|intros disc].
      apply sim_bind; [apply sim_send|intros _; apply sim_ret].
    - apply sim_bind; [apply sim_require_node|intros _; apply sim_ret].
    - apply sim_bind; [apply sim_require_node|intros _].
      destruct (py_int (m_payload m)); [|apply sim_raise].
      apply sim_bind; [apply sim_update_node|intros _]. apply sim_handle_sleep_buffer.
    - apply sim_bind; [apply sim_require_node|intros _].
      destruct (py_int (m_payload m)); [|apply sim_raise].
      apply sim_bind; [apply sim_update_node|intros _; apply sim_ret].
    - apply sim_bind; [apply sim_require_node|intros _].
      apply sim_bind; [apply sim_update_node|intros _]. apply sim_handle_sleep_buffer.
  Qed.
  Lemma sim_try_finally {A} (body : M A) (fin : M unit) : sim body -> sim fin -> sim (try_finally body fin).
  Proof. intros Hb Hf s s' H. apply sim_try_finally_at; [apply Hb; exact H|exact Hf]. Qed.

  (* ---------- decorators ---------- *)

  Lemma sim_dec_mpv f m : sim (f m) -> sim (dec_mpv f m).
  Proof.
    intros Hf. destruct consts_p14 as [C1 [C2 [C3 [C4 [C5 [C6 [C7 C8]]]]]]].
    unfold dec_mpv. apply sim_try_finally; [exact Hf|].
    pinned. apply sim_get_w_at. cbn [s_w w_pv].
    match goal with H : known ?a = known ?b |- _ => destruct a, b; cbn in H; try discriminate H end.
    - done_pinned.
    - rewrite C7, C3, C4, C5. cbn [need]. apply sim_apply; [|mkR].
      apply (sim_bind (ret 3)); [apply sim_ret|intros cint]. apply (sim_bind (ret 9)); [apply sim_ret|intros ilog].
      apply (sim_bind (ret 14)); [apply sim_ret|intros iready]. apply (sim_bind (ret 2)); [apply sim_ret|intros iver].
      match goal with |- context [if ?c then _ else _] => destruct c end; [apply sim_send|apply sim_ret].
  Qed.

  Lemma sim_request_presentation m e : sim (request_presentation m e).
  Proof.
    destruct consts_p20 as [D1 [D2 D3]]. unfold request_presentation. rewrite D3, D1. cbn [need].
    apply (sim_bind (ret 3)); [apply sim_ret|intros cint]. apply (sim_bind (ret 19)); [apply sim_ret|intros ipres].
    pinned. apply sim_get_w_at. cbn [s_w w_internal]. apply sim_apply; [|mkR].
    apply sim_bind; [match goal with |- context [if ?c then _ else _] => destruct c end; [apply sim_ret|apply sim_send]|intros _].
    apply sim_bind; [apply sim_send|intros _; apply sim_raise].
  Qed.

  Lemma missing_norm e e' : is_missing e = true -> norm_exn e = norm_exn e' -> e = e'.
  Proof. destruct e; try discriminate; destruct e'; cbn; intros _ H; try discriminate H; exact H. Qed.

  Lemma is_missing_norm e e' : norm_exn e = norm_exn e' -> is_missing e = is_missing e'.
  Proof. destruct e, e'; cbn; intros H; try discriminate H; reflexivity. Qed.

  Lemma sim_dec_mnc f m : sim (f m) -> sim (dec_mnc f m).
  Proof.
    intros Hf s s' H. unfold sim_at. rewrite !dec_mnc_eq. destruct (Hf s s' H) as [Hr HR].
    destruct (f m s) as [[x|e] t], (f m s') as [[x'|e'] t']; cbn [fst snd res_rel] in *; try contradiction.
    - split; [exact Hr|exact HR].
    - rewrite <- (is_missing_norm e e' Hr). destruct (is_missing e) eqn:E.
      + rewrite <- (missing_norm e e' E Hr). exact (sim_request_presentation m e t t' HR).
      + split; [exact Hr|exact HR].
  Qed.

  Lemma sim_apply_decs ds f m : sim (f m) -> sim (apply_decs ds f m).
  Proof.
    induction ds as [|d r IH]; cbn [apply_decs fold_right]; intros Hf; [exact Hf|].
    unfold apply_dec.
    destruct (String.eqb d "handle_missing_protocol_version"); [apply sim_dec_mpv; apply IH; exact Hf|].
    destruct (String.eqb d "handle_missing_node_child"); [apply sim_dec_mnc; apply IH; exact Hf|].
    apply sim_raise.
  Qed.

  Lemma sim_chain2 name chain m : sim (run_chain2 bat vlt now name chain m).
  Proof.
    induction chain as [|[md ds] r IH]; cbn [run_chain2]; [apply sim_raise|].
    apply sim_apply_decs. destruct (body_of md name) as [b|]; [|apply sim_raise].
    apply sim_body2. intros _. exact IH.
  Qed.

  (* ---------- dispatch by name: here the two protocols' tables are read ---------- *)

  Definition chains_agree (name : string) : Prop :=
    lookup_chain (pt_incoming (proto_at i)) name = lookup_chain (pt_incoming (proto_at j)) name.

  Lemma sim_dispatch2 name m : chains_agree name -> sim (dispatch2 bat vlt now name m).
  Proof.
    intros Ha. pinned. unfold dispatch2. apply sim_get_w_at. unfold proto_of. cbn [s_w w_proto].
    rewrite Ha. destruct (lookup_chain (pt_incoming (proto_at j)) name) as [c|].
    - apply sim_apply; [apply sim_chain2|mkR].
    - done_pinned.
  Qed.

  (* a type value is dispatched the same way: same canonical name and same chain, or
     no handler on either side (the name may then differ), or no such member on either side *)
  Definition type_agree (tbl : proto_tables -> list (string * string * Z)) (t : Z) : Prop :=
    match enum_lname_of (tbl (proto_at i)) t, enum_lname_of (tbl (proto_at j)) t with
    | Some a, Some b =>
        (a = b /\ chains_agree ("handle_" ++ a))
        \/ (lookup_chain (pt_incoming (proto_at i)) ("handle_" ++ a) = None
            /\ lookup_chain (pt_incoming (proto_at j)) ("handle_" ++ b) = None)
    | None, None => True
    | _, _ => False
    end.

  Lemma sim_dispatch_type tbl m s s' :
    type_agree tbl (m_type m) -> sbv s s' -> w_proto (s_w s) = i -> w_proto (s_w s') = j ->
    out_rel
      (match enum_lname_of (tbl (proto_of (s_w s))) (m_type m) with
       | None => raise (EUnsupported m (pv_or_default (s_w s)))
       | Some ln => dispatch2 bat vlt now ("handle_" ++ ln) m
       end s)
      (match enum_lname_of (tbl (proto_of (s_w s'))) (m_type m) with
       | None => raise (EUnsupported m (pv_or_default (s_w s')))
       | Some ln => dispatch2 bat vlt now ("handle_" ++ ln) m
       end s').
  Proof.
    intros Ha Hs Hi Hj. unfold proto_of. rewrite Hi, Hj. unfold type_agree in Ha.
    assert (HR : R s s') by (left; split; [exact Hs|split; assumption]).
    destruct (enum_lname_of (tbl (proto_at i)) (m_type m)) as [a|], (enum_lname_of (tbl (proto_at j)) (m_type m)) as [b|];
      try contradiction.
    - destruct Ha as [[-> Hc]|[Hn1 Hn2]].
      + exact (sim_dispatch2 _ m Hc s s' HR).
      + unfold dispatch2, bind, get_w. cbn beta iota. unfold proto_of. rewrite Hi, Hj, Hn1, Hn2.
        split; [reflexivity|exact HR].
    - split; [reflexivity|exact HR].
  Qed.

  (* ---------- level-1 bodies ---------- *)

  Lemma sim_body1 b super m :
    (b = BSuper \/ b = BPresentation20 -> sim (super m)) ->
    (b = BPresentation14 -> chains_agree "handle_i_version") ->
    (b = BInternal14 -> type_agree pt_internal (m_type m)) ->
    (b = BStream14 -> type_agree pt_stream (m_type m)) ->
    sim (run_body1 bat vlt now b super m).
  Proof.
    intros Hs Hv Hint Hstr. destruct consts_p14 as [C1 [C2 [C3 [C4 [C5 [C6 [C7 C8]]]]]]].
    destruct consts_p20 as [D1 [D2 D3]].
    destruct b; cbn [run_body1]; try apply sim_raise.
    - apply Hs. left. reflexivity.
    - rewrite D1. cbn [need]. apply (sim_bind (ret 19)); [apply sim_ret|intros ipres].
      apply sim_bind; [apply sim_set_internal|intros _]. apply Hs. right. reflexivity.
    - destruct (m_child m =? system_child_id).
      + apply sim_bind; [apply sim_set_nodes|intros _].
        destruct (m_node m =? 0); [apply sim_dispatch2; apply Hv; reflexivity|apply sim_ret].
      + apply sim_bind; [apply sim_require_node|intros _].
        apply sim_bind; [apply sim_update_node|intros _; apply sim_ret].
    - apply sim_bind; [apply sim_require_node|intros n].
      destruct (negb (dmem Z.eqb (n_children n) (m_child m))); [apply sim_raise|].
      apply sim_bind; [apply sim_update_node|intros _].
      destruct (n_reboot n); [|apply sim_ret].
      rewrite C7, C6. cbn [need]. apply (sim_bind (ret 3)); [apply sim_ret|intros cint].
      apply (sim_bind (ret 13)); [apply sim_ret|intros ireboot].
      apply sim_bind; [apply sim_send|intros _; apply sim_ret].
    - apply sim_bind; [apply sim_require_node|intros n].
      destruct (dget Z.eqb (n_children n) (m_child m)) as [c|]; [|apply sim_raise].
      destruct (dget Z.eqb (c_values c) (m_type m)) as [v|]; [|apply sim_ret].
      rewrite C8. cbn [need]. apply (sim_bind (ret 1)); [apply sim_ret|intros cset].
      apply sim_bind; [apply sim_send|intros _; apply sim_ret].
    - apply sim_pinned. intros s s' H Hi Hj. apply sim_get_w_at.
      exact (sim_dispatch_type pt_internal m s s' (Hint eq_refl) H Hi Hj).
    - apply sim_bind; [apply sim_require_node|intros _].
      apply sim_pinned. intros s s' H Hi Hj. apply sim_get_w_at.
      exact (sim_dispatch_type pt_stream m s s' (Hstr eq_refl) H Hi Hj).
  Qed.

  (* which handler name a dispatching body sits under (from the body table) *)
  Lemma body_name md name b :
    body_of md name = Some b ->
    (b = BPresentation14 -> name = "handle_presentation"%string)
    /\ (b = BInternal14 -> name = "handle_internal"%string)
    /\ (b = BStream14 -> name = "handle_stream"%string).
  Proof.
    intros H. apply GatewayReg.body_of_in_In in H. destruct H as [md' H]. unfold body_table in H. cbn [In] in H.
    repeat (destruct H as [H|H]; [injection H; intros; subst; repeat split; intros; try discriminate; reflexivity|]).
    contradiction.
  Qed.

  Lemma sim_chain1 name chain m :
    (name = "handle_presentation"%string -> chains_agree "handle_i_version") ->
    (name = "handle_internal"%string -> type_agree pt_internal (m_type m)) ->
    (name = "handle_stream"%string -> type_agree pt_stream (m_type m)) ->
    sim (run_chain1 bat vlt now name chain m).
  Proof.
    intros Hv Hint Hstr. induction chain as [|[md ds] r IH]; cbn [run_chain1]; [apply sim_raise|].
    apply sim_apply_decs. destruct (body_of md name) as [b|] eqn:Eb; [|apply sim_raise].
    destruct (body_name md name b Eb) as [N1 [N2 N3]].
    apply sim_body1.
    - intros _. exact IH.
    - intros E. apply Hv. apply N1. exact E.
    - intros E. apply Hint. apply N2. exact E.
    - intros E. apply Hstr. apply N3. exact E.
  Qed.

  (* ---------- one listen step ---------- *)

  (* what the two protocols' tables must agree on for this line *)
  Definition line_agree (line : str) : Prop :=
    decode (proto_at i) line = decode (proto_at j) line
    /\ forall m, decode (proto_at i) line = DecOk m ->
         (forall cname, lname_cmd (m_cmd m) = Some cname -> chains_agree ("handle_" ++ cname))
         /\ (m_cmd m = 0 -> chains_agree "handle_i_version")
         /\ (m_cmd m = 3 -> type_agree pt_internal (m_type m))
         /\ (m_cmd m = 4 -> type_agree pt_stream (m_type m)).

  Lemma cname_cmd k cname :
    lname_cmd k = Some cname ->
    (("handle_" ++ cname)%string = "handle_presentation"%string -> k = 0)
    /\ (("handle_" ++ cname)%string = "handle_internal"%string -> k = 3)
    /\ (("handle_" ++ cname)%string = "handle_stream"%string -> k = 4).
  Proof.
    unfold lname_cmd.
    destruct (Z.eqb_spec k 0); [intros H; injection H as <-; repeat split; intros; try discriminate; assumption|].
    destruct (Z.eqb_spec k 1); [intros H; injection H as <-; repeat split; intros; discriminate|].
    destruct (Z.eqb_spec k 2); [intros H; injection H as <-; repeat split; intros; discriminate|].
    destruct (Z.eqb_spec k 3); [intros H; injection H as <-; repeat split; intros; try discriminate; assumption|].
    destruct (Z.eqb_spec k 4); [intros H; injection H as <-; repeat split; intros; try discriminate; assumption|].
    discriminate.
  Qed.

  Theorem sim_listen_step line : line_agree line -> sim (listen_step bat vlt now line).
  Proof.
    intros [Hd Hm]. apply sim_pinned. intros s s' H Hi Hj. unfold listen_step. apply sim_get_w_at.
    unfold proto_of. rewrite Hi, Hj, <- Hd.
    assert (HR : R s s') by (left; split; [exact H|split; assumption]).
    destruct (decode (proto_at i) line) as [m| |c] eqn:E;
      [|split; [reflexivity|exact HR]|split; [reflexivity|exact HR]].
    rewrite !command_lname. destruct (lname_cmd (m_cmd m)) as [cname|] eqn:Ec; [|split; [reflexivity|exact HR]].
    destruct (Hm m eq_refl) as [Hc [Hv [Hint Hstr]]]. rewrite <- (Hc cname Ec).
    destruct (lookup_chain (pt_incoming (proto_at i)) ("handle_" ++ cname)) as [chain|]; [|split; [reflexivity|exact HR]].
    destruct (cname_cmd _ _ Ec) as [K0 [K3 K4]].
    apply sim_apply; [|exact HR]. apply sim_chain1.
    - intros En. apply Hv. apply K0. exact En.
    - intros En. apply Hint. apply K3. exact En.
    - intros En. apply Hstr. apply K4. exact En.
  Qed.
  (* ---------- operations and histories ---------- *)

  Definition wsbv (w w' : world) : Prop :=
    w_nodes w = w_nodes w' /\ w_internal w = w_internal w' /\ w_set w = w_set w' /\ w_metric w = w_metric w'
    /\ known (w_pv w) = known (w_pv w').

  Definition Rw (w w' : world) : Prop := (wsbv w w' /\ w_proto w = i /\ w_proto w' = j) \/ w = w'.

  Definition outcome_rel (o o' : outcome) : Prop :=
    match o, o' with
    | Yield m, Yield m' => m = m'
    | Done, Done => True
    | Raise e, Raise e' => norm_exn e = norm_exn e'
    | _, _ => False
    end.

  Definition op_agree (o : op) : Prop :=
    match o with ORecv line _ => line_agree line | _ => True end.

  Lemma R_of_Rw w w' faults :
    Rw w w' -> R {| s_w := w; s_log := []; s_faults := faults |} {| s_w := w'; s_log := []; s_faults := faults |}.
  Proof.
    intros [[(H1 & H2 & H3 & H4 & H5) [Hi Hj]]| ->]; [|right; reflexivity].
    left. split; [unfold sbv; cbn; repeat split; assumption|split; assumption].
  Qed.

  Lemma Rw_of_R t t' : R t t' -> Rw (s_w t) (s_w t') /\ s_log t = s_log t'.
  Proof.
    intros [[(H1 & H2 & H3 & H4 & H5 & H6 & H7) [Hi Hj]]| ->]; [|split; [right|]; reflexivity].
    split; [|exact H5]. left. split; [unfold wsbv; repeat split; assumption|split; assumption].
  Qed.

  Lemma sim_run_step {A} (c : M A) (k : A -> outcome) w w' faults :
    sim c -> (forall a, outcome_rel (k a) (k a)) -> Rw w w' ->
    let r := run_step c k w faults in let r' := run_step c k w' faults in
    Rw (fst (fst r)) (fst (fst r')) /\ outcome_rel (snd (fst r)) (snd (fst r')) /\ snd r = snd r'.
  Proof.
    intros Hc Hk Hw. cbv zeta. unfold run_step.
    destruct (Hc _ _ (R_of_Rw w w' faults Hw)) as [Hr HR].
    destruct (c {| s_w := w; s_log := []; s_faults := faults |}) as [[a|e] t],
             (c {| s_w := w'; s_log := []; s_faults := faults |}) as [[a'|e'] t'];
      cbn [fst snd res_rel] in *; try contradiction;
      destruct (Rw_of_R t t' HR) as [G1 G2]; (split; [exact G1|split; [|rewrite G2; reflexivity]]).
    - subst a'. apply Hk.
    - exact Hr.
  Qed.

  (* ONE OPERATION: same outcome (up to the version string inside the unsupported-message
     error), same write log, related worlds *)
  Theorem sim_step_op o w w' :
    op_agree o -> Rw w w' ->
    let r := step_op bat vlt now w o in let r' := step_op bat vlt now w' o in
    Rw (fst (fst r)) (fst (fst r')) /\ outcome_rel (snd (fst r)) (snd (fst r')) /\ snd r = snd r'.
  Proof.
    intros Ho Hw. destruct o as [line faults|m b faults|]; cbn [step_op op_agree] in *.
    - apply sim_run_step; [apply sim_listen_step; exact Ho|intros a; reflexivity|exact Hw].
    - apply sim_run_step; [apply sim_send|intros a; exact I|exact Hw].
    - cbn. split; [exact Hw|split; [exact I|reflexivity]].
  Qed.

  (* WHOLE HISTORIES *)
  Theorem sim_history ops : forall w w',
    Forall op_agree ops -> Rw w w' ->
    Forall2 (fun x x' => outcome_rel (fst x) (fst x') /\ snd x = snd x') (trace bat vlt now w ops) (trace bat vlt now w' ops)
    /\ Rw (run_ops bat vlt now w ops) (run_ops bat vlt now w' ops).
  Proof.
    induction ops as [|o r IH]; intros w w' Ha Hw; cbn [trace].
    - split; [constructor|exact Hw].
    - inversion Ha as [|? ? Ho Hr]; subst.
      destruct (sim_step_op o w w' Ho Hw) as [G1 [G2 G3]].
      destruct (IH _ _ Hr G1) as [K1 K2]. split.
      + constructor; [split; [exact G2|exact G3]|exact K1].
      + unfold run_ops. cbn [fold_left]. exact K2.
  Qed.
End Sim.

(* ---------- which pairs of protocols agree: a computation on the generated tables ---------- *)

From AMS Require Import TablesMono.

Lemma chain_eqb_eq a : forall b, chain_eqb a b = true -> a = b.
Proof.
  induction a as [|[m1 d1] r IH]; intros [|[m2 d2] r2]; cbn; try discriminate; [reflexivity|].
  intros H. apply andb_true_iff in H. destruct H as [H H3]. apply andb_true_iff in H. destruct H as [H1 H2].
  apply String.eqb_eq in H1. subst m2. destruct (list_eq_dec string_dec d1 d2) as [->|]; [|discriminate].
  rewrite (IH _ H3). reflexivity.
Qed.

Lemma chain_opt_eqb_eq a b : chain_opt_eqb a b = true -> a = b.
Proof. destruct a as [a|], b as [b|]; cbn; try discriminate; [intros H; rewrite (chain_eqb_eq _ _ H)|]; reflexivity. Qed.

Definition is_none {A} (o : option A) : bool := match o with None => true | Some _ => false end.

Definition type_agree_b (p q : proto_tables) (tbl : proto_tables -> list (string * string * Z)) (t : Z) : bool :=
  match enum_lname_of (tbl p) t, enum_lname_of (tbl q) t with
  | Some a, Some b =>
      (String.eqb a b && chain_opt_eqb (lookup_chain (pt_incoming p) ("handle_" ++ a)) (lookup_chain (pt_incoming q) ("handle_" ++ a)))
      || (is_none (lookup_chain (pt_incoming p) ("handle_" ++ a)) && is_none (lookup_chain (pt_incoming q) ("handle_" ++ b)))
  | None, None => true
  | _, _ => false
  end.

Lemma type_agree_b_spec i j tbl t :
  type_agree_b (proto_at i) (proto_at j) tbl t = true -> type_agree i j tbl t.
Proof.
  unfold type_agree_b, type_agree, chains_agree.
  destruct (enum_lname_of (tbl (proto_at i)) t) as [a|], (enum_lname_of (tbl (proto_at j)) t) as [b|]; try discriminate; [|tauto].
  intros H. apply orb_true_iff in H. destruct H as [H|H]; apply andb_true_iff in H; destruct H as [H1 H2].
  - left. apply String.eqb_eq in H1. split; [exact H1|apply chain_opt_eqb_eq; exact H2].
  - right. split.
    + destruct (lookup_chain (pt_incoming (proto_at i)) ("handle_" ++ a)); [discriminate|reflexivity].
    + destruct (lookup_chain (pt_incoming (proto_at j)) ("handle_" ++ b)); [discriminate|reflexivity].
Qed.

Definition command_handler_names : list string :=
  ["handle_presentation"; "handle_set"; "handle_req"; "handle_internal"; "handle_stream"; "handle_i_version"]%string.

(* every internal value of p (outside [except]) and every stream value of p is dispatched the
   same way by q; the five command handlers and the version handler are the same chains *)
Definition pair_agree_b (except : list Z) (p q : proto_tables) : bool :=
  forallb (fun e => memZ (snd e) except || type_agree_b p q pt_internal (snd e)) (pt_internal p)
  && forallb (fun e => type_agree_b p q pt_stream (snd e)) (pt_stream p)
  && forallb (fun n => chain_opt_eqb (lookup_chain (pt_incoming p) n) (lookup_chain (pt_incoming q) n)) command_handler_names.

Lemma minor_pairs_agree :
  pair_agree_b [] proto_1_4 proto_1_5 = true
  /\ pair_agree_b [] proto_2_0 proto_2_1 = true
  /\ pair_agree_b [22] proto_2_1 proto_2_2 = true
  /\ pair_agree_b [22] proto_2_0 proto_2_2 = true
  /\ pair_agree_b [] proto_2_1 proto_2_2 = false.
Proof. vm_compute. repeat split. Qed.

Lemma decode_proto_indep i j line : decode (proto_at i) line = decode (proto_at j) line.
Proof.
  assert (Hin : forall k, In (proto_at k) protocols).
  { intros k. apply (proto_at_cases (fun p => In p protocols)); cbn; tauto. }
  unfold decode. destruct (splitn 5 delimiter (rstrip line)) as [|f1 [|f2 [|f3 [|f4 [|f5 [|f6 [|f7 r]]]]]]]; try reflexivity.
  destruct (py_int f1), (py_int f2), (py_int f3), (py_int f4), (py_int f5); try reflexivity.
  rewrite !accept_fields_spec by apply Hin. reflexivity.
Qed.

Lemma memZ_values_In t (tbl : list (string * string * Z)) :
  memZ t (enum_values tbl) = true -> exists e, In e tbl /\ snd e = t.
Proof.
  unfold enum_values, memZ. intros H. apply existsb_exists in H. destruct H as [x [Hin Hx]].
  apply in_map_iff in Hin. destruct Hin as [e [He Hin]]. exists e. split; [exact Hin|].
  apply Z.eqb_eq in Hx. congruence.
Qed.

(* the property's hypothesis on a message: its type exists in the older protocol
   (for internal messages, outside the documented exception) *)
Definition in_older (except : list Z) (p : proto_tables) (m : msg) : Prop :=
  (m_cmd m = 3 -> memZ (m_type m) (enum_values (pt_internal p)) = true /\ memZ (m_type m) except = false)
  /\ (m_cmd m = 4 -> memZ (m_type m) (enum_values (pt_stream p)) = true).

Theorem line_agree_of_tables except i j line :
  pair_agree_b except (proto_at i) (proto_at j) = true ->
  (forall m, decode (proto_at i) line = DecOk m -> in_older except (proto_at i) m) ->
  line_agree i j line.
Proof.
  intros Hp Hold. unfold pair_agree_b in Hp. apply andb_true_iff in Hp. destruct Hp as [Hp H3].
  apply andb_true_iff in Hp. destruct Hp as [H1 H2]. rewrite forallb_forall in H1, H2, H3.
  assert (Hn : forall n, In n command_handler_names -> chains_agree i j n).
  { intros n Hin. apply chain_opt_eqb_eq. apply H3. exact Hin. }
  split; [apply decode_proto_indep|]. intros m Hd. destruct (Hold m Hd) as [O3 O4]. repeat split.
  - intros cname Hc. apply Hn. unfold lname_cmd in Hc. unfold command_handler_names.
    destruct (m_cmd m =? 0); [injection Hc as <-; cbn; tauto|].
    destruct (m_cmd m =? 1); [injection Hc as <-; cbn; tauto|].
    destruct (m_cmd m =? 2); [injection Hc as <-; cbn; tauto|].
    destruct (m_cmd m =? 3); [injection Hc as <-; cbn; tauto|].
    destruct (m_cmd m =? 4); [injection Hc as <-; cbn; tauto|discriminate].
  - intros _. apply Hn. cbn. tauto.
  - intros Hk. destruct (O3 Hk) as [Hmem Hex]. destruct (memZ_values_In _ _ Hmem) as [e [Hin He]].
    specialize (H1 e Hin). rewrite He, Hex in H1. apply type_agree_b_spec. exact H1.
  - intros Hk. destruct (memZ_values_In _ _ (O4 Hk)) as [e [Hin He]].
    specialize (H2 e Hin). rewrite He in H2. apply type_agree_b_spec. exact H2.
Qed.
