(* C19 across the major line, at the level of handler chains: every 2.x chain for a
   handler name that exists in 1.x is the 1.x chain under protocol_20 / protocol_22
   LAYERS (a computed fact about the generated tables), and those layers do nothing
   but clear the "request outstanding" marker — as long as the wrapped run does not
   end in a missing-node / missing-child error ("no unknown node or child is
   referenced").  Exact equalities, for every message, state, oracle, fault stream. *)
From Coq Require Import List NArith ZArith Bool String Lia.
From AMS Require Import TablesTypes Tables PyStr Codec CodecFacts Gateway GatewayFacts GatewayInv GatewaySteps GatewayTrace TablesMono GatewaySim.
Import ListNotations.
Local Open Scope Z_scope.

Definition not_missing {A} (r : A + exn) : Prop :=
  match r with inr e => is_missing e = false | inl _ => True end.

Definition only_mnc (ds : list string) : bool :=
  forallb (fun d => String.eqb d "handle_missing_node_child") ds.

(* a 2.x layer: calls super, possibly after clearing the marker, possibly under the
   missing-node/child wrapper *)
Definition layer_ok (name : string) (e : string * list string) : bool :=
  only_mnc (snd e)
  && match body_of (fst e) name with
     | Some BSuper | Some BPresentation20 => true
     | _ => false
     end.

Section Major.
  Variable bat : str -> option Z.
  Variable vlt : str -> str -> option bool.
  Variable now : Z.

  (* the state the wrapped chain runs in: the marker (node, child, 19) removed once per
     presentation layer *)
  Fixpoint strip (name : string) (layers : handler_chain) (m : msg) (s : st) : st :=
    match layers with
    | [] => s
    | (md, _) :: r =>
        match body_of md name with
        | Some BPresentation20 =>
            strip name r m (with_internal s (dpop key_eqb (w_internal (s_w s)) (m_node m, m_child m, 19)))
        | _ => strip name r m s
        end
    end.

  Lemma apply_only_mnc ds f m s :
    only_mnc ds = true -> not_missing (fst (f m s)) -> apply_decs ds f m s = f m s.
  Proof.
    induction ds as [|d r IH]; cbn [apply_decs fold_right only_mnc forallb]; intros Hd Hn; [reflexivity|].
    apply andb_true_iff in Hd. destruct Hd as [Hd Hr].
    change (fold_right apply_dec f r) with (apply_decs r f). unfold apply_dec at 1.
    destruct (String.eqb d "handle_missing_protocol_version") eqn:E1.
    { apply String.eqb_eq in E1. subst d. discriminate Hd. }
    rewrite Hd. rewrite dec_mnc_eq. rewrite (IH Hr Hn).
    destruct (f m s) as [[x|e] t]; cbn [fst not_missing] in *; [reflexivity|rewrite Hn; reflexivity].
  Qed.

  Theorem layers_noop1 name c1 m : forall layers s,
    forallb (layer_ok name) layers = true ->
    not_missing (fst (run_chain1 bat vlt now name c1 m (strip name layers m s))) ->
    run_chain1 bat vlt now name (layers ++ c1) m s = run_chain1 bat vlt now name c1 m (strip name layers m s).
  Proof.
    induction layers as [|[md ds] r IH]; intros s Hl Hn; [reflexivity|].
    cbn [forallb] in Hl. apply andb_true_iff in Hl. destruct Hl as [Hl Hr].
    unfold layer_ok in Hl. cbn [fst snd] in Hl. apply andb_true_iff in Hl. destruct Hl as [Hd Hb].
    revert Hn. cbn [app run_chain1 strip]. destruct (body_of md name) as [b|]; [|discriminate Hb].
    destruct b; try discriminate Hb; intros Hn.
    - (* BSuper *)
      rewrite apply_only_mnc; [cbn [run_body1]; apply IH; assumption|exact Hd|].
      cbn [run_body1]. rewrite (IH s Hr Hn). exact Hn.
    - (* BPresentation20 *)
      rewrite apply_only_mnc; [rewrite body_presentation20; apply IH; assumption|exact Hd|].
      rewrite body_presentation20. rewrite (IH _ Hr Hn). exact Hn.
  Qed.

  (* level 2: the layers are BSuper only *)
  Definition layer2_ok (name : string) (e : string * list string) : bool :=
    only_mnc (snd e) && match body_of (fst e) name with Some BSuper => true | _ => false end.

  Theorem layers_noop2 name c1 m : forall layers s,
    forallb (layer2_ok name) layers = true ->
    not_missing (fst (run_chain2 bat vlt now name c1 m s)) ->
    run_chain2 bat vlt now name (layers ++ c1) m s = run_chain2 bat vlt now name c1 m s.
  Proof.
    induction layers as [|[md ds] r IH]; intros s Hl Hn; [reflexivity|].
    cbn [forallb] in Hl. apply andb_true_iff in Hl. destruct Hl as [Hl Hr].
    unfold layer2_ok in Hl. cbn [fst snd] in Hl. apply andb_true_iff in Hl. destruct Hl as [Hd Hb].
    cbn [app run_chain2]. destruct (body_of md name) as [b|]; [|discriminate Hb].
    destruct b; try discriminate Hb.
    rewrite apply_only_mnc; [cbn [run_body2]; apply IH; assumption|exact Hd|].
    cbn [run_body2]. rewrite (IH s Hr Hn). exact Hn.
  Qed.
End Major.

(* ---------- the table fact: every 1.x handler is wrapped that way in every 2.x protocol ---------- *)

Definition is_l1_name (n : string) : bool :=
  existsb (String.eqb n) ["handle_presentation"; "handle_set"; "handle_req"; "handle_internal"; "handle_stream"]%string.

(* q's chain for n = ok layers ++ p's chain for n *)
Definition wrapped_in (p q : proto_tables) (n : string) (c1 : handler_chain) : bool :=
  match lookup_chain (pt_incoming q) n with
  | Some c2 =>
      let k := (List.length c2 - List.length c1)%nat in
      chain_eqb c1 (skipn k c2)
      && forallb (if is_l1_name n then layer_ok n else layer2_ok n) (firstn k c2)
  | None => false
  end.

Definition major_ok (p q : proto_tables) : bool :=
  forallb (fun e => wrapped_in p q (fst e) (snd e)) (pt_incoming p).

Lemma tables_major_layers :
  forallb (fun p => forallb (major_ok p) [proto_2_0; proto_2_1; proto_2_2]) [proto_1_4; proto_1_5] = true.
Proof. vm_compute. reflexivity. Qed.

Lemma wrapped_in_spec p q n c1 :
  wrapped_in p q n c1 = true ->
  exists layers, lookup_chain (pt_incoming q) n = Some (layers ++ c1)
    /\ forallb (if is_l1_name n then layer_ok n else layer2_ok n) layers = true.
Proof.
  unfold wrapped_in. destruct (lookup_chain (pt_incoming q) n) as [c2|]; [|discriminate].
  intros H. apply andb_true_iff in H. destruct H as [H1 H2].
  exists (firstn (List.length c2 - List.length c1) c2). split; [|exact H2].
  f_equal. pose proof (chain_eqb_eq _ _ H1) as E. rewrite E at 2. symmetry. apply firstn_skipn.
Qed.

(* for every 1.x protocol p, 2.x protocol q and handler name n that p implements by chain c1:
   q implements n by layers ++ c1, the layers being of the kind layers_noop1 / layers_noop2 handle *)
Theorem major_chain p q n c1 :
  In p [proto_1_4; proto_1_5] -> In q [proto_2_0; proto_2_1; proto_2_2] ->
  lookup_chain (pt_incoming p) n = Some c1 ->
  exists layers, lookup_chain (pt_incoming q) n = Some (layers ++ c1)
    /\ forallb (if is_l1_name n then layer_ok n else layer2_ok n) layers = true.
Proof.
  intros Hp Hq Hl. pose proof tables_major_layers as T. rewrite forallb_forall in T.
  specialize (T p Hp). rewrite forallb_forall in T. specialize (T q Hq).
  unfold major_ok in T. rewrite forallb_forall in T.
  specialize (T (n, c1) (lookup_chain_in _ _ _ Hl)). cbn [fst snd] in T.
  apply (wrapped_in_spec p q n c1 T).
Qed.
