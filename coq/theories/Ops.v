(* Direct manipulations of the gateway state through its public attributes
   (gateway.nodes[...] = Node(...), node.reboot = True, ...) used by the
   correspondence driver to set up initial states, and the operation type of
   histories used in theorem statements. *)
From Coq Require Import List NArith ZArith Bool String.
From AMS Require Import TablesTypes Tables PyStr Codec Gateway Version.
Import ListNotations.
Local Open Scope Z_scope.

Definition w_with_nodes (w : world) (ns : list (Z * node)) : world :=
  {| w_nodes := ns; w_pv := w_pv w; w_proto := w_proto w;
     w_internal := w_internal w; w_set := w_set w; w_metric := w_metric w |}.

Definition w_put_node (w : world) (n : node) : world :=
  w_with_nodes w (dset Z.eqb (w_nodes w) (n_id n) n).

Definition w_update_node (w : world) (id : Z) (f : node -> node) : world :=
  match dget Z.eqb (w_nodes w) id with
  | Some n => w_with_nodes w (dset Z.eqb (w_nodes w) id (f n))
  | None => w
  end.

Definition n_with_children (n : node) (cs : list (Z * child)) : node :=
  {| n_id := n_id n; n_type := n_type n; n_ver := n_ver n; n_children := cs;
     n_sketch_name := n_sketch_name n; n_sketch_version := n_sketch_version n;
     n_battery := n_battery n; n_heartbeat := n_heartbeat n;
     n_reboot := n_reboot n; n_sleeping := n_sleeping n |}.

Definition w_add_child (w : world) (id cid ctype : Z) (desc : str) : world :=
  w_update_node w id (fun n =>
    n_with_children n (dset Z.eqb (n_children n) cid
      {| c_id := cid; c_type := ctype; c_desc := desc; c_values := [] |})).

Definition w_set_value (w : world) (id cid vt : Z) (v : str) : world :=
  w_update_node w id (fun n => set_child_value n cid vt v).

Definition w_set_reboot (w : world) (id : Z) (b : bool) : world :=
  w_update_node w id (fun n =>
    {| n_id := n_id n; n_type := n_type n; n_ver := n_ver n; n_children := n_children n;
       n_sketch_name := n_sketch_name n; n_sketch_version := n_sketch_version n;
       n_battery := n_battery n; n_heartbeat := n_heartbeat n;
       n_reboot := b; n_sleeping := n_sleeping n |}).

Definition w_set_sleeping (w : world) (id : Z) (b : bool) : world :=
  w_update_node w id (fun n =>
    {| n_id := n_id n; n_type := n_type n; n_ver := n_ver n; n_children := n_children n;
       n_sketch_name := n_sketch_name n; n_sketch_version := n_sketch_version n;
       n_battery := n_battery n; n_heartbeat := n_heartbeat n;
       n_reboot := n_reboot n; n_sleeping := b |}).

Definition mk_node (id typ : Z) (ver sname sver : str) (bat hb : Z) (reboot sleeping : bool) : node :=
  {| n_id := id; n_type := typ; n_ver := ver; n_children := [];
     n_sketch_name := sname; n_sketch_version := sver; n_battery := bat; n_heartbeat := hb;
     n_reboot := reboot; n_sleeping := sleeping |}.

(* gateway.protocol_version = v through the public setter *)
Definition w_set_version (vlt : str -> str -> option bool) (w : world) (v : str)
  : world * outcome * list wevent :=
  run_step (set_protocol_version vlt v) (fun _ => Done) w [].

(* oracle answers for one step, as supplied by the correspondence driver:
   the comparison against each supported protocol key, by position *)
Definition vlt_of_answers (answers : list (option bool)) : str -> str -> option bool :=
  fun _ b =>
    (fix go (ps : list proto_tables) (ans : list (option bool)) : option bool :=
       match ps, ans with
       | p :: ps', a :: ans' => if str_eqb (pt_key p) b then a else go ps' ans'
       | _, _ => None
       end) protocols answers.

Definition recv_drv (batans : option Z) (vans : list (option bool)) (now : Z)
           (w : world) (faults : list bool) (line : str) :=
  recv (fun _ => batans) (vlt_full (vlt_of_answers vans)) now w faults line.

Definition send_drv (vans : list (option bool)) (w : world) (faults : list bool)
           (m : msg) (buffered : bool) :=
  send_op w faults m buffered.

Definition setver_drv (vans : list (option bool)) (w : world) (v : str) :=
  w_set_version (vlt_full (vlt_of_answers vans)) w v.

Definition decode_at (i : nat) (line : str) : dec_result := decode (proto_at i) line.
