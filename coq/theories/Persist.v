(* Model of persistence (src/aiomysensors/persistence.py, NodeSchema / ChildSchema
   of model/node.py): a registry <-> a parsed JSON value.  The JSON text layer
   (json.dumps / json.loads) is not modelled: see SaveCrash.v for what is assumed
   about it.  marshmallow 3.26 field semantics as pinned in DESIGN.md §6 C13.
   Executable definitions only. *)
From Coq Require Import List NArith ZArith Bool String Ascii.
From AMS Require Import TablesTypes Tables PyStr Codec Gateway.
Import ListNotations.
Local Open Scope Z_scope.

(* what json.loads yields.  A float is represented by all the schemas can observe
   of it: its truncation toward zero (None for nan / +-inf) and whether it equals
   1 or 0 (for the Boolean field). *)
Inductive json :=
| JNull
| JBool (b : bool)
| JInt (z : Z)
| JFloat (trunc : option Z) (is01 : option bool)
| JStr (s : str)
| JArr (l : list json)
| JObj (l : list (str * json)).

(* dict access on a parsed object (json.loads leaves no duplicate keys) *)
Fixpoint jget (l : list (str * json)) (k : str) : option json :=
  match l with
  | [] => None
  | (k', v) :: r => if str_eqb k k' then Some v else jget r k
  end.
Fixpoint jdel (l : list (str * json)) (k : str) : list (str * json) :=
  match l with
  | [] => []
  | (k', v) :: r => if str_eqb k k' then jdel r k else (k', v) :: jdel r k
  end.
(* d[k] = v *)
Fixpoint jput (l : list (str * json)) (k : str) (v : json) : list (str * json) :=
  match l with
  | [] => [(k, v)]
  | (k', v') :: r => if str_eqb k k' then (k', v) :: r else (k', v') :: jput r k v
  end.

Fixpoint slit (s : string) : str :=
  match s with
  | EmptyString => []
  | String a r => N_of_ascii a :: slit r
  end.

(* ---------- fields ---------- *)

(* fields.Integer (non-strict) *)
Definition de_int (j : json) : option Z :=
  match j with
  | JInt z => Some z
  | JFloat (Some t) _ => Some t
  | JStr s => py_int s
  | _ => None
  end.

(* fields.String *)
Definition de_str (j : json) : option str :=
  match j with JStr s => Some s | _ => None end.

Definition truthy_strs : list str :=
  map slit ["t"; "T"; "true"; "True"; "TRUE"; "on"; "On"; "ON"; "y"; "Y"; "yes"; "Yes"; "YES"; "1"]%string.
Definition falsy_strs : list str :=
  map slit ["f"; "F"; "false"; "False"; "FALSE"; "off"; "Off"; "OFF"; "n"; "N"; "no"; "No"; "NO"; "0"]%string.

(* fields.Boolean *)
Definition de_bool (j : json) : option bool :=
  match j with
  | JBool b => Some b
  | JInt 1 => Some true
  | JInt 0 => Some false
  | JFloat _ (Some b) => Some b
  | JStr s => if existsb (str_eqb s) truthy_strs then Some true
              else if existsb (str_eqb s) falsy_strs then Some false else None
  | _ => None
  end.

(* validators of a field of the generated schema descriptor *)
Definition field_ok (schema : list field_desc) (name : string) (x : Z) : bool :=
  validators_ok (field_validators schema name) x.

(* fields.Dict(keys=Integer, values=F): a JSON object whose keys coerce to int;
   a later member overwrites an earlier one with the same coerced key *)
Fixpoint de_dict {V} (de_val : json -> option V) (l : list (str * json)) (acc : list (Z * V))
  : option (list (Z * V)) :=
  match l with
  | [] => Some acc
  | (k, v) :: r =>
      match py_int k, de_val v with
      | Some kz, Some x => de_dict de_val r (dset Z.eqb acc kz x)
      | _, _ => None
      end
  end.

(* the members a schema declares; anything else is an unknown field (unknown = RAISE) *)
Definition only_known (known : list string) (l : list (str * json)) : bool :=
  forallb (fun kv => existsb (fun n => str_eqb (fst kv) (slit n)) known) l.

(* optional field: absent -> default; present -> must deserialize (null is an error) *)
Definition opt_field {A} (l : list (str * json)) (name : string) (de : json -> option A) (default : A)
  : option A :=
  match jget l (slit name) with
  | None => Some default
  | Some j => de j
  end.
Definition req_field {A} (l : list (str * json)) (name : string) (de : json -> option A) : option A :=
  match jget l (slit name) with
  | None => None
  | Some j => de j
  end.

(* rename a member: data[new] = data.pop(old) *)
Definition jrename (l : list (str * json)) (old new : string) : list (str * json) :=
  match jget l (slit old) with
  | None => l
  | Some v => jput (jdel l (slit old)) (slit new) v
  end.

(* ---------- ChildSchema ---------- *)

Definition child_fields : list string := ["child_id"; "child_type"; "description"; "values"]%string.

Definition load_child (j : json) : option child :=
  match j with
  | JObj l0 =>
      (* pre_load: pymysensors names *)
      let l := jrename (jrename l0 "id" "child_id") "type" "child_type" in
      if only_known child_fields l then
        match req_field l "child_id" de_int, req_field l "child_type" de_int,
              opt_field l "description" de_str [],
              opt_field l "values" (fun v => match v with JObj m => de_dict de_str m [] | _ => None end) [] with
        | Some cid, Some ct, Some d, Some vs =>
            Some {| c_id := cid; c_type := ct; c_desc := d; c_values := vs |}
        | _, _, _, _ => None
        end
      else None
  | _ => None
  end.

(* ---------- NodeSchema ---------- *)

Definition node_fields : list string :=
  ["node_id"; "node_type"; "protocol_version"; "children"; "sketch_name"; "sketch_version";
   "battery_level"; "heartbeat"; "sleeping"]%string.

(* pre_load of NodeSchema *)
Definition node_compat (l0 : list (str * json)) : list (str * json) :=
  let l1 := jrename l0 "sensor_id" "node_id" in
  let l2 := match jget l1 (slit "type") with
            | Some JNull => jput l1 (slit "type") (JInt 18)
            | _ => l1
            end in
  let l3 := jrename l2 "type" "node_type" in
  let l4 := match jget l3 (slit "sketch_name") with
            | Some JNull => jput l3 (slit "sketch_name") (JStr [])
            | _ => l3
            end in
  match jget l4 (slit "sketch_version") with
  | Some JNull => jput l4 (slit "sketch_version") (JStr [])
  | _ => l4
  end.

Definition load_node (j : json) : option node :=
  match j with
  | JObj l0 =>
      let l := node_compat l0 in
      if only_known node_fields l then
        match req_field l "node_id" de_int, req_field l "node_type" de_int,
              req_field l "protocol_version" de_str,
              opt_field l "children"
                (fun v => match v with JObj m => de_dict load_child m [] | _ => None end) [],
              opt_field l "sketch_name" de_str [], opt_field l "sketch_version" de_str [],
              opt_field l "battery_level" de_int 0, opt_field l "heartbeat" de_int 0,
              opt_field l "sleeping" de_bool false with
        | Some nid, Some nt, Some pv, Some cs, Some sn, Some sv, Some b, Some hb, Some sl =>
            if field_ok node_schema "node_id" nid
               && (match jget l (slit "battery_level") with
                   | Some _ => field_ok node_schema "battery_level" b
                   | None => true
                   end)
            then Some {| n_id := nid; n_type := nt; n_ver := pv; n_children := cs;
                         n_sketch_name := sn; n_sketch_version := sv; n_battery := b;
                         n_heartbeat := hb; n_reboot := false; n_sleeping := sl |}
            else None
        | _, _, _, _, _, _, _, _, _ => None
        end
      else None
  | _ => None
  end.

(* Persistence.load after the file was read and parsed: every member value is a
   node record; nodes[node.node_id] = node; nothing is registered unless all load *)
Fixpoint load_nodes (l : list (str * json)) (acc : list (Z * node)) : option (list (Z * node)) :=
  match l with
  | [] => Some acc
  | (_, v) :: r =>
      match load_node v with
      | Some n => load_nodes r (dset Z.eqb acc (n_id n) n)
      | None => None
      end
  end.

Definition update_all (old new : list (Z * node)) : list (Z * node) :=
  fold_left (fun acc kn => dset Z.eqb acc (fst kn) (snd kn)) new old.

Definition load_registry (j : json) (old : list (Z * node)) : option (list (Z * node)) :=
  match j with
  | JObj l => match load_nodes l [] with
              | Some new => Some (update_all old new)
              | None => None
              end
  | _ => None
  end.

(* ---------- dump ---------- *)

Definition dump_values (vs : list (Z * str)) : json :=
  JObj (map (fun kv => (str_of_Z (fst kv), JStr (snd kv))) vs).

Definition dump_child (c : child) : json :=
  JObj [(slit "child_id", JInt (c_id c)); (slit "child_type", JInt (c_type c));
        (slit "description", JStr (c_desc c)); (slit "values", dump_values (c_values c))].

Definition dump_node (n : node) : json :=
  JObj [(slit "node_id", JInt (n_id n)); (slit "node_type", JInt (n_type n));
        (slit "protocol_version", JStr (n_ver n));
        (slit "children", JObj (map (fun kc => (str_of_Z (fst kc), dump_child (snd kc))) (n_children n)));
        (slit "sketch_name", JStr (n_sketch_name n)); (slit "sketch_version", JStr (n_sketch_version n));
        (slit "battery_level", JInt (n_battery n)); (slit "heartbeat", JInt (n_heartbeat n));
        (slit "sleeping", JBool (n_sleeping n))].

(* Persistence.save: data[node.node_id] = dump(node) for every node, then the JSON text *)
Definition dump_registry (reg : list (Z * node)) : json :=
  JObj (fold_left (fun acc kn => jput acc (str_of_Z (n_id (snd kn))) (dump_node (snd kn))) reg []).

(* the same registry in the legacy pymysensors layout *)
Definition legacy_child (c : child) : json :=
  JObj [(slit "id", JInt (c_id c)); (slit "type", JInt (c_type c));
        (slit "description", JStr (c_desc c)); (slit "values", dump_values (c_values c))].

Definition legacy_node (null_gateway_type null_sketch : bool) (n : node) : json :=
  JObj [(slit "sensor_id", JInt (n_id n));
        (slit "type", if null_gateway_type && (n_type n =? 18) then JNull else JInt (n_type n));
        (slit "protocol_version", JStr (n_ver n));
        (slit "children", JObj (map (fun kc => (str_of_Z (fst kc), legacy_child (snd kc))) (n_children n)));
        (slit "sketch_name", match n_sketch_name n with
                             | [] => if null_sketch then JNull else JStr []
                             | s => JStr s
                             end);
        (slit "sketch_version", match n_sketch_version n with
                                | [] => if null_sketch then JNull else JStr []
                                | s => JStr s
                                end);
        (slit "battery_level", JInt (n_battery n)); (slit "heartbeat", JInt (n_heartbeat n))].
