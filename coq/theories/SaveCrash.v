(* C15: what a crash during Persistence.save leaves behind.
   The JSON text layer is abstract: [render] is json.dumps of the dumped registry,
   [parse] is json.loads; three facts about them are assumed (Section hypotheses,
   validated by the correspondence run on every generated file):
     - parse (render reg) = the dumped value,
     - the empty text is read as the empty object (load substitutes "{}"),
     - a strict non-empty prefix of a rendered registry does not parse.
   File-system assumption: opening with mode "w" truncates at once; what reaches
   the disk of the data written before the crash is some prefix of it. *)
From Coq Require Import List NArith ZArith Bool String Lia.
From AMS Require Import TablesTypes Tables PyStr Codec Gateway Persist PersistFacts.
Import ListNotations.

Definition text := list N.

(* where the process dies during save-in-place (open(path, "w"); write(text); close) *)
Inductive crash_inplace :=
| BeforeOpen                 (* nothing happened yet *)
| AfterTruncate (n : nat).   (* the file was truncated; the first n bytes of the new text are on disk *)

(* ... and during write-temp-then-rename *)
Inductive crash_atomic :=
| BeforeRename (n : nat)     (* n bytes of the new text are in the temporary file *)
| AfterRename.

Inductive loaded :=
| LReg (r : list (Z * node))
| LReadError.


Section Crash.
  Variable render : list (Z * node) -> text.
  Variable parse : text -> option json.

  Definition load_text (t : text) : loaded :=
    match parse t with
    | Some j => match load_registry j [] with Some r => LReg r | None => LReadError end
    | None => LReadError
    end.

  Definition after_inplace (old new : list (Z * node)) (c : crash_inplace) : text :=
    match c with
    | BeforeOpen => render old
    | AfterTruncate n => firstn n (render new)
    end.

  Definition after_atomic (old new : list (Z * node)) (c : crash_atomic) : text :=
    match c with
    | BeforeRename _ => render old
    | AfterRename => render new
    end.

  Definition persisted (reg : list (Z * node)) : list (Z * node) :=
    map (fun kn => (fst kn, clear_reboot (snd kn))) reg.

  Hypothesis parse_render : forall reg, parse (render reg) = Some (dump_registry reg).
  Hypothesis parse_empty : parse [] = Some (JObj []).
  Hypothesis parse_prefix : forall reg n, (0 < n < List.length (render reg))%nat -> parse (firstn n (render reg)) = None.

  Lemma load_rendered reg : reg_ok reg -> load_text (render reg) = LReg (persisted reg).
  Proof.
    intros H. unfold load_text. rewrite parse_render, (load_dump_registry reg H). reflexivity.
  Qed.

  (* the precise extent of the finding: before the truncation the old registry is
     intact, after the complete write the new one is there, and in between the
     file loads as the EMPTY registry (nothing on disk yet) or is UNREADABLE *)
  Theorem crash_inplace_outcomes old new c :
    reg_ok old -> reg_ok new ->
    load_text (after_inplace old new c) =
    match c with
    | BeforeOpen => LReg (persisted old)
    | AfterTruncate n =>
        if Nat.eqb n 0 then (if Nat.eqb (List.length (render new)) 0 then LReg (persisted new) else LReg [])
        else if Nat.ltb n (List.length (render new)) then LReadError
        else LReg (persisted new)
    end.
  Proof.
    intros Ho Hn. destruct c as [|n]; cbn [after_inplace].
    - apply load_rendered. exact Ho.
    - destruct (Nat.eqb_spec n 0) as [->|Hn0].
      + cbn [firstn]. destruct (Nat.eqb_spec (List.length (render new)) 0) as [E|E].
        * pose proof (load_rendered new Hn) as L. destruct (render new); [exact L|discriminate].
        * unfold load_text. rewrite parse_empty. reflexivity.
      + destruct (Nat.ltb_spec n (List.length (render new))) as [Hlt|Hge].
        * unfold load_text. rewrite parse_prefix by lia. reflexivity.
        * rewrite firstn_all2 by lia. apply load_rendered. exact Hn.
  Qed.

  (* the property as stated is FALSE for save-in-place: a crash right after the
     truncation leaves a file that loads to neither the old nor the new registry *)
  Theorem crash_inplace_refuted :
    (forall reg, reg_ok reg -> reg <> [] -> render reg <> []) ->
    exists old new c,
      reg_ok old /\ reg_ok new
      /\ load_text (after_inplace old new c) <> LReg (persisted old)
      /\ load_text (after_inplace old new c) <> LReg (persisted new)
      /\ load_text (after_inplace old new c) <> LReadError.
  Proof.
    intros Hne.
    set (nd := fun i => {| n_id := i; n_type := 17; n_ver := []; n_children := []; n_sketch_name := [];
                           n_sketch_version := []; n_battery := 0; n_heartbeat := 0; n_reboot := false; n_sleeping := false |}).
    assert (Hok : forall i, (0 <= i <= 255)%Z -> reg_ok [(i, nd i)]).
    { intros i Hi. split; [repeat constructor; cbn; tauto|]. repeat constructor; cbn; try lia. }
    exists [(1%Z, nd 1%Z)], [(2%Z, nd 2%Z)], (AfterTruncate 0).
    split; [apply Hok; lia|]. split; [apply Hok; lia|].
    rewrite (crash_inplace_outcomes _ _ _ (Hok 1%Z ltac:(lia)) (Hok 2%Z ltac:(lia))). cbn [Nat.eqb].
    destruct (Nat.eqb_spec (List.length (render [(2%Z, nd 2%Z)])) 0) as [E|E].
    - exfalso. apply (Hne [(2%Z, nd 2%Z)]); [apply Hok; lia|discriminate|].
      destruct (render [(2%Z, nd 2%Z)]); [reflexivity|discriminate].
    - repeat split; discriminate.
  Qed.

  (* what a repair has to look like: with write-temp-then-rename every crash point
     leaves the old or the new registry *)
  Theorem crash_atomic_ok old new c :
    reg_ok old -> reg_ok new ->
    load_text (after_atomic old new c) = LReg (persisted old)
    \/ load_text (after_atomic old new c) = LReg (persisted new).
  Proof.
    intros Ho Hn. destruct c; cbn [after_atomic]; [left|right]; apply load_rendered; assumption.
  Qed.

  (* ---- an I/O error instead of a crash: the process lives, save has to say what happened ----
     save-in-place is: open(path, "w") ; write(text) (buffered) ; close (which flushes).  Each of
     the three may fail with OSError; [kept] bytes of the buffered text reached the file before
     the failing flush.  The code reports every such error as the persistence write error. *)
  Inductive io_fault := FailOpen | FailWrite | FailClose (kept : nat).
  Inductive save_outcome := SaveDone | SaveWriteError.

  Definition save_io (old new : list (Z * node)) (f : option io_fault) : save_outcome * text :=
    match f with
    | None => (SaveDone, render new)
    | Some FailOpen => (SaveWriteError, render old)          (* the file was not opened: untouched *)
    | Some FailWrite => (SaveWriteError, [])                 (* truncated, nothing flushed *)
    | Some (FailClose kept) => (SaveWriteError, firstn kept (render new))
    end.

  (* a save that returns normally has written the file: it loads to the registry that was saved;
     every I/O error is reported, whatever it left on the disk *)
  Theorem save_io_reports old new f :
    reg_ok new ->
    match fst (save_io old new f) with
    | SaveDone => f = None /\ load_text (snd (save_io old new f)) = LReg (persisted new)
    | SaveWriteError => f <> None
    end.
  Proof.
    intros Hn. destruct f as [[| |kept]|]; cbn [save_io fst snd]; try discriminate.
    split; [reflexivity|apply load_rendered; exact Hn].
  Qed.

  (* what an unreported error would mean: the file after a failing close loads to the saved
     registry only if everything had been flushed *)
  Theorem save_io_failed_close_extent old new kept :
    reg_ok new -> (0 < kept < List.length (render new))%nat ->
    load_text (snd (save_io old new (Some (FailClose kept)))) = LReadError.
  Proof.
    intros _ Hk. cbn [save_io snd]. unfold load_text. rewrite parse_prefix by exact Hk. reflexivity.
  Qed.

End Crash.

(* the category a crash point falls into, for the correspondence run: n bytes of a
   text of length len on disk after the truncation (None = before the open) *)
Definition crash_category (n : option nat) (len : nat) : nat :=
  match n with
  | None => 0
  | Some k => if Nat.eqb k 0 then (if Nat.eqb len 0 then 1 else 2)
              else if Nat.ltb k len then 3 else 1
  end%nat.

(* the same for an I/O error (op: 0 = the open, 1 = the write, 2 = the close, with [kept] bytes of a
   text of length [len] flushed before it failed): (1 if the error is reported else 0, what the file
   loads to afterwards: 0 old registry, 1 saved registry, 2 empty registry, 3 read error) *)
Definition io_fault_category (op : option nat) (kept len : nat) : nat * nat :=
  match op with
  | None => (0, 1)
  | Some O => (1, 0)
  | Some (S O) => (1, if Nat.eqb len 0 then 1 else 2)
  | Some _ => (1, if Nat.eqb kept 0 then (if Nat.eqb len 0 then 1 else 2)
                  else if Nat.ltb kept len then 3 else 1)
  end%nat.
