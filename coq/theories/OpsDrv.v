(* The operation step the correspondence driver runs, as an instance of the
   [step_op] the history theorems are about. *)
From Coq Require Import List NArith ZArith Bool String.
From AMS Require Import Models GatewayInv.
Import ListNotations.

Definition step_op_drv (batans : option Z) (vans : list (option bool)) (now : Z) (w : world) (o : op) :=
  step_op (fun _ => batans) (vlt_full (vlt_of_answers vans)) now w o.

(* the driver's R and T operations are the same function *)
Lemma step_op_drv_recv batans vans now w faults line :
  step_op_drv batans vans now w (ORecv line faults) = recv_drv batans vans now w faults line.
Proof. reflexivity. Qed.

Lemma step_op_drv_send batans vans now w faults m b :
  step_op_drv batans vans now w (OSend m b faults) = send_drv vans w faults m b.
Proof. reflexivity. Qed.

Lemma step_op_drv_reconnect batans vans now w :
  step_op_drv batans vans now w OReconnect = (w, Done, []).
Proof. reflexivity. Qed.
