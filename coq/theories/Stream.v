(* C17: StreamTransport (serial / TCP) over asyncio's StreamReader / StreamWriter.
   The reader is modelled as asyncio implements readuntil(b"\n") (CPython 3.12,
   streams.py): a buffer, an eof flag and a limit.  Executable definitions only. *)
From Coq Require Import List NArith ZArith Bool String.
From AMS Require Import TablesTypes Tables PyStr.
Import ListNotations.

Definition bytes := list N.

Record reader := { r_buf : bytes; r_eof : bool }.

Inductive read_result :=
| RLine (s : str)              (* a decoded line, terminator included *)
| RReadError (partial : option bytes)   (* TransportReadError (limit overrun, incomplete read, undecodable) *)
| RFailed                      (* TransportFailedError (OSError while reading / writing) *)
| RNotConnected.               (* TransportError: used before connect *)

(* index of the first terminator *)
Fixpoint find_nl (b : bytes) : option nat :=
  match b with
  | [] => None
  | c :: r => if N.eqb c terminator then Some O else option_map S (find_nl r)
  end.

(* one readuntil(b"\n") on the data present; None = it would wait for more data *)
Definition readuntil (limit : nat) (r : reader) : option (read_result * reader) :=
  match find_nl (r_buf r) with
  | Some i =>
      if Nat.ltb limit i then
        (* separator found, but the chunk is longer than the limit: nothing is consumed *)
        Some (RReadError None, r)
      else
        let line := firstn (S i) (r_buf r) in
        let rest := skipn (S i) (r_buf r) in
        Some (match utf8_decode line with
              | Some s => RLine s
              | None => RReadError (Some line)
              end, {| r_buf := rest; r_eof := r_eof r |})
  | None =>
      if Nat.ltb limit (List.length (r_buf r)) then Some (RReadError None, r)
      else if r_eof r then Some (RReadError (Some (r_buf r)), {| r_buf := []; r_eof := true |})
      else None
  end.

Inductive sop :=
| SFeed (chunk : bytes)        (* feed_data *)
| SEof                         (* feed_eof *)
| SRead.                       (* transport.read() issued; if it cannot complete it is re-issued later *)

(* run a schedule of feeds and reads; the results of the reads that completed, in order *)
Fixpoint srun (limit : nat) (r : reader) (ops : list sop) : list read_result * reader :=
  match ops with
  | [] => ([], r)
  | SFeed c :: rest => srun limit {| r_buf := r_buf r ++ c; r_eof := r_eof r |} rest
  | SEof :: rest => srun limit {| r_buf := r_buf r; r_eof := true |} rest
  | SRead :: rest =>
      match readuntil limit r with
      | Some (x, r') => let '(xs, rf) := srun limit r' rest in (x :: xs, rf)
      | None => srun limit r rest
      end
  end.

(* the first n reads of a complete stream (everything fed, then eof) *)
Fixpoint reads_of (limit : nat) (n : nat) (r : reader) : list read_result :=
  match n with
  | O => []
  | S k =>
      match readuntil limit r with
      | Some (x, r') => x :: reads_of limit k r'
      | None => []
      end
  end.

Definition fed (ops : list sop) : bytes :=
  flat_map (fun o => match o with SFeed c => c | _ => [] end) ops.

(* ---- the transport around it ---- *)

Record stream_transport := { st_connected : bool; st_out : bytes }.

Inductive wfault := WOk | WOSError.

(* write(line): encode, write, drain *)
Definition st_write (t : stream_transport) (line : str) (f : wfault) : read_result * stream_transport :=
  if negb (st_connected t) then (RNotConnected, t)
  else match f with
       | WOSError => (RFailed, t)
       | WOk => match utf8_encode line with
                | Some b => (RLine line, {| st_connected := true; st_out := st_out t ++ b |})
                | None => (RReadError None, t)   (* lone surrogates: UnicodeEncodeError, outside the property *)
                end
       end.

(* ---- one StreamTransport object over its whole life ----
   connect (which may fail), disconnect (whose close may fail), the peer feeding data or
   ending the stream, reads and writes, in any order.  As in the code, disconnect closes
   the writer it has (every time it is called) and keeps the stream objects; a new
   successful connect replaces them; a failed connect leaves whatever was there. *)
Record tsession := {
  ts_streams : bool;          (* reader / writer are set *)
  ts_reader : reader;
  ts_out : bytes;             (* bytes put on the current connection *)
  ts_closes : nat             (* writer.close() calls so far *)
}.

Definition ts_init : tsession :=
  {| ts_streams := false; ts_reader := {| r_buf := []; r_eof := false |}; ts_out := []; ts_closes := 0 |}.

Inductive top :=
| TConnect (ok : bool)              (* _open_connection returns streams / raises OSError *)
| TDisconnect (close_fails : bool)  (* close() / wait_closed() raises OSError or not *)
| TFeed (chunk : bytes) | TEof      (* the peer *)
| TRead (read_fails : bool)         (* readuntil raises OSError (connection reset) or not *)
| TWrite (line : str) (f : wfault).

Inductive tout :=
| TDone
| TConnectError                     (* TransportError: failed to connect *)
| TPending                          (* the read waits for more data *)
| TRes (r : read_result).

Definition tstep (limit : nat) (s : tsession) (o : top) : tsession * tout :=
  match o with
  | TConnect true =>
      ({| ts_streams := true; ts_reader := {| r_buf := []; r_eof := false |}; ts_out := []; ts_closes := ts_closes s |}, TDone)
  | TConnect false => (s, TConnectError)
  | TDisconnect _ =>
      if ts_streams s
      then ({| ts_streams := true; ts_reader := ts_reader s; ts_out := ts_out s; ts_closes := S (ts_closes s) |}, TDone)
      else (s, TDone)
  | TFeed c =>
      ({| ts_streams := ts_streams s; ts_reader := {| r_buf := r_buf (ts_reader s) ++ c; r_eof := r_eof (ts_reader s) |};
          ts_out := ts_out s; ts_closes := ts_closes s |}, TDone)
  | TEof =>
      ({| ts_streams := ts_streams s; ts_reader := {| r_buf := r_buf (ts_reader s); r_eof := true |};
          ts_out := ts_out s; ts_closes := ts_closes s |}, TDone)
  | TRead fails =>
      if negb (ts_streams s) then (s, TRes RNotConnected)
      else if fails then (s, TRes RFailed)
      else match readuntil limit (ts_reader s) with
           | Some (x, r') =>
               ({| ts_streams := true; ts_reader := r'; ts_out := ts_out s; ts_closes := ts_closes s |}, TRes x)
           | None => (s, TPending)
           end
  | TWrite line f =>
      let '(x, t) := st_write {| st_connected := ts_streams s; st_out := ts_out s |} line f in
      ({| ts_streams := ts_streams s; ts_reader := ts_reader s; ts_out := st_out t; ts_closes := ts_closes s |}, TRes x)
  end.

Fixpoint trun (limit : nat) (s : tsession) (ops : list top) : tsession * list tout :=
  match ops with
  | [] => (s, [])
  | o :: r => let '(s1, x) := tstep limit s o in let '(s2, xs) := trun limit s1 r in (s2, x :: xs)
  end.
