(* C05: a received line that is not a version report (an I_VERSION message, or the gateway's
   own presentation) never changes the reported version or the active protocol — for every
   line, state, oracle and fault stream.  No table hypothesis beyond "which type values are
   called i_version" (a computed fact). *)
From Coq Require Import List NArith ZArith Bool String Lia.
From AMS Require Import TablesTypes Tables PyStr Codec CodecFacts Gateway GatewayFacts GatewayInv GatewaySteps GatewayTrace GatewayReg GatewaySim.
Import ListNotations.
Local Open Scope Z_scope.

(* whatever protocol is active, the type of m is not dispatched to the version handler *)
Definition not_version_type (m : msg) : Prop :=
  (forall i ln, enum_lname_of (pt_internal (proto_at i)) (m_type m) = Some ln -> ("handle_" ++ ln)%string <> "handle_i_version"%string)
  /\ (forall i ln, enum_lname_of (pt_stream (proto_at i)) (m_type m) = Some ln -> ("handle_" ++ ln)%string <> "handle_i_version"%string).

Lemma body_version_name md name : body_of md name = Some BVersion -> name = "handle_i_version"%string.
Proof.
  intros H. apply body_of_in_In in H. destruct H as [md' H]. unfold body_table in H. cbn [In] in H.
  repeat (destruct H as [H|H]; [injection H; intros; subst; try discriminate; try reflexivity|]).
  contradiction.
Qed.

Section Vsame.
  Variable bat : str -> option Z.
  Variable vlt : str -> str -> option bool.
  Variable now : Z.

  Definition ver (s : st) : option str * nat := (w_pv (s_w s), w_proto (s_w s)).
  Definition vs_at {A} (c : M A) (s : st) : Prop := ver (snd (c s)) = ver s.
  Definition vs {A} (c : M A) : Prop := forall s, vs_at c s.

  Lemma vs_same_at {A} (c : M A) s :
    w_pv (s_w (snd (c s))) = w_pv (s_w s) -> w_proto (s_w (snd (c s))) = w_proto (s_w s) -> vs_at c s.
  Proof. intros H1 H2. unfold vs_at, ver. rewrite H1, H2. reflexivity. Qed.

  Lemma vs_ret {A} (x : A) : vs (ret x).
  Proof. intros s. reflexivity. Qed.
  Lemma vs_raise {A} e : vs (@raise A e).
  Proof. intros s. reflexivity. Qed.

  Lemma vs_bind_at {A B} (m : M A) (f : A -> M B) s :
    vs_at m s -> (forall x, fst (m s) = inl x -> vs_at (f x) (snd (m s))) -> vs_at (bind m f) s.
  Proof.
    intros Hm Hf. unfold vs_at, bind in *.
    destruct (m s) as [[x|e] s'] eqn:E; cbn [fst snd] in *; [|exact Hm]. rewrite (Hf x eq_refl). exact Hm.
  Qed.

  Lemma vs_bind {A B} (m : M A) (f : A -> M B) : vs m -> (forall x, vs (f x)) -> vs (bind m f).
  Proof. intros Hm Hf s. apply vs_bind_at; [apply Hm|intros x _; apply Hf]. Qed.

  Lemma vs_get_w {B} (f : world -> M B) : (forall s, vs_at (f (s_w s)) s) -> vs (bind get_w f).
  Proof. intros H s. exact (H s). Qed.
  Lemma vs_bind_ret {A B} (x : A) (f : A -> M B) : vs (f x) -> vs (bind (ret x) f).
  Proof. intros H s. exact (H s). Qed.
  Lemma vs_bind_ret_at {A B} (x : A) (f : A -> M B) s : vs_at (f x) s -> vs_at (bind (ret x) f) s.
  Proof. intros H. exact H. Qed.

  Lemma vs_try_finally_at {A} (body : M A) (fin : M unit) s :
    vs_at body s -> vs fin -> vs_at (try_finally body fin) s.
  Proof.
    intros Hb Hf. unfold vs_at, try_finally in *.
    destruct (body s) as [r s'] eqn:E. cbn [fst snd] in *. specialize (Hf s'). unfold vs_at in Hf.
    destruct (fin s') as [[u|e] s''] eqn:E2; cbn [fst snd] in *; rewrite Hf; exact Hb.
  Qed.

  Lemma vs_write pm : vs (write_msg pm).
  Proof. intros s. unfold vs_at. rewrite write_eq. reflexivity. Qed.

  Lemma vs_send pm b : vs (send pm b).
  Proof.
    intros s. unfold vs_at. rewrite send_eq. unfold send_resolved.
    assert (G : forall bb, ver (snd (send_set_direct pm bb s)) = ver s).
    { intros bb. unfold send_set_direct, bind. rewrite write_eq. destruct (hd false (s_faults s)); [reflexivity|].
      destruct bb; reflexivity. }
    destruct (m_cmd pm =? 1).
    - destruct (dget Z.eqb (w_nodes (s_w s)) (m_node pm)) as [n|]; [destruct (b && n_sleeping n); [reflexivity|apply G]|apply G].
    - destruct (m_cmd pm =? 3); [destruct b; [reflexivity|rewrite write_eq; reflexivity]|].
      destruct ((m_cmd pm =? 0) || (m_cmd pm =? 2) || (m_cmd pm =? 4)); reflexivity.
  Qed.

  Lemma vs_require_node id : vs (require_node id).
  Proof. intros s. unfold vs_at. rewrite require_node_eq. destruct (dget Z.eqb (w_nodes (s_w s)) id); reflexivity. Qed.
  Lemma vs_update_node id f : vs (update_node id f).
  Proof. intros s. reflexivity. Qed.
  Lemma vs_set_nodes f : vs (set_nodes f).
  Proof. intros s. reflexivity. Qed.
  Lemma vs_set_internal f : vs (set_internal f).
  Proof. intros s. reflexivity. Qed.
  Lemma vs_set_setbuf f : vs (set_setbuf f).
  Proof. intros s. reflexivity. Qed.
  Lemma vs_flush es : vs (flush_entries es).
  Proof.
    induction es as [|[k bm] r IH]; cbn [flush_entries]; [apply vs_ret|].
    apply vs_bind; [apply vs_send|intros _]. apply vs_bind; [apply vs_set_setbuf|intros _; exact IH].
  Qed.

  Lemma vs_handle_sleep_buffer m : vs (handle_sleep_buffer m).
  Proof.
    unfold handle_sleep_buffer. apply vs_get_w. intros s. apply vs_bind; [apply vs_flush|intros _; apply vs_ret].
  Qed.

  Lemma vs_body2 b super m :
    b <> BVersion -> (b = BSuper -> vs (super m)) -> vs (run_body2 bat vlt now b super m).
  Proof.
    intros Hv Hs. destruct consts_p14 as [C1 [C2 [C3 [C4 [C5 [C6 [C7 C8]]]]]]].
    destruct consts_p20 as [D1 [D2 D3]].
    destruct b; cbn [run_body2]; try apply vs_raise.
    - apply Hs. reflexivity.
    - contradiction Hv. reflexivity.
    - apply vs_get_w. intros s.
      match goal with |- context [if ?c then _ else _] => destruct c end; [exact (vs_raise _ s)|].
      rewrite C1, C2. cbn [need]. apply vs_bind_ret_at. apply vs_bind_ret_at.
      apply vs_bind; [apply vs_set_nodes|intros _].
      apply vs_bind; [apply vs_send|intros _; apply vs_ret].
    - apply vs_get_w. intros s. apply vs_bind; [apply vs_send|intros _; apply vs_ret].
    - apply vs_bind; [apply vs_send|intros _; apply vs_ret].
    - apply vs_bind; [apply vs_require_node|intros _].
      destruct (bat (m_payload m)) as [lvl|]; [|apply vs_raise].
      destruct ((0 <=? lvl) && (lvl <=? 100)); [|apply vs_raise].
      apply vs_bind; [apply vs_update_node|intros _; apply vs_ret].
    - apply vs_bind; [apply vs_require_node|intros _].
      apply vs_bind; [apply vs_update_node|intros _; apply vs_ret].
    - apply vs_bind; [apply vs_require_node|intros _].
      apply vs_bind; [apply vs_update_node|intros _; apply vs_ret].
    - rewrite D2. cbn [need]. apply vs_bind_ret.
      apply vs_bind; [apply vs_send|intros _; apply vs_ret].
    - apply vs_bind; [apply vs_require_node|intros _; apply vs_ret].
    - apply vs_bind; [apply vs_require_node|intros _].
      destruct (py_int (m_payload m)); [|apply vs_raise].
      apply vs_bind; [apply vs_update_node|intros _]. apply vs_handle_sleep_buffer.
    - apply vs_bind; [apply vs_require_node|intros _].
      destruct (py_int (m_payload m)); [|apply vs_raise].
      apply vs_bind; [apply vs_update_node|intros _; apply vs_ret].
    - apply vs_bind; [apply vs_require_node|intros _].
      apply vs_bind; [apply vs_update_node|intros _]. apply vs_handle_sleep_buffer.
  Qed.

  Lemma vs_dec_mpv_at f m s : vs_at (f m) s -> vs_at (dec_mpv f m) s.
  Proof.
    intros Hf. destruct consts_p14 as [C1 [C2 [C3 [C4 [C5 [C6 [C7 C8]]]]]]].
    unfold dec_mpv. apply vs_try_finally_at; [exact Hf|].
    apply vs_get_w. intros s0. destruct (w_pv (s_w s0)); [exact (vs_ret _ s0)|].
    rewrite C7, C3, C4, C5. cbn [need]. repeat apply vs_bind_ret_at.
    match goal with |- context [if ?c then _ else _] => destruct c end; [apply vs_send|apply vs_ret].
  Qed.

  Lemma vs_request_presentation m e : vs (request_presentation m e).
  Proof.
    intros s. unfold vs_at. rewrite request_presentation_eq. cbv zeta.
    destruct (dmem key_eqb (w_internal (s_w s)) (pres_key (m_node m))); [reflexivity|].
    rewrite write_eq. destruct (hd false (s_faults s)); reflexivity.
  Qed.

  Lemma vs_dec_mnc_at f m s : vs_at (f m) s -> vs_at (dec_mnc f m) s.
  Proof.
    intros Hf. unfold vs_at in *. rewrite dec_mnc_eq.
    destruct (f m s) as [[x|e] s'] eqn:E; cbn [fst snd] in *; [exact Hf|].
    destruct (is_missing e); [|exact Hf]. rewrite (vs_request_presentation m e s'). exact Hf.
  Qed.

  Lemma vs_apply_decs_at ds f m s :
    forallb known_dec ds = true -> vs_at (f m) s -> vs_at (apply_decs ds f m) s.
  Proof.
    induction ds as [|d r IH]; cbn [apply_decs fold_right forallb]; intros Hd Hf; [exact Hf|].
    apply andb_true_iff in Hd. destruct Hd as [Hd Hr]. unfold apply_dec.
    destruct (String.eqb d "handle_missing_protocol_version") eqn:E1; [apply vs_dec_mpv_at; apply IH; assumption|].
    destruct (String.eqb d "handle_missing_node_child") eqn:E2; [apply vs_dec_mnc_at; apply IH; assumption|].
    unfold known_dec in Hd. rewrite E1, E2 in Hd. discriminate.
  Qed.

  Lemma vs_apply_decs_any ds f m : vs (f m) -> vs (apply_decs ds f m).
  Proof.
    intros Hf. induction ds as [|d r IH]; cbn [apply_decs fold_right]; [exact Hf|].
    intros s. unfold apply_dec.
    destruct (String.eqb d "handle_missing_protocol_version"); [apply vs_dec_mpv_at; apply IH|].
    destruct (String.eqb d "handle_missing_node_child"); [apply vs_dec_mnc_at; apply IH|exact (vs_raise _ s)].
  Qed.

  Lemma vs_chain2 name chain m : name <> "handle_i_version"%string -> vs (run_chain2 bat vlt now name chain m).
  Proof.
    intros Hname. induction chain as [|[md ds] r IH]; cbn [run_chain2]; [apply vs_raise|].
    apply vs_apply_decs_any. destruct (body_of md name) as [b|] eqn:Eb; [|apply vs_raise].
    apply vs_body2; [intros ->; apply Hname; exact (body_version_name md name Eb)|intros _; exact IH].
  Qed.

  Lemma vs_dispatch2 name m : name <> "handle_i_version"%string -> vs (dispatch2 bat vlt now name m).
  Proof.
    intros Hname. unfold dispatch2. apply vs_get_w. intros s.
    destruct (lookup_chain (pt_incoming (proto_of (s_w s))) name) as [c|]; [apply vs_chain2; exact Hname|exact (vs_ret m s)].
  Qed.

  Lemma vs_body1 b super m :
    (b = BSuper \/ b = BPresentation20 -> vs (super m)) ->
    (b = BPresentation14 -> ~ (m_child m = 255 /\ m_node m = 0)) ->
    (b = BInternal14 \/ b = BStream14 -> not_version_type m) ->
    vs (run_body1 bat vlt now b super m).
  Proof.
    intros Hs Hg Hnv. destruct consts_p14 as [C1 [C2 [C3 [C4 [C5 [C6 [C7 C8]]]]]]].
    destruct consts_p20 as [D1 [D2 D3]].
    destruct b; cbn [run_body1]; try apply vs_raise.
    - apply Hs. left. reflexivity.
    - rewrite D1. cbn [need]. apply vs_bind_ret. apply vs_bind; [apply vs_set_internal|intros _]. apply Hs. right. reflexivity.
    - rewrite system_child_id_is. destruct (Z.eqb_spec (m_child m) 255) as [Ec|Ec].
      + apply vs_bind; [apply vs_set_nodes|intros _].
        destruct (Z.eqb_spec (m_node m) 0) as [En|En]; [exfalso; apply (Hg eq_refl); split; assumption|apply vs_ret].
      + apply vs_bind; [apply vs_require_node|intros _].
        apply vs_bind; [apply vs_update_node|intros _; apply vs_ret].
    - apply vs_bind; [apply vs_require_node|intros n].
      destruct (negb (dmem Z.eqb (n_children n) (m_child m))); [apply vs_raise|].
      apply vs_bind; [apply vs_update_node|intros _].
      destruct (n_reboot n); [|apply vs_ret].
      rewrite C7, C6. cbn [need]. apply vs_bind_ret. apply vs_bind_ret.
      apply vs_bind; [apply vs_send|intros _; apply vs_ret].
    - apply vs_bind; [apply vs_require_node|intros n].
      destruct (dget Z.eqb (n_children n) (m_child m)) as [c|]; [|apply vs_raise].
      destruct (dget Z.eqb (c_values c) (m_type m)) as [v|]; [|apply vs_ret].
      rewrite C8. cbn [need]. apply vs_bind_ret.
      apply vs_bind; [apply vs_send|intros _; apply vs_ret].
    - apply vs_get_w. intros s.
      destruct (enum_lname_of (pt_internal (proto_of (s_w s))) (m_type m)) as [ln|] eqn:El; [|exact (vs_raise _ s)].
      apply vs_dispatch2. exact (proj1 (Hnv (or_introl eq_refl)) _ _ El).
    - apply vs_bind; [apply vs_require_node|intros _]. apply vs_get_w. intros s.
      destruct (enum_lname_of (pt_stream (proto_of (s_w s))) (m_type m)) as [ln|] eqn:El; [|exact (vs_raise _ s)].
      apply vs_dispatch2. exact (proj2 (Hnv (or_intror eq_refl)) _ _ El).
  Qed.

  Lemma vs_chain1 name chain m :
    (name = "handle_presentation"%string -> ~ (m_child m = 255 /\ m_node m = 0)) ->
    (name = "handle_internal"%string \/ name = "handle_stream"%string -> not_version_type m) ->
    vs (run_chain1 bat vlt now name chain m).
  Proof.
    intros Hg Hnv. induction chain as [|[md ds] r IH]; cbn [run_chain1]; [apply vs_raise|].
    apply vs_apply_decs_any. destruct (body_of md name) as [b|] eqn:Eb; [|apply vs_raise].
    destruct (GatewaySim.body_name md name b Eb) as [N1 [N2 N3]].
    apply vs_body1; [intros _; exact IH|intros E; apply Hg; apply N1; exact E|].
    intros [E|E]; apply Hnv; [left; apply N2; exact E|right; apply N3; exact E].
  Qed.


  (* THE THEOREM: a line that is not a version report leaves reported version and active protocol alone *)
  Theorem vs_listen_step line s :
    (forall m, decode (proto_of (s_w s)) line = DecOk m ->
       ~ (m_child m = 255 /\ m_node m = 0 /\ m_cmd m = 0)
       /\ (m_cmd m = 3 \/ m_cmd m = 4 -> not_version_type m)) ->
    ver (snd (listen_step bat vlt now line s)) = ver s.
  Proof.
    intros Hm. unfold listen_step, bind, get_w. cbn beta iota.
    destruct (decode (proto_of (s_w s)) line) as [m| |c] eqn:E; [|reflexivity|reflexivity].
    destruct (Hm m eq_refl) as [Hg Hnv]. unfold proto_of. rewrite command_lname.
    destruct (lname_cmd (m_cmd m)) as [cname|] eqn:Ec; [|reflexivity].
    destruct (lookup_chain (pt_incoming (proto_at (w_proto (s_w s)))) ("handle_" ++ cname)) as [c|] eqn:El; [|reflexivity].
    destruct (cname_cmd _ _ Ec) as [K0 [K3 K4]].
    apply vs_chain1.
    - intros En [H1 H2]. apply Hg. repeat split; [exact H1|exact H2|apply K0; exact En].
    - intros [En|En]; apply Hnv; [left; apply K3; exact En|right; apply K4; exact En].
  Qed.
End Vsame.

(* the table fact: in every protocol the only internal value called i_version is 2, and no
   stream value is *)
Definition version_names_ok (p : proto_tables) : bool :=
  forallb (fun e => let '(_, ln, v) := e in negb (String.eqb ln "i_version") || (v =? 2)) (pt_internal p)
  && forallb (fun e => let '(_, ln, _) := e in negb (String.eqb ln "i_version")) (pt_stream p).

Lemma tables_version_names : forallb version_names_ok protocols = true.
Proof. vm_compute. reflexivity. Qed.

Lemma enum_lname_In t v ln : enum_lname_of t v = Some ln -> exists n, In (n, ln, v) t.
Proof.
  induction t as [|[[n l] v'] r IH]; cbn; [discriminate|].
  destruct (Z.eqb_spec v v') as [->|Hne].
  - intros H. injection H as <-. exists n. left. reflexivity.
  - intros H. destruct (IH H) as [n' Hin]. exists n'. right. exact Hin.
Qed.

Lemma handle_inj a b : ("handle_" ++ a)%string = ("handle_" ++ b)%string -> a = b.
Proof. cbn. intros H. injection H as H. exact H. Qed.

Theorem type_not_2_not_version m : m_type m <> 2 -> not_version_type m.
Proof.
  intros Ht. pose proof tables_version_names as T. rewrite forallb_forall in T.
  assert (Hin : forall k, In (proto_at k) protocols).
  { intros k. apply (proto_at_cases (fun p => In p protocols)); cbn; tauto. }
  split; intros i ln El Hn; apply handle_inj in Hn; subst ln;
    specialize (T _ (Hin i)); unfold version_names_ok in T; apply andb_true_iff in T; destruct T as [T1 T2];
    rewrite forallb_forall in T1, T2; destruct (enum_lname_In _ _ _ El) as [n Hi].
  - specialize (T1 _ Hi). cbn in T1. apply Z.eqb_eq in T1. contradiction.
  - specialize (T2 _ Hi). cbn in T2. discriminate T2.
Qed.
