(* C19: facts about the generated tables across protocol versions, by
   computation (complete: the tables are finite). *)
From Coq Require Import List NArith ZArith Bool String.
From AMS Require Import TablesTypes Tables PyStr Codec CodecFacts Gateway GatewayFacts.
Import ListNotations.
Local Open Scope Z_scope.

(* every value of the older table exists in the newer one (names may be renamed
   or gain aliases; the handlers only ever see the value and its canonical name) *)
Definition values_sub (older newer : list (string * string * Z)) : bool :=
  forallb (fun e => memZ (snd e) (enum_values newer)) older.

Definition tables_mono (p q : proto_tables) : bool :=
  values_sub (pt_command p) (pt_command q)
  && values_sub (pt_presentation p) (pt_presentation q)
  && values_sub (pt_setreq p) (pt_setreq q)
  && values_sub (pt_internal p) (pt_internal q)
  && values_sub (pt_stream p) (pt_stream q)
  && Z.eqb (pt_internal_command_type p) (pt_internal_command_type q)
  && set_eqb (pt_node_id_request_types p) (pt_node_id_request_types q)
  && set_eqb (pt_strict_system p) (pt_strict_system q)
  && set_eqb (pt_valid_system p) (pt_valid_system q).

Fixpoint ordered_pairs {A} (l : list A) : list (A * A) :=
  match l with
  | [] => []
  | x :: r => map (fun y => (x, y)) r ++ ordered_pairs r
  end.

Lemma tables_monotone :
  forallb (fun pq => tables_mono (fst pq) (snd pq)) (ordered_pairs protocols) = true.
Proof. vm_compute. reflexivity. Qed.

(* handler chains: which (module, decorators) implement a handler name *)
Fixpoint chain_eqb (a b : handler_chain) : bool :=
  match a, b with
  | [], [] => true
  | (m1, d1) :: r1, (m2, d2) :: r2 =>
      String.eqb m1 m2 && (if list_eq_dec string_dec d1 d2 then true else false) && chain_eqb r1 r2
  | _, _ => false
  end.

Definition chain_opt_eqb (a b : option handler_chain) : bool :=
  match a, b with
  | None, None => true
  | Some x, Some y => chain_eqb x y
  | _, _ => false
  end.

(* all handler names of p are implemented identically in q, except the listed names *)
Definition handlers_same_except (except : list string) (p q : proto_tables) : bool :=
  forallb (fun e => let '(n, c) := e in
             existsb (String.eqb n) except
             || chain_opt_eqb (Some c) (lookup_chain (pt_incoming q) n)) (pt_incoming p)
  && forallb (fun e => let '(n, c) := e in
             chain_opt_eqb (Some c) (lookup_chain (pt_outgoing q) n)) (pt_outgoing p).

(* q defines no incoming handler for a name p lacks, other than the listed ones *)
Definition no_new_handlers_except (except : list string) (p q : proto_tables) : bool :=
  forallb (fun e => let '(n, _) := e in
             existsb (String.eqb n) except
             || match lookup_chain (pt_incoming p) n with Some _ => true | None => false end) (pt_incoming q).

(* the handler chain a type value is dispatched to (via its canonical name) *)
Definition dispatch_chain (p : proto_tables) (tbl : proto_tables -> list (string * string * Z)) (v : Z)
  : option handler_chain :=
  match enum_lname_of (tbl p) v with
  | Some ln => lookup_chain (pt_incoming p) ("handle_" ++ ln)
  | None => None
  end.

Definition dispatch_same_except (except : list Z) (p q : proto_tables) : bool :=
  forallb (fun e => memZ (snd e) except
                    || chain_opt_eqb (dispatch_chain p pt_internal (snd e)) (dispatch_chain q pt_internal (snd e)))
          (pt_internal p)
  && forallb (fun e => chain_opt_eqb (dispatch_chain p pt_stream (snd e)) (dispatch_chain q pt_stream (snd e)))
          (pt_stream p)
  && forallb (fun n => chain_opt_eqb (lookup_chain (pt_incoming p) n) (lookup_chain (pt_incoming q) n)
                       && chain_opt_eqb (lookup_chain (pt_outgoing p) n) (lookup_chain (pt_outgoing q) n))
          ["handle_presentation"; "handle_set"; "handle_req"; "handle_internal"; "handle_stream"]%string.

Lemma dispatch_same_minor :
  dispatch_same_except [] proto_1_4 proto_1_5 = true
  /\ dispatch_same_except [] proto_2_0 proto_2_1 = true
  /\ dispatch_same_except [22] proto_2_1 proto_2_2 = true
  /\ dispatch_same_except [22] proto_2_0 proto_2_2 = true
  /\ dispatch_same_except [] proto_2_1 proto_2_2 = false.
Proof. vm_compute. repeat split. Qed.

Lemma handlers_same_minor :
  handlers_same_except [] proto_1_4 proto_1_5 = true
  /\ no_new_handlers_except [] proto_1_4 proto_1_5 = true
  /\ handlers_same_except [] proto_2_0 proto_2_1 = true
  /\ no_new_handlers_except [] proto_2_0 proto_2_1 = true
  /\ handlers_same_except ["handle_i_heartbeat_response"]%string proto_2_1 proto_2_2 = true
  /\ no_new_handlers_except ["handle_i_pre_sleep_notification"]%string proto_2_1 proto_2_2 = true
  /\ handlers_same_except ["handle_i_heartbeat_response"]%string proto_2_0 proto_2_2 = true.
Proof. vm_compute. repeat split. Qed.

(* across the major line: the 2.x handlers are the 1.x handlers wrapped in the
   missing-node/child decorator, plus gateway-ready, discover-response and the wake signals *)
Definition chain_1x_suffix (c1 c2 : handler_chain) : bool :=
  (* c2 = zero or more protocol_20/22 layers followed by exactly c1 *)
  let n := (List.length c2 - List.length c1)%nat in
  chain_eqb c1 (skipn n c2)
  && forallb (fun e => String.eqb (fst e) "protocol_20" || String.eqb (fst e) "protocol_22") (firstn n c2).

Lemma handlers_major :
  forallb (fun e => let '(n, c) := e in
             match lookup_chain (pt_incoming proto_2_0) n with
             | Some c2 => chain_1x_suffix c c2
             | None => false
             end) (pt_incoming proto_1_5) = true.
Proof. vm_compute. reflexivity. Qed.
