(* C18: the MQTT transport: topic <-> line mapping, subscriptions, the queue
   between the broker callback and read().  Executable definitions only. *)
From Coq Require Import List NArith ZArith Bool String.
From AMS Require Import TablesTypes Tables PyStr Codec.
Import ListNotations.

Definition slash : N := 47.

(* _parse_message_to_mqtt: None = the ValueError Python raises on a line that does
   not have six fields or whose ack is not an integer *)
Definition to_mqtt (out_prefix : str) (line : str) : option (str * str * Z) :=
  match splitn 5 delimiter (rstrip line) with
  | [n; c; k; a; t; p] =>
      match py_int a with
      | Some q => Some (out_prefix ++ slash :: join slash [n; c; k; a; t], p, q)
      | None => None
      end
  | _ => None
  end.

(* MQTTClient._publish: what the broker client's publish is called with:
   (topic, qos, retain, payload) — the payload keyword is left out when empty *)
Definition client_publish (topic payload : str) (qos : Z) : str * Z * bool * option str :=
  (topic, qos, false, match payload with [] => None | _ => Some payload end).

(* MQTTClient.write = MQTTTransport.write ; _publish *)
Definition client_write (out_prefix : str) (line : str) : option (str * Z * bool * option str) :=
  match to_mqtt out_prefix line with
  | Some (topic, payload, qos) => Some (client_publish topic payload qos)
  | None => None
  end.

Definition lastn {A} (n : nat) (l : list A) : list A := skipn (List.length l - n) l.

(* _parse_mqtt_to_message *)
Definition of_mqtt (topic payload : str) : str :=
  join delimiter (lastn 5 (split slash topic) ++ [payload]).

(* MQTT topic filter matching, level by level; '+' (43) matches exactly one level *)
Fixpoint levels_match (f t : list str) : bool :=
  match f, t with
  | [], [] => true
  | fl :: fr, tl :: tr => (str_eqb fl [43%N] || str_eqb fl tl) && levels_match fr tr
  | _, _ => false
  end.

Definition filter_matches (flt topic : str) : bool :=
  levels_match (split slash flt) (split slash topic).

(* connect(): one subscription per generated suffix, under the in-prefix *)
Definition subscriptions (in_prefix : str) : list (str * Z) :=
  map (fun s => (in_prefix ++ fst s, snd s)) mqtt_subscriptions.

(* what the broker delivers to the client's receive loop *)
Inductive broker_event :=
| BMsg (topic : str) (payload : list N)
| BError.                       (* aiomqtt raises MqttError: the message iterator ends *)

Inductive queue_entry :=
| QLine (line : str)
| QReadError                    (* undecodable payload: TransportReadError, reception continues *)
| QFailed.                      (* broker error: TransportFailedError, reception has ended *)

(* _handle_incoming *)
Fixpoint receive_loop (evs : list broker_event) : list queue_entry :=
  match evs with
  | [] => []
  | BMsg topic payload :: r =>
      match utf8_decode payload with
      | Some p => QLine (of_mqtt topic p) :: receive_loop r
      | None => QReadError :: receive_loop r
      end
  | BError :: _ => [QFailed]
  end.

(* read(): entries leave the queue in arrival order, each once *)
Fixpoint reads (q : list queue_entry) (n : nat) : list queue_entry * list queue_entry :=
  match n, q with
  | S k, e :: r => let '(got, rest) := reads r k in (e :: got, rest)
  | _, _ => ([], q)
  end.

(* ---------- connect(): enter the broker client, start the receive task, subscribe ----------
   MQTTTransport.connect over MQTTClient: _connect (enter the broker client; on MqttError a
   transport error, nothing was started), then one _subscribe per topic under asyncio.gather;
   when a subscription fails connect disconnects (cancels the receive task, leaves the broker
   client) before the transport error propagates.  [enter_fails] and [sub_faults] are the
   fault positions; which of the other subscriptions got through before the failure is not
   modelled (they run concurrently). *)
Record mqtt_conn := {
  mc_client : bool;        (* self._client is not None *)
  mc_task : bool;          (* the receive task exists *)
  mc_entered : Z;          (* entries minus exits of the broker client's context *)
  mc_subs : list (str * Z) (* subscriptions known to have been made (on success: all) *)
}.

Definition mc_init : mqtt_conn := {| mc_client := false; mc_task := false; mc_entered := 0; mc_subs := [] |}.

Inductive conn_outcome := ConnOk | ConnTransportError | ConnRuntimeError.

Definition mqtt_disconnect (s : mqtt_conn) : mqtt_conn * conn_outcome :=
  if mc_client s && mc_task s
  then ({| mc_client := false; mc_task := false; mc_entered := mc_entered s - 1; mc_subs := [] |}, ConnOk)
  else (s, ConnRuntimeError).

Definition mqtt_connect (in_prefix : str) (enter_fails : bool) (sub_faults : list bool) (s : mqtt_conn)
  : mqtt_conn * conn_outcome :=
  if mc_client s || mc_task s then (s, ConnRuntimeError)
  else if enter_fails
  then ({| mc_client := true; mc_task := false; mc_entered := mc_entered s; mc_subs := [] |}, ConnTransportError)
  else
    let started := {| mc_client := true; mc_task := true; mc_entered := mc_entered s + 1; mc_subs := [] |} in
    let topics := subscriptions in_prefix in
    if existsb (fun b => b) (firstn (List.length topics) sub_faults)
    then (fst (mqtt_disconnect started), ConnTransportError)
    else ({| mc_client := true; mc_task := true; mc_entered := mc_entered s + 1; mc_subs := topics |}, ConnOk).

(* ---------- a client over its whole life: connects, disconnects, deliveries, reads ----------
   The incoming queue belongs to the transport object, not to a connection: what was
   received and not read yet survives a disconnect, and a read started before a reconnect
   sees what the next connection receives.  A broker error ends the receive loop of that
   connection (later deliveries on it are not received) and is itself queued. *)
Record mqtt_life := {
  ml_connected : bool;           (* client entered, receive task started *)
  ml_receiving : bool;           (* that receive task has not been ended by a broker error *)
  ml_queue : list queue_entry
}.

Definition ml_init : mqtt_life := {| ml_connected := false; ml_receiving := false; ml_queue := [] |}.

Inductive life_op :=
| LConnect | LDisconnect
| LDeliver (e : broker_event)    (* the broker hands a message / an error to the current connection *)
| LRead.                         (* one read(): the oldest entry, or nothing yet *)

Inductive life_out :=
| LDone | LRuntimeError
| LGot (e : queue_entry) | LPending.

Definition entry_of (e : broker_event) : queue_entry :=
  match e with
  | BMsg topic payload =>
      match utf8_decode payload with Some p => QLine (of_mqtt topic p) | None => QReadError end
  | BError => QFailed
  end.

Definition life_step (s : mqtt_life) (o : life_op) : mqtt_life * life_out :=
  match o with
  | LConnect =>
      if ml_connected s then (s, LRuntimeError)
      else ({| ml_connected := true; ml_receiving := true; ml_queue := ml_queue s |}, LDone)
  | LDisconnect =>
      if ml_connected s
      then ({| ml_connected := false; ml_receiving := false; ml_queue := ml_queue s |}, LDone)
      else (s, LRuntimeError)
  | LDeliver e =>
      if ml_connected s && ml_receiving s
      then ({| ml_connected := true;
               ml_receiving := match e with BError => false | _ => true end;
               ml_queue := ml_queue s ++ [entry_of e] |}, LDone)
      else (s, LDone)
  | LRead =>
      match ml_queue s with
      | e :: r => ({| ml_connected := ml_connected s; ml_receiving := ml_receiving s; ml_queue := r |}, LGot e)
      | [] => (s, LPending)
      end
  end.

Fixpoint life_run (s : mqtt_life) (ops : list life_op) : mqtt_life * list life_out :=
  match ops with
  | [] => (s, [])
  | o :: r => let '(s1, out) := life_step s o in let '(s2, outs) := life_run s1 r in (s2, out :: outs)
  end.

(* what the receive loops accepted, in arrival order (ghost) *)
Fixpoint life_received (s : mqtt_life) (ops : list life_op) : list queue_entry :=
  match ops with
  | [] => []
  | o :: r =>
      (match o with
       | LDeliver e => if ml_connected s && ml_receiving s then [entry_of e] else []
       | _ => []
       end) ++ life_received (fst (life_step s o)) r
  end.

Definition gots (outs : list life_out) : list queue_entry :=
  flat_map (fun o => match o with LGot e => [e] | _ => [] end) outs.
