(* C19 ACROSS the major line as a simulation: a gateway pinned to a 1.x protocol (index i)
   and one pinned to a 2.x protocol (index j), both with a known version, that agree on
   registry, sleep buffer and configuration (the request markers of 2.x are not compared)
   produce the same result, the same writes and related states for every line the two
   tables agree on — as long as the 1.x run does not end in a missing-node/child error
   ("no unknown node or child is referenced") and the message is not a version report
   (which re-pins both gateways).  The 2.x layers are removed with GatewayMajor, the
   version-query wrapper is a no-op because the version is known (GatewayPv). *)
From Coq Require Import List NArith ZArith Bool String Lia.
From AMS Require Import TablesTypes Tables PyStr Codec CodecFacts Gateway GatewayFacts GatewayInv GatewaySteps
  GatewayTrace GatewayReg TablesMono GatewaySim GatewayMajor GatewayPv.
Import ListNotations.
Local Open Scope Z_scope.

Section SimMajor.
  Variable bat : str -> option Z.
  Variable vlt : str -> str -> option bool.
  Variable now : Z.
  Variables i j : nat.

  Definition sbvw (t t' : st) : Prop :=
    w_nodes (s_w t) = w_nodes (s_w t') /\ w_set (s_w t) = w_set (s_w t')
    /\ w_metric (s_w t) = w_metric (s_w t') /\ s_log t = s_log t' /\ s_faults t = s_faults t'
    /\ pv_known t = true /\ pv_known t' = true.

  Definition Rm (t t' : st) : Prop := sbvw t t' /\ w_proto (s_w t) = i /\ w_proto (s_w t') = j.

  Definition outm {A} (o o' : (A + exn) * st) : Prop := res_rel (fst o) (fst o') /\ Rm (snd o) (snd o').

  (* the premise: the LEFT (1.x) run does not end in a missing-node/child error *)
  Definition sim2_at {A} (c c' : M A) (s s' : st) : Prop := not_missing (fst (c s)) -> outm (c s) (c' s').
  Definition sim2 {A} (c c' : M A) : Prop := forall s s', Rm s s' -> sim2_at c c' s s'.
  Definition simw {A} (c : M A) : Prop := sim2 c c.

  Lemma simw_ret {A} (x : A) : simw (ret x).
  Proof. intros s s' H _. split; [reflexivity|exact H]. Qed.
  Lemma simw_raise {A} e : simw (@raise A e).
  Proof. intros s s' H _. split; [reflexivity|exact H]. Qed.

  Lemma sim2_bind {A B} (m m' : M A) (f f' : A -> M B) :
    sim2 m m' -> (forall x, sim2 (f x) (f' x)) -> sim2 (bind m f) (bind m' f').
  Proof.
    intros Hm Hf s s' HR Hn. unfold bind in *.
    assert (Hnm : not_missing (fst (m s))).
    { destruct (m s) as [[x|e] t]; cbn [fst not_missing] in *; [exact I|exact Hn]. }
    destruct (Hm s s' HR Hnm) as [Hr HR2].
    destruct (m s) as [[x|e] t], (m' s') as [[x'|e'] t']; cbn [fst snd res_rel] in *; try contradiction.
    - subst x'. exact (Hf x t t' HR2 Hn).
    - split; [exact Hr|exact HR2].
  Qed.

  Lemma simw_bind {A B} (m : M A) (f : A -> M B) : simw m -> (forall x, simw (f x)) -> simw (bind m f).
  Proof. intros Hm Hf. apply sim2_bind; assumption. Qed.

  (* ---------- primitives ---------- *)

  Ltac fields s := destruct s as [[?nodes ?pv ?proto ?ib ?sb ?metric] ?log ?faults].
  Ltac pinw :=
    let s := fresh "s" in let s' := fresh "s'" in let H := fresh "H" in
    intros s s' [H [? ?]] _; fields s; fields s';
    unfold sbvw, pv_known in H; cbn [s_w s_log s_faults w_nodes w_pv w_proto w_internal w_set w_metric] in *;
    destruct H as (? & ? & ? & ? & ? & ? & ?); subst.
  Ltac mkRm := split; [unfold sbvw, pv_known; cbn; repeat split; assumption|split; reflexivity].
  Ltac donew := split; [cbn [fst snd]; apply res_rel_refl|mkRm].

  Lemma simw_write m : simw (write_msg m).
  Proof. pinw. rewrite !write_eq. cbn [s_faults s_w s_log]. donew. Qed.
  Lemma simw_set_setbuf f : simw (set_setbuf f).
  Proof. pinw. donew. Qed.
  Lemma simw_set_internal f : simw (set_internal f).
  Proof. pinw. donew. Qed.
  Lemma simw_set_nodes f : simw (set_nodes f).
  Proof. pinw. donew. Qed.
  Lemma simw_update_node id f : simw (update_node id f).
  Proof. apply simw_set_nodes. Qed.

  Lemma simw_require_node id : simw (require_node id).
  Proof.
    pinw. rewrite !require_node_eq. cbn [s_w w_nodes].
    match goal with |- context [dget Z.eqb ?ns id] => destruct (dget Z.eqb ns id) end; donew.
  Qed.

  Lemma simw_apply {A} (c : M A) s s' : simw c -> Rm s s' -> not_missing (fst (c s)) -> outm (c s) (c s').
  Proof. intros H HR Hn. exact (H s s' HR Hn). Qed.

  Lemma simw_send m b : simw (send m b).
  Proof.
    intros s s' HR Hn. revert Hn. unfold sim2_at. rewrite !send_eq. revert s s' HR. change (simw (send_resolved m b)).
    assert (G : forall bb, simw (send_set_direct m bb)).
    { intros bb. unfold send_set_direct. apply simw_bind; [apply simw_write|intros _].
      destruct bb; [apply simw_set_setbuf|apply simw_ret]. }
    intros s s' HR. pose proof HR as HR0. revert HR0. destruct HR as [H [Hi Hj]]. fields s; fields s'.
    unfold sbvw, pv_known in H; cbn [s_w s_log s_faults w_nodes w_pv w_proto w_internal w_set w_metric] in *.
    destruct H as (? & ? & ? & ? & ? & ? & ?); subst. intros HR Hn. revert Hn.
    unfold send_resolved. cbn [s_w w_nodes].
    destruct (m_cmd m =? 1).
    - match goal with |- context [dget Z.eqb ?ns (m_node m)] => destruct (dget Z.eqb ns (m_node m)) as [n|] end.
      + destruct (b && n_sleeping n); [exact (simw_set_setbuf _ _ _ HR)|exact (G b _ _ HR)].
      + exact (G b _ _ HR).
    - destruct (m_cmd m =? 3).
      + destruct b; [exact (simw_set_internal _ _ _ HR)|exact (simw_write m _ _ HR)].
      + destruct ((m_cmd m =? 0) || (m_cmd m =? 2) || (m_cmd m =? 4)).
        * intros _. split; [reflexivity|exact HR].
        * intros _. split; [cbn [fst snd]; apply res_rel_refl|exact HR].
  Qed.

  Lemma simw_flush es : simw (flush_entries es).
  Proof.
    induction es as [|[k bm] r IH]; cbn [flush_entries]; [apply simw_ret|].
    apply simw_bind; [apply simw_send|intros _]. apply simw_bind; [apply simw_set_setbuf|intros _; exact IH].
  Qed.

  Lemma simw_get_w_at {B} (f : world -> M B) s s' :
    sim2_at (f (s_w s)) (f (s_w s')) s s' -> sim2_at (bind get_w f) (bind get_w f) s s'.
  Proof. intros H. exact H. Qed.

  Lemma simw_handle_sleep_buffer m : simw (handle_sleep_buffer m).
  Proof.
    intros s s' HR. unfold handle_sleep_buffer. apply simw_get_w_at.
    assert (E : w_set (s_w s) = w_set (s_w s')) by (destruct HR as [(_ & E & _) _]; exact E).
    rewrite E. intros Hn. revert Hn. change (sim2_at (flush_entries (filter (fun e => m_node (snd e) =? m_node m) (w_set (s_w s'))) ;;; ret m)
                    (flush_entries (filter (fun e => m_node (snd e) =? m_node m) (w_set (s_w s'))) ;;; ret m) s s').
    revert s s' HR E. intros s s' HR E. apply (simw_bind _ _ (simw_flush _) (fun _ => simw_ret m)). exact HR.
  Qed.

  (* ---------- level-2 bodies (the version handler is excluded: it re-pins both gateways) ---------- *)

  Lemma simw_body2 b super m :
    b <> BVersion -> (b = BSuper -> simw (super m)) -> simw (run_body2 bat vlt now b super m).
  Proof.
    intros Hv Hs. destruct consts_p14 as [C1 [C2 [C3 [C4 [C5 [C6 [C7 C8]]]]]]].
    destruct consts_p20 as [D1 [D2 D3]].
    destruct b; cbn [run_body2]; try apply simw_raise.
    - apply Hs. reflexivity.
    - contradiction Hv. reflexivity.
    - intros s s' HR. apply simw_get_w_at.
      assert (E : w_nodes (s_w s) = w_nodes (s_w s')) by (destruct HR as [(E & _) _]; exact E).
      rewrite E. match goal with |- context [if ?c then _ else _] => destruct c end; [exact (simw_raise _ s s' HR)|].
      rewrite C1, C2. cbn [need]. revert s s' HR E. intros s s' HR E.
      apply (simw_bind (ret 17)); [apply simw_ret|intros typ|exact HR]. apply (simw_bind (ret 4)); [apply simw_ret|intros resp].
      apply simw_bind; [apply simw_set_nodes|intros _].
      apply simw_bind; [apply simw_send|intros _; apply simw_ret].
    - intros s s' HR. apply simw_get_w_at.
      assert (E : w_metric (s_w s) = w_metric (s_w s')) by (destruct HR as [(_ & _ & E & _) _]; exact E).
      rewrite E. revert s s' HR E. intros s s' HR E.
      apply (simw_bind _ _ (simw_send _ _) (fun _ => simw_ret m)). exact HR.
    - apply simw_bind; [apply simw_send|intros _; apply simw_ret].
    - apply simw_bind; [apply simw_require_node|intros _].
      destruct (bat (m_payload m)) as [lvl|]; [|apply simw_raise].
      destruct ((0 <=? lvl) && (lvl <=? 100)); [|apply simw_raise].
      apply simw_bind; [apply simw_update_node|intros _; apply simw_ret].
    - apply simw_bind; [apply simw_require_node|intros _].
      apply simw_bind; [apply simw_update_node|intros _; apply simw_ret].
    - apply simw_bind; [apply simw_require_node|intros _].
      apply simw_bind; [apply simw_update_node|intros _; apply simw_ret].
    - rewrite D2. cbn [need]. apply (simw_bind (ret 20)); [apply simw_ret|intros disc].
      apply simw_bind; [apply simw_send|intros _; apply simw_ret].
    - apply simw_bind; [apply simw_require_node|intros _; apply simw_ret].
    - apply simw_bind; [apply simw_require_node|intros _].
      destruct (py_int (m_payload m)); [|apply simw_raise].
      apply simw_bind; [apply simw_update_node|intros _]. apply simw_handle_sleep_buffer.
    - apply simw_bind; [apply simw_require_node|intros _].
      destruct (py_int (m_payload m)); [|apply simw_raise].
      apply simw_bind; [apply simw_update_node|intros _; apply simw_ret].
    - apply simw_bind; [apply simw_require_node|intros _].
      apply simw_bind; [apply simw_update_node|intros _]. apply simw_handle_sleep_buffer.
  Qed.
  (* ---------- the version-query wrapper is a no-op while the version is known ---------- *)

  Lemma dec_mpv_known f m s : pv_known (snd (f m s)) = true -> dec_mpv f m s = f m s.
  Proof.
    intros H. rewrite dec_mpv_eq. unfold mpv_finally. unfold pv_known in H.
    destruct (w_pv (s_w (snd (f m s)))); [|discriminate H]. destruct (f m s); reflexivity.
  Qed.

  Definition only_mpv (ds : list string) : bool :=
    forallb (fun d => String.eqb d "handle_missing_protocol_version") ds.

  Lemma apply_mpv_noop ds f m s :
    only_mpv ds = true -> pv_known s = true -> pk (f m) -> apply_decs ds f m s = f m s.
  Proof.
    intros Hd Hk Hp. induction ds as [|d r IH]; cbn [apply_decs fold_right]; [reflexivity|].
    cbn [only_mpv forallb] in Hd. apply andb_true_iff in Hd. destruct Hd as [Hd Hr].
    change (fold_right apply_dec f r) with (apply_decs r f). unfold apply_dec at 1. rewrite Hd.
    rewrite dec_mpv_known; [exact (IH Hr)|]. rewrite (IH Hr). apply Hp. exact Hk.
  Qed.

  Lemma res_rel_nm {A} (r r' : A + exn) : res_rel r r' -> not_missing r -> not_missing r'.
  Proof.
    destruct r as [x|e], r' as [x'|e']; cbn; try tauto. intros H Hn. rewrite <- (is_missing_norm e e' H). exact Hn.
  Qed.

  Lemma body_version_name md name : body_of md name = Some BVersion -> name = "handle_i_version"%string.
  Proof.
    intros H. apply body_of_in_In in H. destruct H as [md' H]. unfold body_table in H. cbn [In] in H.
    repeat (destruct H as [H|H]; [injection H; intros; subst; try discriminate; try reflexivity|]).
    contradiction.
  Qed.

  Definition chain_mpv (c : handler_chain) : bool := forallb (fun e => only_mpv (snd e)) c.

  Lemma Rm_known s s' : Rm s s' -> pv_known s = true /\ pv_known s' = true.
  Proof. intros [(_ & _ & _ & _ & _ & H1 & H2) _]. split; assumption. Qed.

  Lemma simw_chain2 name c m :
    chain_mpv c = true -> name <> "handle_i_version"%string -> simw (run_chain2 bat vlt now name c m).
  Proof.
    intros Hc Hname. induction c as [|[md ds] r IH]; cbn [run_chain2]; [apply simw_raise|].
    cbn [chain_mpv forallb snd] in Hc. apply andb_true_iff in Hc. destruct Hc as [Hd Hr].
    intros s s' HR. destruct (Rm_known s s' HR) as [K1 K2]. unfold sim2_at.
    set (F := fun m' => match body_of md name with
                        | Some b => run_body2 bat vlt now b (run_chain2 bat vlt now name r) m'
                        | None => raise (EEscape "unmodelled handler")
                        end).
    assert (HpF : pk (F m)).
    { unfold F. destruct (body_of md name) as [b|]; [|apply pk_raise]. apply pk_body2. intros _. apply pk_chain2. }
    rewrite !(apply_mpv_noop ds F m _ Hd) by assumption.
    unfold F. destruct (body_of md name) as [b|] eqn:Eb; [|exact (simw_raise _ s s' HR)].
    apply simw_body2; [intros ->; apply Hname; exact (body_version_name md name Eb)|intros _; exact (IH Hr)|exact HR].
  Qed.

  (* ---------- dispatch by name across the major line ---------- *)

  (* both protocols have no handler, or the 2.x chain is the 1.x chain under no-op layers *)
  Definition agree2 (name : string) : Prop :=
    (lookup_chain (pt_incoming (proto_at i)) name = None /\ lookup_chain (pt_incoming (proto_at j)) name = None)
    \/ (exists c2 layers,
          lookup_chain (pt_incoming (proto_at i)) name = Some c2
          /\ lookup_chain (pt_incoming (proto_at j)) name = Some (layers ++ c2)
          /\ forallb (layer2_ok name) layers = true /\ chain_mpv c2 = true).

  Lemma sim_dispatch2m name m :
    agree2 name -> name <> "handle_i_version"%string -> simw (dispatch2 bat vlt now name m).
  Proof.
    intros Ha Hname s s' HR Hn. revert Hn. unfold dispatch2, bind, get_w. cbn beta iota. unfold proto_of.
    destruct HR as [Hs [Hi Hj]]. rewrite Hi, Hj. assert (HR : Rm s s') by (split; [exact Hs|split; assumption]).
    destruct Ha as [[E1 E2]|[c2 [layers [E1 [E2 [Hl Hc]]]]]]; rewrite E1, E2.
    - intros _. split; [reflexivity|exact HR].
    - intros Hn. pose proof (simw_chain2 name c2 m Hc Hname s s' HR Hn) as O.
      rewrite (layers_noop2 bat vlt now name c2 m layers s' Hl); [exact O|].
      destruct O as [Or _]. exact (res_rel_nm _ _ Or Hn).
  Qed.

  Definition type_agree_m (tbl : proto_tables -> list (string * string * Z)) (t : Z) : Prop :=
    match enum_lname_of (tbl (proto_at i)) t, enum_lname_of (tbl (proto_at j)) t with
    | Some a, Some b =>
        (a = b /\ agree2 ("handle_" ++ a) /\ ("handle_" ++ a)%string <> "handle_i_version"%string)
        \/ (lookup_chain (pt_incoming (proto_at i)) ("handle_" ++ a) = None
            /\ lookup_chain (pt_incoming (proto_at j)) ("handle_" ++ b) = None)
    | None, None => True
    | _, _ => False
    end.

  Lemma sim_dispatch_type_m tbl m s s' :
    type_agree_m tbl (m_type m) -> Rm s s' ->
    sim2_at
      (match enum_lname_of (tbl (proto_of (s_w s))) (m_type m) with
       | None => raise (EUnsupported m (pv_or_default (s_w s)))
       | Some ln => dispatch2 bat vlt now ("handle_" ++ ln) m
       end)
      (match enum_lname_of (tbl (proto_of (s_w s'))) (m_type m) with
       | None => raise (EUnsupported m (pv_or_default (s_w s')))
       | Some ln => dispatch2 bat vlt now ("handle_" ++ ln) m
       end) s s'.
  Proof.
    intros Ha HR. unfold proto_of. destruct HR as [Hs [Hi Hj]]. rewrite Hi, Hj.
    assert (HR : Rm s s') by (split; [exact Hs|split; assumption]). unfold type_agree_m in Ha.
    destruct (enum_lname_of (tbl (proto_at i)) (m_type m)) as [a|], (enum_lname_of (tbl (proto_at j)) (m_type m)) as [b|];
      try contradiction.
    - destruct Ha as [[-> [Hc Hv]]|[Hn1 Hn2]].
      + exact (sim_dispatch2m _ m Hc Hv s s' HR).
      + intros _. unfold dispatch2, bind, get_w. cbn beta iota. unfold proto_of. rewrite Hi, Hj, Hn1, Hn2.
        split; [reflexivity|exact HR].
    - intros _. split; [reflexivity|exact HR].
  Qed.

  (* ---------- level-1 bodies ---------- *)

  Lemma Rm_with_internal s s' b b' : Rm s s' -> Rm (with_internal s b) (with_internal s' b').
  Proof.
    intros [(H1 & H2 & H3 & H4 & H5 & H6 & H7) [Hi Hj]]. split; [|split; assumption].
    unfold sbvw, pv_known in *. cbn. repeat split; assumption.
  Qed.

  Lemma simw_body1 b super m :
    (b = BSuper \/ b = BPresentation20 -> simw (super m)) ->
    (b = BPresentation14 -> ~ (m_child m = 255 /\ m_node m = 0)) ->
    (b = BInternal14 -> type_agree_m pt_internal (m_type m)) ->
    (b = BStream14 -> type_agree_m pt_stream (m_type m)) ->
    simw (run_body1 bat vlt now b super m).
  Proof.
    intros Hs Hg Hint Hstr. destruct consts_p14 as [C1 [C2 [C3 [C4 [C5 [C6 [C7 C8]]]]]]].
    destruct consts_p20 as [D1 [D2 D3]].
    destruct b; cbn [run_body1]; try apply simw_raise.
    - apply Hs. left. reflexivity.
    - rewrite D1. cbn [need]. apply (simw_bind (ret 19)); [apply simw_ret|intros ipres].
      apply simw_bind; [apply simw_set_internal|intros _]. apply Hs. right. reflexivity.
    - rewrite system_child_id_is. destruct (Z.eqb_spec (m_child m) 255) as [Ec|Ec].
      + apply simw_bind; [apply simw_set_nodes|intros _].
        destruct (Z.eqb_spec (m_node m) 0) as [En|En]; [exfalso; apply (Hg eq_refl); split; assumption|apply simw_ret].
      + apply simw_bind; [apply simw_require_node|intros _].
        apply simw_bind; [apply simw_update_node|intros _; apply simw_ret].
    - apply simw_bind; [apply simw_require_node|intros n].
      destruct (negb (dmem Z.eqb (n_children n) (m_child m))); [apply simw_raise|].
      apply simw_bind; [apply simw_update_node|intros _].
      destruct (n_reboot n); [|apply simw_ret].
      rewrite C7, C6. cbn [need]. apply (simw_bind (ret 3)); [apply simw_ret|intros cint].
      apply (simw_bind (ret 13)); [apply simw_ret|intros ireboot].
      apply simw_bind; [apply simw_send|intros _; apply simw_ret].
    - apply simw_bind; [apply simw_require_node|intros n].
      destruct (dget Z.eqb (n_children n) (m_child m)) as [c|]; [|apply simw_raise].
      destruct (dget Z.eqb (c_values c) (m_type m)) as [v|]; [|apply simw_ret].
      rewrite C8. cbn [need]. apply (simw_bind (ret 1)); [apply simw_ret|intros cset].
      apply simw_bind; [apply simw_send|intros _; apply simw_ret].
    - intros s s' HR. apply simw_get_w_at. exact (sim_dispatch_type_m pt_internal m s s' (Hint eq_refl) HR).
    - apply simw_bind; [apply simw_require_node|intros _].
      intros s s' HR. apply simw_get_w_at. exact (sim_dispatch_type_m pt_stream m s s' (Hstr eq_refl) HR).
  Qed.

  Lemma body_name1 md name b :
    body_of md name = Some b ->
    (b = BPresentation14 -> name = "handle_presentation"%string)
    /\ (b = BInternal14 -> name = "handle_internal"%string)
    /\ (b = BStream14 -> name = "handle_stream"%string).
  Proof. exact (GatewaySim.body_name md name b). Qed.

  Lemma simw_chain1 name c m :
    chain_mpv c = true ->
    (name = "handle_presentation"%string -> ~ (m_child m = 255 /\ m_node m = 0)) ->
    (name = "handle_internal"%string -> type_agree_m pt_internal (m_type m)) ->
    (name = "handle_stream"%string -> type_agree_m pt_stream (m_type m)) ->
    simw (run_chain1 bat vlt now name c m).
  Proof.
    intros Hc Hg Hint Hstr. induction c as [|[md ds] r IH]; cbn [run_chain1]; [apply simw_raise|].
    cbn [chain_mpv forallb snd] in Hc. apply andb_true_iff in Hc. destruct Hc as [Hd Hr].
    intros s s' HR. destruct (Rm_known s s' HR) as [K1 K2]. unfold sim2_at.
    set (F := fun m' => match body_of md name with
                        | Some b => run_body1 bat vlt now b (run_chain1 bat vlt now name r) m'
                        | None => raise (EEscape "unmodelled handler")
                        end).
    assert (HpF : pk (F m)).
    { unfold F. destruct (body_of md name) as [b|]; [|apply pk_raise]. apply pk_body1. intros _. apply pk_chain1. }
    rewrite !(apply_mpv_noop ds F m _ Hd) by assumption.
    unfold F. destruct (body_of md name) as [b|] eqn:Eb; [|exact (simw_raise _ s s' HR)].
    destruct (body_name1 md name b Eb) as [N1 [N2 N3]].
    apply simw_body1; [intros _; exact (IH Hr)| | | |exact HR].
    - intros E. apply Hg. apply N1. exact E.
    - intros E. apply Hint. apply N2. exact E.
    - intros E. apply Hstr. apply N3. exact E.
  Qed.

  Lemma Rm_strip name layers m : forall s s', Rm s s' -> Rm s (strip name layers m s').
  Proof.
    induction layers as [|[md ds] r IH]; intros s s' HR; cbn [strip]; [exact HR|].
    destruct (body_of md name) as [b|]; [|apply IH; exact HR].
    destruct b; apply IH; try exact HR.
    all: destruct HR as [(H1 & H2 & H3 & H4 & H5 & H6 & H7) [Hi Hj]]; (split; [|split; assumption]);
      unfold sbvw, pv_known in *; cbn; repeat split; assumption.
  Qed.

  (* the command handler: 1.x chain on the left, the same chain under 2.x layers on the right *)
  Lemma sim_chain1_layers name c1 layers m :
    chain_mpv c1 = true -> forallb (layer_ok name) layers = true ->
    (name = "handle_presentation"%string -> ~ (m_child m = 255 /\ m_node m = 0)) ->
    (name = "handle_internal"%string -> type_agree_m pt_internal (m_type m)) ->
    (name = "handle_stream"%string -> type_agree_m pt_stream (m_type m)) ->
    sim2 (run_chain1 bat vlt now name c1 m) (run_chain1 bat vlt now name (layers ++ c1) m).
  Proof.
    intros Hc Hl Hg Hint Hstr s s' HR Hn.
    pose proof (simw_chain1 name c1 m Hc Hg Hint Hstr s (strip name layers m s') (Rm_strip name layers m s s' HR) Hn) as O.
    rewrite (layers_noop1 bat vlt now name c1 m layers s' Hl); [exact O|].
    destruct O as [Or _]. exact (res_rel_nm _ _ Or Hn).
  Qed.

  (* ---------- one listen step ---------- *)

  Definition line_agree_m (line : str) : Prop :=
    forall m, decode (proto_at i) line = DecOk m ->
      (forall cname, lname_cmd (m_cmd m) = Some cname ->
         exists c1 layers,
           lookup_chain (pt_incoming (proto_at i)) ("handle_" ++ cname) = Some c1
           /\ lookup_chain (pt_incoming (proto_at j)) ("handle_" ++ cname) = Some (layers ++ c1)
           /\ forallb (layer_ok ("handle_" ++ cname)) layers = true /\ chain_mpv c1 = true)
      /\ (m_cmd m = 0 -> ~ (m_child m = 255 /\ m_node m = 0))
      /\ (m_cmd m = 3 -> type_agree_m pt_internal (m_type m))
      /\ (m_cmd m = 4 -> type_agree_m pt_stream (m_type m)).

  Theorem sim_listen_step_m line : line_agree_m line -> simw (listen_step bat vlt now line).
  Proof.
    intros Hm s s' HR Hn. revert Hn. unfold listen_step, bind, get_w. cbn beta iota.
    unfold proto_of. destruct HR as [Hs [Hi Hj]]. rewrite Hi, Hj. rewrite <- (decode_proto_indep i j line).
    assert (HR : Rm s s') by (split; [exact Hs|split; assumption]).
    destruct (decode (proto_at i) line) as [m| |c] eqn:E;
      [|intros _; split; [reflexivity|exact HR]|intros _; split; [reflexivity|exact HR]].
    rewrite !command_lname. destruct (lname_cmd (m_cmd m)) as [cname|] eqn:Ec; [|intros _; split; [reflexivity|exact HR]].
    destruct (Hm m E) as [Hc [Hg [Hint Hstr]]].
    destruct (Hc cname Ec) as [c1 [layers [E1 [E2 [Hl Hmpv]]]]]. rewrite E1, E2.
    destruct (cname_cmd _ _ Ec) as [K0 [K3 K4]].
    intros Hn. apply (sim_chain1_layers ("handle_" ++ cname) c1 layers m Hmpv Hl); [| | |exact HR|exact Hn].
    - intros En. apply Hg. apply K0. exact En.
    - intros En. apply Hint. apply K3. exact En.
    - intros En. apply Hstr. apply K4. exact En.
  Qed.
  (* ---------- operations and histories ---------- *)

  Definition wsbvw (w w' : world) : Prop :=
    w_nodes w = w_nodes w' /\ w_set w = w_set w' /\ w_metric w = w_metric w'
    /\ known (w_pv w) = true /\ known (w_pv w') = true.
  Definition Rmw (w w' : world) : Prop := wsbvw w w' /\ w_proto w = i /\ w_proto w' = j.

  Definition nm_outcome (o : outcome) : Prop :=
    match o with Raise e => is_missing e = false | _ => True end.

  Definition op_agree_m (o : op) : Prop :=
    match o with ORecv line _ => line_agree_m line | _ => True end.

  Lemma Rm_of_Rmw w w' faults :
    Rmw w w' -> Rm {| s_w := w; s_log := []; s_faults := faults |} {| s_w := w'; s_log := []; s_faults := faults |}.
  Proof.
    intros [(H1 & H2 & H3 & H4 & H5) [Hi Hj]]. split; [|split; assumption].
    unfold sbvw, pv_known. cbn. unfold known in H4, H5. repeat split; assumption.
  Qed.

  Lemma Rmw_of_Rm t t' : Rm t t' -> Rmw (s_w t) (s_w t') /\ s_log t = s_log t'.
  Proof.
    intros [(H1 & H2 & H3 & H4 & H5 & H6 & H7) [Hi Hj]]. split; [|exact H4].
    split; [|split; assumption]. unfold wsbvw, known. unfold pv_known in H6, H7. repeat split; assumption.
  Qed.

  Lemma sim_run_step_m {A} (c : M A) (k : A -> outcome) w w' faults :
    simw c -> (forall a, outcome_rel (k a) (k a)) -> Rmw w w' ->
    nm_outcome (snd (fst (run_step c k w faults))) ->
    (forall a, nm_outcome (k a)) ->
    let r := run_step c k w faults in let r' := run_step c k w' faults in
    Rmw (fst (fst r)) (fst (fst r')) /\ outcome_rel (snd (fst r)) (snd (fst r')) /\ snd r = snd r'.
  Proof.
    intros Hc Hk Hw Hn Hka. cbv zeta. unfold run_step in *.
    pose proof (Hc _ _ (Rm_of_Rmw w w' faults Hw)) as H. unfold sim2_at in H.
    destruct (c {| s_w := w; s_log := []; s_faults := faults |}) as [[a|e] t] eqn:E1.
    - destruct (H I) as [Hr HR].
      destruct (c {| s_w := w'; s_log := []; s_faults := faults |}) as [[a'|e'] t']; cbn [fst snd res_rel] in *; try contradiction.
      subst a'. destruct (Rmw_of_Rm t t' HR) as [G1 G2]. split; [exact G1|split; [apply Hk|rewrite G2; reflexivity]].
    - cbn [fst snd nm_outcome] in Hn. destruct (H Hn) as [Hr HR].
      destruct (c {| s_w := w'; s_log := []; s_faults := faults |}) as [[a'|e'] t']; cbn [fst snd res_rel] in *; try contradiction.
      destruct (Rmw_of_Rm t t' HR) as [G1 G2]. split; [exact G1|split; [exact Hr|rewrite G2; reflexivity]].
  Qed.

  Theorem sim_step_op_m o w w' :
    op_agree_m o -> Rmw w w' -> nm_outcome (snd (fst (step_op bat vlt now w o))) ->
    let r := step_op bat vlt now w o in let r' := step_op bat vlt now w' o in
    Rmw (fst (fst r)) (fst (fst r')) /\ outcome_rel (snd (fst r)) (snd (fst r')) /\ snd r = snd r'.
  Proof.
    intros Ho Hw Hn. destruct o as [line faults|m b faults|]; cbn [step_op op_agree_m] in *.
    - apply sim_run_step_m; [apply sim_listen_step_m; exact Ho|intros a; reflexivity|exact Hw|exact Hn|intros a; exact I].
    - apply sim_run_step_m; [apply simw_send|intros a; exact I|exact Hw|exact Hn|intros a; exact I].
    - cbn. split; [exact Hw|split; [exact I|reflexivity]].
  Qed.

  (* the hypothesis on a history: the tables agree on every received line, and no step of the
     1.x run ends in a missing-node/child error *)
  Fixpoint hist_ok (w : world) (ops : list op) : Prop :=
    match ops with
    | [] => True
    | o :: r => op_agree_m o /\ nm_outcome (snd (fst (step_op bat vlt now w o)))
                /\ hist_ok (world_after bat vlt now w o) r
    end.

  Theorem sim_history_m ops : forall w w',
    hist_ok w ops -> Rmw w w' ->
    Forall2 (fun x x' => outcome_rel (fst x) (fst x') /\ snd x = snd x') (trace bat vlt now w ops) (trace bat vlt now w' ops)
    /\ Rmw (run_ops bat vlt now w ops) (run_ops bat vlt now w' ops).
  Proof.
    induction ops as [|o r IH]; intros w w' Ha Hw; cbn [trace].
    - split; [constructor|exact Hw].
    - destruct Ha as [Ho [Hn Hr]].
      destruct (sim_step_op_m o w w' Ho Hw Hn) as [G1 [G2 G3]].
      destruct (IH _ _ Hr G1) as [K1 K2]. split.
      + constructor; [split; [exact G2|exact G3]|exact K1].
      + unfold run_ops. cbn [fold_left]. exact K2.
  Qed.
End SimMajor.

(* ---------- which (1.x, 2.x) pairs agree, on which types: a computation on the generated tables ---------- *)

Definition wrapped_b (lk : string -> (string * list string) -> bool) (p q : proto_tables) (name : string) : bool :=
  match lookup_chain (pt_incoming p) name, lookup_chain (pt_incoming q) name with
  | Some c1, Some cq =>
      let k := (List.length cq - List.length c1)%nat in
      chain_eqb c1 (skipn k cq) && forallb (lk name) (firstn k cq) && chain_mpv c1
  | _, _ => false
  end.

Definition agree2_b (p q : proto_tables) (name : string) : bool :=
  match lookup_chain (pt_incoming p) name, lookup_chain (pt_incoming q) name with
  | None, None => true
  | _, _ => wrapped_b layer2_ok p q name
  end.

Definition type_agree_m_b (p q : proto_tables) (tbl : proto_tables -> list (string * string * Z)) (t : Z) : bool :=
  match enum_lname_of (tbl p) t, enum_lname_of (tbl q) t with
  | Some a, Some b =>
      (String.eqb a b && agree2_b p q ("handle_" ++ a) && negb (String.eqb ("handle_" ++ a) "handle_i_version"))
      || (is_none (lookup_chain (pt_incoming p) ("handle_" ++ a)) && is_none (lookup_chain (pt_incoming q) ("handle_" ++ b)))
  | None, None => true
  | _, _ => false
  end.

Definition major_agree_b (except : list Z) (p q : proto_tables) : bool :=
  forallb (wrapped_b layer_ok p q) ["handle_presentation"; "handle_set"; "handle_req"; "handle_internal"; "handle_stream"]%string
  && forallb (fun e => memZ (snd e) except || type_agree_m_b p q pt_internal (snd e)) (pt_internal p)
  && forallb (fun e => type_agree_m_b p q pt_stream (snd e)) (pt_stream p).

(* the internal types excepted: 2 (a version report re-pins both gateways) and 14 (gateway ready:
   handled only by 2.x, the exception the property itself makes) *)
Lemma major_pairs_agree :
  forallb (fun p => forallb (major_agree_b [2; 14] p) [proto_2_0; proto_2_1; proto_2_2]) [proto_1_4; proto_1_5] = true
  /\ major_agree_b [2] proto_1_5 proto_2_0 = false.
Proof. vm_compute. split; reflexivity. Qed.

Lemma wrapped_b_spec lk p q name :
  wrapped_b lk p q name = true ->
  exists c1 layers,
    lookup_chain (pt_incoming p) name = Some c1 /\ lookup_chain (pt_incoming q) name = Some (layers ++ c1)
    /\ forallb (lk name) layers = true /\ chain_mpv c1 = true.
Proof.
  unfold wrapped_b. destruct (lookup_chain (pt_incoming p) name) as [c1|]; [|discriminate].
  destruct (lookup_chain (pt_incoming q) name) as [cq|]; [|discriminate].
  intros H. apply andb_true_iff in H. destruct H as [H H3]. apply andb_true_iff in H. destruct H as [H1 H2].
  exists c1, (firstn (List.length cq - List.length c1) cq). split; [reflexivity|]. split; [|split; assumption].
  f_equal. pose proof (chain_eqb_eq _ _ H1) as E. rewrite E at 2. symmetry. apply firstn_skipn.
Qed.

Lemma agree2_b_spec i j name : agree2_b (proto_at i) (proto_at j) name = true -> agree2 i j name.
Proof.
  unfold agree2_b, agree2. intros H.
  destruct (lookup_chain (pt_incoming (proto_at i)) name) as [c1|] eqn:E1.
  - right. destruct (wrapped_b_spec _ _ _ _ H) as [c [layers [Ea [Eb [Hl Hc]]]]]. rewrite E1 in Ea. injection Ea as <-.
    exists c1, layers. repeat split; assumption.
  - destruct (lookup_chain (pt_incoming (proto_at j)) name) as [c2|] eqn:E2.
    + exfalso. unfold wrapped_b in H. rewrite E1 in H. discriminate.
    + left. split; reflexivity.
Qed.

Lemma type_agree_m_b_spec i j tbl t :
  type_agree_m_b (proto_at i) (proto_at j) tbl t = true -> type_agree_m i j tbl t.
Proof.
  unfold type_agree_m_b, type_agree_m.
  destruct (enum_lname_of (tbl (proto_at i)) t) as [a|], (enum_lname_of (tbl (proto_at j)) t) as [b|]; try discriminate; [|tauto].
  intros H. apply orb_true_iff in H. destruct H as [H|H].
  - apply andb_true_iff in H. destruct H as [H H3]. apply andb_true_iff in H. destruct H as [H1 H2].
    left. apply String.eqb_eq in H1. split; [exact H1|]. split; [apply agree2_b_spec; exact H2|].
    intros E. rewrite E in H3. discriminate.
  - apply andb_true_iff in H. destruct H as [H1 H2]. right. split.
    + destruct (lookup_chain (pt_incoming (proto_at i)) ("handle_" ++ a)); [discriminate|reflexivity].
    + destruct (lookup_chain (pt_incoming (proto_at j)) ("handle_" ++ b)); [discriminate|reflexivity].
Qed.

(* the hypothesis of the property on a message across the major line *)
Definition in_older_m (except : list Z) (p : proto_tables) (m : msg) : Prop :=
  in_older except p m /\ (m_cmd m = 0 -> ~ (m_child m = 255 /\ m_node m = 0)).

Theorem line_agree_m_of_tables except i j line :
  major_agree_b except (proto_at i) (proto_at j) = true ->
  (forall m, decode (proto_at i) line = DecOk m -> in_older_m except (proto_at i) m) ->
  line_agree_m i j line.
Proof.
  intros Hp Hold. unfold major_agree_b in Hp. apply andb_true_iff in Hp. destruct Hp as [Hp H3].
  apply andb_true_iff in Hp. destruct Hp as [H1 H2]. rewrite forallb_forall in H1, H2, H3.
  intros m Hd. destruct (Hold m Hd) as [[O3 O4] Og]. repeat split.
  - intros cname Hc.
    assert (Hin : In ("handle_" ++ cname)%string ["handle_presentation"; "handle_set"; "handle_req"; "handle_internal"; "handle_stream"]%string).
    { unfold lname_cmd in Hc.
      destruct (m_cmd m =? 0); [injection Hc as <-; cbn; tauto|].
      destruct (m_cmd m =? 1); [injection Hc as <-; cbn; tauto|].
      destruct (m_cmd m =? 2); [injection Hc as <-; cbn; tauto|].
      destruct (m_cmd m =? 3); [injection Hc as <-; cbn; tauto|].
      destruct (m_cmd m =? 4); [injection Hc as <-; cbn; tauto|discriminate]. }
    exact (wrapped_b_spec _ _ _ _ (H1 _ Hin)).
  - exact Og.
  - intros Hk. destruct (O3 Hk) as [Hmem Hex]. destruct (memZ_values_In _ _ Hmem) as [e [Hin He]].
    specialize (H2 e Hin). rewrite He, Hex in H2. apply type_agree_m_b_spec. exact H2.
  - intros Hk. destruct (memZ_values_In _ _ (O4 Hk)) as [e [Hin He]].
    specialize (H3 e Hin). rewrite He in H3. apply type_agree_m_b_spec. exact H3.
Qed.
