(* Python value semantics used by the modelled code: str as list of code
   points, the str methods the code calls, str(int) and int(str) as CPython
   3.12 does them.  Executable definitions only; facts are in PyStrFacts.v. *)
From Coq Require Import List NArith ZArith Bool Decimal DecimalPos DecimalZ.
From AMS Require Import RtTables.
Import ListNotations.

Notation str := (list N) (only parsing).

Definition str_eqb (a b : str) : bool :=
  (fix go (a b : str) : bool :=
     match a, b with
     | [], [] => true
     | x :: a', y :: b' => N.eqb x y && go a' b'
     | _, _ => false
     end) a b.

Definition memN (c : N) (l : list N) : bool := existsb (N.eqb c) l.

(* str.isspace() of one code point: generated from the running interpreter *)
Definition is_space (c : N) : bool := memN c py_space_cps.

(* str.rstrip(): remove the longest all-whitespace suffix *)
Fixpoint rstrip (s : str) : str :=
  match s with
  | [] => []
  | c :: r =>
      match rstrip r with
      | [] => if is_space c then [] else [c]
      | r' => c :: r'
      end
  end.

Fixpoint lstrip (s : str) : str :=
  match s with
  | [] => []
  | c :: r => if is_space c then lstrip r else s
  end.

Definition strip (s : str) : str := lstrip (rstrip s).

(* str.split(sep) for a one-character separator; never returns [] *)
Fixpoint split (sep : N) (s : str) : list str :=
  match s with
  | [] => [[]]
  | c :: r =>
      if N.eqb c sep then [] :: split sep r
      else match split sep r with
           | h :: t => (c :: h) :: t
           | [] => [[c]]
           end
  end.

(* str.split(sep, k): at most k splits, so at most k+1 parts *)
Fixpoint splitn (k : nat) (sep : N) (s : str) {struct s} : list str :=
  match s with
  | [] => [[]]
  | c :: r =>
      match k with
      | O => [s]
      | S k' =>
          if N.eqb c sep then [] :: splitn k' sep r
          else match splitn k sep r with
               | h :: t => (c :: h) :: t
               | [] => [[c]]
               end
      end
  end.

Fixpoint join (sep : N) (l : list str) : str :=
  match l with
  | [] => []
  | [x] => x
  | x :: r => x ++ sep :: join sep r
  end.

(* str.replace(a, b) for single characters *)
Definition replace1 (a b : N) (s : str) : str :=
  map (fun c => if N.eqb c a then b else c) s.

(* str.rpartition(sep): (before, found?, after) split at the LAST separator *)
Fixpoint rpartition (sep : N) (s : str) : option (str * str) :=
  match s with
  | [] => None
  | c :: r =>
      match rpartition sep r with
      | Some (a, b) => Some (c :: a, b)
      | None => if N.eqb c sep then Some ([], r) else None
      end
  end.

(* ---- str(int) ---- *)

Definition digit_cp (d : N) : N := (48 + d)%N.

Fixpoint uint_cps (u : Decimal.uint) : str :=
  match u with
  | Nil => []
  | D0 r => 48%N :: uint_cps r
  | D1 r => 49%N :: uint_cps r
  | D2 r => 50%N :: uint_cps r
  | D3 r => 51%N :: uint_cps r
  | D4 r => 52%N :: uint_cps r
  | D5 r => 53%N :: uint_cps r
  | D6 r => 54%N :: uint_cps r
  | D7 r => 55%N :: uint_cps r
  | D8 r => 56%N :: uint_cps r
  | D9 r => 57%N :: uint_cps r
  end.

Definition str_of_Z (z : Z) : str :=
  match z with
  | Z0 => [48%N]
  | Zpos p => uint_cps (Pos.to_uint p)
  | Zneg p => 45%N :: uint_cps (Pos.to_uint p)
  end.

(* ---- int(str) ---- *)

(* Whitespace int() skips: the C locale's isspace for ASCII, Unicode
   whitespace for non-ASCII code points (which CPython first maps to ' ').
   Note \x1c..\x1f satisfy str.isspace() but are NOT skipped by int(). *)
Definition is_int_space (c : N) : bool :=
  if N.ltb c 128 then
    N.eqb c 32 || (N.leb 9 c && N.leb c 13)
  else is_space c.

Fixpoint nd_digit_in (rs : list (N * N)) (c : N) : option N :=
  match rs with
  | [] => None
  | (a, b) :: rs' =>
      if N.leb a c && N.leb c b then Some (N.modulo (c - a) 10)
      else nd_digit_in rs' c
  end.

(* decimal digit value of a code point (any Unicode Nd) *)
Definition digit_val (c : N) : option N := nd_digit_in py_nd_ranges c.

Fixpoint lstrip_int (s : str) : str :=
  match s with
  | [] => []
  | c :: r => if is_int_space c then lstrip_int r else s
  end.

Fixpoint rstrip_int (s : str) : str :=
  match s with
  | [] => []
  | c :: r =>
      match rstrip_int r with
      | [] => if is_int_space c then [] else [c]
      | r' => c :: r'
      end
  end.

(* digits with single underscores between them: d (_? d)*.
   [prev_digit] tells whether the previous character was a digit. *)
Fixpoint parse_digits (s : str) (prev_digit : bool) (acc : N) (count : N)
  : option (N * N) :=
  match s with
  | [] => if prev_digit then Some (acc, count) else None
  | c :: r =>
      if N.eqb c 95 then
        if prev_digit then parse_digits r false acc count else None
      else
        match digit_val c with
        | Some d => parse_digits r true (10 * acc + d)%N (count + 1)%N
        | None => None
        end
  end.

Definition py_int (s : str) : option Z :=
  let body := rstrip_int (lstrip_int s) in
  let '(neg, ds) :=
    match body with
    | 45%N :: r => (true, r)
    | 43%N :: r => (false, r)
    | _ => (false, body)
    end in
  match parse_digits ds false 0%N 0%N with
  | Some (n, cnt) =>
      if N.ltb py_max_str_digits cnt then None
      else Some (if neg then Z.opp (Z.of_N n) else Z.of_N n)
  | None => None
  end.

(* ---- UTF-8 (RFC 3629, strict: no surrogates, no overlongs, <= U+10FFFF) ---- *)

Definition utf8_encode_cp (c : N) : option (list N) :=
  if N.ltb c 128 then Some [c]
  else if N.ltb c 2048 then Some [192 + c / 64; 128 + c mod 64]%N
  else if N.ltb c 65536 then
    if N.leb 55296 c && N.leb c 57343 then None
    else Some [224 + c / 4096; 128 + (c / 64) mod 64; 128 + c mod 64]%N
  else if N.ltb c 1114112 then
    Some [240 + c / 262144; 128 + (c / 4096) mod 64; 128 + (c / 64) mod 64; 128 + c mod 64]%N
  else None.

Fixpoint utf8_encode (s : str) : option (list N) :=
  match s with
  | [] => Some []
  | c :: r =>
      match utf8_encode_cp c, utf8_encode r with
      | Some b, Some br => Some (b ++ br)
      | _, _ => None
      end
  end.

Definition is_cont (b : N) : bool := N.leb 128 b && N.ltb b 192.

(* decode with fuel = length of input (each step consumes at least one byte) *)
Fixpoint utf8_decode_fuel (fuel : nat) (bs : list N) : option str :=
  match fuel with
  | O => match bs with [] => Some [] | _ => None end
  | S f =>
      match bs with
      | [] => Some []
      | b0 :: r0 =>
          if N.ltb b0 128 then option_map (cons b0) (utf8_decode_fuel f r0)
          else if N.ltb b0 194 then None
          else if N.ltb b0 224 then
            match r0 with
            | b1 :: r1 =>
                if is_cont b1 then
                  option_map (cons ((b0 - 192) * 64 + (b1 - 128))%N) (utf8_decode_fuel f r1)
                else None
            | _ => None
            end
          else if N.ltb b0 240 then
            match r0 with
            | b1 :: b2 :: r2 =>
                let c := ((b0 - 224) * 4096 + (b1 - 128) * 64 + (b2 - 128))%N in
                if is_cont b1 && is_cont b2 && N.leb 2048 c
                   && negb (N.leb 55296 c && N.leb c 57343) then
                  option_map (cons c) (utf8_decode_fuel f r2)
                else None
            | _ => None
            end
          else if N.ltb b0 245 then
            match r0 with
            | b1 :: b2 :: b3 :: r3 =>
                let c := ((b0 - 240) * 262144 + (b1 - 128) * 4096 + (b2 - 128) * 64 + (b3 - 128))%N in
                if is_cont b1 && is_cont b2 && is_cont b3 && N.leb 65536 c && N.ltb c 1114112 then
                  option_map (cons c) (utf8_decode_fuel f r3)
                else None
            | _ => None
            end
          else None
      end
  end.

Definition utf8_decode (bs : list N) : option str := utf8_decode_fuel (length bs) bs.
