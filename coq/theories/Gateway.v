(* Executable model of the gateway core: Gateway.listen / Gateway.send, the
   protocol handlers of protocol_14 .. protocol_22 with their decorators, the
   node registry and the two message buffers.
   One Gallina definition per Python handler; dispatch and decorator chains are
   interpreted from the generated tables.  Executable definitions only. *)
From Coq Require Import List NArith ZArith Bool String.
From AMS Require Import TablesTypes Tables PyStr Codec.
Import ListNotations.
Local Open Scope Z_scope.

(* ---------- registry ---------- *)

Record child := {
  c_id : Z; c_type : Z; c_desc : str; c_values : list (Z * str)
}.

Record node := {
  n_id : Z; n_type : Z; n_ver : str;
  n_children : list (Z * child);
  n_sketch_name : str; n_sketch_version : str;
  n_battery : Z; n_heartbeat : Z;
  n_reboot : bool; n_sleeping : bool
}.

(* Python dict as an insertion-ordered association list *)
Section Dict.
  Context {K V : Type} (eqb : K -> K -> bool).
  Fixpoint dget (d : list (K * V)) (k : K) : option V :=
    match d with
    | [] => None
    | (k', v) :: r => if eqb k k' then Some v else dget r k
    end.
  (* d[k] = v : keeps the position of an existing key, appends a new one *)
  Fixpoint dset (d : list (K * V)) (k : K) (v : V) : list (K * V) :=
    match d with
    | [] => [(k, v)]
    | (k', v') :: r => if eqb k k' then (k', v) :: r else (k', v') :: dset r k v
    end.
  Fixpoint dpop (d : list (K * V)) (k : K) : list (K * V) :=
    match d with
    | [] => []
    | (k', v') :: r => if eqb k k' then r else (k', v') :: dpop r k
    end.
  Definition dmem (d : list (K * V)) (k : K) : bool :=
    match dget d k with Some _ => true | None => false end.
End Dict.

Definition key := (Z * Z * Z)%type.
Definition key_eqb (a b : key) : bool :=
  let '(a1, a2, a3) := a in let '(b1, b2, b3) := b in
  Z.eqb a1 b1 && Z.eqb a2 b2 && Z.eqb a3 b3.
Definition msg_key (m : msg) : key := (m_node m, m_child m, m_type m).

Record world := {
  w_nodes : list (Z * node);
  w_pv : option str;            (* gateway.protocol_version *)
  w_proto : nat;                (* index of gateway.protocol in [protocols] *)
  w_internal : list (key * msg);
  w_set : list (key * msg);
  w_metric : bool
}.

Definition new_node (id typ : Z) (ver : str) : node :=
  {| n_id := id; n_type := typ; n_ver := ver; n_children := [];
     n_sketch_name := []; n_sketch_version := []; n_battery := 0; n_heartbeat := 0;
     n_reboot := false; n_sleeping := false |}.

(* ---------- exceptions, write log, monad ---------- *)

Inductive exn :=
| EInvalidMessage
| EMissingNode (n : Z)
| EMissingChild (c : Z)
| ETooManyNodes
| EUnsupported (m : msg) (ver : str)
| ETransport                     (* raised by transport.write (fault injected) *)
| EEscape (cls : string).        (* anything not derived from AIOMySensorsError *)

(* one transport.write attempt: the line, whether it succeeded, and (ghost) the message it encodes *)
Record wevent := { we_line : str; we_ok : bool; we_msg : msg }.

Record st := {
  s_w : world;
  s_log : list wevent;           (* write attempts of this step, newest first *)
  s_faults : list bool           (* fault stream: true = this write attempt fails *)
}.

Definition M (A : Type) := st -> (A + exn) * st.
Definition ret {A} (a : A) : M A := fun s => (inl a, s).
Definition raise {A} (e : exn) : M A := fun s => (inr e, s).
Definition bind {A B} (m : M A) (f : A -> M B) : M B :=
  fun s => match m s with
           | (inl a, s') => f a s'
           | (inr e, s') => (inr e, s')
           end.
Notation "x <- m ;; f" := (bind m (fun x => f)) (at level 61, m at next level, right associativity).
Notation "m ;;; f" := (bind m (fun _ => f)) (at level 61, right associativity).

Definition get_w : M world := fun s => (inl (s_w s), s).
Definition put_w (w : world) : M unit :=
  fun s => (inl tt, {| s_w := w; s_log := s_log s; s_faults := s_faults s |}).
Definition modify_w (f : world -> world) : M unit :=
  fun s => (inl tt, {| s_w := f (s_w s); s_log := s_log s; s_faults := s_faults s |}).

(* try: body finally: fin *)
Definition try_finally {A} (body : M A) (fin : M unit) : M A :=
  fun s => match body s with
           | (r, s') =>
               match fin s' with
               | (inl _, s'') => (r, s'')
               | (inr e, s'') => (inr e, s'')
               end
           end.

(* transport.write(decoded_message), where decoded_message is always the dump of a message *)
Definition write_msg (m : msg) : M unit :=
  fun s =>
    let '(fault, rest) := match s_faults s with
                          | [] => (false, [])
                          | b :: r => (b, r)
                          end in
    let s' := {| s_w := s_w s;
                 s_log := {| we_line := encode m; we_ok := negb fault; we_msg := m |} :: s_log s;
                 s_faults := rest |} in
    if fault then (inr ETransport, s') else (inl tt, s').

(* ---------- tables access ---------- *)

Definition proto_at (i : nat) : proto_tables := nth i protocols proto_1_4.
Definition proto_of (w : world) : proto_tables := proto_at (w_proto w).

Fixpoint proto_by_module (ps : list proto_tables) (m : string) : option proto_tables :=
  match ps with
  | [] => None
  | p :: r => if String.eqb (pt_module p) m then Some p else proto_by_module r m
  end.

(* value of an enum member referred to by name in the module [m]'s source *)
Fixpoint enum_value_in (t : list (string * string * Z)) (name : string) : option Z :=
  match t with
  | [] => None
  | (n, _, v) :: r => if String.eqb n name then Some v else enum_value_in r name
  end.

(* canonical (first defined) lower-case name of a value: IntEnum(value).name.lower() *)
Fixpoint enum_lname_of (t : list (string * string * Z)) (v : Z) : option string :=
  match t with
  | [] => None
  | (_, ln, v') :: r => if Z.eqb v v' then Some ln else enum_lname_of r v
  end.

Fixpoint enum_name_of (t : list (string * string * Z)) (v : Z) : option string :=
  match t with
  | [] => None
  | (n, _, v') :: r => if Z.eqb v v' then Some n else enum_name_of r v
  end.

Fixpoint lookup_chain (t : list (string * handler_chain)) (name : string) : option handler_chain :=
  match t with
  | [] => None
  | (n, c) :: r => if String.eqb n name then Some c else lookup_chain r name
  end.

(* Constants a module's source refers to by name.  A name that has disappeared
   from the tables yields None, which the handlers turn into [EEscape]. *)
Definition mod_enum (m : string) (which : proto_tables -> list (string * string * Z))
           (name : string) : option Z :=
  match proto_by_module protocols m with
  | Some p => enum_value_in (which p) name
  | None => None
  end.

Definition need {A} (o : option A) (what : string) : M A :=
  match o with Some a => ret a | None => raise (EEscape what) end.

(* ---------- oracles ---------- *)

Section WithOracles.
  (* round(float(payload)); None = float()/round() raised ValueError/OverflowError *)
  Variable bat : str -> option Z.
  (* AwesomeVersion(a) < AwesomeVersion(b); None = the comparison raised *)
  Variable vlt : str -> str -> option bool.
  (* calendar.timegm(time.localtime()) *)
  Variable now : Z.

  (* ---------- protocol selection ---------- *)

  (* get_protocol: first supported version, in descending order of key, that the
     reported one is not older than; default 1.4.  None = comparison raised. *)
  Fixpoint get_protocol_from (cands : list (nat * proto_tables)) (reported : str)
    : option nat :=
    match cands with
    | [] => Some 0%nat
    | (i, p) :: r =>
        match vlt reported (pt_key p) with
        | None => None
        | Some false => Some i
        | Some true => get_protocol_from r reported
        end
    end.

  Definition indexed {A} (l : list A) : list (nat * A) := combine (seq 0 (List.length l)) l.

  Definition get_protocol (reported : str) : option nat :=
    get_protocol_from (rev (indexed protocols)) reported.

  (* the protocol_version setter: resolve first, then store both *)
  Definition set_protocol_version (v : str) : M unit :=
    match get_protocol v with
    | None => raise EInvalidMessage
    | Some i =>
        modify_w (fun w => {| w_nodes := w_nodes w; w_pv := Some v; w_proto := i;
                              w_internal := w_internal w; w_set := w_set w;
                              w_metric := w_metric w |})
    end.

  (* ---------- registry helpers ---------- *)

  Definition set_nodes (f : list (Z * node) -> list (Z * node)) : M unit :=
    modify_w (fun w => {| w_nodes := f (w_nodes w); w_pv := w_pv w; w_proto := w_proto w;
                          w_internal := w_internal w; w_set := w_set w;
                          w_metric := w_metric w |}).
  Definition set_internal (f : list (key * msg) -> list (key * msg)) : M unit :=
    modify_w (fun w => {| w_nodes := w_nodes w; w_pv := w_pv w; w_proto := w_proto w;
                          w_internal := f (w_internal w); w_set := w_set w;
                          w_metric := w_metric w |}).
  Definition set_setbuf (f : list (key * msg) -> list (key * msg)) : M unit :=
    modify_w (fun w => {| w_nodes := w_nodes w; w_pv := w_pv w; w_proto := w_proto w;
                          w_internal := w_internal w; w_set := f (w_set w);
                          w_metric := w_metric w |}).

  Definition get_node (id : Z) : M (option node) :=
    w <- get_w ;; ret (dget Z.eqb (w_nodes w) id).

  Definition require_node (id : Z) : M node :=
    o <- get_node id ;;
    match o with Some n => ret n | None => raise (EMissingNode id) end.

  Definition update_node (id : Z) (f : node -> node) : M unit :=
    set_nodes (fun ns => match dget Z.eqb ns id with
                         | Some n => dset Z.eqb ns id (f n)
                         | None => ns
                         end).

  (* ---------- Gateway.send ---------- *)

  Inductive out_body := OSet | OInternal.

  Definition out_body_of (module name : string) : option out_body :=
    if String.eqb module "protocol_14" && String.eqb name "handle_set" then Some OSet
    else if String.eqb module "protocol_14" && String.eqb name "handle_internal" then Some OInternal
    else None.

  Definition send (m : msg) (buffered : bool) : M unit :=
    w <- get_w ;;
    match enum_lname_of (pt_command (proto_of w)) (m_cmd m) with
    | None => raise (EEscape "ValueError")         (* protocol.Command(message.command) *)
    | Some cname =>
        let hname := ("handle_" ++ cname)%string in
        match lookup_chain (pt_outgoing (proto_of w)) hname with
        | None => raise (EUnsupported m (pt_version (proto_of w)))
        | Some [] => raise (EEscape "abstract outgoing handler")
        | Some ((module, decs) :: _) =>
            match decs, out_body_of module hname with
            | [], Some OSet =>
                let direct :=
                  write_msg m ;;;
                  (if buffered then set_setbuf (fun b => dpop key_eqb b (msg_key m)) else ret tt) in
                match dget Z.eqb (w_nodes w) (m_node m) with
                | Some n =>
                    if buffered && n_sleeping n
                    then set_setbuf (fun b => dset key_eqb b (msg_key m) m)
                    else direct
                | None => direct
                end
            | [], Some OInternal =>
                if buffered
                then set_internal (fun b => dset key_eqb b (msg_key m) m)
                else write_msg m
            | _, _ => raise (EEscape "unmodelled outgoing handler")
            end
        end
    end.

  Definition mk_msg (n c k a t : Z) (p : str) : msg :=
    {| m_node := n; m_child := c; m_cmd := k; m_ack := a; m_type := t; m_payload := p |}.

  (* ---------- incoming handler bodies ---------- *)

  Inductive body :=
  | BSuper | BPresentation20
  | BPresentation14 | BSet14 | BReq14 | BInternal14 | BStream14
  | BVersion | BIdRequest | BConfig | BTime | BBattery | BSketchName | BSketchVersion
  | BGatewayReady | BDiscoverResponse | BHeartbeat20 | BHeartbeat22 | BPreSleep.

  Definition body_table : list (string * string * body) :=
    [ ("protocol_14", "handle_presentation", BPresentation14);
      ("protocol_14", "handle_set", BSet14);
      ("protocol_14", "handle_req", BReq14);
      ("protocol_14", "handle_internal", BInternal14);
      ("protocol_14", "handle_stream", BStream14);
      ("protocol_14", "handle_i_version", BVersion);
      ("protocol_14", "handle_i_id_request", BIdRequest);
      ("protocol_14", "handle_i_config", BConfig);
      ("protocol_14", "handle_i_time", BTime);
      ("protocol_14", "handle_i_battery_level", BBattery);
      ("protocol_14", "handle_i_sketch_name", BSketchName);
      ("protocol_14", "handle_i_sketch_version", BSketchVersion);
      ("protocol_20", "handle_presentation", BPresentation20);
      ("protocol_20", "handle_set", BSuper);
      ("protocol_20", "handle_req", BSuper);
      ("protocol_20", "handle_stream", BSuper);
      ("protocol_20", "handle_i_battery_level", BSuper);
      ("protocol_20", "handle_i_sketch_name", BSuper);
      ("protocol_20", "handle_i_sketch_version", BSuper);
      ("protocol_20", "handle_i_gateway_ready", BGatewayReady);
      ("protocol_20", "handle_i_discover_response", BDiscoverResponse);
      ("protocol_20", "handle_i_heartbeat_response", BHeartbeat20);
      ("protocol_22", "handle_i_heartbeat_response", BHeartbeat22);
      ("protocol_22", "handle_i_pre_sleep_notification", BPreSleep) ]%string.

  Fixpoint body_of_in (t : list (string * string * body)) (module name : string) : option body :=
    match t with
    | [] => None
    | (m, n, b) :: r =>
        if String.eqb m module && String.eqb n name then Some b else body_of_in r module name
    end.
  Definition body_of := body_of_in body_table.

  (* _handle_sleep_buffer: snapshot the node's entries, write each, then pop it
     (only if the buffer still holds the message that was written) *)
  Fixpoint flush_entries (es : list (key * msg)) : M unit :=
    match es with
    | [] => ret tt
    | (k, bm) :: r =>
        send bm false ;;;
        set_setbuf (fun b => dpop key_eqb b k) ;;;
        flush_entries r
    end.

  Definition handle_sleep_buffer (m : msg) : M msg :=
    w <- get_w ;;
    flush_entries (filter (fun e => Z.eqb (m_node (snd e)) (m_node m)) (w_set w)) ;;;
    ret m.

  Definition p14_internal := mod_enum "protocol_14" pt_internal.
  Definition p14_command := mod_enum "protocol_14" pt_command.
  Definition p14_presentation := mod_enum "protocol_14" pt_presentation.
  Definition p20_internal := mod_enum "protocol_20" pt_internal.
  Definition p20_command := mod_enum "protocol_20" pt_command.

  (* level-2 bodies: handle_i_* ; they never dispatch further *)
  Definition run_body2 (b : body) (super : msg -> M msg) (m : msg) : M msg :=
    match b with
    | BSuper => super m
    | BVersion => set_protocol_version (m_payload m) ;;; ret m
    | BIdRequest =>
        w <- get_w ;;
        let next := match map fst (w_nodes w) with
                    | [] => 1
                    | k :: ks => fold_left Z.max ks k + 1
                    end in
        if Z.ltb max_node_id next then raise ETooManyNodes
        else
          typ <- need (p14_presentation "S_ARDUINO_NODE") "NameError" ;;
          resp <- need (p14_internal "I_ID_RESPONSE") "NameError" ;;
          set_nodes (fun ns => dset Z.eqb ns next (new_node next typ default_protocol_version)) ;;;
          send (mk_msg (m_node m) (m_child m) (m_cmd m) 0 resp (str_of_Z next)) false ;;;
          ret m
    | BConfig =>
        w <- get_w ;;
        send (mk_msg (m_node m) (m_child m) (m_cmd m) 0 (m_type m)
                     (if w_metric w then [77%N] else [73%N])) false ;;;
        ret m
    | BTime =>
        send (mk_msg (m_node m) (m_child m) (m_cmd m) 0 (m_type m) (str_of_Z now)) false ;;;
        ret m
    | BBattery =>
        require_node (m_node m) ;;;
        match bat (m_payload m) with
        | Some lvl =>
            if Z.leb 0 lvl && Z.leb lvl 100 then
              update_node (m_node m) (fun n =>
                {| n_id := n_id n; n_type := n_type n; n_ver := n_ver n;
                   n_children := n_children n; n_sketch_name := n_sketch_name n;
                   n_sketch_version := n_sketch_version n; n_battery := lvl;
                   n_heartbeat := n_heartbeat n; n_reboot := n_reboot n;
                   n_sleeping := n_sleeping n |}) ;;; ret m
            else raise EInvalidMessage
        | None => raise EInvalidMessage
        end
    | BSketchName =>
        require_node (m_node m) ;;;
        update_node (m_node m) (fun n =>
          {| n_id := n_id n; n_type := n_type n; n_ver := n_ver n;
             n_children := n_children n; n_sketch_name := m_payload m;
             n_sketch_version := n_sketch_version n; n_battery := n_battery n;
             n_heartbeat := n_heartbeat n; n_reboot := n_reboot n;
             n_sleeping := n_sleeping n |}) ;;; ret m
    | BSketchVersion =>
        require_node (m_node m) ;;;
        update_node (m_node m) (fun n =>
          {| n_id := n_id n; n_type := n_type n; n_ver := n_ver n;
             n_children := n_children n; n_sketch_name := n_sketch_name n;
             n_sketch_version := m_payload m; n_battery := n_battery n;
             n_heartbeat := n_heartbeat n; n_reboot := n_reboot n;
             n_sleeping := n_sleeping n |}) ;;; ret m
    | BGatewayReady =>
        disc <- need (p20_internal "I_DISCOVER") "NameError" ;;
        send (mk_msg 255 (m_child m) (m_cmd m) 0 disc []) false ;;;
        ret m
    | BDiscoverResponse =>
        require_node (m_node m) ;;; ret m
    | BHeartbeat20 =>
        require_node (m_node m) ;;;
        match py_int (m_payload m) with
        | None => raise EInvalidMessage
        | Some hb =>
            update_node (m_node m) (fun n =>
              {| n_id := n_id n; n_type := n_type n; n_ver := n_ver n;
                 n_children := n_children n; n_sketch_name := n_sketch_name n;
                 n_sketch_version := n_sketch_version n; n_battery := n_battery n;
                 n_heartbeat := hb; n_reboot := n_reboot n; n_sleeping := true |}) ;;;
            handle_sleep_buffer m
        end
    | BHeartbeat22 =>
        require_node (m_node m) ;;;
        match py_int (m_payload m) with
        | None => raise EInvalidMessage
        | Some hb =>
            update_node (m_node m) (fun n =>
              {| n_id := n_id n; n_type := n_type n; n_ver := n_ver n;
                 n_children := n_children n; n_sketch_name := n_sketch_name n;
                 n_sketch_version := n_sketch_version n; n_battery := n_battery n;
                 n_heartbeat := hb; n_reboot := n_reboot n; n_sleeping := n_sleeping n |}) ;;;
            ret m
        end
    | BPreSleep =>
        require_node (m_node m) ;;;
        update_node (m_node m) (fun n =>
          {| n_id := n_id n; n_type := n_type n; n_ver := n_ver n;
             n_children := n_children n; n_sketch_name := n_sketch_name n;
             n_sketch_version := n_sketch_version n; n_battery := n_battery n;
             n_heartbeat := n_heartbeat n; n_reboot := n_reboot n; n_sleeping := true |}) ;;;
        handle_sleep_buffer m
    | _ => raise (EEscape "unmodelled handler body")
    end.

  (* ---------- decorators ---------- *)

  (* handle_missing_protocol_version (protocol_14) *)
  Definition dec_mpv (f : msg -> M msg) (m : msg) : M msg :=
    try_finally (f m)
      (w <- get_w ;;
       match w_pv w with
       | Some _ => ret tt
       | None =>
           cint <- need (p14_command "internal") "NameError" ;;
           ilog <- need (p14_internal "I_LOG_MESSAGE") "NameError" ;;
           iready <- need (p14_internal "I_GATEWAY_READY") "NameError" ;;
           iver <- need (p14_internal "I_VERSION") "NameError" ;;
           if negb (Z.eqb (m_cmd m) cint)
              || negb (Z.eqb (m_type m) ilog || Z.eqb (m_type m) iready)
           then send (mk_msg 0 system_child_id cint 0 iver []) false
           else ret tt
       end).

  (* handle_missing_node_child (protocol_20) *)
  Definition is_missing (e : exn) : bool :=
    match e with EMissingNode _ | EMissingChild _ => true | _ => false end.

  Definition request_presentation (m : msg) (err : exn) : M msg :=
    cint <- need (p20_command "internal") "NameError" ;;
    ipres <- need (p20_internal "I_PRESENTATION") "NameError" ;;
    let pm := mk_msg (m_node m) system_child_id cint 0 ipres [] in
    w <- get_w ;;
    (if dmem key_eqb (w_internal w) (msg_key pm) then ret tt else send pm false) ;;;
    send pm true ;;;
    raise err.

  Definition dec_mnc (f : msg -> M msg) (m : msg) : M msg :=
    fun s =>
      match f m s with
      | (inr e, s') => if is_missing e then request_presentation m e s' else (inr e, s')
      | r => r
      end.

  Definition apply_dec (d : string) (f : msg -> M msg) : msg -> M msg :=
    if String.eqb d "handle_missing_protocol_version" then dec_mpv f
    else if String.eqb d "handle_missing_node_child" then dec_mnc f
    else fun _ => raise (EEscape "unmodelled decorator").

  Definition apply_decs (ds : list string) (f : msg -> M msg) : msg -> M msg :=
    fold_right apply_dec f ds.

  (* a chain of level-2 handlers *)
  Fixpoint run_chain2 (name : string) (chain : handler_chain) (m : msg) : M msg :=
    match chain with
    | [] => raise (EEscape "abstract handler")
    | (module, decs) :: rest =>
        apply_decs decs
          (fun m' =>
             match body_of module name with
             | Some b => run_body2 b (run_chain2 name rest) m'
             | None => raise (EEscape "unmodelled handler")
             end) m
    end.

  (* getattr(cls, name, None) followed by _handle_message *)
  Definition dispatch2 (name : string) (m : msg) : M msg :=
    w <- get_w ;;
    match lookup_chain (pt_incoming (proto_of w)) name with
    | None => ret m
    | Some chain => run_chain2 name chain m
    end.

  Definition pv_or_default (w : world) : str :=
    match w_pv w with Some v => v | None => default_protocol_version end.

  Definition set_child_value (n : node) (cid typ : Z) (v : str) : node :=
    match dget Z.eqb (n_children n) cid with
    | None => n
    | Some c =>
        {| n_id := n_id n; n_type := n_type n; n_ver := n_ver n;
           n_children := dset Z.eqb (n_children n) cid
              {| c_id := c_id c; c_type := c_type c; c_desc := c_desc c;
                 c_values := dset Z.eqb (c_values c) typ v |};
           n_sketch_name := n_sketch_name n; n_sketch_version := n_sketch_version n;
           n_battery := n_battery n; n_heartbeat := n_heartbeat n;
           n_reboot := n_reboot n; n_sleeping := n_sleeping n |}
    end.

  (* level-1 bodies: the five command handlers *)
  Definition run_body1 (b : body) (super : msg -> M msg) (m : msg) : M msg :=
    match b with
    | BSuper => super m
    | BPresentation20 =>
        ipres <- need (p20_internal "I_PRESENTATION") "NameError" ;;
        set_internal (fun b => dpop key_eqb b (m_node m, m_child m, ipres)) ;;;
        super m
    | BPresentation14 =>
        if Z.eqb (m_child m) system_child_id then
          set_nodes (fun ns => dset Z.eqb ns (m_node m)
                                 (new_node (m_node m) (m_type m) (m_payload m))) ;;;
          if Z.eqb (m_node m) 0 then dispatch2 "handle_i_version" m else ret m
        else
          require_node (m_node m) ;;;
          update_node (m_node m) (fun n =>
            {| n_id := n_id n; n_type := n_type n; n_ver := n_ver n;
               n_children := dset Z.eqb (n_children n) (m_child m)
                   {| c_id := m_child m; c_type := m_type m; c_desc := m_payload m;
                      c_values := [] |};
               n_sketch_name := n_sketch_name n; n_sketch_version := n_sketch_version n;
               n_battery := n_battery n; n_heartbeat := n_heartbeat n;
               n_reboot := n_reboot n; n_sleeping := n_sleeping n |}) ;;;
          ret m
    | BSet14 =>
        n <- require_node (m_node m) ;;
        if negb (dmem Z.eqb (n_children n) (m_child m)) then raise (EMissingChild (m_child m))
        else
          update_node (m_node m) (fun n => set_child_value n (m_child m) (m_type m) (m_payload m)) ;;;
          if n_reboot n then
            cint <- need (p14_command "internal") "NameError" ;;
            ireboot <- need (p14_internal "I_REBOOT") "NameError" ;;
            send (mk_msg (m_node m) system_child_id cint 0 ireboot []) false ;;; ret m
          else ret m
    | BReq14 =>
        n <- require_node (m_node m) ;;
        match dget Z.eqb (n_children n) (m_child m) with
        | None => raise (EMissingChild (m_child m))
        | Some c =>
            match dget Z.eqb (c_values c) (m_type m) with
            | None => ret m
            | Some v =>
                cset <- need (p14_command "set") "NameError" ;;
                send (mk_msg (m_node m) (m_child m) cset 0 (m_type m) v) false ;;; ret m
            end
        end
    | BInternal14 =>
        w <- get_w ;;
        match enum_lname_of (pt_internal (proto_of w)) (m_type m) with
        | None => raise (EUnsupported m (pv_or_default w))
        | Some ln => dispatch2 ("handle_" ++ ln) m
        end
    | BStream14 =>
        require_node (m_node m) ;;;
        w <- get_w ;;
        match enum_lname_of (pt_stream (proto_of w)) (m_type m) with
        | None => raise (EUnsupported m (pv_or_default w))
        | Some ln => dispatch2 ("handle_" ++ ln) m
        end
    | _ => raise (EEscape "unmodelled handler body")
    end.

  Fixpoint run_chain1 (name : string) (chain : handler_chain) (m : msg) : M msg :=
    match chain with
    | [] => raise (EEscape "abstract handler")
    | (module, decs) :: rest =>
        apply_decs decs
          (fun m' =>
             match body_of module name with
             | Some b => run_body1 b (run_chain1 name rest) m'
             | None => raise (EEscape "unmodelled handler")
             end) m
    end.

  (* one iteration of Gateway.listen after transport.read returned [line] *)
  Definition listen_step (line : str) : M msg :=
    w <- get_w ;;
    match decode (proto_of w) line with
    | DecInvalid => raise EInvalidMessage
    | DecEscape c => raise (EEscape c)
    | DecOk m =>
        match enum_lname_of (pt_command (proto_of w)) (m_cmd m) with
        | None => raise (EEscape "ValueError")
        | Some cname =>
            let hname := ("handle_" ++ cname)%string in
            match lookup_chain (pt_incoming (proto_of w)) hname with
            | None => raise (EEscape "AttributeError")
            | Some chain => run_chain1 hname chain m
            end
        end
    end.

  Inductive outcome := Yield (m : msg) | Done | Raise (e : exn).

  Definition run_step {A} (c : M A) (k : A -> outcome) (w : world) (faults : list bool)
    : world * outcome * list wevent :=
    match c {| s_w := w; s_log := []; s_faults := faults |} with
    | (inl a, s) => (s_w s, k a, rev (s_log s))
    | (inr e, s) => (s_w s, Raise e, rev (s_log s))
    end.

  Definition recv (w : world) (faults : list bool) (line : str) :=
    run_step (listen_step line) Yield w faults.

  Definition send_op (w : world) (faults : list bool) (m : msg) (buffered : bool) :=
    run_step (send m buffered) (fun _ => Done) w faults.

End WithOracles.

Definition init_world (metric : bool) : world :=
  {| w_nodes := []; w_pv := None; w_proto := 0%nat; w_internal := []; w_set := [];
     w_metric := metric |}.
