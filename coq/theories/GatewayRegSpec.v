(* C04 end to end at the level of one listen step, for every protocol: the registry after a
   received set / presentation / req line is the one the handler's closed form gives — the
   decorators (version query, missing-node/child wrapper, the 2.x marker layer) never touch it. *)
From Coq Require Import List NArith ZArith Bool String Lia.
From AMS Require Import TablesTypes Tables PyStr Codec CodecFacts Gateway GatewayFacts GatewayInv GatewaySteps.
Import ListNotations.
Local Open Scope Z_scope.

Section RegSpec.
  Variable bat : str -> option Z.
  Variable vlt : str -> str -> option bool.
  Variable now : Z.

  Definition nodes_of {A} (o : (A + exn) * st) : list (Z * node) := w_nodes (s_w (snd o)).

  Lemma nodes_dec_mpv f m s : nodes_of (dec_mpv f m s) = nodes_of (f m s).
  Proof.
    rewrite dec_mpv_eq. unfold mpv_finally, nodes_of. destruct (f m s) as [r t]. cbn [fst snd].
    destruct (w_pv (s_w t)); [reflexivity|]. destruct (wants_version_query m); [|reflexivity].
    rewrite write_eq. destruct (hd false (s_faults t)); reflexivity.
  Qed.

  Lemma nodes_request_presentation m e s : nodes_of (request_presentation m e s) = w_nodes (s_w s).
  Proof.
    rewrite request_presentation_eq. cbv zeta. unfold nodes_of.
    destruct (dmem key_eqb (w_internal (s_w s)) (pres_key (m_node m))); [reflexivity|].
    rewrite write_eq. destruct (hd false (s_faults s)); reflexivity.
  Qed.

  Lemma nodes_dec_mnc f m s : nodes_of (dec_mnc f m s) = nodes_of (f m s).
  Proof.
    rewrite dec_mnc_eq. unfold nodes_of at 2. destruct (f m s) as [[x|e] t]; [reflexivity|].
    destruct (is_missing e); [|reflexivity]. apply nodes_request_presentation.
  Qed.

  Lemma nodes_pres20 super m s :
    nodes_of (run_body1 bat vlt now BPresentation20 super m s)
    = nodes_of (super m (with_internal s (dpop key_eqb (w_internal (s_w s)) (m_node m, m_child m, 19)))).
  Proof. rewrite body_presentation20. reflexivity. Qed.

  (* the command handler reached by a line of command k, its registry effect *)
  Definition body_for (k : Z) : option body :=
    if k =? 0 then Some BPresentation14 else if k =? 1 then Some BSet14 else if k =? 2 then Some BReq14 else None.

  Lemma body_super super m s : run_body1 bat vlt now BSuper super m s = super m s.
  Proof. reflexivity. Qed.

  Ltac peel :=
    repeat first
      [ rewrite nodes_dec_mnc | rewrite nodes_dec_mpv | rewrite nodes_pres20 | rewrite body_super
      | progress cbn beta
      | progress cbn [run_chain1 apply_decs fold_right apply_dec body_of body_of_in body_table
                      String.eqb Ascii.eqb Bool.eqb andb] ].

  Theorem listen_nodes line s m b :
    decode (proto_of (s_w s)) line = DecOk m -> body_for (m_cmd m) = Some b ->
    exists s1, w_nodes (s_w s1) = w_nodes (s_w s) /\ s_log s1 = s_log s /\ s_faults s1 = s_faults s
               /\ w_proto (s_w s1) = w_proto (s_w s) /\ w_pv (s_w s1) = w_pv (s_w s)
      /\ nodes_of (listen_step bat vlt now line s) = nodes_of (run_body1 bat vlt now b no_super m s1).
  Proof.
    intros Hd Hb. unfold Gateway.listen_step, bind, get_w. cbn beta iota. rewrite Hd.
    unfold proto_of. rewrite command_lname. unfold lname_cmd, body_for in *.
    destruct (m_cmd m =? 0) eqn:E0; [|destruct (m_cmd m =? 1) eqn:E1; [|destruct (m_cmd m =? 2) eqn:E2; [|discriminate Hb]]];
      injection Hb as <-; cbn [append];
      pattern (proto_at (w_proto (s_w s))); apply proto_at_cases;
      cbn [lookup_chain pt_incoming proto_1_4 proto_1_5 proto_2_0 proto_2_1 proto_2_2 String.eqb Ascii.eqb Bool.eqb];
      peel;
      first [exists s; repeat split; reflexivity
            |eexists; split; [|split; [|split; [|split; [|split; [|reflexivity]]]]]; reflexivity].
  Qed.
  Lemma nodes_reply m pm s : w_nodes (s_w (snd (reply m pm s))) = w_nodes (s_w s).
  Proof. unfold reply. rewrite write_eq. destruct (hd false (s_faults s)); reflexivity. Qed.

  (* THE REGISTRY AFTER A SET LINE, under every protocol, whatever the version state, the reboot flag
     and the fault stream: the value is recorded under (child, type) iff node and child are registered *)
  Theorem set_step_nodes line s m :
    decode (proto_of (s_w s)) line = DecOk m -> m_cmd m = 1 ->
    w_nodes (s_w (snd (listen_step bat vlt now line s))) =
    match dget Z.eqb (w_nodes (s_w s)) (m_node m) with
    | None => w_nodes (s_w s)
    | Some n =>
        if dmem Z.eqb (n_children n) (m_child m)
        then dset Z.eqb (w_nodes (s_w s)) (m_node m) (set_child_value n (m_child m) (m_type m) (m_payload m))
        else w_nodes (s_w s)
    end.
  Proof.
    intros Hd Hk. destruct (listen_nodes line s m BSet14 Hd) as [s1 [H1 [_ [_ [_ [_ H]]]]]].
    { unfold body_for. rewrite Hk. reflexivity. }
    unfold nodes_of in H. rewrite H, body_set, H1.
    destruct (dget Z.eqb (w_nodes (s_w s)) (m_node m)) as [n|]; [|exact H1].
    destruct (dmem Z.eqb (n_children n) (m_child m)); [|exact H1].
    cbv zeta. destruct (n_reboot n); [rewrite nodes_reply|]; reflexivity.
  Qed.

  (* a req line never changes the registry *)
  Theorem req_step_nodes line s m :
    decode (proto_of (s_w s)) line = DecOk m -> m_cmd m = 2 ->
    w_nodes (s_w (snd (listen_step bat vlt now line s))) = w_nodes (s_w s).
  Proof.
    intros Hd Hk. destruct (listen_nodes line s m BReq14 Hd) as [s1 [H1 [_ [_ [_ [_ H]]]]]].
    { unfold body_for. rewrite Hk. reflexivity. }
    unfold nodes_of in H. rewrite H, body_req.
    destruct (dget Z.eqb (w_nodes (s_w s1)) (m_node m)) as [n|]; [|exact H1].
    destruct (dget Z.eqb (n_children n) (m_child m)) as [c|]; [|exact H1].
    destruct (dget Z.eqb (c_values c) (m_type m)) as [v|]; [rewrite nodes_reply|]; exact H1.
  Qed.

  (* a child presentation (re)creates the child record, with no values, iff the node is registered *)
  Theorem child_presentation_step_nodes line s m :
    decode (proto_of (s_w s)) line = DecOk m -> m_cmd m = 0 -> m_child m <> 255 ->
    w_nodes (s_w (snd (listen_step bat vlt now line s))) =
    match dget Z.eqb (w_nodes (s_w s)) (m_node m) with
    | None => w_nodes (s_w s)
    | Some n =>
        dset Z.eqb (w_nodes (s_w s)) (m_node m)
          {| n_id := n_id n; n_type := n_type n; n_ver := n_ver n;
             n_children := dset Z.eqb (n_children n) (m_child m)
                {| c_id := m_child m; c_type := m_type m; c_desc := m_payload m; c_values := [] |};
             n_sketch_name := n_sketch_name n; n_sketch_version := n_sketch_version n;
             n_battery := n_battery n; n_heartbeat := n_heartbeat n;
             n_reboot := n_reboot n; n_sleeping := n_sleeping n |}
    end.
  Proof.
    intros Hd Hk Hc. destruct (listen_nodes line s m BPresentation14 Hd) as [s1 [H1 [_ [_ [_ [_ H]]]]]].
    { unfold body_for. rewrite Hk. reflexivity. }
    unfold nodes_of in H. rewrite H, (body_presentation_child bat vlt now m s1 Hc), H1.
    destruct (dget Z.eqb (w_nodes (s_w s)) (m_node m)) as [n|]; [|exact H1]. cbn. rewrite ?H1. reflexivity.
  Qed.

  (* a node presentation of a node other than the gateway replaces the record by a fresh one *)
  Theorem node_presentation_step_nodes line s m :
    decode (proto_of (s_w s)) line = DecOk m -> m_cmd m = 0 -> m_child m = 255 -> m_node m <> 0 ->
    w_nodes (s_w (snd (listen_step bat vlt now line s))) =
    dset Z.eqb (w_nodes (s_w s)) (m_node m) (new_node (m_node m) (m_type m) (m_payload m)).
  Proof.
    intros Hd Hk Hc Hn. destruct (listen_nodes line s m BPresentation14 Hd) as [s1 [H1 [_ [_ [_ [_ H]]]]]].
    { unfold body_for. rewrite Hk. reflexivity. }
    unfold nodes_of in H. rewrite H, (body_presentation_node bat vlt now m s1 Hc Hn).
    cbn. rewrite ?H1. reflexivity.
  Qed.
  (* ---------- internal messages that report a node attribute ---------- *)

  Lemma body_super2 super m s : run_body2 bat vlt now BSuper super m s = super m s.
  Proof. reflexivity. Qed.

  Ltac peel2 :=
    repeat first
      [ rewrite nodes_dec_mnc | rewrite nodes_dec_mpv | rewrite body_super2
      | progress cbn beta
      | progress cbn [run_chain2 apply_decs fold_right apply_dec body_of body_of_in body_table
                      String.eqb Ascii.eqb Bool.eqb andb] ].

  (* the registry after an internal line of type t equals the registry after the level-2 body the
     tables dispatch t to — for the three attribute reports, under every protocol *)
  Definition report_body (t : Z) : option body :=
    if t =? 0 then Some BBattery else if t =? 11 then Some BSketchName else if t =? 12 then Some BSketchVersion else None.

  Theorem internal_report_nodes line s m b :
    decode (proto_of (s_w s)) line = DecOk m -> m_cmd m = 3 -> report_body (m_type m) = Some b ->
    nodes_of (listen_step bat vlt now line s) = nodes_of (run_body2 bat vlt now b no_super m s).
  Proof.
    intros Hd Hk Hb. rewrite (listen_internal bat vlt now line m s Hd Hk), nodes_dec_mpv. clear Hd.
    destruct s as [[nodes pv proto ib sb metric] log faults].
    unfold internal_inner, bind, get_w. cbn beta iota. unfold proto_of, report_body in *. cbn [s_w w_proto].
    destruct (Z.eqb_spec (m_type m) 0) as [E|E0]; [|destruct (Z.eqb_spec (m_type m) 11) as [E|E1];
      [|destruct (Z.eqb_spec (m_type m) 12) as [E|E2]; [|discriminate Hb]]];
      injection Hb as <-; rewrite E; unfold dispatch2, bind, get_w, proto_of, proto_at;
      destruct proto as [|[|[|[|[|[|k]]]]]];
      cbn [nth protocols enum_lname_of pt_internal proto_1_4 proto_1_5 proto_2_0 proto_2_1 proto_2_2 Z.eqb Pos.eqb append
           lookup_chain pt_incoming String.eqb Ascii.eqb Bool.eqb s_w w_proto];
      peel2; reflexivity.
  Qed.

  (* ... and for the 2.x node reports that touch the sleeping flag / the heartbeat counter:
     heartbeat response (22: the 2.0 handler under 2.0 / 2.1, the 2.2 handler under 2.2),
     pre-sleep notification (32, under 2.2), discover response (21) *)
  Definition wake_report_body (i : nat) (t : Z) : option body :=
    match i with
    | 2%nat | 3%nat => if t =? 22 then Some BHeartbeat20 else if t =? 21 then Some BDiscoverResponse else None
    | 4%nat => if t =? 22 then Some BHeartbeat22 else if t =? 32 then Some BPreSleep
               else if t =? 21 then Some BDiscoverResponse else None
    | _ => None
    end.

  Theorem wake_report_nodes line s m b :
    decode (proto_of (s_w s)) line = DecOk m -> m_cmd m = 3 ->
    wake_report_body (w_proto (s_w s)) (m_type m) = Some b ->
    nodes_of (listen_step bat vlt now line s) = nodes_of (run_body2 bat vlt now b no_super m s).
  Proof.
    intros Hd Hk Hb. rewrite (listen_internal bat vlt now line m s Hd Hk), nodes_dec_mpv. clear Hd.
    destruct s as [[nodes pv proto ib sb metric] log faults].
    unfold internal_inner, bind, get_w. cbn beta iota. unfold proto_of, wake_report_body in *. cbn [s_w w_proto] in *.
    destruct proto as [|[|[|[|[|k]]]]]; try discriminate Hb.
    all: repeat match type of Hb with
         | (if ?t =? ?c then _ else _) = _ => destruct (Z.eqb_spec t c) as [E|?]; [injection Hb as <-; rewrite E|]
         end; try discriminate Hb.
    all: unfold dispatch2, bind, get_w, proto_of, proto_at;
      cbn [nth protocols enum_lname_of pt_internal proto_1_4 proto_1_5 proto_2_0 proto_2_1 proto_2_2 Z.eqb Pos.eqb append
           lookup_chain pt_incoming String.eqb Ascii.eqb Bool.eqb s_w w_proto];
      peel2; reflexivity.
  Qed.
End RegSpec.
