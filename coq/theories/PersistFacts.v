(* C13 / C14: facts about the persistence model. *)
From Coq Require Import List NArith ZArith Bool String Lia.
From AMS Require Import TablesTypes Tables PyStr PyStrFacts Codec CodecFacts Gateway GatewayFacts Persist.
Import ListNotations.
Local Open Scope Z_scope.

Lemma str_eqb_spec a b : str_eqb a b = true <-> a = b.
Proof.
  unfold str_eqb. revert b. induction a as [|x a IH]; intros [|y b]; cbn; try (split; [discriminate|discriminate]).
  - split; reflexivity.
  - rewrite andb_true_iff, N.eqb_eq, IH. split; [intros [-> ->]; reflexivity|intros H; injection H as -> ->; tauto].
Qed.

Lemma str_eqb_refl a : str_eqb a a = true.
Proof. apply str_eqb_spec. reflexivity. Qed.

Lemma str_of_Z_inj a b : digits_ok a -> str_of_Z a = str_of_Z b -> a = b.
Proof.
  intros Ha H. pose proof (py_int_str_of_Z a Ha) as E. rewrite H in E.
  exact (py_int_str_of_Z_inv b a E).
Qed.

Lemma dset_new {V} (d : list (Z * V)) k v : ~ In k (map fst d) -> dset Z.eqb d k v = d ++ [(k, v)].
Proof.
  induction d as [|[k' v'] d IH]; cbn; intros H; [reflexivity|].
  destruct (Z.eqb_spec k k') as [->|Hne]; [exfalso; apply H; left; reflexivity|].
  rewrite IH; [reflexivity|]. intros Hin. apply H. right. exact Hin.
Qed.

(* Dict(keys=Int, values=F) reads back what was dumped *)
Lemma de_dict_dump {V} (de : json -> option V) (f : V -> json) (l : list (Z * V)) :
  (forall kv, In kv l -> de (f (snd kv)) = Some (snd kv) /\ digits_ok (fst kv)) ->
  forall acc, NoDup (map fst (acc ++ l)) ->
    de_dict de (map (fun kv => (str_of_Z (fst kv), f (snd kv))) l) acc = Some (acc ++ l).
Proof.
  induction l as [|[k v] l IH]; intros H acc Hn; cbn [map de_dict].
  - rewrite app_nil_r. reflexivity.
  - destruct (H (k, v) (or_introl eq_refl)) as [Hde Hdig]. cbn [fst snd] in *.
    rewrite (py_int_str_of_Z k Hdig), Hde.
    assert (Hnot : ~ In k (map fst acc)).
    { rewrite map_app in Hn. cbn in Hn. apply NoDup_remove_2 in Hn. intros Hin. apply Hn.
      apply in_or_app. left. exact Hin. }
    rewrite (dset_new acc k v Hnot). rewrite IH.
    + rewrite <- app_assoc. reflexivity.
    + intros kv Hin. apply H. right. exact Hin.
    + rewrite <- app_assoc. exact Hn.
Qed.

Definition values_ok (vs : list (Z * str)) : Prop :=
  NoDup (map fst vs) /\ Forall (fun kv => digits_ok (fst kv)) vs.

Definition child_ok (c : child) : Prop := values_ok (c_values c).

Definition node_ok (n : node) : Prop :=
  0 <= n_id n <= 255 /\ 0 <= n_battery n <= 100
  /\ NoDup (map fst (n_children n))
  /\ Forall (fun kc => digits_ok (fst kc) /\ child_ok (snd kc)) (n_children n).

Lemma load_dump_values vs : values_ok vs -> de_dict de_str (map (fun kv => (str_of_Z (fst kv), JStr (snd kv))) vs) [] = Some vs.
Proof.
  intros [Hn Hd]. apply (de_dict_dump de_str JStr vs); [|exact Hn].
  intros kv Hin. split; [reflexivity|]. rewrite Forall_forall in Hd. exact (Hd kv Hin).
Qed.

Theorem load_dump_child c : child_ok c -> load_child (dump_child c) = Some c.
Proof.
  intros Hc. unfold load_child, dump_child, dump_values.
  cbn -[de_dict]. rewrite (load_dump_values (c_values c) Hc). destruct c; reflexivity.
Qed.

Definition clear_reboot (n : node) : node :=
  {| n_id := n_id n; n_type := n_type n; n_ver := n_ver n; n_children := n_children n;
     n_sketch_name := n_sketch_name n; n_sketch_version := n_sketch_version n;
     n_battery := n_battery n; n_heartbeat := n_heartbeat n; n_reboot := false; n_sleeping := n_sleeping n |}.

Lemma load_dump_children cs :
  NoDup (map fst cs) -> Forall (fun kc => digits_ok (fst kc) /\ child_ok (snd kc)) cs ->
  de_dict load_child (map (fun kc => (str_of_Z (fst kc), dump_child (snd kc))) cs) [] = Some cs.
Proof.
  intros Hn Hf. apply (de_dict_dump load_child dump_child cs); [|exact Hn].
  intros kc Hin. rewrite Forall_forall in Hf. destruct (Hf kc Hin) as [Hd Hc].
  split; [apply load_dump_child; exact Hc|exact Hd].
Qed.

Lemma node_validators :
  field_validators node_schema "node_id" = [VRange (Some 0) (Some 255) true true]
  /\ field_validators node_schema "battery_level" = [VRange (Some 0) (Some 100) true true].
Proof. split; reflexivity. Qed.

Theorem load_dump_node n : node_ok n -> load_node (dump_node n) = Some (clear_reboot n).
Proof.
  intros [Hid [Hb [Hn Hf]]]. unfold load_node, dump_node.
  cbn -[de_dict field_ok]. rewrite (load_dump_children (n_children n) Hn Hf).
  unfold field_ok. destruct node_validators as [V1 V2]. rewrite V1, V2.
  cbn [validators_ok forallb validator_ok].
  assert (E1 : (0 <=? n_id n) && (n_id n <=? 255) = true) by (apply andb_true_iff; split; apply Z.leb_le; lia).
  assert (E2 : (0 <=? n_battery n) && (n_battery n <=? 100) = true) by (apply andb_true_iff; split; apply Z.leb_le; lia).
  rewrite E1, E2. reflexivity.
Qed.

(* ---------- the registry ---------- *)

Lemma jput_new l k v : ~ In k (map fst l) -> jput l k v = l ++ [(k, v)].
Proof.
  induction l as [|[k' v'] l IH]; cbn; intros H; [reflexivity|].
  destruct (str_eqb k k') eqn:E.
  - apply str_eqb_spec in E. subst. exfalso. apply H. left. reflexivity.
  - rewrite IH; [reflexivity|]. intros Hin. apply H. right. exact Hin.
Qed.

Definition reg_ok (reg : list (Z * node)) : Prop :=
  NoDup (map fst reg)
  /\ Forall (fun kn => n_id (snd kn) = fst kn /\ node_ok (snd kn)) reg.

Lemma dump_registry_eq reg :
  reg_ok reg ->
  dump_registry reg = JObj (map (fun kn => (str_of_Z (fst kn), dump_node (snd kn))) reg).
Proof.
  intros [Hn Hf]. unfold dump_registry. f_equal.
  assert (G : forall acc,
             NoDup (map fst acc ++ map (fun kn => str_of_Z (fst kn)) reg) ->
             fold_left (fun acc kn => jput acc (str_of_Z (n_id (snd kn))) (dump_node (snd kn))) reg acc
             = acc ++ map (fun kn => (str_of_Z (fst kn), dump_node (snd kn))) reg).
  { clear Hn. induction reg as [|[k n] reg IH]; intros acc Hnd; cbn [fold_left map].
    - rewrite app_nil_r. reflexivity.
    - inversion Hf as [|? ? [Hid Hok] Hf']; subst. cbn [fst snd] in *. rewrite Hid.
      rewrite jput_new.
      + rewrite IH; [rewrite <- app_assoc; reflexivity|exact Hf'|].
        rewrite map_app. cbn. rewrite <- app_assoc. exact Hnd.
      + cbn in Hnd. apply NoDup_remove_2 in Hnd. intros Hin. apply Hnd. apply in_or_app. left. exact Hin. }
  rewrite (G []); [reflexivity|]. cbn [map app].
  (* distinct ids in 0..255 print differently *)
  clear G. induction reg as [|[k n] reg IH]; cbn; [constructor|].
  inversion Hn as [|? ? Hnot Hnd]; subst. inversion Hf as [|? ? [Hid [Hr _]] Hf']; subst. cbn [fst snd] in *.
  constructor; [|apply IH; assumption].
  intros Hin. apply in_map_iff in Hin. destruct Hin as [[k' n'] [E Hin']]. cbn in E.
  assert (k' = k).
  { apply str_of_Z_inj; [|exact E]. rewrite Forall_forall in Hf'. destruct (Hf' _ Hin') as [Hid' [Hr' _]].
    cbn in *. apply digits_ok_small. lia. }
  subst k'. apply Hnot. apply in_map_iff. exists (k, n'). split; [reflexivity|exact Hin'].
Qed.

Lemma load_nodes_dump reg : forall acc,
  Forall (fun kn => n_id (snd kn) = fst kn /\ node_ok (snd kn)) reg ->
  NoDup (map fst acc ++ map fst reg) ->
  load_nodes (map (fun kn => (str_of_Z (fst kn), dump_node (snd kn))) reg) acc
  = Some (acc ++ map (fun kn => (fst kn, clear_reboot (snd kn))) reg).
Proof.
  induction reg as [|[k n] reg IH]; intros acc Hf Hn; cbn [map load_nodes].
  - rewrite app_nil_r. reflexivity.
  - inversion Hf as [|? ? [Hid Hok] Hf']; subst. cbn [fst snd] in *.
    rewrite (load_dump_node n Hok). cbn [clear_reboot n_id]. rewrite Hid.
    rewrite dset_new.
    + rewrite IH; [rewrite <- app_assoc; reflexivity|exact Hf'|].
      rewrite map_app. cbn. rewrite <- app_assoc. exact Hn.
    + cbn in Hn. apply NoDup_remove_2 in Hn. intros Hin. apply Hn. apply in_or_app. left. exact Hin.
Qed.

(* C13: save then load into an empty registry reproduces every node and child
   (all attributes; the application-set reboot flag is not persisted) *)
Theorem load_dump_registry reg :
  reg_ok reg ->
  load_registry (dump_registry reg) [] = Some (map (fun kn => (fst kn, clear_reboot (snd kn))) reg).
Proof.
  intros Hr. rewrite (dump_registry_eq reg Hr). destruct Hr as [Hn Hf]. unfold load_registry.
  rewrite (load_nodes_dump reg [] Hf Hn). cbn [app]. unfold update_all.
  assert (G : forall (new acc : list (Z * node)), NoDup (map fst acc ++ map fst new) ->
             fold_left (fun acc kn => dset Z.eqb acc (fst kn) (snd kn)) new acc = acc ++ new).
  { induction new as [|[k v] new IH]; intros acc Hnd; cbn [fold_left]; [rewrite app_nil_r; reflexivity|].
    cbn [fst snd]. rewrite dset_new.
    - rewrite IH; [rewrite <- app_assoc; reflexivity|]. rewrite map_app. cbn. rewrite <- app_assoc. exact Hnd.
    - cbn in Hnd. apply NoDup_remove_2 in Hnd. intros Hin. apply Hnd. apply in_or_app. left. exact Hin. }
  rewrite (G _ []); [reflexivity|]. cbn. rewrite map_map. cbn. exact Hn.
Qed.

(* ---------- the legacy pymysensors layout ---------- *)

Theorem load_legacy_child c : child_ok c -> load_child (legacy_child c) = Some c.
Proof.
  intros Hc. unfold load_child, legacy_child, dump_values.
  cbn -[de_dict]. rewrite (load_dump_values (c_values c) Hc). destruct c; reflexivity.
Qed.

Lemma load_legacy_children cs :
  NoDup (map fst cs) -> Forall (fun kc => digits_ok (fst kc) /\ child_ok (snd kc)) cs ->
  de_dict load_child (map (fun kc => (str_of_Z (fst kc), legacy_child (snd kc))) cs) [] = Some cs.
Proof.
  intros Hn Hf. apply (de_dict_dump load_child legacy_child cs); [|exact Hn].
  intros kc Hin. rewrite Forall_forall in Hf. destruct (Hf kc Hin) as [Hd Hc].
  split; [apply load_legacy_child; exact Hc|exact Hd].
Qed.

(* a node that is not flagged sleeping (the legacy layout has no such member) loads
   from the legacy layout to the same node as from the native layout, whether or
   not the legacy writer put null for the gateway type and for empty sketch strings *)
Theorem load_legacy_node a b n :
  node_ok n -> n_sleeping n = false ->
  load_node (legacy_node a b n) = load_node (dump_node n).
Proof.
  intros Hok Hs. rewrite (load_dump_node n Hok). destruct Hok as [Hid [Hb [Hn Hf]]].
  unfold load_node, legacy_node.
  assert (Ht : forall t, (if a && (n_type n =? 18) then JNull else JInt (n_type n)) = t ->
               exists t', t = t' /\ (t' = JNull /\ n_type n = 18 \/ t' = JInt (n_type n))).
  { intros t <-. eexists. split; [reflexivity|]. destruct a; cbn; [|right; reflexivity].
    destruct (Z.eqb_spec (n_type n) 18); [left; split; [reflexivity|assumption]|right; reflexivity]. }
  destruct (Ht _ eq_refl) as [t' [-> Ht']]. clear Ht.
  assert (Hsn : exists j, (match n_sketch_name n with [] => if b then JNull else JStr [] | s => JStr s end) = j
                /\ (j = JNull /\ n_sketch_name n = [] \/ j = JStr (n_sketch_name n))).
  { eexists. split; [reflexivity|]. destruct (n_sketch_name n); [destruct b; [left; split; reflexivity|right; reflexivity]|right; reflexivity]. }
  assert (Hsv : exists j, (match n_sketch_version n with [] => if b then JNull else JStr [] | s => JStr s end) = j
                /\ (j = JNull /\ n_sketch_version n = [] \/ j = JStr (n_sketch_version n))).
  { eexists. split; [reflexivity|]. destruct (n_sketch_version n); [destruct b; [left; split; reflexivity|right; reflexivity]|right; reflexivity]. }
  destruct Hsn as [j1 [-> H1]]. destruct Hsv as [j2 [-> H2]].
  unfold field_ok. destruct node_validators as [V1 V2].
  assert (E1 : (0 <=? n_id n) && (n_id n <=? 255) = true) by (apply andb_true_iff; split; apply Z.leb_le; lia).
  assert (E2 : (0 <=? n_battery n) && (n_battery n <=? 100) = true) by (apply andb_true_iff; split; apply Z.leb_le; lia).
  destruct Ht' as [[-> Ht]| ->], H1 as [[-> Hn1]| ->], H2 as [[-> Hn2]| ->];
    cbn -[de_dict field_validators]; rewrite (load_legacy_children (n_children n) Hn Hf), V1, V2;
    cbn [validators_ok forallb validator_ok]; rewrite E1, E2; unfold clear_reboot;
    rewrite ?Ht, ?Hn1, ?Hn2, Hs; reflexivity.
Qed.

(* ---------- C14: what load does with a parsed file ---------- *)

(* either nothing is registered, or every record is: no partial registry *)
Theorem load_registry_atomic j old :
  load_registry j old = None
  \/ exists l new, j = JObj l /\ load_nodes l [] = Some new /\ load_registry j old = Some (update_all old new).
Proof.
  destruct j; try (left; reflexivity). cbn. destruct (load_nodes l []) as [new|] eqn:E; [|left; reflexivity].
  right. exists l, new. repeat split. exact E.
Qed.

(* only an object whose member values all load is accepted *)
Theorem load_registry_accepts j old r :
  load_registry j old = Some r ->
  exists l, j = JObj l /\ Forall (fun kv => load_node (snd kv) <> None) l.
Proof.
  destruct j; try discriminate. cbn. destruct (load_nodes l []) as [new|] eqn:E; [|discriminate].
  intros _. exists l. split; [reflexivity|].
  revert E. generalize (@nil (Z * node)) as acc. induction l as [|[k v] l IH]; intros acc E; [constructor|].
  cbn in E. destruct (load_node v) as [n|] eqn:En; [|discriminate].
  constructor; [cbn; rewrite En; discriminate|]. eapply IH. exact E.
Qed.

(* an empty file is read as "{}": the registry stays as it is *)
Theorem load_empty_object old : load_registry (JObj []) old = Some old.
Proof. reflexivity. Qed.

(* records that are not objects, or miss a required member, are rejected *)
Theorem load_node_rejects :
  load_node JNull = None /\ load_node (JInt 5) = None /\ load_node (JArr []) = None
  /\ load_node (JStr []) = None /\ load_node (JObj []) = None
  /\ load_node (JObj [(slit "node_id", JInt 1)]) = None
  /\ load_node (JObj [(slit "node_id", JInt 1); (slit "node_type", JInt 17); (slit "protocol_version", JStr []);
                      (slit "battery_level", JInt 200)]) = None
  /\ load_node (JObj [(slit "node_id", JInt 1); (slit "node_type", JInt 17); (slit "protocol_version", JStr []);
                      (slit "extra", JInt 0)]) = None
  /\ load_node (JObj [(slit "node_id", JInt 256); (slit "node_type", JInt 17); (slit "protocol_version", JStr [])]) = None
  /\ load_node (JObj [(slit "node_id", JBool true); (slit "node_type", JInt 17); (slit "protocol_version", JStr [])]) = None.
Proof. vm_compute. repeat split. Qed.

(* ---------- every registry the gateway can reach is one that round-trips ---------- *)

From AMS Require Import GatewayInv.

(* the only thing the invariant does not carry: child ids and value types are at
   most 4300 digits long (CPython's int <-> str limit; int() on the wire enforces it) *)
Definition printable_reg (reg : list (Z * node)) : Prop :=
  Forall (fun kn => Forall (fun kc => digits_ok (fst kc)
                                      /\ Forall (fun kv => digits_ok (fst kv)) (c_values (snd kc)))
                           (n_children (snd kn))) reg.

Theorem reachable_reg_ok vlt w : Inv vlt w -> printable_reg (w_nodes w) -> reg_ok (w_nodes w).
Proof.
  intros Hi Hp. split; [apply (inv_nodup_nodes _ _ Hi)|].
  pose proof (inv_nodes _ _ Hi) as Hn. pose proof (inv_keys _ _ Hi) as Hk.
  unfold nodes_inv, printable_reg, keys in *. rewrite Forall_forall in *.
  intros [k n] Hin. cbn [fst snd]. destruct (Hn _ Hin) as [Hid [Hb [Hc Hv]]]. cbn [fst snd] in *.
  split; [exact Hid|]. split; [|split; [exact Hb|split; [exact Hc|]]].
  - rewrite Hid. apply Hk. apply (in_map fst) in Hin. exact Hin.
  - specialize (Hp _ Hin). cbn [snd] in Hp. rewrite Forall_forall in *. intros kc Hkc.
    destruct (Hp _ Hkc) as [Hd Hvs]. split; [exact Hd|]. split; [exact (Hv _ Hkc)|exact Hvs].
Qed.
