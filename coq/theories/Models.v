(* Everything executable: the files the extraction and the driver depend on. *)
From AMS Require Export TablesTypes Tables RtTables PyStr Codec Gateway Version Show Ops Flush Persist Stream Mqtt Lifecycle.
