(* Canonical rendering of model results as text (list of code points).  The
   Python harness renders the implementation's observable behaviour in exactly
   the same format; the correspondence check compares the two strings. *)
From Coq Require Import List NArith ZArith Bool String Ascii.
From AMS Require Import TablesTypes Tables PyStr Codec Gateway.
Import ListNotations.
Local Open Scope Z_scope.

Fixpoint lit (s : string) : str :=
  match s with
  | EmptyString => []
  | String a r => N_of_ascii a :: lit r
  end.

Definition show_bool (b : bool) : str := if b then [49%N] else [48%N].
Definition show_str (s : str) : str :=
  str_of_Z (Z.of_nat (List.length s)) ++ [58%N] ++ s.
Definition sp : str := [32%N].

Definition show_msg (m : msg) : str :=
  str_of_Z (m_node m) ++ sp ++ str_of_Z (m_child m) ++ sp ++ str_of_Z (m_cmd m) ++ sp ++
  str_of_Z (m_ack m) ++ sp ++ str_of_Z (m_type m) ++ sp ++ show_str (m_payload m).

Definition show_exn (e : exn) : str :=
  match e with
  | EInvalidMessage => lit "InvalidMessageError"
  | EMissingNode n => lit "MissingNodeError " ++ str_of_Z n
  | EMissingChild c => lit "MissingChildError " ++ str_of_Z c
  | ETooManyNodes => lit "TooManyNodesError"
  | EUnsupported m v => lit "UnsupportedMessageError " ++ show_str v ++ sp ++ show_msg m
  | ETransport => lit "TransportFailedError"
  | EEscape _ => lit "ESCAPE"
  end.

Definition show_outcome (o : outcome) : str :=
  match o with
  | Yield m => lit "Y " ++ show_msg m
  | Done => lit "D"
  | Raise e => lit "E " ++ show_exn e
  end.

Definition show_writes (ws : list wevent) : str :=
  List.concat (map (fun w => lit " | W" ++ show_bool (we_ok w) ++ sp ++ show_str (we_line w)) ws).

(* insertion sort by key, for canonical output of registry dicts *)
Fixpoint insert_by {A} (k : Z) (a : A) (l : list (Z * A)) : list (Z * A) :=
  match l with
  | [] => [(k, a)]
  | (k', a') :: r => if Z.leb k k' then (k, a) :: l else (k', a') :: insert_by k a r
  end.
Definition sort_by {A} (l : list (Z * A)) : list (Z * A) :=
  fold_right (fun e acc => insert_by (fst e) (snd e) acc) [] l.

Definition show_child (c : child) : str :=
  lit "{c " ++ str_of_Z (c_id c) ++ sp ++ str_of_Z (c_type c) ++ sp ++ show_str (c_desc c) ++
  List.concat (map (fun kv => lit " v" ++ str_of_Z (fst kv) ++ lit "=" ++ show_str (snd kv))
              (sort_by (c_values c))) ++ lit "}".

Definition show_node (n : node) : str :=
  lit "{n " ++ str_of_Z (n_id n) ++ sp ++ str_of_Z (n_type n) ++ sp ++ show_str (n_ver n) ++ sp ++
  show_str (n_sketch_name n) ++ sp ++ show_str (n_sketch_version n) ++ sp ++
  str_of_Z (n_battery n) ++ sp ++ str_of_Z (n_heartbeat n) ++ sp ++
  show_bool (n_reboot n) ++ sp ++ show_bool (n_sleeping n) ++
  List.concat (map (fun kc => lit " k" ++ str_of_Z (fst kc) ++ show_child (snd kc))
              (sort_by (n_children n))) ++ lit "}".

Definition show_nodes (ns : list (Z * node)) : str :=
  List.concat (map (fun kn => lit " k" ++ str_of_Z (fst kn) ++ show_node (snd kn)) (sort_by ns)).

Definition show_key (k : key) : str :=
  let '(a, b, c) := k in
  lit "(" ++ str_of_Z a ++ lit "," ++ str_of_Z b ++ lit "," ++ str_of_Z c ++ lit ")".

Definition show_buf (b : list (key * msg)) : str :=
  List.concat (map (fun e => sp ++ show_key (fst e) ++ lit "=" ++ show_msg (snd e)) b).

Definition show_world (w : world) : str :=
  lit "pv=" ++ (match w_pv w with None => lit "None" | Some v => show_str v end) ++
  lit " proto=" ++ show_str (pt_version (proto_of w)) ++
  lit " metric=" ++ show_bool (w_metric w) ++
  lit " nodes=" ++ List.concat (map (fun kn => lit " k" ++ str_of_Z (fst kn) ++ show_node (snd kn))
                               (sort_by (w_nodes w))) ++
  lit " ibuf=" ++ show_buf (w_internal w) ++
  lit " sbuf=" ++ show_buf (w_set w).

Definition show_step (r : world * outcome * list wevent) : str :=
  let '(w, o, ws) := r in
  show_outcome o ++ show_writes ws ++ lit " || " ++ show_world w.

Definition show_dec (d : dec_result) : str :=
  match d with
  | DecOk m => lit "OK " ++ show_msg m
  | DecInvalid => lit "INVALID"
  | DecEscape _ => lit "ESCAPE"
  end.
