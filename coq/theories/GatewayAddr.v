(* C06 "addressed to the node that asked": for every line, state, oracle and fault stream,
   every write attempted during one listen step carries a message addressed to the sender
   of the received message — or is the version query (to the gateway, node 0) or the
   discover broadcast (node 255, type 20).  No table hypothesis. *)
From Coq Require Import List NArith ZArith Bool String Lia.
From AMS Require Import TablesTypes Tables PyStr Codec CodecFacts Gateway GatewayFacts GatewayInv GatewaySteps GatewayTrace GatewayReg.
Import ListNotations.
Local Open Scope Z_scope.

Definition discover_msg (m : msg) : Prop := m_node m = 255 /\ m_type m = 20.

Section Addr.
  Variable bat : str -> option Z.
  Variable vlt : str -> str -> option bool.
  Variable now : Z.
  Variable nd : Z.        (* the sender of the message being handled *)

  Definition okm (pm : msg) : Prop := m_node pm = nd \/ pm = version_query_msg \/ discover_msg pm.
  Definition oke (e : wevent) : Prop := okm (we_msg e).

  Definition ad_at {A} (c : M A) (s : st) : Prop :=
    exists new, s_log (snd (c s)) = new ++ s_log s /\ Forall oke new.
  Definition ad {A} (c : M A) : Prop := forall s, ad_at c s.

  Lemma ad_same_at {A} (c : M A) s : s_log (snd (c s)) = s_log s -> ad_at c s.
  Proof. intros H. exists []. split; [exact H|constructor]. Qed.

  Lemma ad_ret {A} (x : A) : ad (ret x).
  Proof. intros s. apply ad_same_at. reflexivity. Qed.
  Lemma ad_raise {A} e : ad (@raise A e).
  Proof. intros s. apply ad_same_at. reflexivity. Qed.

  Lemma ad_bind_at {A B} (m : M A) (f : A -> M B) s :
    ad_at m s -> (forall x, fst (m s) = inl x -> ad_at (f x) (snd (m s))) -> ad_at (bind m f) s.
  Proof.
    intros Hm Hf. unfold ad_at, bind in *.
    destruct (m s) as [[x|e] s'] eqn:E; cbn [fst snd] in *; destruct Hm as [n1 [H1 F1]]; [|exists n1; split; assumption].
    destruct (Hf x eq_refl) as [n2 [H2 F2]]. exists (n2 ++ n1). split; [rewrite H2, H1, app_assoc; reflexivity|].
    apply Forall_app. split; assumption.
  Qed.

  Lemma ad_bind {A B} (m : M A) (f : A -> M B) : ad m -> (forall x, ad (f x)) -> ad (bind m f).
  Proof. intros Hm Hf s. apply ad_bind_at; [apply Hm|intros x _; apply Hf]. Qed.

  Lemma ad_get_w {B} (f : world -> M B) : (forall s, ad_at (f (s_w s)) s) -> ad (bind get_w f).
  Proof. intros H s. exact (H s). Qed.
  Lemma ad_bind_ret {A B} (x : A) (f : A -> M B) : ad (f x) -> ad (bind (ret x) f).
  Proof. intros H s. exact (H s). Qed.
  Lemma ad_bind_ret_at {A B} (x : A) (f : A -> M B) s : ad_at (f x) s -> ad_at (bind (ret x) f) s.
  Proof. intros H. exact H. Qed.

  Lemma ad_try_finally_at {A} (body : M A) (fin : M unit) s :
    ad_at body s -> ad fin -> ad_at (try_finally body fin) s.
  Proof.
    intros Hb Hf. unfold ad_at, try_finally in *.
    destruct (body s) as [r s'] eqn:E. cbn [fst snd] in *. destruct Hb as [n1 [H1 F1]]. destruct (Hf s') as [n2 [H2 F2]].
    destruct (fin s') as [[u|e] s''] eqn:E2; cbn [fst snd] in *;
      (exists (n2 ++ n1); split; [rewrite H2, H1, app_assoc; reflexivity|apply Forall_app; split; assumption]).
  Qed.

  Lemma ad_write pm : okm pm -> ad (write_msg pm).
  Proof.
    intros Hp s. unfold ad_at. rewrite write_eq. cbn [snd s_log]. eexists [_]. split; [reflexivity|].
    constructor; [exact Hp|constructor].
  Qed.

  Lemma ad_send_unbuffered pm : okm pm -> ad (send pm false).
  Proof.
    intros Hp s. unfold ad_at. rewrite send_eq. unfold send_resolved.
    assert (G : ad_at (send_set_direct pm false) s).
    { unfold send_set_direct. apply ad_bind_at; [apply ad_write; exact Hp|intros _ _; apply ad_ret]. }
    destruct (m_cmd pm =? 1).
    - destruct (dget Z.eqb (w_nodes (s_w s)) (m_node pm)) as [n|]; [cbn [andb]; exact G|exact G].
    - destruct (m_cmd pm =? 3); [exact (ad_write pm Hp s)|].
      destruct ((m_cmd pm =? 0) || (m_cmd pm =? 2) || (m_cmd pm =? 4)); exact (ad_raise _ s).
  Qed.

  Lemma ad_require_node id : ad (require_node id).
  Proof. intros s. apply ad_same_at. rewrite require_node_eq. destruct (dget Z.eqb (w_nodes (s_w s)) id); reflexivity. Qed.
  Lemma ad_update_node id f : ad (update_node id f).
  Proof. intros s. apply ad_same_at. reflexivity. Qed.
  Lemma ad_set_nodes f : ad (set_nodes f).
  Proof. intros s. apply ad_same_at. reflexivity. Qed.
  Lemma ad_set_internal f : ad (set_internal f).
  Proof. intros s. apply ad_same_at. reflexivity. Qed.
  Lemma ad_set_setbuf f : ad (set_setbuf f).
  Proof. intros s. apply ad_same_at. reflexivity. Qed.
  Lemma ad_set_protocol_version v : ad (set_protocol_version vlt v).
  Proof. intros s. apply ad_same_at. unfold set_protocol_version. destruct (get_protocol vlt v); reflexivity. Qed.

  Lemma ad_flush es : Forall (fun e => m_node (snd e) = nd) es -> ad (flush_entries es).
  Proof.
    induction es as [|[k bm] r IH]; intros H; cbn [flush_entries]; [apply ad_ret|].
    inversion H as [|? ? H1 H2]; subst. cbn [snd] in H1.
    apply ad_bind; [apply ad_send_unbuffered; left; exact H1|intros _]. apply ad_bind; [apply ad_set_setbuf|intros _; apply IH; exact H2].
  Qed.

  Lemma ad_handle_sleep_buffer m : m_node m = nd -> ad (handle_sleep_buffer m).
  Proof.
    intros Hm. unfold handle_sleep_buffer. apply ad_get_w. intros s.
    apply ad_bind; [|intros _; apply ad_ret]. apply ad_flush.
    apply Forall_forall. intros e He. apply filter_In in He. destruct He as [_ He]. apply Z.eqb_eq in He. rewrite He. exact Hm.
  Qed.

  Ltac okm_tac Hm :=
    first [left; cbn [mk_msg m_node]; exact Hm
          |right; left; reflexivity
          |right; right; split; reflexivity].

  Lemma ad_body2 b super m :
    m_node m = nd -> (b = BSuper -> ad (super m)) -> ad (run_body2 bat vlt now b super m).
  Proof.
    intros Hm Hs. destruct consts_p14 as [C1 [C2 [C3 [C4 [C5 [C6 [C7 C8]]]]]]].
    destruct consts_p20 as [D1 [D2 D3]].
    destruct b; cbn [run_body2]; try apply ad_raise.
    - apply Hs. reflexivity.
    - apply ad_bind; [apply ad_set_protocol_version|intros _; apply ad_ret].
    - apply ad_get_w. intros s.
      match goal with |- context [if ?c then _ else _] => destruct c end; [exact (ad_raise _ s)|].
      rewrite C1, C2. cbn [need]. apply ad_bind_ret_at. apply ad_bind_ret_at.
      apply ad_bind; [apply ad_set_nodes|intros _].
      apply ad_bind; [apply ad_send_unbuffered; okm_tac Hm|intros _; apply ad_ret].
    - apply ad_get_w. intros s. apply ad_bind; [apply ad_send_unbuffered; okm_tac Hm|intros _; apply ad_ret].
    - apply ad_bind; [apply ad_send_unbuffered; okm_tac Hm|intros _; apply ad_ret].
    - apply ad_bind; [apply ad_require_node|intros _].
      destruct (bat (m_payload m)) as [lvl|]; [|apply ad_raise].
      destruct ((0 <=? lvl) && (lvl <=? 100)); [|apply ad_raise].
      apply ad_bind; [apply ad_update_node|intros _; apply ad_ret].
    - apply ad_bind; [apply ad_require_node|intros _].
      apply ad_bind; [apply ad_update_node|intros _; apply ad_ret].
    - apply ad_bind; [apply ad_require_node|intros _].
      apply ad_bind; [apply ad_update_node|intros _; apply ad_ret].
    - rewrite D2. cbn [need]. apply ad_bind_ret.
      apply ad_bind; [apply ad_send_unbuffered; okm_tac Hm|intros _; apply ad_ret].
    - apply ad_bind; [apply ad_require_node|intros _; apply ad_ret].
    - apply ad_bind; [apply ad_require_node|intros _].
      destruct (py_int (m_payload m)); [|apply ad_raise].
      apply ad_bind; [apply ad_update_node|intros _]. apply ad_handle_sleep_buffer. exact Hm.
    - apply ad_bind; [apply ad_require_node|intros _].
      destruct (py_int (m_payload m)); [|apply ad_raise].
      apply ad_bind; [apply ad_update_node|intros _; apply ad_ret].
    - apply ad_bind; [apply ad_require_node|intros _].
      apply ad_bind; [apply ad_update_node|intros _]. apply ad_handle_sleep_buffer. exact Hm.
  Qed.

  Lemma ad_dec_mpv_at f m s : ad_at (f m) s -> ad_at (dec_mpv f m) s.
  Proof.
    intros Hf. destruct consts_p14 as [C1 [C2 [C3 [C4 [C5 [C6 [C7 C8]]]]]]].
    unfold dec_mpv. apply ad_try_finally_at; [exact Hf|].
    apply ad_get_w. intros s0. destruct (w_pv (s_w s0)); [exact (ad_ret _ s0)|].
    rewrite C7, C3, C4, C5. cbn [need]. repeat apply ad_bind_ret_at.
    match goal with |- context [if ?c then _ else _] => destruct c end;
      [apply ad_send_unbuffered; right; left; reflexivity|apply ad_ret].
  Qed.

  Lemma ad_request_presentation m e : m_node m = nd -> ad (request_presentation m e).
  Proof.
    intros Hm s. unfold ad_at. rewrite request_presentation_eq. cbv zeta.
    destruct (dmem key_eqb (w_internal (s_w s)) (pres_key (m_node m))); [exists []; split; [reflexivity|constructor]|].
    rewrite write_eq. destruct (hd false (s_faults s)); cbn [snd with_internal s_log];
      (eexists [_]; split; [reflexivity|constructor; [left; cbn; exact Hm|constructor]]).
  Qed.

  Lemma ad_dec_mnc_at f m s : m_node m = nd -> ad_at (f m) s -> ad_at (dec_mnc f m) s.
  Proof.
    intros Hm Hf. unfold ad_at in *. rewrite dec_mnc_eq.
    destruct (f m s) as [[x|e] s'] eqn:E; cbn [fst snd] in *; [exact Hf|].
    destruct (is_missing e); [|exact Hf]. destruct Hf as [n1 [H1 F1]].
    destruct (ad_request_presentation m e Hm s') as [n2 [H2 F2]].
    exists (n2 ++ n1). split; [rewrite H2, H1, app_assoc; reflexivity|apply Forall_app; split; assumption].
  Qed.

  Lemma ad_apply_decs_at ds f m s :
    m_node m = nd -> forallb known_dec ds = true -> ad_at (f m) s -> ad_at (apply_decs ds f m) s.
  Proof.
    intros Hm. induction ds as [|d r IH]; cbn [apply_decs fold_right forallb]; intros Hd Hf; [exact Hf|].
    apply andb_true_iff in Hd. destruct Hd as [Hd Hr]. unfold apply_dec.
    destruct (String.eqb d "handle_missing_protocol_version") eqn:E1; [apply ad_dec_mpv_at; apply IH; assumption|].
    destruct (String.eqb d "handle_missing_node_child") eqn:E2; [apply ad_dec_mnc_at; [exact Hm|apply IH; assumption]|].
    unfold known_dec in Hd. rewrite E1, E2 in Hd. discriminate.
  Qed.

  Lemma ad_apply_decs_any ds f m : m_node m = nd -> ad (f m) -> ad (apply_decs ds f m).
  Proof.
    intros Hm Hf. induction ds as [|d r IH]; cbn [apply_decs fold_right]; [exact Hf|].
    intros s. unfold apply_dec.
    destruct (String.eqb d "handle_missing_protocol_version"); [apply ad_dec_mpv_at; apply IH|].
    destruct (String.eqb d "handle_missing_node_child"); [apply ad_dec_mnc_at; [exact Hm|apply IH]|exact (ad_raise _ s)].
  Qed.

  Lemma ad_chain2 name chain m : m_node m = nd -> ad (run_chain2 bat vlt now name chain m).
  Proof.
    intros Hm. induction chain as [|[md ds] r IH]; cbn [run_chain2]; [apply ad_raise|].
    apply ad_apply_decs_any; [exact Hm|]. destruct (body_of md name) as [b|]; [|apply ad_raise].
    apply ad_body2; [exact Hm|intros _; exact IH].
  Qed.

  Lemma ad_dispatch2 name m : m_node m = nd -> ad (dispatch2 bat vlt now name m).
  Proof.
    intros Hm. unfold dispatch2. apply ad_get_w. intros s.
    destruct (lookup_chain (pt_incoming (proto_of (s_w s))) name) as [c|]; [apply ad_chain2; exact Hm|exact (ad_ret m s)].
  Qed.

  Lemma ad_body1 b super m :
    m_node m = nd -> (b = BSuper \/ b = BPresentation20 -> ad (super m)) -> ad (run_body1 bat vlt now b super m).
  Proof.
    intros Hm Hs. destruct consts_p14 as [C1 [C2 [C3 [C4 [C5 [C6 [C7 C8]]]]]]].
    destruct consts_p20 as [D1 [D2 D3]].
    destruct b; cbn [run_body1]; try apply ad_raise.
    - apply Hs. left. reflexivity.
    - rewrite D1. cbn [need]. apply ad_bind_ret. apply ad_bind; [apply ad_set_internal|intros _]. apply Hs. right. reflexivity.
    - destruct (m_child m =? system_child_id).
      + apply ad_bind; [apply ad_set_nodes|intros _].
        destruct (m_node m =? 0); [apply ad_dispatch2; exact Hm|apply ad_ret].
      + apply ad_bind; [apply ad_require_node|intros _].
        apply ad_bind; [apply ad_update_node|intros _; apply ad_ret].
    - apply ad_bind; [apply ad_require_node|intros n].
      destruct (negb (dmem Z.eqb (n_children n) (m_child m))); [apply ad_raise|].
      apply ad_bind; [apply ad_update_node|intros _].
      destruct (n_reboot n); [|apply ad_ret].
      rewrite C7, C6. cbn [need]. apply ad_bind_ret. apply ad_bind_ret.
      apply ad_bind; [apply ad_send_unbuffered; okm_tac Hm|intros _; apply ad_ret].
    - apply ad_bind; [apply ad_require_node|intros n].
      destruct (dget Z.eqb (n_children n) (m_child m)) as [c|]; [|apply ad_raise].
      destruct (dget Z.eqb (c_values c) (m_type m)) as [v|]; [|apply ad_ret].
      rewrite C8. cbn [need]. apply ad_bind_ret.
      apply ad_bind; [apply ad_send_unbuffered; okm_tac Hm|intros _; apply ad_ret].
    - apply ad_get_w. intros s.
      destruct (enum_lname_of (pt_internal (proto_of (s_w s))) (m_type m)) as [ln|]; [|exact (ad_raise _ s)].
      apply ad_dispatch2. exact Hm.
    - apply ad_bind; [apply ad_require_node|intros _]. apply ad_get_w. intros s.
      destruct (enum_lname_of (pt_stream (proto_of (s_w s))) (m_type m)) as [ln|]; [|exact (ad_raise _ s)].
      apply ad_dispatch2. exact Hm.
  Qed.

  Lemma ad_chain1 name chain m : m_node m = nd -> ad (run_chain1 bat vlt now name chain m).
  Proof.
    intros Hm. induction chain as [|[md ds] r IH]; cbn [run_chain1]; [apply ad_raise|].
    apply ad_apply_decs_any; [exact Hm|]. destruct (body_of md name) as [b|]; [|apply ad_raise].
    apply ad_body1; [exact Hm|intros _; exact IH].
  Qed.


  Theorem ad_listen_step line s :
    (forall m, decode (proto_of (s_w s)) line = DecOk m -> m_node m = nd) ->
    ad_at (listen_step bat vlt now line) s.
  Proof.
    intros Hm. unfold listen_step, bind, get_w, ad_at. cbn beta iota.
    destruct (decode (proto_of (s_w s)) line) as [m| |c] eqn:E; [|exact (ad_raise _ s)|exact (ad_raise _ s)].
    destruct (enum_lname_of (pt_command (proto_of (s_w s))) (m_cmd m)) as [cname|]; [|exact (ad_raise _ s)].
    destruct (lookup_chain (pt_incoming (proto_of (s_w s))) ("handle_" ++ cname)) as [c|]; [|exact (ad_raise _ s)].
    apply ad_chain1. apply Hm. reflexivity.
  Qed.
End Addr.
