(* Model of AwesomeVersion(a) < AwesomeVersion(b) on the dotted-numeric grammar
       ws* [vV]? d+ (. d+)* .? ws*        (ASCII digits)
   where the library's answer is the zero-padded numeric section order.
   Outside the grammar the comparison is an oracle supplied by the caller. *)
From Coq Require Import List NArith ZArith Bool.
From AMS Require Import RtTables PyStr.
Import ListNotations.
Local Open Scope N_scope.

Definition is_ascii_digit (c : N) : bool := N.leb 48 c && N.leb c 57.

(* one numeric component: (value, number of digits) *)
Fixpoint parse_component (s : str) (acc cnt : N) : N * N * str :=
  match s with
  | c :: r => if is_ascii_digit c then parse_component r (10 * acc + (c - 48)) (cnt + 1)
              else (acc, cnt, s)
  | [] => (acc, cnt, [])
  end.

(* d+ (. d+)* with an optional final '.'; fuel = length of the string *)
Fixpoint parse_sections (fuel : nat) (s : str) : option (list N) :=
  match fuel with
  | O => None
  | S f =>
      let '(v, cnt, rest) := parse_component s 0 0 in
      if N.eqb cnt 0 then None
      else if N.ltb py_max_str_digits cnt then None
      else match rest with
           | [] => Some [v]
           | [46] => Some [v]
           | 46 :: r => option_map (cons v) (parse_sections f r)
           | _ => None
           end
  end.

Definition strip_prefix (s : str) : str :=
  match s with
  | 118 :: r => r      (* v *)
  | 86 :: r => r       (* V *)
  | _ => s
  end.

Definition parse_ver (s : str) : option (list N) :=
  let s' := strip_prefix (strip s) in
  parse_sections (S (length s')) s'.

Definition all_zero (l : list N) : bool := forallb (N.eqb 0) l.

(* zero-padded section comparison *)
Fixpoint sec_lt (a b : list N) : bool :=
  match a, b with
  | [], _ => negb (all_zero b)
  | _, [] => false
  | x :: a', y :: b' =>
      if N.ltb x y then true else if N.ltb y x then false else sec_lt a' b'
  end.

(* complete comparison: modelled inside the grammar, oracle outside *)
Definition vlt_full (oracle : str -> str -> option bool) (a b : str) : option bool :=
  match parse_ver a, parse_ver b with
  | Some x, Some y => Some (sec_lt x y)
  | _, _ => oracle a b
  end.
