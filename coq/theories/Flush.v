(* C09: the wake-up flush racing with application sends, as a small-step system.
   The listener task is inside _handle_sleep_buffer: it took a snapshot of the
   woken node's entries and, entry by entry, awaits transport.write and then pops
   the entry if the buffer still holds the very message it wrote.  Its only
   suspension points are the awaited writes; while it is suspended other tasks
   run Gateway.send, which (the node is flagged sleeping for the whole flush)
   stores the new message under its key.  The schedule chooses, at every step
   boundary, what happens next.  Executable definitions only. *)
From Coq Require Import List NArith ZArith Bool String.
From AMS Require Import TablesTypes Tables PyStr Codec Gateway.
Import ListNotations.
Local Open Scope Z_scope.

Definition fkey := key.                       (* (node, child, type) *)
Definition fkey_eqb := key_eqb.

(* a message is identified by its tag: every send creates a new Message object *)
Definition entry := (fkey * Z)%type.

Definition bget (b : list entry) (k : fkey) : option Z := dget key_eqb b k.
Definition bset (b : list entry) (k : fkey) (t : Z) : list entry := dset key_eqb b k t.
Definition bpop (b : list entry) (k : fkey) : list entry := dpop key_eqb b k.

Record fstate := {
  f_buf : list entry;          (* MessageBuffer.set_messages *)
  f_snap : list entry;         (* entries of the snapshot not yet written *)
  f_cur : option entry;        (* the write the listener is suspended in *)
  f_written : list entry;      (* successful transport writes, oldest first *)
  f_sent : list entry;         (* completed send calls, oldest first *)
  f_direct : option (entry * option Z)
      (* a send for a node flagged awake whose transport.write is suspended, with the tag of the
         parked entry it supersedes (read before the write, as handle_set does) *)
}.

Inductive fop :=
| FSend (k : fkey) (t : Z)     (* another task: gateway.send(Message(k, value t)) completes (parks) *)
| FWake (n : Z)                (* the listener starts a flush for node n (only when idle) *)
| FBegin                       (* the listener starts the next write of the snapshot *)
| FEnd (ok : bool)             (* the suspended write completes or fails *)
| FDirectBegin (k : fkey) (t : Z)  (* another task sends to a node flagged awake: the write is called and suspends *)
| FDirectEnd (ok : bool).      (* that write completes: it drops the parked entry it superseded, if still there *)

Definition node_of (e : entry) : Z := let '(n, _, _) := fst e in n.

(* [guarded]: pop only if the buffer still holds the message that was written
   (the repaired code); [false] is the original unconditional pop *)
Definition fstep (guarded : bool) (s : fstate) (o : fop) : fstate :=
  match o with
  | FSend k t =>
      {| f_buf := bset (f_buf s) k t; f_snap := f_snap s; f_cur := f_cur s;
         f_written := f_written s; f_sent := f_sent s ++ [(k, t)]; f_direct := f_direct s |}
  | FWake n =>
      match f_cur s, f_snap s with
      | None, [] =>
          {| f_buf := f_buf s; f_snap := filter (fun e => Z.eqb (node_of e) n) (f_buf s);
             f_cur := None; f_written := f_written s; f_sent := f_sent s; f_direct := f_direct s |}
      | _, _ => s
      end
  | FBegin =>
      match f_cur s, f_snap s with
      | None, e :: r =>
          {| f_buf := f_buf s; f_snap := r; f_cur := Some e;
             f_written := f_written s; f_sent := f_sent s; f_direct := f_direct s |}
      | _, _ => s
      end
  | FEnd ok =>
      match f_cur s with
      | None => s
      | Some (k, t) =>
          if ok then
            {| f_buf := (if guarded
                         then match bget (f_buf s) k with
                              | Some t' => if Z.eqb t' t then bpop (f_buf s) k else f_buf s
                              | None => f_buf s
                              end
                         else bpop (f_buf s) k);
               f_snap := f_snap s; f_cur := None;
               f_written := f_written s ++ [(k, t)]; f_sent := f_sent s; f_direct := f_direct s |}
          else
            (* the transport error ends the flush; nothing is popped *)
            {| f_buf := f_buf s; f_snap := []; f_cur := None;
               f_written := f_written s; f_sent := f_sent s; f_direct := f_direct s |}
      end
  | FDirectBegin k t =>
      match f_direct s with
      | Some _ => s
      | None =>
          {| f_buf := f_buf s; f_snap := f_snap s; f_cur := f_cur s; f_written := f_written s;
             f_sent := f_sent s ++ [(k, t)]; f_direct := Some ((k, t), bget (f_buf s) k) |}
      end
  | FDirectEnd ok =>
      match f_direct s with
      | None => s
      | Some ((k, t), sup) =>
          if ok then
            {| f_buf := (match sup, bget (f_buf s) k with
                         | Some t0, Some t' => if Z.eqb t' t0 then bpop (f_buf s) k else f_buf s
                         | _, _ => f_buf s
                         end);
               f_snap := f_snap s; f_cur := f_cur s;
               f_written := f_written s ++ [(k, t)]; f_sent := f_sent s; f_direct := None |}
          else
            {| f_buf := f_buf s; f_snap := f_snap s; f_cur := f_cur s;
               f_written := f_written s; f_sent := f_sent s; f_direct := None |}
      end
  end.

Definition frun (guarded : bool) (s : fstate) (ops : list fop) : fstate :=
  fold_left (fstep guarded) ops s.

Definition finit : fstate :=
  {| f_buf := []; f_snap := []; f_cur := None; f_written := []; f_sent := []; f_direct := None |}.

(* finish the flush in progress without faults, then wake every node of [nodes]
   once more, without concurrent sends *)
Fixpoint drain (fuel : nat) (guarded : bool) (s : fstate) : fstate :=
  match fuel with
  | O => s
  | S f =>
      match f_cur s, f_snap s with
      | Some _, _ => drain f guarded (fstep guarded s (FEnd true))
      | None, _ :: _ => drain f guarded (fstep guarded s FBegin)
      | None, [] => s
      end
  end.

Definition drain_fuel (s : fstate) : nat := S (2 * (S (List.length (f_snap s)))).

Definition quiesce (guarded : bool) (s : fstate) (nodes : list Z) : fstate :=
  fold_left (fun st n => let st1 := fstep guarded st (FWake n) in drain (drain_fuel st1) guarded st1)
            nodes (drain (drain_fuel s) guarded s).

Fixpoint last_for (k : fkey) (l : list entry) : option Z :=
  match l with
  | [] => None
  | (k', t) :: r => match last_for k r with
                    | Some x => Some x
                    | None => if fkey_eqb k k' then Some t else None
                    end
  end.
