(* Facts about the Python string model (PyStr.v). *)
From Coq Require Import List NArith ZArith Bool Lia.
From Coq Require Decimal DecimalPos.
From AMS Require Import RtTables PyStr.
Import ListNotations.

Definition no_sep (sep : N) (s : str) : Prop := ~ In sep s.

(* ---------- split / splitn / join ---------- *)

Lemma splitn_0 sep s : splitn 0 sep s = [s].
Proof. destruct s; reflexivity. Qed.

Lemma splitn_nonnil k sep s : splitn k sep s <> [].
Proof.
  revert k; induction s as [|c r IH]; intros k; cbn; [discriminate|].
  destruct k; [discriminate|].
  destruct (N.eqb c sep); [discriminate|].
  destruct (splitn (S k) sep r) eqn:E; discriminate.
Qed.

(* splitting a delimiter-free field followed by sep and a rest *)
Lemma splitn_field k sep f rest :
  no_sep sep f ->
  splitn (S k) sep (f ++ sep :: rest) = f :: splitn k sep rest.
Proof.
  unfold no_sep; induction f as [|c f IH]; intros H; cbn [app splitn].
  - rewrite N.eqb_refl. reflexivity.
  - destruct (N.eqb_spec c sep) as [->|Hne]; [exfalso; apply H; left; reflexivity|].
    rewrite IH by (intros Hin; apply H; right; exact Hin).
    reflexivity.
Qed.

Lemma join_cons sep x y r : join sep (x :: y :: r) = x ++ sep :: join sep (y :: r).
Proof. reflexivity. Qed.

Lemma join_cons_nonnil sep x l : l <> [] -> join sep (x :: l) = x ++ sep :: join sep l.
Proof. destruct l; [congruence|reflexivity]. Qed.

Lemma splitn_join sep fs p :
  Forall (no_sep sep) fs ->
  splitn (length fs) sep (join sep (fs ++ [p])) = fs ++ [p].
Proof.
  induction fs as [|f fs IH]; intros H.
  - cbn. apply splitn_0.
  - inversion H as [|? ? Hf Hfs]; subst.
    cbn [length app].
    rewrite join_cons_nonnil by (destruct fs; discriminate).
    rewrite splitn_field by assumption.
    rewrite IH by assumption. reflexivity.
Qed.

Lemma join_cons_head sep c h t : join sep ((c :: h) :: t) = c :: join sep (h :: t).
Proof. destruct t; reflexivity. Qed.

Lemma join_splitn k sep s : join sep (splitn k sep s) = s.
Proof.
  revert k; induction s as [|c r IH]; intros k; cbn [splitn]; [reflexivity|].
  destruct k; [reflexivity|].
  destruct (N.eqb_spec c sep) as [->|Hne].
  - rewrite join_cons_nonnil by apply splitn_nonnil.
    rewrite IH. reflexivity.
  - specialize (IH (S k)).
    destruct (splitn (S k) sep r) as [|h t] eqn:E; [exfalso; eapply splitn_nonnil; eauto|].
    cbn beta iota. rewrite join_cons_head. rewrite IH. reflexivity.
Qed.

(* every part but the last is free of the separator *)
Lemma splitn_fields_no_sep k sep s :
  Forall (no_sep sep) (removelast (splitn k sep s)).
Proof.
  revert k; induction s as [|c r IH]; intros k; cbn [splitn]; [constructor|].
  destruct k; [constructor|].
  destruct (N.eqb_spec c sep) as [->|Hne].
  - specialize (IH k).
    destruct (splitn k sep r) as [|y l] eqn:E; [exfalso; eapply splitn_nonnil; eauto|].
    cbn [removelast]. constructor; [intros []|exact IH].
  - specialize (IH (S k)).
    destruct (splitn (S k) sep r) as [|h t] eqn:E; [exfalso; eapply splitn_nonnil; eauto|].
    cbn beta iota. destruct t as [|y l]; [constructor|].
    cbn [removelast] in *. inversion IH as [|? ? Hh Ht]; subst.
    constructor; [|exact Ht].
    intros [Hc|Hin]; [congruence|exact (Hh Hin)].
Qed.

Lemma splitn_length_le k sep s : (length (splitn k sep s) <= S k)%nat.
Proof.
  revert k; induction s as [|c r IH]; intros k; cbn [splitn]; [cbn; lia|].
  destruct k; [cbn; lia|].
  destruct (N.eqb c sep).
  - cbn [length]. specialize (IH k). lia.
  - specialize (IH (S k)).
    destruct (splitn (S k) sep r); cbn [length] in *; lia.
Qed.

(* ---------- rstrip ---------- *)

Lemma rstrip_app a b :
  rstrip (a ++ b) = match rstrip b with [] => rstrip a | _ => a ++ rstrip b end.
Proof.
  induction a as [|c a IH]; cbn [app rstrip].
  - destruct (rstrip b); reflexivity.
  - rewrite IH. destruct (rstrip b) eqn:Eb.
    + reflexivity.
    + destruct (a ++ n :: l) eqn:E; [destruct a; discriminate|]. reflexivity.
Qed.

Lemma rstrip_single_space c : is_space c = true -> rstrip [c] = [].
Proof. intros H; cbn [rstrip]; rewrite H; reflexivity. Qed.

Lemma rstrip_app_space s c : is_space c = true -> rstrip (s ++ [c]) = rstrip s.
Proof. intros H; rewrite rstrip_app, rstrip_single_space by assumption; reflexivity. Qed.

Lemma rstrip_idem s : rstrip (rstrip s) = rstrip s.
Proof.
  induction s as [|c r IH]; cbn [rstrip]; [reflexivity|].
  destruct (rstrip r) as [|x l] eqn:E.
  - destruct (is_space c) eqn:Hs; cbn [rstrip]; [reflexivity|rewrite Hs; reflexivity].
  - change (rstrip (c :: x :: l)) with
      (match rstrip (x :: l) with [] => if is_space c then [] else [c] | r' => c :: r' end).
    rewrite IH. reflexivity.
Qed.

(* a string that ends in a non-space character is its own rstrip *)
Lemma rstrip_snoc_nonspace s c : is_space c = false -> rstrip (s ++ [c]) = s ++ [c].
Proof.
  intros H. rewrite rstrip_app. cbn [rstrip]. rewrite H. reflexivity.
Qed.

Lemma rstrip_fixed_app a c b :
  is_space c = false -> rstrip b = b -> rstrip (a ++ c :: b) = a ++ c :: b.
Proof.
  intros Hc Hb.
  replace (a ++ c :: b) with ((a ++ [c]) ++ b) by (rewrite <- app_assoc; reflexivity).
  rewrite rstrip_app, Hb.
  destruct b; [rewrite app_nil_r; apply rstrip_snoc_nonspace; assumption|reflexivity].
Qed.

(* ---------- str(int) / int(str) ---------- *)

Definition is_digit_cp (c : N) : Prop := (48 <= c <= 57)%N.

Lemma digit_val_ascii c : (48 <= c <= 57)%N -> digit_val c = Some (c - 48)%N.
Proof.
  intros H. unfold digit_val.
  (* the first generated Nd range is the ASCII digits *)
  assert (Hr : exists rs, py_nd_ranges = (48, 57)%N :: rs) by (eexists; reflexivity).
  destruct Hr as [rs ->]. cbn [nd_digit_in].
  destruct (N.leb_spec 48 c); [|lia]. destruct (N.leb_spec c 57); [|lia].
  cbn [andb]. f_equal. apply N.mod_small. lia.
Qed.

Lemma uint_cps_digits u : Forall is_digit_cp (uint_cps u).
Proof. induction u; cbn; constructor; try assumption; unfold is_digit_cp; lia. Qed.

(* value of a digit string, accumulated like parse_digits does *)
Fixpoint uint_val_acc (u : Decimal.uint) (acc : N) : N :=
  match u with
  | Decimal.Nil => acc
  | Decimal.D0 r => uint_val_acc r (10 * acc)
  | Decimal.D1 r => uint_val_acc r (10 * acc + 1)
  | Decimal.D2 r => uint_val_acc r (10 * acc + 2)
  | Decimal.D3 r => uint_val_acc r (10 * acc + 3)
  | Decimal.D4 r => uint_val_acc r (10 * acc + 4)
  | Decimal.D5 r => uint_val_acc r (10 * acc + 5)
  | Decimal.D6 r => uint_val_acc r (10 * acc + 6)
  | Decimal.D7 r => uint_val_acc r (10 * acc + 7)
  | Decimal.D8 r => uint_val_acc r (10 * acc + 8)
  | Decimal.D9 r => uint_val_acc r (10 * acc + 9)
  end.

Lemma parse_digits_uint u pd acc cnt :
  (u <> Decimal.Nil \/ pd = true) ->
  parse_digits (uint_cps u) pd acc cnt =
  Some (uint_val_acc u acc, (cnt + N.of_nat (length (uint_cps u)))%N).
Proof.
  revert pd acc cnt.
  induction u as [|r IH|r IH|r IH|r IH|r IH|r IH|r IH|r IH|r IH|r IH]; intros pd acc cnt H.
  1: { destruct H as [H|H]; [congruence|]. subst. cbn. rewrite N.add_0_r. reflexivity. }
  all: cbn [uint_cps parse_digits length];
    change (N.eqb _ 95) with false; cbn match;
    rewrite digit_val_ascii by lia;
    rewrite IH by (right; reflexivity);
    cbn [uint_val_acc];
    apply f_equal, f_equal2; [apply f_equal; lia | lia].
Qed.

Lemma uint_val_acc_pos u acc :
  uint_val_acc u (Npos acc) = Npos (Pos.of_uint_acc u acc).
Proof.
  revert acc.
  induction u as [|r IH|r IH|r IH|r IH|r IH|r IH|r IH|r IH|r IH|r IH]; intros acc;
    cbn [uint_val_acc Pos.of_uint_acc]; [reflexivity| | | | | | | | | |].
  all: match goal with
       | |- uint_val_acc ?r ?a = Npos (Pos.of_uint_acc ?r ?b) =>
           replace a with (Npos b) by lia; apply IH
       end.
Qed.

Lemma uint_val_acc_0 u : uint_val_acc u 0 = Pos.of_uint u.
Proof.
  induction u as [|r IH|r IH|r IH|r IH|r IH|r IH|r IH|r IH|r IH|r IH];
    cbn [uint_val_acc Pos.of_uint]; [reflexivity|exact IH| | | | | | | | |].
  all: match goal with
       | |- uint_val_acc ?r ?a = Npos (Pos.of_uint_acc ?r ?b) =>
           replace a with (Npos b) by lia; apply uint_val_acc_pos
       end.
Qed.

Lemma is_int_space_digit c : is_digit_cp c -> is_int_space c = false.
Proof.
  unfold is_digit_cp, is_int_space; intros H.
  destruct (N.ltb_spec c 128); [|lia].
  destruct (N.eqb_spec c 32); [lia|].
  destruct (N.leb_spec 9 c); destruct (N.leb_spec c 13); cbn; try reflexivity; lia.
Qed.

Lemma lstrip_int_digits s : Forall is_digit_cp s -> lstrip_int s = s.
Proof.
  intros H; destruct s as [|c r]; [reflexivity|].
  inversion H; subst. cbn [lstrip_int]. rewrite is_int_space_digit by assumption. reflexivity.
Qed.

Lemma rstrip_int_digits s : Forall is_digit_cp s -> rstrip_int s = s.
Proof.
  induction s as [|c r IH]; intros H; [reflexivity|].
  inversion H; subst. cbn [rstrip_int]. rewrite IH by assumption.
  destruct r; [rewrite is_int_space_digit by assumption|]; reflexivity.
Qed.

Lemma uint_cps_nonnil u : u <> Decimal.Nil -> uint_cps u <> [].
Proof. destruct u; cbn; congruence. Qed.

(* number of decimal digits CPython counts against its int/str conversion limit *)
Definition digits_ok (z : Z) : Prop :=
  (N.of_nat (length (str_of_Z (Z.abs z))) <= py_max_str_digits)%N.

Definition finish_int (neg : bool) (r : option (N * N)) : option Z :=
  match r with
  | Some (n, cnt) =>
      if N.ltb py_max_str_digits cnt then None
      else Some (if neg then Z.opp (Z.of_N n) else Z.of_N n)
  | None => None
  end.

Lemma py_int_unfold s :
  py_int s =
  let body := rstrip_int (lstrip_int s) in
  match body with
  | 45%N :: r => finish_int true (parse_digits r false 0%N 0%N)
  | 43%N :: r => finish_int false (parse_digits r false 0%N 0%N)
  | _ => finish_int false (parse_digits body false 0%N 0%N)
  end.
Proof.
  unfold py_int, finish_int. cbv zeta.
  destruct (rstrip_int (lstrip_int s)) as [|c r]; [reflexivity|].
  destruct c as [|q]; [reflexivity|].
  do 7 (destruct q as [q|q|]; try reflexivity).
Qed.

Definition digits_ok_b (z : Z) : bool :=
  N.leb (N.of_nat (length (str_of_Z (Z.abs z)))) py_max_str_digits.

Lemma digits_ok_b_spec z : digits_ok_b z = true <-> digits_ok z.
Proof. unfold digits_ok_b, digits_ok. apply N.leb_le. Qed.

Lemma finish_int_pos p neg :
  finish_int neg (parse_digits (uint_cps (Pos.to_uint p)) false 0%N 0%N)
  = if digits_ok_b (Zpos p) then Some (if neg then Zneg p else Zpos p) else None.
Proof.
  unfold finish_int, digits_ok_b. cbn [Z.abs str_of_Z].
  rewrite parse_digits_uint by (left; apply DecimalPos.Unsigned.to_uint_nonnil).
  rewrite uint_val_acc_0, DecimalPos.Unsigned.of_to.
  rewrite N.add_0_l.
  destruct (N.ltb_spec py_max_str_digits (N.of_nat (length (uint_cps (Pos.to_uint p)))));
  destruct (N.leb_spec (N.of_nat (length (uint_cps (Pos.to_uint p)))) py_max_str_digits);
    try lia; [reflexivity|]. destruct neg; reflexivity.
Qed.

Theorem py_int_str_of_Z_gen z :
  py_int (str_of_Z z) = if digits_ok_b z then Some z else None.
Proof.
  destruct z as [|p|p].
  - reflexivity.
  - cbn [str_of_Z] in *. rewrite py_int_unfold. cbv zeta.
    pose proof (uint_cps_digits (Pos.to_uint p)) as HD.
    rewrite lstrip_int_digits, rstrip_int_digits by assumption.
    destruct (uint_cps (Pos.to_uint p)) as [|c r] eqn:E.
    + exfalso. eapply uint_cps_nonnil; [apply DecimalPos.Unsigned.to_uint_nonnil|exact E].
    + inversion HD as [|? ? Hc _]; subst. unfold is_digit_cp in Hc.
      assert (Hgoal : finish_int false (parse_digits (c :: r) false 0%N 0%N)
                      = if digits_ok_b (Zpos p) then Some (Zpos p) else None).
      { rewrite <- E. apply (finish_int_pos p false). }
      destruct c as [|q]; [lia|].
      repeat (destruct q as [q|q|]; try exact Hgoal); lia.
  - cbn [str_of_Z] in *. rewrite py_int_unfold. cbv zeta.
    pose proof (uint_cps_digits (Pos.to_uint p)) as HD.
    cbn [lstrip_int]. change (is_int_space 45) with false. cbn match.
    assert (Hr : rstrip_int (45%N :: uint_cps (Pos.to_uint p)) = 45%N :: uint_cps (Pos.to_uint p)).
    { cbn [rstrip_int]. rewrite rstrip_int_digits by assumption.
      destruct (uint_cps (Pos.to_uint p)) eqn:E; [|reflexivity].
      exfalso. eapply uint_cps_nonnil; [apply DecimalPos.Unsigned.to_uint_nonnil|exact E]. }
    rewrite Hr. exact (finish_int_pos p true).
Qed.

Theorem py_int_str_of_Z z : digits_ok z -> py_int (str_of_Z z) = Some z.
Proof.
  intros H. rewrite py_int_str_of_Z_gen.
  apply digits_ok_b_spec in H. rewrite H. reflexivity.
Qed.

Theorem py_int_str_of_Z_inv z n : py_int (str_of_Z z) = Some n -> n = z.
Proof.
  rewrite py_int_str_of_Z_gen. destruct (digits_ok_b z); congruence.
Qed.
