(* C16: the gateway context (load, start saver, connect, body, disconnect, stop =
   cancel + await saver + final save) and the background saver task
   (loop: save; sleep SAVE_INTERVAL), as two program counters advanced by a
   scheduler that may pick either task at every suspension point.

   Task semantics encoded (asyncio): a task cancelled before its first step
   never runs and ends cancelled; a cancellation is delivered at the task's next
   suspension point; the saver catches it only around the sleep; awaiting a
   cancelled task raises CancelledError, which stop() suppresses.
   A save is [save_steps] suspension points: the first opens (truncates) the file,
   the last completes the write of the registry as it was when the save started.
   I/O errors are outside this model.  Executable definitions only. *)
From Coq Require Import List NArith ZArith Bool.
Import ListNotations.

Definition save_steps : nat := 3.     (* open / write / close through aiofiles *)

(* EOwnerCancelled: the task that owns the context was cancelled from outside
   (task.cancel(), an enclosing timeout) while it was in the body: that
   CancelledError is the exception that must leave.  ECancelled: the SAVER's
   CancelledError leaking out of stop() — must never leave. *)
Inductive ekind := EConnect | EBody | EDisconnect | ECancelled | EOwnerCancelled.

Inductive mpc :=
| MLoad                     (* persistence.load() *)
| MStart                    (* persistence.start(): create the saver task *)
| MConnect                  (* transport.connect() *)
| MBody                     (* the application's code inside the context *)
| MDisconnect               (* transport.disconnect() *)
| MCancel                   (* stop(): task.cancel() *)
| MAwait                    (* stop(): await task (suppressing CancelledError) *)
| MFinal (k : nat)          (* stop(): the final save, k steps left *)
| MDone.                    (* left the context *)

Inductive spc :=
| SNone                     (* no saver task exists *)
| SCreated                  (* created, has not run yet *)
| SSaving (k : nat) (v : nat)   (* inside save: k steps left, writing registry version v *)
| SSleeping
| SEnded (cancelled : bool).

Inductive fcontent := FHolds (v : nat) | FPartial.

Record lstate := {
  l_m : mpc;
  l_s : spc;
  l_cancel : bool;          (* task.cancel() was called and not yet delivered *)
  l_reg : nat;              (* version of the in-memory registry *)
  l_file : fcontent;
  l_final : nat;            (* version the final save is writing *)
  l_disc : nat;             (* number of transport.disconnect() calls *)
  l_connected : bool;
  l_exc : option ekind;     (* the exception that will leave the context *)
  l_saves : nat             (* completed saves *)
}.

Inductive choice :=
| CMain (ok : bool)         (* the main task takes its next step; [ok] is the outcome of a
                               step that can fail (connect, body, disconnect) *)
| CSaver                    (* the saver task takes its next step *)
| CTimer                    (* SAVE_INTERVAL has elapsed for the sleeping saver *)
| CMutate                   (* the registry changes (received messages) while the body runs *)
| CCancelOwner              (* the task owning the context is cancelled while in the body *)
| CReenter.                 (* the context has been left: the same Gateway object is entered again *)

Definition set_m (s : lstate) (m : mpc) : lstate :=
  {| l_m := m; l_s := l_s s; l_cancel := l_cancel s; l_reg := l_reg s; l_file := l_file s;
     l_final := l_final s; l_disc := l_disc s; l_connected := l_connected s; l_exc := l_exc s; l_saves := l_saves s |}.

Definition begin_save (v : nat) : spc := SSaving save_steps v.

(* one step of save: k steps left -> what it does to the file *)
Definition file_after (k : nat) (v : nat) (f : fcontent) : fcontent :=
  match k with
  | S O => FHolds v            (* last step: the write is complete *)
  | _ => FPartial              (* opened with "w": truncated, data not complete *)
  end.

Definition main_step (guarded : bool) (s : lstate) (ok : bool) : lstate :=
  match l_m s with
  | MLoad => set_m s MStart
  | MStart =>
      {| l_m := MConnect; l_s := SCreated; l_cancel := false; l_reg := l_reg s; l_file := l_file s;
         l_final := l_final s; l_disc := l_disc s; l_connected := false; l_exc := l_exc s; l_saves := l_saves s |}
  | MConnect =>
      if ok then
        {| l_m := MBody; l_s := l_s s; l_cancel := l_cancel s; l_reg := l_reg s; l_file := l_file s;
           l_final := l_final s; l_disc := l_disc s; l_connected := true; l_exc := l_exc s; l_saves := l_saves s |}
      else
        (* connect raised: stop the saver, then re-raise *)
        {| l_m := MCancel; l_s := l_s s; l_cancel := l_cancel s; l_reg := l_reg s; l_file := l_file s;
           l_final := l_final s; l_disc := l_disc s; l_connected := false; l_exc := Some EConnect; l_saves := l_saves s |}
  | MBody =>
      {| l_m := MDisconnect; l_s := l_s s; l_cancel := l_cancel s; l_reg := l_reg s; l_file := l_file s;
         l_final := l_final s; l_disc := l_disc s; l_connected := l_connected s;
         l_exc := if ok then None else Some EBody; l_saves := l_saves s |}
  | MDisconnect =>
      (* try: disconnect finally: stop — a failing disconnect replaces the body's exception *)
      {| l_m := MCancel; l_s := l_s s; l_cancel := l_cancel s; l_reg := l_reg s; l_file := l_file s;
         l_final := l_final s; l_disc := S (l_disc s); l_connected := false;
         l_exc := if ok then l_exc s else Some EDisconnect; l_saves := l_saves s |}
  | MCancel =>
      {| l_m := MAwait; l_s := l_s s;
         l_cancel := match l_s s with SEnded _ | SNone => false | _ => true end;
         l_reg := l_reg s; l_file := l_file s; l_final := l_final s; l_disc := l_disc s;
         l_connected := l_connected s; l_exc := l_exc s; l_saves := l_saves s |}
  | MAwait =>
      match l_s s with
      | SEnded c =>
          if c && negb guarded then
            (* the original code: CancelledError escapes from stop(), the final save is skipped *)
            {| l_m := MDone; l_s := l_s s; l_cancel := false; l_reg := l_reg s; l_file := l_file s;
               l_final := l_final s; l_disc := l_disc s; l_connected := l_connected s;
               l_exc := Some ECancelled; l_saves := l_saves s |}
          else
            {| l_m := MFinal save_steps; l_s := l_s s; l_cancel := false; l_reg := l_reg s; l_file := l_file s;
               l_final := l_reg s; l_disc := l_disc s; l_connected := l_connected s; l_exc := l_exc s;
               l_saves := l_saves s |}
      | _ => s                (* blocked until the saver task has ended *)
      end
  | MFinal k =>
      match k with
      | O => set_m s MDone
      | S k' =>
          {| l_m := (match k' with O => MDone | _ => MFinal k' end); l_s := l_s s; l_cancel := l_cancel s;
             l_reg := l_reg s; l_file := file_after k (l_final s) (l_file s); l_final := l_final s;
             l_disc := l_disc s; l_connected := l_connected s; l_exc := l_exc s;
             l_saves := (match k' with O => S (l_saves s) | _ => l_saves s end) |}
      end
  | MDone => s
  end.

Definition set_s (s : lstate) (sp : spc) (cancel : bool) (f : fcontent) (saves : nat) : lstate :=
  {| l_m := l_m s; l_s := sp; l_cancel := cancel; l_reg := l_reg s; l_file := f;
     l_final := l_final s; l_disc := l_disc s; l_connected := l_connected s; l_exc := l_exc s; l_saves := saves |}.

Definition saver_step (s : lstate) : lstate :=
  match l_s s with
  | SNone | SEnded _ => s
  | SCreated =>
      if l_cancel s then set_s s (SEnded true) false (l_file s) (l_saves s)
      else set_s s (begin_save (l_reg s)) false (l_file s) (l_saves s)
  | SSaving k v =>
      if l_cancel s then
        (* CancelledError inside save is not caught: the task ends cancelled, the file stays as it is *)
        set_s s (SEnded true) false (l_file s) (l_saves s)
      else
        match k with
        | O => set_s s SSleeping false (l_file s) (l_saves s)
        | S O => set_s s SSleeping false (FHolds v) (S (l_saves s))
        | S k' => set_s s (SSaving k' v) false (file_after k v (l_file s)) (l_saves s)
        end
  | SSleeping =>
      if l_cancel s then set_s s (SEnded false) false (l_file s) (l_saves s)   (* caught: break *)
      else s                    (* still sleeping until the timer fires *)
  end.

Definition lstep (guarded : bool) (s : lstate) (c : choice) : lstate :=
  match c with
  | CMain ok => main_step guarded s ok
  | CSaver => saver_step s
  | CTimer =>
      match l_s s with
      | SSleeping => if l_cancel s then s else set_s s (begin_save (l_reg s)) false (l_file s) (l_saves s)
      | _ => s
      end
  | CMutate =>
      match l_m s with
      | MBody =>
          {| l_m := l_m s; l_s := l_s s; l_cancel := l_cancel s; l_reg := S (l_reg s); l_file := l_file s;
             l_final := l_final s; l_disc := l_disc s; l_connected := l_connected s; l_exc := l_exc s;
             l_saves := l_saves s |}
      | _ => s
      end
  | CCancelOwner =>
      match l_m s with
      | MBody =>
          (* CancelledError is thrown into the body: __aexit__ runs as for any exception *)
          {| l_m := MDisconnect; l_s := l_s s; l_cancel := l_cancel s; l_reg := l_reg s; l_file := l_file s;
             l_final := l_final s; l_disc := l_disc s; l_connected := l_connected s;
             l_exc := Some EOwnerCancelled; l_saves := l_saves s |}
      | _ => s
      end
  | CReenter =>
      match l_m s with
      | MDone =>
          (* __aenter__ again: load reads the file (a partial file fails to load: the
             registry stays), no saver task exists, per-session observations restart *)
          {| l_m := MLoad; l_s := SNone; l_cancel := false;
             l_reg := (match l_file s with FHolds v => v | FPartial => l_reg s end);
             l_file := l_file s; l_final := l_final s; l_disc := 0; l_connected := false;
             l_exc := None; l_saves := l_saves s |}
      | _ => s
      end
  end.

Definition linit (file_version : nat) : lstate :=
  {| l_m := MLoad; l_s := SNone; l_cancel := false; l_reg := file_version; l_file := FHolds file_version;
     l_final := 0; l_disc := 0; l_connected := false; l_exc := None; l_saves := 0 |}.

Definition lrun (guarded : bool) (s : lstate) (cs : list choice) : lstate :=
  fold_left (lstep guarded) cs s.
