(* C17: the reads of a stream transport do not depend on how the byte stream was
   chunked on arrival; lines are delivered in order, one per read. *)
From Coq Require Import List NArith ZArith Bool String Lia.
From AMS Require Import TablesTypes Tables PyStr Stream.
Import ListNotations.

Lemma find_nl_app_some b more i : find_nl b = Some i -> find_nl (b ++ more) = Some i.
Proof.
  revert i. induction b as [|c b IH]; cbn; intros i H; [discriminate|].
  destruct (N.eqb c terminator); [exact H|].
  destruct (find_nl b) as [j|]; [|discriminate]. cbn in H. injection H as <-.
  rewrite (IH j eq_refl). reflexivity.
Qed.

Lemma find_nl_lt b i : find_nl b = Some i -> (i < List.length b)%nat.
Proof.
  revert i. induction b as [|c b IH]; cbn; intros i H; [discriminate|].
  destruct (N.eqb c terminator); [injection H as <-; lia|].
  destruct (find_nl b) as [j|]; [|discriminate]. cbn in H. injection H as <-.
  specialize (IH j eq_refl). lia.
Qed.

Lemma find_nl_app_none b more : find_nl b = None ->
  find_nl (b ++ more) = option_map (fun j => (List.length b + j)%nat) (find_nl more).
Proof.
  induction b as [|c b IH]; cbn; intros H.
  - destruct (find_nl more); reflexivity.
  - destruct (N.eqb c terminator); [discriminate|].
    destruct (find_nl b); [discriminate|]. rewrite (IH eq_refl).
    destruct (find_nl more); reflexivity.
Qed.

(* a read that completed on part of the data completes identically once more has arrived *)
Lemma readuntil_mono limit b x r' more eof' :
  readuntil limit {| r_buf := b; r_eof := false |} = Some (x, r') ->
  readuntil limit {| r_buf := b ++ more; r_eof := eof' |}
  = Some (x, {| r_buf := r_buf r' ++ more; r_eof := eof' |}).
Proof.
  unfold readuntil. cbn [r_buf r_eof].
  destruct (find_nl b) as [i|] eqn:E.
  - rewrite (find_nl_app_some b more i E). pose proof (find_nl_lt b i E) as Hlt.
    destruct (Nat.ltb limit i).
    + intros H. injection H as <- <-. reflexivity.
    + intros H. injection H as <- <-. cbn [r_buf].
      rewrite firstn_app, skipn_app.
      replace (S i - List.length b)%nat with 0%nat by lia. cbn [firstn skipn]. rewrite app_nil_r. reflexivity.
  - destruct (Nat.ltb limit (List.length b)) eqn:El; [|discriminate].
    intros H. injection H as <- <-. cbn [r_buf].
    rewrite (find_nl_app_none b more E). apply Nat.ltb_lt in El.
    destruct (find_nl more) as [j|]; cbn [option_map].
    + assert (Hl : Nat.ltb limit (List.length b + j) = true) by (apply Nat.ltb_lt; lia). rewrite Hl. reflexivity.
    + assert (Hl : Nat.ltb limit (List.length (b ++ more)) = true) by (apply Nat.ltb_lt; rewrite app_length; lia).
      rewrite Hl. reflexivity.
Qed.

(* no data is fed after eof *)
Fixpoint wf_ops (eof : bool) (ops : list sop) : Prop :=
  match ops with
  | [] => True
  | SFeed _ :: r => eof = false /\ wf_ops false r
  | SEof :: r => wf_ops true r
  | SRead :: r => wf_ops eof r
  end.

Lemma fed_after_eof ops : wf_ops true ops -> fed ops = [].
Proof.
  induction ops as [|o r IH]; cbn; intros H; [reflexivity|].
  destruct o; cbn in *; [destruct H; discriminate|exact (IH H)|exact (IH H)].
Qed.

(* the completed reads of ANY schedule are the first reads of the complete stream *)
Theorem srun_spec limit ops : forall r,
  wf_ops (r_eof r) ops ->
  fst (srun limit r ops)
  = reads_of limit (List.length (fst (srun limit r ops))) {| r_buf := r_buf r ++ fed ops; r_eof := true |}.
Proof.
  induction ops as [|o rest IH]; intros r Hw; cbn [srun].
  - reflexivity.
  - destruct o as [c| |];
      [change (fed (SFeed c :: rest)) with (c ++ fed rest)
      |change (fed (SEof :: rest)) with (fed rest)
      |change (fed (SRead :: rest)) with (fed rest)].
    + destruct Hw as [He Hw]. specialize (IH {| r_buf := r_buf r ++ c; r_eof := r_eof r |}).
      cbn [r_buf r_eof] in IH. rewrite <- app_assoc in IH. apply IH. rewrite He. exact Hw.
    + specialize (IH {| r_buf := r_buf r; r_eof := true |} Hw). cbn [r_buf] in IH. exact IH.
    + cbn in Hw. destruct (readuntil limit r) as [[x r']|] eqn:E; [|apply IH; exact Hw].
      destruct (srun limit r' rest) as [xs rf] eqn:Es. cbn [fst List.length reads_of].
      assert (Hstep : readuntil limit {| r_buf := r_buf r ++ fed rest; r_eof := true |}
                      = Some (x, {| r_buf := r_buf r' ++ fed rest; r_eof := true |}) /\ wf_ops (r_eof r') rest).
      { destruct r as [b e]. destruct e.
        - rewrite (fed_after_eof rest Hw), !app_nil_r. cbn [r_buf r_eof] in *.
          assert (r_eof r' = true).
          { unfold readuntil in E. cbn [r_buf r_eof] in E. destruct (find_nl b); [destruct (Nat.ltb limit n)|destruct (Nat.ltb limit (List.length b))];
              injection E as _ <-; reflexivity. }
          destruct r' as [b' e']. cbn in *. subst e'. split; [exact E|exact Hw].
        - cbn [r_buf r_eof] in *. split; [apply (readuntil_mono limit b x r' (fed rest) true E)|].
          assert (r_eof r' = false).
          { unfold readuntil in E. cbn [r_buf r_eof] in E. destruct (find_nl b); [destruct (Nat.ltb limit n)|destruct (Nat.ltb limit (List.length b))];
              try discriminate; injection E as _ <-; reflexivity. }
          rewrite H. exact Hw. }
      destruct Hstep as [Hr Hw']. rewrite Hr. f_equal.
      specialize (IH r' Hw'). rewrite Es in IH. cbn [fst] in IH. exact IH.
Qed.

(* chunking is irrelevant: two schedules that fed the same bytes and completed the
   same number of reads returned the same results, read by read *)
Theorem chunking_irrelevant limit ops1 ops2 :
  wf_ops false ops1 -> wf_ops false ops2 -> fed ops1 = fed ops2 ->
  let r0 := {| r_buf := []; r_eof := false |} in
  List.length (fst (srun limit r0 ops1)) = List.length (fst (srun limit r0 ops2)) ->
  fst (srun limit r0 ops1) = fst (srun limit r0 ops2).
Proof.
  intros H1 H2 Hf r0 Hl.
  rewrite (srun_spec limit ops1 r0 H1), (srun_spec limit ops2 r0 H2). cbn [r_buf r0 app].
  rewrite Hf, Hl. reflexivity.
Qed.

(* a stream of well-formed short lines is delivered line by line, in order *)
Fixpoint no_nl (b : bytes) : Prop :=
  match b with [] => True | c :: r => N.eqb c terminator = false /\ no_nl r end.

Lemma find_nl_line l rest : no_nl l -> find_nl (l ++ terminator :: rest) = Some (List.length l).
Proof.
  induction l as [|c l IH]; cbn; intros H.
  - try rewrite N.eqb_refl. reflexivity.
  - destruct H as [Hc Hl]. rewrite Hc, (IH Hl). reflexivity.
Qed.

Theorem lines_delivered limit (ls : list bytes) : forall tail eof,
  Forall (fun l => no_nl l /\ (List.length l <= limit)%nat) ls ->
  reads_of limit (List.length ls)
    {| r_buf := flat_map (fun l => l ++ [terminator]) ls ++ tail; r_eof := eof |}
  = map (fun l => match utf8_decode (l ++ [terminator]) with
                  | Some s => RLine s
                  | None => RReadError (Some (l ++ [terminator]))
                  end) ls.
Proof.
  induction ls as [|l ls IH]; intros tail eof H; cbn [List.length reads_of flat_map map]; [reflexivity|].
  inversion H as [|? ? [Hn Hl] H']; subst.
  unfold readuntil. cbn [r_buf r_eof]. rewrite <- !app_assoc. cbn [app].
  rewrite (find_nl_line l _ Hn).
  assert (E : Nat.ltb limit (List.length l) = false) by (apply Nat.ltb_ge; exact Hl). rewrite E.
  assert (Ef : firstn (S (List.length l)) (l ++ terminator :: flat_map (fun l0 => l0 ++ [terminator]) ls ++ tail) = l ++ [terminator]).
  { rewrite firstn_app. replace (S (List.length l) - List.length l)%nat with 1%nat by lia.
    rewrite firstn_all2 by lia. reflexivity. }
  assert (Es : skipn (S (List.length l)) (l ++ terminator :: flat_map (fun l0 => l0 ++ [terminator]) ls ++ tail)
               = flat_map (fun l0 => l0 ++ [terminator]) ls ++ tail).
  { rewrite skipn_app. replace (S (List.length l) - List.length l)%nat with 1%nat by lia.
    rewrite skipn_all2 by lia. reflexivity. }
  rewrite Ef, Es. f_equal. apply IH. exact H'.
Qed.

(* an over-long line makes that read and every later read a read error: the reader does not resynchronise *)
Theorem overlong_line_sticks limit b eof i :
  find_nl b = Some i -> (limit < i)%nat -> forall n,
  reads_of limit n {| r_buf := b; r_eof := eof |} = repeat (RReadError None) n.
Proof.
  intros Hf Hl. induction n as [|n IH]; cbn [reads_of repeat]; [reflexivity|].
  unfold readuntil. cbn [r_buf]. rewrite Hf.
  assert (E : Nat.ltb limit i = true) by (apply Nat.ltb_lt; exact Hl). rewrite E. rewrite IH. reflexivity.
Qed.

(* a stream that ends mid-line: the read reports the partial bytes *)
Theorem incomplete_tail limit b :
  find_nl b = None -> (List.length b <= limit)%nat ->
  readuntil limit {| r_buf := b; r_eof := true |} = Some (RReadError (Some b), {| r_buf := []; r_eof := true |}).
Proof.
  intros Hf Hl. unfold readuntil. cbn [r_buf r_eof]. rewrite Hf.
  assert (E : Nat.ltb limit (List.length b) = false) by (apply Nat.ltb_ge; exact Hl). rewrite E. reflexivity.
Qed.

(* writes: the output is the concatenation of the UTF-8 encodings, in call order *)
Fixpoint write_all (t : stream_transport) (lines : list str) : stream_transport :=
  match lines with
  | [] => t
  | l :: r => write_all (snd (st_write t l WOk)) r
  end.

Theorem writes_concat lines : forall t encs,
  st_connected t = true ->
  Forall2 (fun l b => utf8_encode l = Some b) lines encs ->
  st_out (write_all t lines) = st_out t ++ List.concat encs.
Proof.
  induction lines as [|l r IH]; intros t encs Hc H; inversion H as [|? b ? bs Hl Hr]; subst; cbn [write_all List.concat].
  - rewrite app_nil_r. reflexivity.
  - unfold st_write at 1. rewrite Hc, Hl. cbn [negb snd].
    rewrite (IH {| st_connected := true; st_out := st_out t ++ b |} bs eq_refl Hr). cbn [st_out].
    rewrite <- app_assoc. reflexivity.
Qed.

Theorem not_connected_errors line f :
  fst (st_write {| st_connected := false; st_out := [] |} line f) = RNotConnected.
Proof. reflexivity. Qed.

(* ---- the transport object over its whole life ---- *)

(* disconnecting absorbs OS-level errors: whatever the state and whether closing fails or
   not, disconnect returns normally; it closes the writer iff there is one *)
Theorem disconnect_total limit s f :
  snd (tstep limit s (TDisconnect f)) = TDone
  /\ ts_closes (fst (tstep limit s (TDisconnect f))) = (if ts_streams s then S (ts_closes s) else ts_closes s)
  /\ ts_out (fst (tstep limit s (TDisconnect f))) = ts_out s
  /\ ts_reader (fst (tstep limit s (TDisconnect f))) = ts_reader s.
Proof. cbn [tstep]. destruct (ts_streams s); cbn; repeat split; reflexivity. Qed.

(* a failed connection attempt is a transport error and changes nothing *)
Theorem connect_failure limit s : tstep limit s (TConnect false) = (s, TConnectError).
Proof. reflexivity. Qed.

Definition is_connect_ok (o : top) : bool := match o with TConnect true => true | _ => false end.
Definition uses (o : top) : bool := match o with TRead _ | TWrite _ _ => true | _ => false end.

Lemma trun_no_connect limit ops : forall s,
  ts_streams s = false -> forallb (fun o => negb (is_connect_ok o)) ops = true ->
  ts_streams (fst (trun limit s ops)) = false
  /\ Forall2 (fun o x => uses o = true -> x = TRes RNotConnected) ops (snd (trun limit s ops))
  /\ ts_closes (fst (trun limit s ops)) = ts_closes s.
Proof.
  induction ops as [|o r IH]; intros s Hs Hf; cbn [trun fst snd].
  - repeat split; [exact Hs|constructor].
  - cbn [forallb] in Hf. apply andb_true_iff in Hf. destruct Hf as [Ho Hr].
    assert (H1 : ts_streams (fst (tstep limit s o)) = false /\ (uses o = true -> snd (tstep limit s o) = TRes RNotConnected)
                 /\ ts_closes (fst (tstep limit s o)) = ts_closes s).
    { destruct o as [[|]| | | |fails|line f]; cbn [tstep is_connect_ok negb uses] in *; try discriminate Ho;
        rewrite ?Hs; cbn [negb fst snd ts_streams ts_closes]; try (repeat split; try assumption; try reflexivity; intros; discriminate).
      all: unfold st_write; cbn [st_connected]; rewrite ?Hs; cbn; repeat split; try assumption; reflexivity. }
    destruct (tstep limit s o) as [s1 x]. cbn [fst snd] in H1. destruct H1 as [K1 [K2 K3]].
    destruct (IH s1 K1 Hr) as [J1 [J2 J3]]. destruct (trun limit s1 r) as [s2 xs]. cbn [fst snd] in *.
    repeat split; [exact J1|constructor; [exact K2|exact J2]|rewrite J3; exact K3].
Qed.

(* using the transport before it was (successfully) connected raises the transport error:
   in every history without a successful connect — failed connects, disconnects, anything
   the peer does — every read and every write gives it, and nothing is ever closed *)
Theorem never_connected limit ops :
  forallb (fun o => negb (is_connect_ok o)) ops = true ->
  Forall2 (fun o x => uses o = true -> x = TRes RNotConnected) ops (snd (trun limit ts_init ops))
  /\ ts_closes (fst (trun limit ts_init ops)) = 0%nat.
Proof. intros H. destruct (trun_no_connect limit ops ts_init eq_refl H) as [_ [H2 H3]]. exact (conj H2 H3). Qed.

(* a successful connect starts from a clean stream whatever happened before *)
Theorem connect_fresh limit s :
  let s1 := fst (tstep limit s (TConnect true)) in
  ts_streams s1 = true /\ ts_reader s1 = {| r_buf := []; r_eof := false |} /\ ts_out s1 = [] /\ ts_closes s1 = ts_closes s.
Proof. cbn. repeat split. Qed.
