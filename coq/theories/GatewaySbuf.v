(* The sleep-buffer footprint of one listen step BY NODE: for every line, state,
   oracle and fault stream, the commands parked for nodes other than the sender of
   the message stay exactly as they are (same keys, same messages).  With
   nonwake_keeps_buffer (GatewayTrace) and wake_step (GatewaySteps) this gives the
   history-level statement of C07: a parked command stays parked through every
   operation that is not a wake signal of its own node or a send for its own key. *)
From Coq Require Import List NArith ZArith Bool String Lia.
From AMS Require Import TablesTypes Tables PyStr Codec CodecFacts Gateway GatewayFacts GatewayInv GatewaySteps GatewayTrace GatewayReg.
Import ListNotations.
Local Open Scope Z_scope.

Definition keys_ok (w : world) : Prop := Forall (fun e => fst e = msg_key (snd e)) (w_set w).
Definition node_of (k : key) : Z := fst (fst k).

Section Sbuf.
  Variable bat : str -> option Z.
  Variable vlt : str -> str -> option bool.
  Variable now : Z.
  Variable nd : Z.        (* the sender of the message being handled *)

  Definition sk_at {A} (c : M A) (s : st) : Prop :=
    keys_ok (s_w s) ->
    keys_ok (s_w (snd (c s)))
    /\ forall k, node_of k <> nd ->
         dget key_eqb (w_set (s_w (snd (c s)))) k = dget key_eqb (w_set (s_w s)) k.
  Definition sk {A} (c : M A) : Prop := forall s, sk_at c s.

  Lemma sk_same_at {A} (c : M A) s : w_set (s_w (snd (c s))) = w_set (s_w s) -> sk_at c s.
  Proof. intros H Hk. unfold keys_ok. rewrite H. split; [exact Hk|reflexivity]. Qed.

  Lemma sk_ret {A} (x : A) : sk (ret x).
  Proof. intros s. apply sk_same_at. reflexivity. Qed.
  Lemma sk_raise {A} e : sk (@raise A e).
  Proof. intros s. apply sk_same_at. reflexivity. Qed.

  Lemma sk_bind_at {A B} (m : M A) (f : A -> M B) s :
    sk_at m s -> (forall x, fst (m s) = inl x -> sk_at (f x) (snd (m s))) -> sk_at (bind m f) s.
  Proof.
    intros Hm Hf Hk. unfold bind. destruct (Hm Hk) as [H1 H2].
    destruct (m s) as [[x|e] s'] eqn:E; cbn [fst snd] in *; [|split; assumption].
    destruct (Hf x eq_refl H1) as [G1 G2]. split; [exact G1|]. intros k Hn. rewrite (G2 k Hn). apply H2. exact Hn.
  Qed.

  Lemma sk_bind {A B} (m : M A) (f : A -> M B) : sk m -> (forall x, sk (f x)) -> sk (bind m f).
  Proof. intros Hm Hf s. apply sk_bind_at; [apply Hm|intros x _; apply Hf]. Qed.

  Lemma sk_get_w {B} (f : world -> M B) : (forall s, sk_at (f (s_w s)) s) -> sk (bind get_w f).
  Proof. intros H s. exact (H s). Qed.
  Lemma sk_get_w_at {B} (f : world -> M B) s : sk_at (f (s_w s)) s -> sk_at (bind get_w f) s.
  Proof. intros H. exact H. Qed.
  Lemma sk_bind_ret {A B} (x : A) (f : A -> M B) : sk (f x) -> sk (bind (ret x) f).
  Proof. intros H s. exact (H s). Qed.
  Lemma sk_bind_ret_at {A B} (x : A) (f : A -> M B) s : sk_at (f x) s -> sk_at (bind (ret x) f) s.
  Proof. intros H. exact H. Qed.

  Lemma sk_try_finally_at {A} (body : M A) (fin : M unit) s :
    sk_at body s -> sk fin -> sk_at (try_finally body fin) s.
  Proof.
    intros Hb Hf Hk. unfold try_finally. destruct (Hb Hk) as [H1 H2].
    destruct (body s) as [r s'] eqn:E. cbn [fst snd] in *. destruct (Hf s' H1) as [G1 G2].
    destruct (fin s') as [[u|e] s''] eqn:E2; cbn [fst snd] in *;
      (split; [exact G1|intros k Hn; rewrite (G2 k Hn); apply H2; exact Hn]).
  Qed.

  Lemma sk_write pm : sk (write_msg pm).
  Proof. intros s. apply sk_same_at. rewrite write_eq. reflexivity. Qed.

  Lemma sk_send_unbuffered pm : sk (send pm false).
  Proof.
    intros s. apply sk_same_at. rewrite send_eq. unfold send_resolved.
    assert (G : w_set (s_w (snd (send_set_direct pm false s))) = w_set (s_w s)).
    { unfold send_set_direct, bind. rewrite write_eq. destruct (hd false (s_faults s)); reflexivity. }
    destruct (m_cmd pm =? 1).
    - destruct (dget Z.eqb (w_nodes (s_w s)) (m_node pm)) as [n|]; [cbn [andb]; exact G|exact G].
    - destruct (m_cmd pm =? 3); [rewrite write_eq; reflexivity|].
      destruct ((m_cmd pm =? 0) || (m_cmd pm =? 2) || (m_cmd pm =? 4)); reflexivity.
  Qed.

  Lemma sk_require_node id : sk (require_node id).
  Proof. intros s. apply sk_same_at. rewrite require_node_eq. destruct (dget Z.eqb (w_nodes (s_w s)) id); reflexivity. Qed.
  Lemma sk_update_node id f : sk (update_node id f).
  Proof. intros s. apply sk_same_at. reflexivity. Qed.
  Lemma sk_set_nodes f : sk (set_nodes f).
  Proof. intros s. apply sk_same_at. reflexivity. Qed.
  Lemma sk_set_internal f : sk (set_internal f).
  Proof. intros s. apply sk_same_at. reflexivity. Qed.
  Lemma sk_set_protocol_version v : sk (set_protocol_version vlt v).
  Proof. intros s. apply sk_same_at. unfold set_protocol_version. destruct (get_protocol vlt v); reflexivity. Qed.

  (* removing a key of node nd *)
  Lemma sk_pop k0 : node_of k0 = nd -> sk (set_setbuf (fun b => dpop key_eqb b k0)).
  Proof.
    intros Hn s Hk. cbn [set_setbuf modify_w snd s_w w_set]. split.
    - unfold keys_ok. cbn. apply dpop_Forall. exact Hk.
    - intros k Hne. apply (dpop_other key_eqb key_eqb_spec).
      destruct (key_eqb k k0) eqn:E; [|reflexivity]. apply key_eqb_spec in E. subst. contradiction.
  Qed.

  Lemma sk_flush es : Forall (fun e => node_of (fst e) = nd) es -> sk (flush_entries es).
  Proof.
    induction es as [|[k bm] r IH]; intros H; cbn [flush_entries]; [apply sk_ret|].
    inversion H as [|? ? H1 H2]; subst. cbn [fst] in H1.
    apply sk_bind; [apply sk_send_unbuffered|intros _]. apply sk_bind; [apply sk_pop; exact H1|intros _; apply IH; exact H2].
  Qed.

  Lemma sk_handle_sleep_buffer m : m_node m = nd -> sk (handle_sleep_buffer m).
  Proof.
    intros Hm s. unfold handle_sleep_buffer. apply sk_get_w_at. intros Hk.
    assert (F : Forall (fun e => node_of (fst e) = nd)
                       (filter (fun e => m_node (snd e) =? m_node m) (w_set (s_w s)))).
    { apply Forall_forall. intros e He. apply filter_In in He. destruct He as [Hin He].
      apply Z.eqb_eq in He. unfold keys_ok in Hk. rewrite Forall_forall in Hk. rewrite (Hk e Hin).
      unfold node_of, msg_key. cbn. rewrite He. exact Hm. }
    exact (sk_bind _ _ (sk_flush _ F) (fun _ => sk_ret m) s Hk).
  Qed.
  Lemma sk_body2 b super m :
    m_node m = nd -> (b = BSuper -> sk (super m)) -> sk (run_body2 bat vlt now b super m).
  Proof.
    intros Hm Hs. destruct consts_p14 as [C1 [C2 [C3 [C4 [C5 [C6 [C7 C8]]]]]]].
    destruct consts_p20 as [D1 [D2 D3]].
    destruct b; cbn [run_body2]; try apply sk_raise.
    - apply Hs. reflexivity.
    - apply sk_bind; [apply sk_set_protocol_version|intros _; apply sk_ret].
    - apply sk_get_w. intros s.
      match goal with |- context [if ?c then _ else _] => destruct c end; [exact (sk_raise _ s)|].
      rewrite C1, C2. cbn [need]. apply sk_bind_ret_at. apply sk_bind_ret_at.
      apply sk_bind; [apply sk_set_nodes|intros _].
      apply sk_bind; [apply sk_send_unbuffered|intros _; apply sk_ret].
    - apply sk_get_w. intros s. apply sk_bind; [apply sk_send_unbuffered|intros _; apply sk_ret].
    - apply sk_bind; [apply sk_send_unbuffered|intros _; apply sk_ret].
    - apply sk_bind; [apply sk_require_node|intros _].
      destruct (bat (m_payload m)) as [lvl|]; [|apply sk_raise].
      destruct ((0 <=? lvl) && (lvl <=? 100)); [|apply sk_raise].
      apply sk_bind; [apply sk_update_node|intros _; apply sk_ret].
    - apply sk_bind; [apply sk_require_node|intros _].
      apply sk_bind; [apply sk_update_node|intros _; apply sk_ret].
    - apply sk_bind; [apply sk_require_node|intros _].
      apply sk_bind; [apply sk_update_node|intros _; apply sk_ret].
    - rewrite D2. cbn [need]. apply sk_bind_ret.
      apply sk_bind; [apply sk_send_unbuffered|intros _; apply sk_ret].
    - apply sk_bind; [apply sk_require_node|intros _; apply sk_ret].
    - apply sk_bind; [apply sk_require_node|intros _].
      destruct (py_int (m_payload m)); [|apply sk_raise].
      apply sk_bind; [apply sk_update_node|intros _]. apply sk_handle_sleep_buffer. exact Hm.
    - apply sk_bind; [apply sk_require_node|intros _].
      destruct (py_int (m_payload m)); [|apply sk_raise].
      apply sk_bind; [apply sk_update_node|intros _; apply sk_ret].
    - apply sk_bind; [apply sk_require_node|intros _].
      apply sk_bind; [apply sk_update_node|intros _]. apply sk_handle_sleep_buffer. exact Hm.
  Qed.

  Lemma sk_dec_mpv_at f m s : sk_at (f m) s -> sk_at (dec_mpv f m) s.
  Proof.
    intros Hf. destruct consts_p14 as [C1 [C2 [C3 [C4 [C5 [C6 [C7 C8]]]]]]].
    unfold dec_mpv. apply sk_try_finally_at; [exact Hf|].
    apply sk_get_w. intros s0. destruct (w_pv (s_w s0)); [exact (sk_ret _ s0)|].
    rewrite C7, C3, C4, C5. cbn [need]. repeat apply sk_bind_ret_at.
    match goal with |- context [if ?c then _ else _] => destruct c end; [apply sk_send_unbuffered|apply sk_ret].
  Qed.

  Lemma sk_request_presentation m e : sk (request_presentation m e).
  Proof.
    intros s. apply sk_same_at. rewrite request_presentation_eq. cbv zeta.
    destruct (dmem key_eqb (w_internal (s_w s)) (pres_key (m_node m))); [reflexivity|].
    rewrite write_eq. destruct (hd false (s_faults s)); reflexivity.
  Qed.

  Lemma sk_dec_mnc_at f m s : sk_at (f m) s -> sk_at (dec_mnc f m) s.
  Proof.
    intros Hf Hk. rewrite dec_mnc_eq. destruct (Hf Hk) as [H1 H2].
    destruct (f m s) as [[x|e] s'] eqn:E; cbn [fst snd] in *; [split; assumption|].
    destruct (is_missing e); [|split; assumption].
    destruct (sk_request_presentation m e s' H1) as [G1 G2].
    split; [exact G1|intros k Hn; rewrite (G2 k Hn); apply H2; exact Hn].
  Qed.

  Lemma sk_apply_decs_at ds f m s :
    forallb known_dec ds = true -> sk_at (f m) s -> sk_at (apply_decs ds f m) s.
  Proof.
    induction ds as [|d r IH]; cbn [apply_decs fold_right forallb]; intros Hd Hf; [exact Hf|].
    apply andb_true_iff in Hd. destruct Hd as [Hd Hr]. unfold apply_dec.
    destruct (String.eqb d "handle_missing_protocol_version") eqn:E1; [apply sk_dec_mpv_at; apply IH; assumption|].
    destruct (String.eqb d "handle_missing_node_child") eqn:E2; [apply sk_dec_mnc_at; apply IH; assumption|].
    unfold known_dec in Hd. rewrite E1, E2 in Hd. discriminate.
  Qed.

  Lemma sk_apply_decs_any ds f m : sk (f m) -> sk (apply_decs ds f m).
  Proof.
    intros Hf. induction ds as [|d r IH]; cbn [apply_decs fold_right]; [exact Hf|].
    intros s. unfold apply_dec.
    destruct (String.eqb d "handle_missing_protocol_version"); [apply sk_dec_mpv_at; apply IH|].
    destruct (String.eqb d "handle_missing_node_child"); [apply sk_dec_mnc_at; apply IH|exact (sk_raise _ s)].
  Qed.

  Lemma sk_chain2 name chain m : m_node m = nd -> sk (run_chain2 bat vlt now name chain m).
  Proof.
    intros Hm. induction chain as [|[md ds] r IH]; cbn [run_chain2]; [apply sk_raise|].
    apply sk_apply_decs_any. destruct (body_of md name) as [b|]; [|apply sk_raise].
    apply sk_body2; [exact Hm|intros _; exact IH].
  Qed.

  Lemma sk_dispatch2 name m : m_node m = nd -> sk (dispatch2 bat vlt now name m).
  Proof.
    intros Hm. unfold dispatch2. apply sk_get_w. intros s.
    destruct (lookup_chain (pt_incoming (proto_of (s_w s))) name) as [c|]; [apply sk_chain2; exact Hm|exact (sk_ret m s)].
  Qed.

  Lemma sk_body1 b super m :
    m_node m = nd -> (b = BSuper \/ b = BPresentation20 -> sk (super m)) -> sk (run_body1 bat vlt now b super m).
  Proof.
    intros Hm Hs. destruct consts_p14 as [C1 [C2 [C3 [C4 [C5 [C6 [C7 C8]]]]]]].
    destruct consts_p20 as [D1 [D2 D3]].
    destruct b; cbn [run_body1]; try apply sk_raise.
    - apply Hs. left. reflexivity.
    - rewrite D1. cbn [need]. apply sk_bind_ret. apply sk_bind; [apply sk_set_internal|intros _]. apply Hs. right. reflexivity.
    - destruct (m_child m =? system_child_id).
      + apply sk_bind; [apply sk_set_nodes|intros _].
        destruct (m_node m =? 0); [apply sk_dispatch2; exact Hm|apply sk_ret].
      + apply sk_bind; [apply sk_require_node|intros _].
        apply sk_bind; [apply sk_update_node|intros _; apply sk_ret].
    - apply sk_bind; [apply sk_require_node|intros n].
      destruct (negb (dmem Z.eqb (n_children n) (m_child m))); [apply sk_raise|].
      apply sk_bind; [apply sk_update_node|intros _].
      destruct (n_reboot n); [|apply sk_ret].
      rewrite C7, C6. cbn [need]. apply sk_bind_ret. apply sk_bind_ret.
      apply sk_bind; [apply sk_send_unbuffered|intros _; apply sk_ret].
    - apply sk_bind; [apply sk_require_node|intros n].
      destruct (dget Z.eqb (n_children n) (m_child m)) as [c|]; [|apply sk_raise].
      destruct (dget Z.eqb (c_values c) (m_type m)) as [v|]; [|apply sk_ret].
      rewrite C8. cbn [need]. apply sk_bind_ret.
      apply sk_bind; [apply sk_send_unbuffered|intros _; apply sk_ret].
    - apply sk_get_w. intros s.
      destruct (enum_lname_of (pt_internal (proto_of (s_w s))) (m_type m)) as [ln|]; [|exact (sk_raise _ s)].
      apply sk_dispatch2. exact Hm.
    - apply sk_bind; [apply sk_require_node|intros _]. apply sk_get_w. intros s.
      destruct (enum_lname_of (pt_stream (proto_of (s_w s))) (m_type m)) as [ln|]; [|exact (sk_raise _ s)].
      apply sk_dispatch2. exact Hm.
  Qed.

  Lemma sk_chain1 name chain m : m_node m = nd -> sk (run_chain1 bat vlt now name chain m).
  Proof.
    intros Hm. induction chain as [|[md ds] r IH]; cbn [run_chain1]; [apply sk_raise|].
    apply sk_apply_decs_any. destruct (body_of md name) as [b|]; [|apply sk_raise].
    apply sk_body1; [exact Hm|intros _; exact IH].
  Qed.

  (* THE THEOREM: commands parked for other nodes are exactly as they were *)
  Theorem sk_listen_step line s k :
    keys_ok (s_w s) ->
    (forall m, decode (proto_of (s_w s)) line = DecOk m -> m_node m = nd) ->
    node_of k <> nd ->
    dget key_eqb (w_set (s_w (snd (listen_step bat vlt now line s)))) k = dget key_eqb (w_set (s_w s)) k.
  Proof.
    intros Hk Hm Hn. unfold listen_step, bind, get_w. cbn beta iota.
    destruct (decode (proto_of (s_w s)) line) as [m| |c] eqn:E; [|reflexivity|reflexivity].
    destruct (enum_lname_of (pt_command (proto_of (s_w s))) (m_cmd m)) as [cname|]; [|reflexivity].
    destruct (lookup_chain (pt_incoming (proto_of (s_w s))) ("handle_" ++ cname)) as [c|]; [|reflexivity].
    destruct (sk_chain1 ("handle_" ++ cname) c m (Hm m eq_refl) s Hk) as [_ H]. apply H. exact Hn.
  Qed.
End Sbuf.

(* ---------- histories: a parked command stays parked until its node's wake ---------- *)

Section Parked.
  Variable bat : str -> option Z.
  Variable vlt : str -> str -> option bool.
  Variable now : Z.

  Lemma Inv_keys_ok w : Inv vlt w -> keys_ok w.
  Proof.
    intros Hi. pose proof (inv_set_keys _ _ Hi) as H. unfold keys_ok.
    eapply Forall_impl; [|exact H]. intros e [He _]. exact He.
  Qed.

  (* what an operation may NOT be if the command parked under k is to stay: a wake signal
     of k's node (read off the tables of the protocol active at that moment), or a set
     command of the application for the same key *)
  Definition keeps_op (w : world) (o : op) (k : key) : Prop :=
    match o with
    | ORecv line _ =>
        forall m0, decode (proto_of w) line = DecOk m0 ->
          m_node m0 <> node_of k \/ a_release (listen_allow (w_proto w) m0) = false
    | OSend m0 _ _ => m_cmd m0 = 1 -> msg_key m0 <> k
    | OReconnect => True
    end.

  Fixpoint kept (k : key) (w : world) (ops : list op) : Prop :=
    match ops with
    | [] => True
    | o :: r => keeps_op w o k /\ kept k (world_after bat vlt now w o) r
    end.

  Lemma step_keeps w o k :
    Inv vlt w -> keeps_op w o k ->
    dget key_eqb (w_set (world_after bat vlt now w o)) k = dget key_eqb (w_set w) k.
  Proof.
    intros Hi Hk. unfold world_after. destruct o as [line faults|m0 b faults|]; cbn [step_op keeps_op] in *; [| |reflexivity].
    - unfold recv. rewrite run_step_world. set (s0 := {| s_w := w; s_log := []; s_faults := faults |}).
      destruct (decode (proto_of w) line) as [m0| |c] eqn:E.
      + destruct (Hk m0 eq_refl) as [Hn|Ha].
        * apply (sk_listen_step bat vlt now (m_node m0) line s0 k).
          -- apply Inv_keys_ok. exact Hi.
          -- cbn [s_w s0]. intros m1 E1. rewrite E in E1. injection E1 as <-. reflexivity.
          -- congruence.
        * rewrite (nonwake_keeps_buffer bat vlt now line s0 m0 Hi E Ha). reflexivity.
      + destruct (rejected_line_keeps_everything bat vlt now line s0 Hi) as [H _].
        { cbn [s_w s0]. intros m1 E1. rewrite E in E1. discriminate. }
        rewrite H. reflexivity.
      + destruct (rejected_line_keeps_everything bat vlt now line s0 Hi) as [H _].
        { cbn [s_w s0]. intros m1 E1. rewrite E in E1. discriminate. }
        rewrite H. reflexivity.
    - unfold send_op. rewrite run_step_world. set (s0 := {| s_w := w; s_log := []; s_faults := faults |}).
      rewrite send_eq. unfold send_resolved.
      destruct (Z.eqb_spec (m_cmd m0) 1) as [E1|E1].
      + specialize (Hk E1).
        assert (Hne : key_eqb k (msg_key m0) = false).
        { destruct (key_eqb k (msg_key m0)) eqn:E; [|reflexivity]. apply key_eqb_spec in E. congruence. }
        assert (G : forall bb, dget key_eqb (w_set (s_w (snd (send_set_direct m0 bb s0)))) k = dget key_eqb (w_set w) k).
        { intros bb. unfold send_set_direct, bind. rewrite write_eq. destruct (hd false (s_faults s0)); [reflexivity|].
          destruct bb; cbn; [apply (dpop_other key_eqb key_eqb_spec); exact Hne|reflexivity]. }
        destruct (dget Z.eqb (w_nodes (s_w s0)) (m_node m0)) as [nn|]; [|apply G].
        destruct (b && n_sleeping nn); [|apply G].
        cbn. apply (dget_dset_other key_eqb key_eqb_spec). exact Hne.
      + destruct (m_cmd m0 =? 3); [destruct b; [reflexivity|rewrite write_eq; reflexivity]|].
        destruct ((m_cmd m0 =? 0) || (m_cmd m0 =? 2) || (m_cmd m0 =? 4)); reflexivity.
  Qed.

  (* over every history: the command parked under k is still there, unchanged *)
  Theorem parked_history k : forall ops w,
    Inv vlt w -> Forall op_ok ops -> kept k w ops ->
    dget key_eqb (w_set (run_ops bat vlt now w ops)) k = dget key_eqb (w_set w) k.
  Proof.
    induction ops as [|o r IH]; intros w Hi Ho Hk; [reflexivity|].
    destruct Hk as [H1 H2]. inversion Ho as [|? ? Ho1 Ho2]; subst.
    destruct (step_op_inv bat vlt now w o Hi Ho1) as [Hi' _].
    unfold run_ops. cbn [fold_left].
    change (dget key_eqb (w_set (run_ops bat vlt now (world_after bat vlt now w o) r)) k = dget key_eqb (w_set w) k).
    rewrite (IH _ Hi' Ho2 H2). apply step_keeps; assumption.
  Qed.

  Lemma log_of_nofault_In es faults e :
    Forall (fun b => b = false) faults -> In e es ->
    In {| we_line := encode (snd e); we_ok := true; we_msg := snd e |} (log_of es faults).
  Proof.
    revert faults. induction es as [|e0 r IH]; intros faults Hf Hin; [contradiction|].
    cbn [log_of]. assert (Hh : hd false faults = false) by (destruct Hf as [|x l Hx Hl]; [reflexivity|exact Hx]).
    assert (Ht : Forall (fun b => b = false) (tl faults)) by (destruct Hf as [|x l Hx Hl]; [constructor|exact Hl]).
    rewrite Hh. cbn [negb]. destruct Hin as [->|Hin]; [left; reflexivity|right].
    apply IH; [exact Ht|exact Hin].
  Qed.

  (* ... and at the next fault-free wake of its node it is written, as parked, and leaves the buffer *)
  Theorem parked_released w faults line m n b k pm :
    Inv vlt w -> decode (proto_of w) line = DecOk m -> m_cmd m = 3 ->
    wake_body (w_proto w) (m_type m) = Some b ->
    dget Z.eqb (w_nodes w) (m_node m) = Some n ->
    (b = BHeartbeat20 -> exists hb, py_int (m_payload m) = Some hb) ->
    Forall (fun x => x = false) faults ->
    dget key_eqb (w_set w) k = Some pm -> node_of k = m_node m ->
    let r := recv bat vlt now w faults line in
    In {| we_line := encode pm; we_ok := true; we_msg := pm |} (snd r)
    /\ dget key_eqb (w_set (fst (fst r))) k = None
    /\ snd (fst r) = Yield m.
  Proof.
    intros Hi Hd Hc Hb Hn Hhb Hf Hp Hk. cbv zeta.
    destruct (wake_step bat vlt now w faults line m n b Hi Hd Hc Hb Hn Hhb) as [H1 [H2 [H3 _]]].
    rewrite (delivered_nofault _ _ Hf) in H1, H3. rewrite Nat.eqb_refl in H1.
    pose proof (dget_In key_eqb key_eqb_spec _ _ _ Hp) as Hin.
    pose proof (Inv_keys_ok w Hi) as Hko. unfold keys_ok in Hko. rewrite Forall_forall in Hko.
    pose proof (Hko _ Hin) as Hkey. cbn [fst snd] in Hkey.
    assert (Hof : of_node (m_node m) (k, pm) = true).
    { unfold of_node. cbn [snd]. apply Z.eqb_eq. rewrite <- Hk, Hkey. reflexivity. }
    split; [|split; [|exact H1]].
    - rewrite H2. apply (log_of_nofault_In _ faults (k, pm) Hf). apply filter_In. split; assumption.
    - rewrite H3. destruct (dget key_eqb (pop_all (w_set w) (filter (of_node (m_node m)) (w_set w))) k) as [x|] eqn:E; [|reflexivity].
      exfalso. apply (dget_In key_eqb key_eqb_spec) in E.
      apply (pop_all_node (w_set w) (m_node m) (inv_nodup_set _ _ Hi)) in E.
      + destruct E as [Ein Eof]. pose proof (Hko _ Ein) as Hkx. cbn [fst snd] in Hkx.
        unfold of_node in Eof. cbn [snd] in Eof. apply Z.eqb_neq in Eof. apply Eof.
        rewrite <- Hk, Hkx. reflexivity.
      + apply Forall_forall. exact Hko.
  Qed.

  Lemma NoDup_fst_inj {K V} (l : list (K * V)) k v v' :
    NoDup (map fst l) -> In (k, v) l -> In (k, v') l -> v = v'.
  Proof.
    induction l as [|[k0 v0] l IH]; cbn; intros Hn H1 H2; [contradiction|].
    inversion Hn as [|? ? Hni Hn']; subst.
    destruct H1 as [H1|H1], H2 as [H2|H2].
    - congruence.
    - exfalso. injection H1 as -> ->. apply Hni. apply in_map_iff. exists (k, v'). split; [reflexivity|exact H2].
    - exfalso. injection H2 as -> ->. apply Hni. apply in_map_iff. exists (k, v). split; [reflexivity|exact H1].
    - exact (IH Hn' H1 H2).
  Qed.

  (* after a wake of any kind (faulty or not) every parked command that is not in the
     delivered prefix — the failing one, the later ones of that node, and everything
     parked for other nodes — is still parked under its key, unchanged *)
  Theorem undelivered_stay w faults line m n b k pm :
    Inv vlt w -> decode (proto_of w) line = DecOk m -> m_cmd m = 3 ->
    wake_body (w_proto w) (m_type m) = Some b ->
    dget Z.eqb (w_nodes w) (m_node m) = Some n ->
    (b = BHeartbeat20 -> exists hb, py_int (m_payload m) = Some hb) ->
    dget key_eqb (w_set w) k = Some pm ->
    ~ In (k, pm) (delivered (filter (of_node (m_node m)) (w_set w)) faults) ->
    dget key_eqb (w_set (fst (fst (recv bat vlt now w faults line)))) k = Some pm.
  Proof.
    intros Hi Hd Hc Hb Hn Hhb Hp Hnd.
    destruct (wake_step bat vlt now w faults line m n b Hi Hd Hc Hb Hn Hhb) as [_ [_ [H3 _]]].
    rewrite H3, (pop_all_get _ _ _ (inv_nodup_set _ _ Hi)).
    destruct (existsb _ _) eqn:E; [|exact Hp]. exfalso.
    apply existsb_exists in E. destruct E as [[k' pm'] [Hin Hk]]. cbn [fst] in Hk.
    apply key_eqb_spec in Hk. subst k'.
    destruct (delivered_prefix (filter (of_node (m_node m)) (w_set w)) faults) as [rest Hrest].
    assert (Hin' : In (k, pm') (w_set w)).
    { assert (Hf : In (k, pm') (filter (of_node (m_node m)) (w_set w))).
      { rewrite Hrest. apply in_or_app. left. exact Hin. }
      apply filter_In in Hf. exact (proj1 Hf). }
    pose proof (dget_In key_eqb key_eqb_spec _ _ _ Hp) as Hin0.
    rewrite (NoDup_fst_inj _ _ _ _ (inv_nodup_set _ _ Hi) Hin0 Hin') in Hnd. exact (Hnd Hin).
  Qed.

  (* C12 end to end: a send that is accepted without being written (outcome Done, no write)
     is held under its key, stays held through any history that has no wake of its node
     and no later set command for the same (node, child, type), and is written — the line
     of that very message — at the next fault-free wake of its node *)
  Theorem held_is_delivered w faults m buffered ops line mw n bw f2 :
    Inv vlt w -> wf_msg m -> (m_cmd m = 3 -> buffered = false) ->
    let r := send_op w faults m buffered in
    snd (fst r) = Done -> snd r = [] ->
    let w1 := fst (fst r) in
    Forall op_ok ops -> kept (msg_key m) w1 ops ->
    let w2 := run_ops bat vlt now w1 ops in
    decode (proto_of w2) line = DecOk mw -> m_cmd mw = 3 ->
    wake_body (w_proto w2) (m_type mw) = Some bw ->
    dget Z.eqb (w_nodes w2) (m_node mw) = Some n ->
    (bw = BHeartbeat20 -> exists hb, py_int (m_payload mw) = Some hb) ->
    Forall (fun x => x = false) f2 -> m_node mw = m_node m ->
    let r2 := recv bat vlt now w2 f2 line in
    In {| we_line := encode m; we_ok := true; we_msg := m |} (snd r2)
    /\ dget key_eqb (w_set (fst (fst r2))) (msg_key m) = None
    /\ snd (fst r2) = Yield mw.
  Proof.
    intros Hi Hwf Hb r Hdone Hnow w1 Hops Hkept w2 Hd Hc Hwb Hn Hhb Hf2 Hnode r2.
    assert (Hk : 0 <= m_cmd m <= 4) by (destruct Hwf as [_ [_ [Hk _]]]; exact Hk).
    pose proof (send_trichotomy_partial w faults m buffered Hk Hb) as Ht. fold r in Ht.
    assert (Hheld : dget key_eqb (w_set w1) (msg_key m) = Some m).
    { destruct Ht as [_ Hw| n0 _ _ _ _ _ Hh |e He _].
      - rewrite Hw in Hnow. discriminate Hnow.
      - exact Hh.
      - rewrite He in Hdone. discriminate Hdone. }
    destruct (step_op_inv bat vlt now w (OSend m buffered faults) Hi Hwf) as [Hi1 _].
    change (world_after bat vlt now w (OSend m buffered faults)) with w1 in Hi1.
    destruct (run_ops_inv bat vlt now ops w1 Hi1 Hops) as [Hi2 _]. fold w2 in Hi2.
    pose proof (parked_history (msg_key m) ops w1 Hi1 Hops Hkept) as Hph. fold w2 in Hph.
    rewrite Hheld in Hph.
    apply (parked_released w2 f2 line mw n bw (msg_key m) m Hi2 Hd Hc Hwb Hn Hhb Hf2 Hph).
    unfold node_of, msg_key. symmetry. exact Hnode.
  Qed.
End Parked.
