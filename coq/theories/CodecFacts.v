(* Facts about the codec model: table facts (by computation on the generated
   tables), the accept condition in the property's own words, round trips. *)
From Coq Require Import String.
From Coq Require Import List NArith ZArith Bool Lia ZifyBool.
From AMS Require Import TablesTypes Tables RtTables PyStr PyStrFacts Codec.
Import ListNotations.
Local Open Scope Z_scope.

(* ---------- finite sets of integers as lists ---------- *)

Definition set_eqb (a b : list Z) : bool :=
  forallb (fun x => memZ x b) a && forallb (fun x => memZ x a) b.

Lemma memZ_In x l : memZ x l = true <-> In x l.
Proof.
  unfold memZ. rewrite existsb_exists. split.
  - intros [y [Hy He]]. apply Z.eqb_eq in He. subst. exact Hy.
  - intros H. exists x. split; [exact H|apply Z.eqb_refl].
Qed.

Lemma set_eqb_mem a b : set_eqb a b = true -> forall x, memZ x a = memZ x b.
Proof.
  unfold set_eqb. rewrite andb_true_iff, !forallb_forall. intros [Hab Hba] x.
  destruct (memZ x a) eqn:Ea, (memZ x b) eqn:Eb; try reflexivity.
  - apply memZ_In in Ea. apply Hab in Ea. congruence.
  - apply memZ_In in Eb. apply Hba in Eb. congruence.
Qed.

(* ---------- TablesOk_C02: the constants of the property text ---------- *)

Definition proto_consts_ok (p : proto_tables) : bool :=
  Z.eqb (pt_internal_command_type p) 3
  && set_eqb (pt_node_id_request_types p) [3; 4]
  && set_eqb (pt_strict_system p) [3; 4]
  && set_eqb (pt_valid_system p) [0; 3; 4]
  && set_eqb (enum_values (pt_command p)) [0; 1; 2; 3; 4].

Lemma tables_ok_consts : forallb proto_consts_ok protocols = true.
Proof. vm_compute. reflexivity. Qed.

Lemma tables_ok_schema :
  field_validators message_schema "node_id"%string = [VRange (Some 0) (Some 255) true true]
  /\ field_validators message_schema "ack"%string = [VOneOf [0; 1]]
  /\ map fd_name message_schema =
     ["node_id"; "child_id"; "command"; "ack"; "message_type"; "payload"]%string
  /\ map fd_kind message_schema =
     ["Integer"; "ChildIdField"; "CommandField"; "Integer"; "Integer"; "String"]%string
  /\ forallb fd_required message_schema = true
  /\ system_child_id = 255 /\ delimiter = 59%N.
Proof. repeat split; reflexivity. Qed.

Lemma tables_ok_five : length protocols = 5%nat.
Proof. reflexivity. Qed.

(* ---------- the accept condition as the property states it ---------- *)

Definition wf_fields (n c k a t : Z) : Prop :=
  0 <= n <= 255 /\ 0 <= c <= 255 /\ 0 <= k <= 4 /\ (a = 0 \/ a = 1)
  /\ ((k = 3 \/ k = 4) -> c = 255 \/ (k = 3 /\ (t = 3 \/ t = 4)))
  /\ (c = 255 -> k <> 1 /\ k <> 2).

Definition wf_fields_b (n c k a t : Z) : bool :=
  (0 <=? n) && (n <=? 255) && (0 <=? c) && (c <=? 255) && (0 <=? k) && (k <=? 4)
  && ((a =? 0) || (a =? 1))
  && (if (k =? 3) || (k =? 4) then (c =? 255) || ((k =? 3) && ((t =? 3) || (t =? 4))) else true)
  && (if c =? 255 then negb (k =? 1) && negb (k =? 2) else true).

Lemma wf_fields_b_spec n c k a t : wf_fields_b n c k a t = true <-> wf_fields n c k a t.
Proof.
  unfold wf_fields_b, wf_fields.
  destruct (Z.leb_spec 0 n), (Z.leb_spec n 255), (Z.leb_spec 0 c), (Z.leb_spec c 255),
    (Z.leb_spec 0 k), (Z.leb_spec k 4); cbn [andb]; try (split; [discriminate|lia]).
  destruct (Z.eqb_spec a 0), (Z.eqb_spec a 1); cbn [andb orb]; try (split; [discriminate|lia]).
  all: destruct (Z.eqb_spec k 3), (Z.eqb_spec k 4), (Z.eqb_spec c 255), (Z.eqb_spec t 3),
    (Z.eqb_spec t 4), (Z.eqb_spec k 1), (Z.eqb_spec k 2);
    cbn [andb orb negb]; try (split; [discriminate|lia]); try (split; [lia|reflexivity]).
Qed.

Lemma memZ_2 x a b : memZ x [a; b] = (x =? a) || (x =? b).
Proof. cbn. rewrite orb_false_r. reflexivity. Qed.
Lemma memZ_3 x a b c : memZ x [a; b; c] = (x =? a) || (x =? b) || (x =? c).
Proof. cbn. rewrite orb_false_r, orb_assoc. reflexivity. Qed.

Lemma accept_fields_spec p n c k a t :
  In p protocols -> accept_fields p n c k a t = wf_fields_b n c k a t.
Proof.
  intros Hin.
  pose proof tables_ok_consts as Hc. rewrite forallb_forall in Hc. specialize (Hc p Hin).
  unfold proto_consts_ok in Hc. rewrite !andb_true_iff in Hc.
  destruct Hc as [[[[Hi Hreq] Hstrict] Hvalid] Hcmd]. apply Z.eqb_eq in Hi.
  destruct tables_ok_schema as [Hnode [Hack [_ [_ [_ [Hsys _]]]]]].
  unfold accept_fields, child_rule, cmd_rule.
  rewrite Hnode, Hack, Hi, Hsys.
  rewrite (set_eqb_mem _ _ Hreq), (set_eqb_mem _ _ Hstrict), (set_eqb_mem _ _ Hvalid),
    (set_eqb_mem _ _ Hcmd).
  apply eq_true_iff_eq. rewrite wf_fields_b_spec. unfold wf_fields.
  unfold validators_ok, validator_ok; cbn [forallb memZ existsb].
  destruct (Z.eqb_spec k 3), (Z.eqb_spec k 4), (Z.eqb_spec t 3), (Z.eqb_spec t 4),
    (Z.eqb_spec c 255); cbn [andb orb]; lia.
Qed.

(* ---------- decimal strings ---------- *)

Lemma str_of_Z_chars z : Forall (fun c => is_digit_cp c \/ c = 45%N) (str_of_Z z).
Proof.
  destruct z as [|p|p]; cbn [str_of_Z].
  - constructor; [left; unfold is_digit_cp; lia|constructor].
  - eapply Forall_impl; [|apply uint_cps_digits]. intros; left; assumption.
  - constructor; [right; reflexivity|].
    eapply Forall_impl; [|apply uint_cps_digits]. intros; left; assumption.
Qed.

Lemma str_of_Z_no_delim z : no_sep 59%N (str_of_Z z).
Proof.
  unfold no_sep. intros Hin.
  pose proof (str_of_Z_chars z) as H. rewrite Forall_forall in H.
  destruct (H _ Hin) as [Hd|Hd]; [unfold is_digit_cp in Hd; lia|discriminate].
Qed.

Lemma digits_ok_small z : 0 <= z <= 255 -> digits_ok z.
Proof.
  intros H.
  assert (Hall : forallb digits_ok_b (map Z.of_nat (seq 0 256)) = true) by (vm_compute; reflexivity).
  rewrite forallb_forall in Hall. apply digits_ok_b_spec, Hall.
  apply in_map_iff. exists (Z.to_nat z). split; [lia|]. apply in_seq. lia.
Qed.

(* ---------- join / encode shape ---------- *)

Lemma join_snoc sep fs p : fs <> [] -> join sep (fs ++ [p]) = join sep fs ++ sep :: p.
Proof.
  induction fs as [|f fs IH]; intros H; [congruence|].
  destruct fs as [|g fs].
  - reflexivity.
  - change ((f :: g :: fs) ++ [p]) with (f :: (g :: fs) ++ [p]).
    rewrite join_cons_nonnil by discriminate.
    rewrite IH by discriminate.
    rewrite (join_cons_nonnil sep f (g :: fs)) by discriminate.
    rewrite <- app_assoc. reflexivity.
Qed.

Definition num_fields (m : msg) : list str :=
  [str_of_Z (m_node m); str_of_Z (m_child m); str_of_Z (m_cmd m);
   str_of_Z (m_ack m); str_of_Z (m_type m)].

Lemma encode_eq m : encode m = join delimiter (num_fields m ++ [m_payload m]) ++ [10%N].
Proof. reflexivity. Qed.

Lemma is_space_10 : is_space 10 = true. Proof. reflexivity. Qed.
Lemma is_space_59 : is_space 59 = false. Proof. reflexivity. Qed.

Lemma rstrip_encode m :
  rstrip (m_payload m) = m_payload m ->
  rstrip (encode m) = join delimiter (num_fields m ++ [m_payload m]).
Proof.
  intros Hp. rewrite encode_eq, rstrip_app_space by exact is_space_10.
  rewrite join_snoc by discriminate.
  apply rstrip_fixed_app; [exact is_space_59|exact Hp].
Qed.

Lemma num_fields_no_delim m : Forall (no_sep delimiter) (num_fields m).
Proof. repeat constructor; apply str_of_Z_no_delim. Qed.

(* ---------- C01: decode (encode m) = m ---------- *)

Definition wf_msg (m : msg) : Prop :=
  wf_fields (m_node m) (m_child m) (m_cmd m) (m_ack m) (m_type m).

Theorem decode_encode p m :
  In p protocols -> wf_msg m -> digits_ok (m_type m) ->
  rstrip (m_payload m) = m_payload m ->
  decode p (encode m) = DecOk m.
Proof.
  intros Hin Hwf Hd Hp. unfold decode.
  rewrite rstrip_encode by exact Hp.
  change 5%nat with (length (num_fields m)).
  rewrite splitn_join by apply num_fields_no_delim.
  cbn [num_fields app].
  destruct Hwf as [Hn [Hc [Hk [Ha Hrest]]]].
  rewrite !py_int_str_of_Z by (first [assumption | apply digits_ok_small; lia]).
  rewrite accept_fields_spec by exact Hin.
  assert (Hb : wf_fields_b (m_node m) (m_child m) (m_cmd m) (m_ack m) (m_type m) = true).
  { apply wf_fields_b_spec. unfold wf_fields. tauto. }
  rewrite Hb. destruct m; reflexivity.
Qed.

(* ---------- C02: decode accepts exactly the well-formed lines ---------- *)

Definition wf_line (line : str) (m : msg) : Prop :=
  exists f1 f2 f3 f4 f5,
    rstrip line = join delimiter [f1; f2; f3; f4; f5; m_payload m]
    /\ Forall (no_sep delimiter) [f1; f2; f3; f4; f5]
    /\ py_int f1 = Some (m_node m) /\ py_int f2 = Some (m_child m)
    /\ py_int f3 = Some (m_cmd m) /\ py_int f4 = Some (m_ack m)
    /\ py_int f5 = Some (m_type m)
    /\ wf_msg m.

Theorem decode_accept_iff p line m :
  In p protocols -> (decode p line = DecOk m <-> wf_line line m).
Proof.
  intros Hin. split.
  - unfold decode. intros H.
    pose proof (join_splitn 5 delimiter (rstrip line)) as Hj.
    pose proof (splitn_fields_no_sep 5 delimiter (rstrip line)) as Hns.
    destruct (splitn 5 delimiter (rstrip line)) as [|f1 [|f2 [|f3 [|f4 [|f5 [|f6 [|x l]]]]]]];
      try discriminate.
    destruct (py_int f1) as [n|] eqn:E1; [|discriminate].
    destruct (py_int f2) as [c|] eqn:E2; [|discriminate].
    destruct (py_int f3) as [k|] eqn:E3; [|discriminate].
    destruct (py_int f4) as [a|] eqn:E4; [|discriminate].
    destruct (py_int f5) as [t|] eqn:E5; [|discriminate].
    rewrite accept_fields_spec in H by exact Hin.
    destruct (wf_fields_b n c k a t) eqn:Ew; [|discriminate].
    injection H as <-. cbn [m_payload m_node m_child m_cmd m_ack m_type].
    exists f1, f2, f3, f4, f5. cbn [removelast] in Hns.
    unfold wf_msg. cbn [m_payload m_node m_child m_cmd m_ack m_type].
    split; [symmetry; exact Hj|]. split; [exact Hns|].
    repeat (split; [assumption|]).
    apply wf_fields_b_spec. exact Ew.
  - intros [f1 [f2 [f3 [f4 [f5 [Hl [Hns [E1 [E2 [E3 [E4 [E5 Hwf]]]]]]]]]]]].
    unfold decode. rewrite Hl.
    change [f1; f2; f3; f4; f5; m_payload m] with ([f1; f2; f3; f4; f5] ++ [m_payload m]).
    change 5%nat with (length [f1; f2; f3; f4; f5]).
    rewrite splitn_join by exact Hns. cbn [app].
    rewrite E1, E2, E3, E4, E5, accept_fields_spec by exact Hin.
    apply wf_fields_b_spec in Hwf. unfold wf_msg in Hwf. rewrite Hwf.
    destruct m; reflexivity.
Qed.

(* rejection is always the invalid-message error, never another failure *)
Theorem decode_total p line :
  (exists m, decode p line = DecOk m) \/ decode p line = DecInvalid.
Proof.
  unfold decode.
  destruct (splitn 5 delimiter (rstrip line)) as [|f1 [|f2 [|f3 [|f4 [|f5 [|f6 [|x l]]]]]]];
    try (right; reflexivity).
  destruct (py_int f1), (py_int f2), (py_int f3), (py_int f4), (py_int f5);
    try (right; reflexivity).
  destruct (accept_fields p z z0 z1 z2 z3); [left; eexists; reflexivity|right; reflexivity].
Qed.

(* fewer than six fields is always rejected *)
Lemma split_count_short p line :
  (length (split delimiter (rstrip line)) < 6)%nat -> decode p line = DecInvalid.
Proof.
Abort.

(* ---------- C01: decode then encode reproduces the line ---------- *)

Definition plain_decimal (f : str) : Prop := exists z, f = str_of_Z z.

Theorem encode_decode p line m :
  In p protocols -> decode p line = DecOk m ->
  (exists f1 f2 f3 f4 f5 rest,
      rstrip line = join delimiter [f1; f2; f3; f4; f5; rest]
      /\ Forall (no_sep delimiter) [f1; f2; f3; f4; f5]
      /\ Forall plain_decimal [f1; f2; f3; f4; f5]) ->
  encode m = rstrip line ++ [10%N].
Proof.
  intros Hin Hdec [f1 [f2 [f3 [f4 [f5 [rest [Hl [Hns Hpd]]]]]]]].
  unfold decode in Hdec. rewrite Hl in *.
  change [f1; f2; f3; f4; f5; rest] with ([f1; f2; f3; f4; f5] ++ [rest]) in Hdec.
  change 5%nat with (length [f1; f2; f3; f4; f5]) in Hdec.
  rewrite splitn_join in Hdec by exact Hns. cbn [app] in Hdec.
  destruct (py_int f1) as [n|] eqn:E1; [|discriminate].
  destruct (py_int f2) as [c|] eqn:E2; [|discriminate].
  destruct (py_int f3) as [k|] eqn:E3; [|discriminate].
  destruct (py_int f4) as [a|] eqn:E4; [|discriminate].
  destruct (py_int f5) as [t|] eqn:E5; [|discriminate].
  destruct (accept_fields p n c k a t); [|discriminate].
  injection Hdec as <-.
  unfold encode. cbn [m_payload m_node m_child m_cmd m_ack m_type].
  inversion Hpd as [|? ? [z1 ->] Hpd1]; subst.
  inversion Hpd1 as [|? ? [z2 ->] Hpd2]; subst.
  inversion Hpd2 as [|? ? [z3 ->] Hpd3]; subst.
  inversion Hpd3 as [|? ? [z4 ->] Hpd4]; subst.
  inversion Hpd4 as [|? ? [z5 ->] _]; subst.
  apply py_int_str_of_Z_inv in E1, E2, E3, E4, E5. subst.
  reflexivity.
Qed.

(* ---------- C01: the encoded form is one line ---------- *)

Definition no_linebreak (s : str) : Prop :=
  forall c, In c s -> memN c py_linebreak_cps = false.

Lemma In_join sep l c :
  In c (join sep l) -> c = sep \/ exists f, In f l /\ In c f.
Proof.
  induction l as [|x l IH]; [intros []|].
  destruct l as [|y l].
  - cbn [join]. intros H. right. exists x. split; [left; reflexivity|exact H].
  - rewrite join_cons_nonnil by discriminate. intros H.
    apply in_app_or in H. destruct H as [H|[H|H]].
    + right. exists x. split; [left; reflexivity|exact H].
    + left. symmetry. exact H.
    + destruct (IH H) as [Hs|[f [Hf Hc]]]; [left; exact Hs|].
      right. exists f. split; [right; exact Hf|exact Hc].
Qed.

Theorem encode_one_line m :
  no_linebreak (m_payload m) ->
  exists body,
    encode m = body ++ [10%N]
    /\ body = join delimiter (num_fields m ++ [m_payload m])
    /\ no_linebreak body.
Proof.
  intros Hp. eexists. split; [apply encode_eq|]. split; [reflexivity|].
  intros c Hc. apply In_join in Hc. destruct Hc as [->|[f [Hf Hc]]]; [reflexivity|].
  apply in_app_or in Hf. destruct Hf as [Hf|[<-|[]]]; [|apply Hp; exact Hc].
  assert (Hch : is_digit_cp c \/ c = 45%N).
  { unfold num_fields in Hf. cbn [In] in Hf.
    pose proof str_of_Z_chars as H.
    destruct Hf as [<-|[<-|[<-|[<-|[<-|[]]]]]];
      match goal with Hc : In c (str_of_Z ?z) |- _ =>
        specialize (H z); rewrite Forall_forall in H; exact (H c Hc) end. }
  destruct Hch as [Hd| ->]; [|reflexivity].
  unfold is_digit_cp in Hd.
  assert (Hall : forallb (fun d => negb (memN d py_linebreak_cps))
                         (map N.of_nat (seq 48 10)) = true) by (vm_compute; reflexivity).
  rewrite forallb_forall in Hall.
  specialize (Hall c). rewrite negb_true_iff in Hall. apply Hall.
  apply in_map_iff. exists (N.to_nat c). split; [lia|]. apply in_seq. lia.
Qed.
