(* The registry footprint of one listen step: for every message, state, oracle
   and fault stream, only the record of the node that sent the message (and, for
   an id request, the placeholder of the id handed out) can change; every other
   node's record is exactly what it was. *)
From Coq Require Import List NArith ZArith Bool String Lia.
From AMS Require Import TablesTypes Tables PyStr Codec CodecFacts Gateway GatewayFacts GatewayInv GatewaySteps.
Import ListNotations.
Local Open Scope Z_scope.

Section WithOracles.
  Variable bat : str -> option Z.
  Variable vlt : str -> str -> option bool.
  Variable now : Z.

  (* nothing outside [ks] changes *)
  Definition rg_at (ks : list Z) {A} (c : M A) (s : st) : Prop :=
    forall k, ~ In k ks -> dget Z.eqb (w_nodes (s_w (snd (c s)))) k = dget Z.eqb (w_nodes (s_w s)) k.
  Definition rg (ks : list Z) {A} (c : M A) : Prop := forall s, rg_at ks c s.

  Lemma rg_same_at ks {A} (c : M A) s : w_nodes (s_w (snd (c s))) = w_nodes (s_w s) -> rg_at ks c s.
  Proof. intros H k _. rewrite H. reflexivity. Qed.

  Lemma rg_ret ks {A} (x : A) : rg ks (ret x).
  Proof. intros s. apply rg_same_at. reflexivity. Qed.
  Lemma rg_raise ks {A} e : rg ks (@raise A e).
  Proof. intros s. apply rg_same_at. reflexivity. Qed.

  Lemma rg_bind_at ks {A B} (m : M A) (f : A -> M B) s :
    rg_at ks m s -> (forall x, fst (m s) = inl x -> rg_at ks (f x) (snd (m s))) -> rg_at ks (bind m f) s.
  Proof.
    intros Hm Hf k Hk. unfold bind. specialize (Hm k Hk).
    destruct (m s) as [[x|e] s'] eqn:E; cbn [fst snd] in *; [|exact Hm].
    rewrite (Hf x eq_refl k Hk). exact Hm.
  Qed.

  Lemma rg_bind ks {A B} (m : M A) (f : A -> M B) : rg ks m -> (forall x, rg ks (f x)) -> rg ks (bind m f).
  Proof. intros Hm Hf s. apply rg_bind_at; [apply Hm|intros x _; apply Hf]. Qed.

  Lemma rg_get_w ks {B} (f : world -> M B) : (forall s, rg_at ks (f (s_w s)) s) -> rg ks (bind get_w f).
  Proof. intros H s. exact (H s). Qed.

  Lemma rg_get_w_at ks {B} (f : world -> M B) s : rg_at ks (f (s_w s)) s -> rg_at ks (bind get_w f) s.
  Proof. intros H. exact H. Qed.

  Lemma rg_bind_ret ks {A B} (x : A) (f : A -> M B) : rg ks (f x) -> rg ks (bind (ret x) f).
  Proof. intros H s. exact (H s). Qed.

  Lemma rg_bind_ret_at ks {A B} (x : A) (f : A -> M B) s : rg_at ks (f x) s -> rg_at ks (bind (ret x) f) s.
  Proof. intros H. exact H. Qed.

  Lemma rg_try_finally_at ks {A} (body : M A) (fin : M unit) s :
    rg_at ks body s -> rg ks fin -> rg_at ks (try_finally body fin) s.
  Proof.
    intros Hb Hf k Hk. unfold try_finally. specialize (Hb k Hk).
    destruct (body s) as [r s'] eqn:E. cbn [fst snd] in *. specialize (Hf s' k Hk).
    destruct (fin s') as [[u|e] s''] eqn:E2; cbn [fst snd] in *; rewrite Hf; exact Hb.
  Qed.

  Lemma rg_write ks pm : rg ks (write_msg pm).
  Proof. intros s. apply rg_same_at. rewrite write_eq. reflexivity. Qed.

  Lemma rg_send ks pm b : rg ks (send pm b).
  Proof.
    intros s. apply rg_same_at. rewrite send_eq. unfold send_resolved.
    assert (G : forall bb, w_nodes (s_w (snd (send_set_direct pm bb s))) = w_nodes (s_w s)).
    { intros bb. unfold send_set_direct, bind. rewrite write_eq. destruct (hd false (s_faults s)); [reflexivity|].
      destruct bb; reflexivity. }
    destruct (m_cmd pm =? 1).
    - destruct (dget Z.eqb (w_nodes (s_w s)) (m_node pm)) as [n|]; [destruct (b && n_sleeping n); [reflexivity|apply G]|apply G].
    - destruct (m_cmd pm =? 3); [destruct b; [reflexivity|rewrite write_eq; reflexivity]|].
      destruct ((m_cmd pm =? 0) || (m_cmd pm =? 2) || (m_cmd pm =? 4)); reflexivity.
  Qed.

  Lemma rg_require_node ks id : rg ks (require_node id).
  Proof. intros s. apply rg_same_at. rewrite require_node_eq. destruct (dget Z.eqb (w_nodes (s_w s)) id); reflexivity. Qed.

  Lemma rg_update_node ks id f : In id ks -> rg ks (update_node id f).
  Proof.
    intros Hin s k Hk. rewrite update_node_eq. cbn [snd with_nodes s_w w_nodes].
    destruct (dget Z.eqb (w_nodes (s_w s)) id) as [n|]; [|reflexivity].
    apply (dget_dset_other Z.eqb Zeqb_spec). apply Z.eqb_neq. intros ->. exact (Hk Hin).
  Qed.

  Lemma rg_put_node ks id n : In id ks -> rg ks (set_nodes (fun ns => dset Z.eqb ns id n)).
  Proof.
    intros Hin s k Hk. cbn. apply (dget_dset_other Z.eqb Zeqb_spec). apply Z.eqb_neq. intros ->. exact (Hk Hin).
  Qed.

  Lemma rg_set_internal ks f : rg ks (set_internal f).
  Proof. intros s. apply rg_same_at. reflexivity. Qed.
  Lemma rg_set_setbuf ks f : rg ks (set_setbuf f).
  Proof. intros s. apply rg_same_at. reflexivity. Qed.
  Lemma rg_set_protocol_version ks v : rg ks (set_protocol_version vlt v).
  Proof. intros s. apply rg_same_at. unfold set_protocol_version. destruct (get_protocol vlt v); reflexivity. Qed.

  Lemma rg_flush ks es : rg ks (flush_entries es).
  Proof.
    induction es as [|[k bm] r IH]; cbn [flush_entries]; [apply rg_ret|].
    apply rg_bind; [apply rg_send|intros _]. apply rg_bind; [apply rg_set_setbuf|intros _; exact IH].
  Qed.

  Lemma rg_handle_sleep_buffer ks m : rg ks (handle_sleep_buffer m).
  Proof.
    unfold handle_sleep_buffer. apply rg_get_w. intros s.
    apply rg_bind; [apply rg_flush|intros _; apply rg_ret].
  Qed.

  (* the keys a step for message m may touch, given the registry at its start *)
  Definition touch (m : msg) (w : world) : list Z := [m_node m; next_id (keys w)].

  Lemma rg_body2 b super m ks s :
    In (m_node m) ks -> (b = BSuper -> rg_at ks (super m) s) ->
    (b = BIdRequest -> In (next_id (keys (s_w s))) ks) -> rg_at ks (run_body2 bat vlt now b super m) s.
  Proof.
    intros Hin Hs Hid. destruct consts_p14 as [C1 [C2 [C3 [C4 [C5 [C6 [C7 C8]]]]]]].
    destruct consts_p20 as [D1 [D2 D3]].
    destruct b; cbn [run_body2]; try (exact (rg_raise ks _ s)).
    - apply Hs. reflexivity.
    - apply rg_bind; [apply rg_set_protocol_version|intros _; apply rg_ret].
    - apply rg_get_w_at. cbn beta.
      change (match map fst (w_nodes (s_w s)) with [] => 1 | k :: ks0 => fold_left Z.max ks0 k + 1 end)
        with (next_id (keys (s_w s))).
      destruct (max_node_id <? next_id (keys (s_w s))); [exact (rg_raise ks _ s)|].
      rewrite C1, C2. cbn [need].
      apply (rg_bind_ret ks). apply (rg_bind_ret ks).
      apply rg_bind; [apply rg_put_node; apply Hid; reflexivity|intros _].
      apply rg_bind; [apply rg_send|intros _; apply rg_ret].
    - apply rg_get_w. intros s0. apply rg_bind; [apply rg_send|intros _; apply rg_ret].
    - apply rg_bind; [apply rg_send|intros _; apply rg_ret].
    - apply rg_bind; [apply rg_require_node|intros _].
      destruct (bat (m_payload m)) as [lvl|]; [|apply rg_raise].
      destruct ((0 <=? lvl) && (lvl <=? 100)); [|apply rg_raise].
      apply rg_bind; [apply rg_update_node; exact Hin|intros _; apply rg_ret].
    - apply rg_bind; [apply rg_require_node|intros _].
      apply rg_bind; [apply rg_update_node; exact Hin|intros _; apply rg_ret].
    - apply rg_bind; [apply rg_require_node|intros _].
      apply rg_bind; [apply rg_update_node; exact Hin|intros _; apply rg_ret].
    - rewrite D2. cbn [need]. apply rg_bind_ret. apply rg_bind; [apply rg_send|intros _; apply rg_ret].
    - apply rg_bind; [apply rg_require_node|intros _; apply rg_ret].
    - apply rg_bind; [apply rg_require_node|intros _].
      destruct (py_int (m_payload m)); [|apply rg_raise].
      apply rg_bind; [apply rg_update_node; exact Hin|intros _]. apply rg_handle_sleep_buffer.
    - apply rg_bind; [apply rg_require_node|intros _].
      destruct (py_int (m_payload m)); [|apply rg_raise].
      apply rg_bind; [apply rg_update_node; exact Hin|intros _; apply rg_ret].
    - apply rg_bind; [apply rg_require_node|intros _].
      apply rg_bind; [apply rg_update_node; exact Hin|intros _]. apply rg_handle_sleep_buffer.
  Qed.

  (* ---------- decorators ---------- *)

  Lemma rg_dec_mpv_at ks f m s : rg_at ks (f m) s -> rg_at ks (dec_mpv f m) s.
  Proof.
    intros Hf. destruct consts_p14 as [C1 [C2 [C3 [C4 [C5 [C6 [C7 C8]]]]]]].
    unfold dec_mpv. apply rg_try_finally_at; [exact Hf|].
    apply rg_get_w. intros s0. destruct (w_pv (s_w s0)); [apply rg_ret|].
    rewrite C7, C3, C4, C5. cbn [need]. repeat apply (rg_bind_ret ks).
    match goal with |- context [if ?c then _ else _] => destruct c end; [apply rg_send|apply rg_ret].
  Qed.

  Lemma rg_request_presentation ks m e : rg ks (request_presentation m e).
  Proof.
    intros s. apply rg_same_at. rewrite request_presentation_eq. cbv zeta.
    destruct (dmem key_eqb (w_internal (s_w s)) (pres_key (m_node m))); [reflexivity|].
    rewrite write_eq. destruct (hd false (s_faults s)); reflexivity.
  Qed.

  Lemma rg_dec_mnc_at ks f m s : rg_at ks (f m) s -> rg_at ks (dec_mnc f m) s.
  Proof.
    intros Hf k Hk. rewrite dec_mnc_eq. specialize (Hf k Hk).
    destruct (f m s) as [[x|e] s'] eqn:E; cbn [fst snd] in *; [exact Hf|].
    destruct (is_missing e); [|exact Hf]. rewrite (rg_request_presentation ks m e s' k Hk). exact Hf.
  Qed.

  Lemma rg_apply_decs_at ks ds f m s :
    forallb known_dec ds = true -> rg_at ks (f m) s -> rg_at ks (apply_decs ds f m) s.
  Proof.
    induction ds as [|d r IH]; cbn [apply_decs fold_right forallb]; intros Hd Hf; [exact Hf|].
    apply andb_true_iff in Hd. destruct Hd as [Hd Hr]. unfold apply_dec.
    destruct (String.eqb d "handle_missing_protocol_version") eqn:E1; [apply rg_dec_mpv_at; apply IH; assumption|].
    destruct (String.eqb d "handle_missing_node_child") eqn:E2; [apply rg_dec_mnc_at; apply IH; assumption|].
    unfold known_dec in Hd. rewrite E1, E2 in Hd. discriminate.
  Qed.

  (* the id-request body is only reachable under its own handler name *)
  Lemma body_of_in_In t md name b : body_of_in t md name = Some b -> exists md', In (md', name, b) t.
  Proof.
    induction t as [|[[m0 n0] b0] r IH]; cbn; [discriminate|].
    destruct (String.eqb m0 md && String.eqb n0 name) eqn:E.
    - intros H. injection H as ->. apply andb_true_iff in E. destruct E as [_ E]. apply String.eqb_eq in E. subst.
      exists m0. left. reflexivity.
    - intros H. destruct (IH H) as [md' Hin]. exists md'. right. exact Hin.
  Qed.

  Lemma id_request_body_name md name : body_of md name = Some BIdRequest -> name = "handle_i_id_request"%string.
  Proof.
    intros H. apply body_of_in_In in H. destruct H as [md' H]. unfold body_table in H. cbn [In] in H.
    repeat (destruct H as [H|H]; [injection H; intros; subst; try discriminate; try reflexivity|]).
    contradiction.
  Qed.

  Lemma rg_chain2_at name chain m ks s :
    chain_ok level2 name chain = true -> In (m_node m) ks ->
    (name = "handle_i_id_request"%string -> In (next_id (keys (s_w s))) ks) ->
    rg_at ks (run_chain2 bat vlt now name chain m) s.
  Proof.
    induction chain as [|[md ds] r IH]; [discriminate|].
    cbn [chain_ok run_chain2]. intros Hok Hin Hid.
    assert (Hd : forallb known_dec ds = true /\ exists b, body_of md name = Some b
                 /\ (calls_super b = true -> chain_ok level2 name r = true)).
    { destruct r as [|e r'].
      - apply andb_true_iff in Hok. destruct Hok as [Hd Hb]. split; [exact Hd|].
        destruct (body_of md name) as [b|]; [|discriminate]. apply andb_true_iff in Hb. destruct Hb as [Hl Hn].
        exists b. split; [reflexivity|]. intros Hc. rewrite Hc in Hn. discriminate.
      - apply andb_true_iff in Hok. destruct Hok as [Hok Hr]. apply andb_true_iff in Hok. destruct Hok as [Hd Hb].
        split; [exact Hd|]. destruct (body_of md name) as [b|]; [|discriminate]. exists b.
        split; [reflexivity|intros _; exact Hr]. }
    destruct Hd as [Hd [b [Eb Hsup]]]. rewrite Eb.
    apply rg_apply_decs_at; [exact Hd|].
    apply rg_body2; [exact Hin| |].
    - intros ->. apply IH; [apply Hsup; reflexivity|exact Hin|exact Hid].
    - intros ->. apply Hid. exact (id_request_body_name md name Eb).
  Qed.

  Lemma rg_dispatch2_at name m ks s :
    l2name name -> In (m_node m) ks ->
    (name = "handle_i_id_request"%string -> In (next_id (keys (s_w s))) ks) ->
    rg_at ks (dispatch2 bat vlt now name m) s.
  Proof.
    intros Hn Hin Hid. unfold dispatch2. apply rg_get_w_at. unfold proto_of.
    destruct (lookup_chain (pt_incoming (proto_at (w_proto (s_w s)))) name) as [c|] eqn:E; [|exact (rg_ret ks m s)].
    apply rg_chain2_at; [|exact Hin|exact Hid]. apply (incoming_lookup _ _ _ E). exact Hn.
  Qed.

  (* ---------- level 1 ---------- *)

  Ltac bret ks := match goal with
                  | |- rg_at _ _ _ => apply rg_bind_ret_at
                  | |- rg _ _ => apply (rg_bind_ret ks)
                  end.

  Lemma rg_body1 b super m ks s :
    In (m_node m) ks -> In (next_id (keys (s_w s))) ks ->
    (b = BSuper \/ b = BPresentation20 -> forall s', keys (s_w s') = keys (s_w s) -> rg_at ks (super m) s') ->
    rg_at ks (run_body1 bat vlt now b super m) s.
  Proof.
    intros Hin Hid Hs. destruct consts_p14 as [C1 [C2 [C3 [C4 [C5 [C6 [C7 C8]]]]]]].
    destruct consts_p20 as [D1 [D2 D3]].
    destruct b; cbn [run_body1]; try (exact (rg_raise ks _ s)).
    - apply Hs; [left; reflexivity|reflexivity].
    - rewrite D1. cbn [need]. bret ks. apply rg_bind_at; [apply rg_set_internal|intros _ _].
      apply Hs; [right; reflexivity|reflexivity].
    - destruct (m_child m =? system_child_id).
      + apply rg_bind_at; [apply rg_put_node; exact Hin|intros _ _].
        destruct (m_node m =? 0); [|exact (rg_ret ks m _)].
        apply rg_dispatch2_at; [repeat split; reflexivity|exact Hin|discriminate].
      + apply rg_bind; [apply rg_require_node|intros _].
        apply rg_bind; [apply rg_update_node; exact Hin|intros _; apply rg_ret].
    - apply rg_bind; [apply rg_require_node|intros n].
      destruct (negb (dmem Z.eqb (n_children n) (m_child m))); [apply rg_raise|].
      apply rg_bind; [apply rg_update_node; exact Hin|intros _].
      destruct (n_reboot n); [|apply rg_ret].
      rewrite C7, C6. cbn [need]. repeat bret ks.
      apply rg_bind; [apply rg_send|intros _; apply rg_ret].
    - apply rg_bind; [apply rg_require_node|intros n].
      destruct (dget Z.eqb (n_children n) (m_child m)) as [c|]; [|apply rg_raise].
      destruct (dget Z.eqb (c_values c) (m_type m)) as [v|]; [|apply rg_ret].
      rewrite C8. cbn [need]. bret ks.
      apply rg_bind; [apply rg_send|intros _; apply rg_ret].
    - apply rg_get_w_at. unfold proto_of.
      destruct (enum_lname_of (pt_internal (proto_at (w_proto (s_w s)))) (m_type m)) as [ln|] eqn:E;
        [|exact (rg_raise ks _ s)].
      apply rg_dispatch2_at; [eapply member_l2name; left; exact E|exact Hin|intros _; exact Hid].
    - apply rg_bind_at; [apply rg_require_node|intros _ _].
      assert (Hsame : snd (require_node (m_node m) s) = s).
      { rewrite require_node_eq. destruct (dget Z.eqb (w_nodes (s_w s)) (m_node m)); reflexivity. }
      rewrite Hsame. apply rg_get_w_at. unfold proto_of.
      destruct (enum_lname_of (pt_stream (proto_at (w_proto (s_w s)))) (m_type m)) as [ln|] eqn:E;
        [|exact (rg_raise ks _ s)].
      apply rg_dispatch2_at; [eapply member_l2name; right; exact E|exact Hin|intros _; exact Hid].
  Qed.

  Lemma rg_chain1_at name chain m ks : forall s,
    chain_ok level1 name chain = true -> In (m_node m) ks -> In (next_id (keys (s_w s))) ks ->
    rg_at ks (run_chain1 bat vlt now name chain m) s.
  Proof.
    induction chain as [|[md ds] r IH]; [discriminate|].
    cbn [chain_ok run_chain1]. intros s Hok Hin Hid.
    assert (Hd : forallb known_dec ds = true /\ exists b, body_of md name = Some b
                 /\ (calls_super b = true -> chain_ok level1 name r = true)).
    { destruct r as [|e r'].
      - apply andb_true_iff in Hok. destruct Hok as [Hd Hb]. split; [exact Hd|].
        destruct (body_of md name) as [b|]; [|discriminate]. apply andb_true_iff in Hb. destruct Hb as [Hl Hn].
        exists b. split; [reflexivity|]. intros Hc. rewrite Hc in Hn. discriminate.
      - apply andb_true_iff in Hok. destruct Hok as [Hok Hr]. apply andb_true_iff in Hok. destruct Hok as [Hd Hb].
        split; [exact Hd|]. destruct (body_of md name) as [b|]; [|discriminate]. exists b.
        split; [reflexivity|intros _; exact Hr]. }
    destruct Hd as [Hd [b [Eb Hsup]]]. rewrite Eb.
    apply rg_apply_decs_at; [exact Hd|].
    apply rg_body1; [exact Hin|exact Hid|].
    intros Hb s' Hk. assert (Hc : calls_super b = true) by (destruct Hb as [-> | ->]; reflexivity).
    apply IH; [apply Hsup; exact Hc|exact Hin|rewrite Hk; exact Hid].
  Qed.

  (* THE REGISTRY FOOTPRINT THEOREM *)
  Theorem rg_listen_step line s k :
    (forall m, decode (proto_of (s_w s)) line = DecOk m -> k <> m_node m) ->
    k <> next_id (keys (s_w s)) ->
    dget Z.eqb (w_nodes (s_w (snd (listen_step bat vlt now line s)))) k = dget Z.eqb (w_nodes (s_w s)) k.
  Proof.
    intros Hm Hn. unfold listen_step, bind, get_w. cbn beta iota.
    destruct (decode (proto_of (s_w s)) line) as [m| |c] eqn:E; [|reflexivity|reflexivity].
    unfold proto_of in *. rewrite command_lname.
    destruct (lname_cmd (m_cmd m)) as [cname|] eqn:Ec; [|reflexivity].
    destruct (command_handler_lookup (w_proto (s_w s)) _ _ Ec) as [Hc [c Hl]]. rewrite Hl.
    apply (rg_chain1_at _ c m [m_node m; next_id (keys (s_w s))] s).
    - apply (incoming_lookup _ _ _ Hl). exact Hc.
    - left. reflexivity.
    - right. left. reflexivity.
    - intros [H|[H|[]]]; [exact (Hm m eq_refl (eq_sym H))|exact (Hn (eq_sym H))].
  Qed.
  (* ---------- histories ---------- *)
  (* which node records an operation may change, read off the state it runs in *)
  Definition touches (w : world) (o : op) (k : Z) : Prop :=
    match o with
    | ORecv line _ => (exists m, decode (proto_of w) line = DecOk m /\ k = m_node m) \/ k = next_id (keys w)
    | OSend _ _ _ => False
    | OReconnect => False
    end.

  Fixpoint untouched (k : Z) (w : world) (ops : list op) : Prop :=
    match ops with
    | [] => True
    | o :: r => ~ touches w o k /\ untouched k (world_after bat vlt now w o) r
    end.

  Lemma step_op_untouched w o k :
    ~ touches w o k -> dget Z.eqb (w_nodes (world_after bat vlt now w o)) k = dget Z.eqb (w_nodes w) k.
  Proof.
    intros H. unfold world_after. destruct o as [line faults|m b faults|]; cbn [step_op touches] in *; [| |reflexivity].
    - unfold recv. rewrite run_step_world.
      apply (rg_listen_step line {| s_w := w; s_log := []; s_faults := faults |} k).
      + cbn [s_w]. intros m E Hk. apply H. left. exists m. split; [exact E|exact Hk].
      + cbn [s_w]. intros Hk. apply H. right. exact Hk.
    - unfold send_op. rewrite run_step_world.
      apply (rg_send [] m b {| s_w := w; s_log := []; s_faults := faults |} k). intros [].
  Qed.

  (* in every history, a node none of whose messages arrive, and whose id is not
     the one being handed out, keeps exactly the record it had *)
  Theorem untouched_history k : forall ops w,
    untouched k w ops ->
    dget Z.eqb (w_nodes (run_ops bat vlt now w ops)) k = dget Z.eqb (w_nodes w) k.
  Proof.
    induction ops as [|o r IH]; intros w H; [reflexivity|].
    destruct H as [H1 H2]. unfold run_ops. cbn [fold_left].
    change (dget Z.eqb (w_nodes (run_ops bat vlt now (world_after bat vlt now w o) r)) k = dget Z.eqb (w_nodes w) k).
    rewrite (IH _ H2). apply step_op_untouched. exact H1.
  Qed.
End WithOracles.
