(* The world invariant and the generic theorem about the receive path:
   for every oracle, every fault stream and every state satisfying the
   invariant, one listen step (and one send call)
     - never raises anything outside the library's exception hierarchy,
     - re-establishes the invariant (also when it raises),
     - only grows the set of registered node ids,
     - only extends the write log,
     - and (listen step) never adds an entry to the sleep buffer. *)
From Coq Require Import List NArith ZArith Bool String Lia.
From AMS Require Import TablesTypes Tables PyStr Codec CodecFacts Gateway GatewayFacts.
Import ListNotations.
Local Open Scope Z_scope.

Definition keys (w : world) : list Z := map fst (w_nodes w).

(* what holds of every registered node: it is registered under its own id, its
   battery level is a percentage (what the node schema accepts), and its child /
   value dictionaries have unique keys *)
Definition node_inv (k : Z) (n : node) : Prop :=
  n_id n = k /\ 0 <= n_battery n <= 100
  /\ NoDup (map fst (n_children n))
  /\ Forall (fun kc => NoDup (map fst (c_values (snd kc)))) (n_children n).

Definition nodes_inv (ns : list (Z * node)) : Prop := Forall (fun kn => node_inv (fst kn) (snd kn)) ns.

Section WithOracles.
  Variable bat : str -> option Z.
  Variable vlt : str -> str -> option bool.
  Variable now : Z.

  Notation send := (send).
  Notation listen_step := (listen_step bat vlt now).

  Record Inv (w : world) : Prop := {
    inv_proto : (w_proto w < 5)%nat;
    inv_agree : match w_pv w with
                | None => w_proto w = 0%nat
                | Some v => get_protocol vlt v = Some (w_proto w)
                end;
    inv_keys : Forall (fun k => 0 <= k <= 255) (keys w);
    inv_nodup_nodes : NoDup (keys w);
    inv_nodes : nodes_inv (w_nodes w);
    inv_nodup_set : NoDup (map fst (w_set w));
    inv_nodup_int : NoDup (map fst (w_internal w));
    inv_set_keys : Forall (fun e => fst e = msg_key (snd e) /\ m_cmd (snd e) = 1) (w_set w);
    inv_int_keys : Forall (fun e => fst e = msg_key (snd e)) (w_internal w)
  }.

  Definition noesc {A} (r : A + exn) : Prop :=
    match r with inr (EEscape _) => False | _ => True end.

  (* what a computation may do to the state, as a preorder *)
  Definition R (s s' : st) : Prop :=
    incl (keys (s_w s)) (keys (s_w s'))
    /\ (exists n, s_log s' = n ++ s_log s)
    /\ incl (w_set (s_w s')) (w_set (s_w s))
    /\ w_metric (s_w s') = w_metric (s_w s).

  Lemma R_refl s : R s s.
  Proof.
    repeat split; try apply incl_refl. exists []. reflexivity.
  Qed.

  Lemma R_trans a b c : R a b -> R b c -> R a c.
  Proof.
    intros [H1 [[n1 H2] [H3 H4]]] [G1 [[n2 G2] [G3 G4]]]. repeat split.
    - eapply incl_tran; eassumption.
    - exists (n2 ++ n1). rewrite G2, H2, app_assoc. reflexivity.
    - eapply incl_tran; eassumption.
    - congruence.
  Qed.

  Definition good_at {A} (c : M A) (s : st) : Prop :=
    Inv (s_w s) -> Inv (s_w (snd (c s))) /\ R s (snd (c s)) /\ noesc (fst (c s)).

  Definition good {A} (c : M A) : Prop := forall s, good_at c s.

  Lemma good_ret {A} (a : A) : good (ret a).
  Proof. intros s H. cbn. split; [exact H|split; [apply R_refl|exact I]]. Qed.

  Lemma good_raise {A} e : (forall c, e <> EEscape c) -> good (@raise A e).
  Proof.
    intros He s H. cbn. split; [exact H|split; [apply R_refl|]].
    destruct e; try exact I. exact (He _ eq_refl).
  Qed.

  Lemma good_bind_at {A B} (m : M A) (f : A -> M B) s :
    good_at m s -> (forall a, fst (m s) = inl a -> good_at (f a) (snd (m s))) -> good_at (bind m f) s.
  Proof.
    intros Hm Hf Hi. destruct (Hm Hi) as [H1 [H2 H3]].
    unfold bind. destruct (m s) as [[a|e] s'] eqn:E; cbn in *.
    - destruct (Hf a eq_refl H1) as [G1 [G2 G3]]. split; [exact G1|split; [|exact G3]].
      eapply R_trans; eassumption.
    - split; [exact H1|split; [exact H2|exact H3]].
  Qed.

  Lemma good_bind {A B} (m : M A) (f : A -> M B) : good m -> (forall a, good (f a)) -> good (bind m f).
  Proof. intros Hm Hf s. apply good_bind_at; [apply Hm|intros a _; apply Hf]. Qed.

  Lemma good_get_w_at {B} (f : world -> M B) s : good_at (f (s_w s)) s -> good_at (bind get_w f) s.
  Proof. intros H. exact H. Qed.

  Lemma good_need {A} (o : option A) what : o <> None -> good (need o what).
  Proof.
    intros H. destruct o; [apply good_ret|congruence].
  Qed.

  Lemma good_write m : good (write_msg m).
  Proof.
    intros s H. unfold write_msg. destruct (s_faults s) as [|b r]; [|destruct b]; cbn;
      (split; [exact H|split; [|exact I]]); repeat split; try apply incl_refl;
      eexists [_]; reflexivity.
  Qed.

  Lemma good_try_finally {A} (body : M A) (fin : M unit) : good body -> good fin -> good (try_finally body fin).
  Proof.
    intros Hb Hf s Hi. unfold try_finally.
    destruct (Hb s Hi) as [H1 [H2 H3]]. destruct (body s) as [r s'] eqn:E; cbn in *.
    destruct (Hf s' H1) as [G1 [G2 G3]]. destruct (fin s') as [[u|e] s''] eqn:E2; cbn in *.
    - split; [exact G1|split; [eapply R_trans; eassumption|exact H3]].
    - split; [exact G1|split; [eapply R_trans; eassumption|exact G3]].
  Qed.

  (* ---------- state updates ---------- *)

  Lemma Inv_with_nodes w ns :
    Inv w -> Forall (fun k => 0 <= k <= 255) (map fst ns) -> NoDup (map fst ns) -> nodes_inv ns ->
    Inv {| w_nodes := ns; w_pv := w_pv w; w_proto := w_proto w; w_internal := w_internal w;
           w_set := w_set w; w_metric := w_metric w |}.
  Proof. intros [] H1 H2 H3. constructor; cbn; assumption. Qed.

  Lemma good_set_nodes f :
    (forall ns, Forall (fun k => 0 <= k <= 255) (map fst ns) -> NoDup (map fst ns) -> nodes_inv ns ->
                Forall (fun k => 0 <= k <= 255) (map fst (f ns)) /\ NoDup (map fst (f ns))
                /\ incl (map fst ns) (map fst (f ns)) /\ nodes_inv (f ns)) ->
    good (set_nodes f).
  Proof.
    intros Hf s Hi. cbn.
    destruct (Hf (w_nodes (s_w s)) (inv_keys _ Hi) (inv_nodup_nodes _ Hi) (inv_nodes _ Hi)) as [H1 [H2 [H3 H4]]].
    split; [apply Inv_with_nodes; assumption|split; [|exact I]].
    repeat split; cbn; try apply incl_refl; [exact H3|exists []; reflexivity].
  Qed.

  Lemma good_put_node k n : 0 <= k <= 255 -> node_inv k n -> good (set_nodes (fun ns => dset Z.eqb ns k n)).
  Proof.
    intros Hk Hn. apply good_set_nodes. intros ns H1 H2 H3. split; [|split; [|split]].
    - apply Forall_forall. intros x Hx. apply (dset_keys_sub Z.eqb) in Hx.
      destruct Hx as [->|Hx]; [exact Hk|]. rewrite Forall_forall in H1. exact (H1 x Hx).
    - apply dset_nodup; [exact Zeqb_spec|exact H2].
    - apply dset_keys_incl.
    - apply dset_Forall; [exact Zeqb_spec| |exact H3]. intros k' Hk'. apply Z.eqb_eq in Hk'. subst k'. exact Hn.
  Qed.

  Lemma dset_keys_same {V} (d : list (Z * V)) k v v0 :
    dget Z.eqb d k = Some v0 -> map fst (dset Z.eqb d k v) = map fst d.
  Proof.
    induction d as [|[k' v'] d IH]; cbn; [discriminate|].
    destruct (Z.eqb k k') eqn:E; cbn; [reflexivity|]. intros H. rewrite (IH H). reflexivity.
  Qed.

  Lemma good_update_node id f :
    (forall n, node_inv id n -> node_inv id (f n)) -> good (update_node id f).
  Proof.
    intros Hf. apply good_set_nodes. intros ns H1 H2 H3.
    destruct (dget Z.eqb ns id) as [n|] eqn:E.
    - rewrite (dset_keys_same ns id (f n) n E). split; [exact H1|split; [exact H2|split; [apply incl_refl|]]].
      apply dset_Forall; [exact Zeqb_spec| |exact H3]. intros k' Hk'. apply Z.eqb_eq in Hk'. subst k'. apply Hf.
      apply (dget_In Z.eqb Zeqb_spec) in E. unfold nodes_inv in H3. rewrite Forall_forall in H3. exact (H3 _ E).
    - split; [exact H1|split; [exact H2|split; [apply incl_refl|exact H3]]].
  Qed.

  (* the attribute updates of the handlers keep the node invariant *)
  Ltac ni := intros ? [? [[? ?] [? ?]]]; repeat split; cbn; assumption.

  Lemma good_set_internal_put m : good (set_internal (fun b => dset key_eqb b (msg_key m) m)).
  Proof.
    intros s Hi. cbn. split; [|split; [|exact I]].
    - destruct Hi. constructor; cbn; try assumption.
      + apply dset_nodup; [exact key_eqb_spec|assumption].
      + apply dset_Forall; [exact key_eqb_spec| |assumption]. intros k' Hk. apply key_eqb_spec in Hk. subst. reflexivity.
    - repeat split; cbn; try apply incl_refl. exists []. reflexivity.
  Qed.

  Lemma good_set_internal_pop k : good (set_internal (fun b => dpop key_eqb b k)).
  Proof.
    intros s Hi. cbn. split; [|split; [|exact I]].
    - destruct Hi. constructor; cbn; try assumption.
      + apply dpop_nodup. assumption.
      + apply dpop_Forall. assumption.
    - repeat split; cbn; try apply incl_refl. exists []. reflexivity.
  Qed.

  Lemma good_set_setbuf_pop k : good (set_setbuf (fun b => dpop key_eqb b k)).
  Proof.
    intros s Hi. cbn. split; [|split; [|exact I]].
    - destruct Hi. constructor; cbn; try assumption.
      + apply dpop_nodup. assumption.
      + apply dpop_Forall. assumption.
    - repeat split; cbn; try apply incl_refl; [exists []; reflexivity|apply dpop_incl].
  Qed.

  Lemma get_protocol_from_lt cands reported i :
    Forall (fun e => (fst e < 5)%nat) cands ->
    get_protocol_from vlt cands reported = Some i -> (i < 5)%nat.
  Proof.
    induction cands as [|[j p] r IH]; cbn; intros H.
    - intros E. injection E as <-. lia.
    - inversion H as [|? ? H1 H2]; subst. destruct (vlt reported (pt_key p)) as [[|]|]; try discriminate.
      + apply IH. exact H2.
      + intros E. injection E as <-. exact H1.
  Qed.

  Lemma get_protocol_lt v i : get_protocol vlt v = Some i -> (i < 5)%nat.
  Proof.
    unfold get_protocol. apply get_protocol_from_lt.
    cbv [indexed protocols List.length seq combine rev app]. repeat constructor.
  Qed.

  Lemma good_set_protocol_version v : good (set_protocol_version vlt v).
  Proof.
    intros s Hi. unfold set_protocol_version.
    destruct (get_protocol vlt v) as [i|] eqn:E; cbn.
    - split; [|split; [|exact I]].
      + destruct Hi. constructor; cbn; try assumption. eapply get_protocol_lt. exact E.
      + repeat split; cbn; try apply incl_refl. exists []. reflexivity.
    - split; [exact Hi|split; [apply R_refl|exact I]].
  Qed.

  (* ---------- Gateway.send, resolved against the generated tables ---------- *)

  Definition send_set_direct (m : msg) (buffered : bool) : M unit :=
    write_msg m ;;;
    (if buffered then set_setbuf (fun b => dpop key_eqb b (msg_key m)) else ret tt).

  Definition send_resolved (m : msg) (buffered : bool) : M unit :=
    fun s =>
      let w := s_w s in
      if m_cmd m =? 1 then
        match dget Z.eqb (w_nodes w) (m_node m) with
        | Some n => if buffered && n_sleeping n
                    then set_setbuf (fun b => dset key_eqb b (msg_key m) m) s
                    else send_set_direct m buffered s
        | None => send_set_direct m buffered s
        end
      else if m_cmd m =? 3 then
        (if buffered then set_internal (fun b => dset key_eqb b (msg_key m) m) s
         else write_msg m s)
      else if (m_cmd m =? 0) || (m_cmd m =? 2) || (m_cmd m =? 4)
      then (inr (EUnsupported m (pt_version (proto_of w))), s)
      else (inr (EEscape "ValueError"), s).

  Lemma outgoing_cases i :
    lookup_chain (pt_outgoing (proto_at i)) "handle_set" = Some [("protocol_14", [])]%string
    /\ lookup_chain (pt_outgoing (proto_at i)) "handle_internal" = Some [("protocol_14", [])]%string
    /\ lookup_chain (pt_outgoing (proto_at i)) "handle_presentation" = None
    /\ lookup_chain (pt_outgoing (proto_at i)) "handle_req" = None
    /\ lookup_chain (pt_outgoing (proto_at i)) "handle_stream" = None.
  Proof.
    apply (proto_at_cases (fun p =>
      lookup_chain (pt_outgoing p) "handle_set" = Some [("protocol_14", [])]%string
      /\ lookup_chain (pt_outgoing p) "handle_internal" = Some [("protocol_14", [])]%string
      /\ lookup_chain (pt_outgoing p) "handle_presentation" = None
      /\ lookup_chain (pt_outgoing p) "handle_req" = None
      /\ lookup_chain (pt_outgoing p) "handle_stream" = None)); repeat split; reflexivity.
  Qed.

  Theorem send_eq m buffered s : send m buffered s = send_resolved m buffered s.
  Proof.
    unfold send, send_resolved, bind, get_w. cbn beta iota. unfold proto_of.
    rewrite command_lname. unfold lname_cmd.
    destruct (outgoing_cases (w_proto (s_w s))) as [H1 [H2 [H3 [H4 H5]]]].
    destruct (Z.eqb_spec (m_cmd m) 0) as [E0|N0].
    { rewrite E0. cbn [append Z.eqb Pos.eqb orb andb]. rewrite H3. reflexivity. }
    destruct (Z.eqb_spec (m_cmd m) 1) as [E1|N1].
    { cbn [append]. rewrite H1. cbn. unfold send_set_direct.
      destruct (dget Z.eqb (w_nodes (s_w s)) (m_node m)) as [n|]; [destruct (buffered && n_sleeping n)|]; reflexivity. }
    destruct (Z.eqb_spec (m_cmd m) 2) as [E2|N2].
    { rewrite E2. cbn [append Z.eqb Pos.eqb orb andb]. rewrite H4. reflexivity. }
    destruct (Z.eqb_spec (m_cmd m) 3) as [E3|N3].
    { cbn [append]. rewrite H2. cbn. destruct buffered; reflexivity. }
    destruct (Z.eqb_spec (m_cmd m) 4) as [E4|N4].
    { cbn [append Z.eqb Pos.eqb orb andb]. rewrite H5. reflexivity. }
    reflexivity.
  Qed.

  Lemma good_set_setbuf_put m : m_cmd m = 1 -> False -> good (set_setbuf (fun b => dset key_eqb b (msg_key m) m)).
  Proof. intros _ []. Qed.

  (* a send issued by a handler: unbuffered, or the buffered internal marker *)
  Lemma good_send m buffered :
    (buffered = false \/ m_cmd m = 3) -> (0 <= m_cmd m <= 4) -> good (send m buffered).
  Proof.
    intros Hb Hk s. unfold good_at. rewrite send_eq. unfold send_resolved.
    destruct (Z.eqb_spec (m_cmd m) 1) as [E1|N1].
    { assert (buffered = false) as -> by (destruct Hb as [?|?]; [assumption|lia]).
      assert (G : good (send_set_direct m false)).
      { unfold send_set_direct. apply good_bind; [apply good_write|intros _; apply good_ret]. }
      destruct (dget Z.eqb (w_nodes (s_w s)) (m_node m)) as [n|]; cbn [andb]; apply G. }
    destruct (Z.eqb_spec (m_cmd m) 3) as [E3|N3].
    { destruct buffered; [apply good_set_internal_put|apply good_write]. }
    assert (Hor : (m_cmd m =? 0) || (m_cmd m =? 2) || (m_cmd m =? 4) = true).
    { destruct (Z.eqb_spec (m_cmd m) 0), (Z.eqb_spec (m_cmd m) 2), (Z.eqb_spec (m_cmd m) 4); cbn; try reflexivity. lia. }
    rewrite Hor. intros Hi. cbn. split; [exact Hi|split; [apply R_refl|exact I]].
  Qed.

  (* ---------- handler bodies ---------- *)

  Lemma good_get_w {B} (f : world -> M B) : (forall s, good_at (f (s_w s)) s) -> good (bind get_w f).
  Proof. intros H s. exact (H s). Qed.

  Lemma good_bind_ret {A B} (a : A) (f : A -> M B) : good (f a) -> good (bind (ret a) f).
  Proof. intros H s. exact (H s). Qed.

  Lemma good_get_node id : good (get_node id).
  Proof. unfold get_node. apply good_get_w. intros s. apply good_ret. Qed.

  Lemma good_require_node id : good (require_node id).
  Proof.
    unfold require_node. apply good_bind; [apply good_get_node|].
    intros [n|]; [apply good_ret|apply good_raise; discriminate].
  Qed.

  Definition msg_ok (m : msg) : Prop := 0 <= m_node m <= 255 /\ 0 <= m_cmd m <= 4.

  Lemma fold_max_ge ks k : k <= fold_left Z.max ks k.
  Proof.
    revert k. induction ks as [|x ks IH]; cbn; intros k; [lia|].
    specialize (IH (Z.max k x)). lia.
  Qed.

  Lemma fold_max_ub ks k b : k <= b -> Forall (fun x => x <= b) ks -> fold_left Z.max ks k <= b.
  Proof.
    revert k. induction ks as [|x ks IH]; cbn; intros k Hk H; [exact Hk|].
    inversion H as [|? ? H1 H2]; subst. apply IH; [lia|exact H2].
  Qed.

  Lemma fold_max_all ks k x : In x (k :: ks) -> x <= fold_left Z.max ks k.
  Proof.
    revert k. induction ks as [|y ks IH]; cbn; intros k H.
    - destruct H as [->|[]]. lia.
    - destruct H as [->|[->|H]].
      + pose proof (fold_max_ge ks (Z.max x y)). lia.
      + pose proof (fold_max_ge ks (Z.max k x)). lia.
      + apply IH. right. exact H.
  Qed.

  Definition next_id (ks : list Z) : Z :=
    match ks with [] => 1 | k :: r => fold_left Z.max r k + 1 end.

  Lemma next_id_pos ks : Forall (fun k => 0 <= k <= 255) ks -> 1 <= next_id ks.
  Proof.
    destruct ks as [|k r]; cbn; [lia|]. intros H. inversion H as [|? ? H1 H2]; subst.
    pose proof (fold_max_ge r k). lia.
  Qed.

  Lemma next_id_fresh ks : ~ In (next_id ks) ks.
  Proof.
    destruct ks as [|k r]; cbn [next_id]; [intros []|].
    intros H. apply fold_max_all in H. lia.
  Qed.

  Ltac gd :=
    repeat first
      [ apply good_ret
      | apply good_write
      | (apply good_update_node; ni)
      | apply good_require_node
      | apply good_set_protocol_version
      | apply good_set_internal_pop
      | apply good_set_setbuf_pop
      | (apply good_raise; discriminate)
      | (apply good_need; discriminate)
      | (apply good_bind; [|intros ?]) ].

  Lemma good_flush_entries es : Forall (fun e => m_cmd (snd e) = 1) es -> good (flush_entries es).
  Proof.
    induction es as [|[k bm] r IH]; cbn [flush_entries]; intros H; [apply good_ret|].
    inversion H as [|? ? H1 H2]; subst. cbn in H1.
    apply good_bind; [apply good_send; [left; reflexivity|lia]|intros _].
    apply good_bind; [apply good_set_setbuf_pop|intros _]. apply IH. exact H2.
  Qed.

  Lemma good_handle_sleep_buffer m : good (handle_sleep_buffer m).
  Proof.
    unfold handle_sleep_buffer. apply good_get_w. intros s Hi.
    refine (good_bind_at _ _ s _ _ Hi).
    - apply good_flush_entries. apply Forall_forall. intros e He.
      apply filter_In in He. destruct He as [He _].
      pose proof (inv_set_keys _ Hi) as Hk. rewrite Forall_forall in Hk. apply Hk. exact He.
    - intros _ _. apply good_ret.
  Qed.

  Lemma good_body2 b super m :
    msg_ok m -> level2 b = true -> (b = BSuper -> good (super m)) -> good (run_body2 bat vlt now b super m).
  Proof.
    intros [Hn Hk] Hl Hs. destruct consts_p14 as [C1 [C2 [C3 [C4 [C5 [C6 [C7 C8]]]]]]].
    destruct consts_p20 as [D1 [D2 D3]].
    destruct b; try discriminate Hl; cbn [run_body2].
    - apply Hs. reflexivity.
    - gd.
    - (* id request *)
      apply good_get_w. intros s Hi.
      change (match map fst (w_nodes (s_w s)) with [] => 1 | k :: ks => fold_left Z.max ks k + 1 end)
        with (next_id (keys (s_w s))).
      pose proof (next_id_pos _ (inv_keys _ Hi)) as Hp.
      rewrite max_node_id_is. destruct (Z.ltb_spec 254 (next_id (keys (s_w s)))) as [Hlt|Hle].
      + apply good_raise; [discriminate|exact Hi].
      + rewrite C1, C2. cbn [need]. revert Hi. apply good_bind_ret. apply good_bind_ret.
        apply good_bind; [apply good_put_node; [lia|repeat split; cbn; try lia; constructor]|intros _].
        apply good_bind; [apply good_send; [left; reflexivity|cbn; lia]|intros _]. apply good_ret.
    - apply good_get_w. intros s. apply good_bind; [apply good_send; [left; reflexivity|cbn; lia]|intros _; apply good_ret].
    - apply good_bind; [apply good_send; [left; reflexivity|cbn; lia]|intros _; apply good_ret].
    - apply good_bind; [apply good_require_node|intros _].
      destruct (bat (m_payload m)) as [lvl|]; [|apply good_raise; discriminate].
      destruct ((0 <=? lvl) && (lvl <=? 100)) eqn:El; [|apply good_raise; discriminate].
      apply andb_true_iff in El. destruct El as [E1 E2]. apply Z.leb_le in E1, E2.
      apply good_bind; [apply good_update_node|intros _; apply good_ret].
      intros n [H1 [H2 [H3 H4]]]. repeat split; cbn; try assumption; lia.
    - gd.
    - gd.
    - rewrite D2. cbn [need]. apply good_bind_ret.
      apply good_bind; [apply good_send; [left; reflexivity|cbn; lia]|intros _; apply good_ret].
    - gd.
    - apply good_bind; [apply good_require_node|intros _].
      destruct (py_int (m_payload m)); [|apply good_raise; discriminate].
      apply good_bind; [apply good_update_node; ni|intros _]. apply good_handle_sleep_buffer.
    - apply good_bind; [apply good_require_node|intros _].
      destruct (py_int (m_payload m)); gd.
    - apply good_bind; [apply good_require_node|intros _].
      apply good_bind; [apply good_update_node; ni|intros _]. apply good_handle_sleep_buffer.
  Qed.

  (* ---------- decorators ---------- *)

  Lemma good_dec_mpv f m : msg_ok m -> good (f m) -> good (dec_mpv f m).
  Proof.
    intros _ Hf. destruct consts_p14 as [C1 [C2 [C3 [C4 [C5 [C6 [C7 C8]]]]]]].
    unfold dec_mpv. apply good_try_finally; [exact Hf|].
    apply good_get_w. intros s. destruct (w_pv (s_w s)); [apply good_ret|].
    rewrite C7, C3, C4, C5. cbn [need].
    repeat apply good_bind_ret.
    match goal with |- good (if ?c then _ else _) => destruct c end;
      [apply good_send; [left; reflexivity|cbn; lia]|apply good_ret].
  Qed.

  Lemma good_request_presentation m e : is_missing e = true -> good (request_presentation m e).
  Proof.
    intros He. destruct consts_p20 as [D1 [D2 D3]]. unfold request_presentation.
    rewrite D3, D1. cbn [need]. repeat apply good_bind_ret.
    apply good_get_w. intros s.
    apply good_bind.
    - match goal with |- good (if ?c then _ else _) => destruct c end;
        [apply good_ret|apply good_send; [left; reflexivity|cbn; lia]].
    - intros _. apply good_bind; [apply good_send; [right; reflexivity|cbn; lia]|intros _].
      apply good_raise. destruct e; discriminate.
  Qed.

  Lemma good_dec_mnc f m : good (f m) -> good (dec_mnc f m).
  Proof.
    intros Hf s Hi. unfold dec_mnc. destruct (Hf s Hi) as [H1 [H2 H3]].
    destruct (f m s) as [[a|e] s'] eqn:E; cbn in *.
    - split; [exact H1|split; [exact H2|exact I]].
    - destruct (is_missing e) eqn:Em.
      + destruct (good_request_presentation m e Em s' H1) as [G1 [G2 G3]].
        split; [exact G1|split; [eapply R_trans; eassumption|exact G3]].
      + cbn. split; [exact H1|split; [exact H2|exact H3]].
  Qed.

  Lemma good_apply_decs ds f m :
    msg_ok m -> forallb known_dec ds = true -> good (f m) -> good (apply_decs ds f m).
  Proof.
    intros Hm. induction ds as [|d r IH]; cbn [apply_decs fold_right forallb]; intros Hd Hf; [exact Hf|].
    apply andb_true_iff in Hd. destruct Hd as [Hd Hr]. unfold apply_dec.
    destruct (String.eqb d "handle_missing_protocol_version") eqn:E1.
    - apply good_dec_mpv; [exact Hm|]. apply IH; assumption.
    - destruct (String.eqb d "handle_missing_node_child") eqn:E2.
      + apply good_dec_mnc. apply IH; assumption.
      + unfold known_dec in Hd. rewrite E1, E2 in Hd. discriminate.
  Qed.

  (* ---------- chains ---------- *)

  Lemma good_chain2 name chain m :
    msg_ok m -> chain_ok level2 name chain = true -> good (run_chain2 bat vlt now name chain m).
  Proof.
    intros Hm. induction chain as [|[md ds] r IH]; [discriminate|].
    cbn [chain_ok run_chain2]. destruct r as [|e r'].
    - intros H. apply andb_true_iff in H. destruct H as [Hd Hb].
      apply good_apply_decs; [exact Hm|exact Hd|].
      destruct (body_of md name) as [b|]; [|discriminate].
      apply andb_true_iff in Hb. destruct Hb as [Hl Hns].
      apply good_body2; [exact Hm|exact Hl|]. intros ->. discriminate.
    - intros H. apply andb_true_iff in H. destruct H as [H Hr].
      apply andb_true_iff in H. destruct H as [Hd Hb].
      apply good_apply_decs; [exact Hm|exact Hd|].
      destruct (body_of md name) as [b|]; [|discriminate].
      apply good_body2; [exact Hm|exact Hb|]. intros _. apply IH. exact Hr.
  Qed.

  Definition l2name (n : string) : Prop :=
    is_command_handler n = false /\ String.eqb n "_handle_message" = false
    /\ String.eqb n "_handle_sleep_buffer" = false.

  Lemma incoming_lookup i n c :
    lookup_chain (pt_incoming (proto_at i)) n = Some c ->
    (l2name n -> chain_ok level2 n c = true) /\ (is_command_handler n = true -> chain_ok level1 n c = true).
  Proof.
    pose proof tables_ok_incoming as T. rewrite forallb_forall in T.
    assert (Hin : In (proto_at i) protocols).
    { apply (proto_at_cases (fun p => In p protocols)); cbn; tauto. }
    specialize (T _ Hin). unfold incoming_ok in T. apply andb_true_iff in T. destruct T as [T _].
    rewrite forallb_forall in T.
    generalize dependent T. generalize (pt_incoming (proto_at i)). intros tbl T.
    induction tbl as [|[n' c'] r IH]; cbn; [discriminate|].
    destruct (String.eqb n' n) eqn:E.
    - intros H. injection H as ->. apply String.eqb_eq in E. subst n'.
      specialize (T (n, c) (or_introl eq_refl)). cbn beta iota in T. split.
      + intros [L1 [L2 L3]]. rewrite L2, L3, L1 in T. exact T.
      + intros L1. change (is_command_handler n = true) in L1. rewrite L1 in T.
        destruct (String.eqb n "_handle_message" || String.eqb n "_handle_sleep_buffer") eqn:E2; [|exact T].
        unfold is_command_handler in L1. apply orb_true_iff in E2.
        destruct E2 as [E2|E2]; apply String.eqb_eq in E2; subst n; discriminate L1.
    - intros H. apply IH; [|exact H]. intros x Hx. apply T. right. exact Hx.
  Qed.

  Lemma good_dispatch2 name m : msg_ok m -> l2name name -> good (dispatch2 bat vlt now name m).
  Proof.
    intros Hm Hn. unfold dispatch2. apply good_get_w. intros s. unfold proto_of.
    destruct (lookup_chain (pt_incoming (proto_at (w_proto (s_w s)))) name) as [c|] eqn:E; [|apply good_ret].
    apply good_chain2; [exact Hm|]. apply (incoming_lookup _ _ _ E). exact Hn.
  Qed.

  Lemma enum_lname_in t v ln : enum_lname_of t v = Some ln -> exists n, In (n, ln, v) t.
  Proof.
    induction t as [|[[n l] v'] r IH]; cbn; [discriminate|].
    destruct (Z.eqb_spec v v') as [->|Hne].
    - intros H. injection H as ->. exists n. left. reflexivity.
    - intros H. destruct (IH H) as [n0 Hn]. exists n0. right. exact Hn.
  Qed.

  Lemma member_l2name i v ln :
    enum_lname_of (pt_internal (proto_at i)) v = Some ln \/ enum_lname_of (pt_stream (proto_at i)) v = Some ln ->
    l2name ("handle_" ++ ln).
  Proof.
    intros H. pose proof tables_ok_names as T. rewrite forallb_forall in T.
    assert (Hin : In (proto_at i) protocols).
    { apply (proto_at_cases (fun p => In p protocols)); cbn; tauto. }
    specialize (T _ Hin). unfold names_ok in T. rewrite forallb_forall in T.
    assert (exists n, In (n, ln, v) (pt_internal (proto_at i) ++ pt_stream (proto_at i))) as [n Hn].
    { destruct H as [H|H]; apply enum_lname_in in H; destruct H as [n H]; exists n; apply in_or_app; tauto. }
    specialize (T _ Hn). cbn beta iota in T.
    apply andb_true_iff in T. destruct T as [T T3]. apply andb_true_iff in T. destruct T as [T1 T2].
    apply negb_true_iff in T1, T2, T3. repeat split; assumption.
  Qed.

  Lemma set_child_value_inv id cid typ v n : node_inv id n -> node_inv id (set_child_value n cid typ v).
  Proof.
    intros [H1 [[H2 H2'] [H3 H4]]]. unfold set_child_value.
    destruct (dget Z.eqb (n_children n) cid) as [c|] eqn:E; [|repeat split; assumption].
    repeat split; cbn; try assumption.
    - apply dset_nodup; [exact Zeqb_spec|exact H3].
    - apply dset_Forall; [exact Zeqb_spec| |exact H4]. intros k' _. cbn.
      apply dset_nodup; [exact Zeqb_spec|].
      apply (dget_In Z.eqb Zeqb_spec) in E. rewrite Forall_forall in H4. exact (H4 _ E).
  Qed.

  Lemma good_body1 b super m :
    msg_ok m -> level1 b = true -> (b = BSuper \/ b = BPresentation20 -> good (super m)) ->
    good (run_body1 bat vlt now b super m).
  Proof.
    intros Hm Hl Hs. destruct consts_p14 as [C1 [C2 [C3 [C4 [C5 [C6 [C7 C8]]]]]]].
    destruct consts_p20 as [D1 [D2 D3]]. pose proof Hm as [Hn Hk].
    destruct b; try discriminate Hl; cbn [run_body1].
    - apply Hs. left. reflexivity.
    - rewrite D1. cbn [need]. apply good_bind_ret.
      apply good_bind; [apply good_set_internal_pop|intros _]. apply Hs. right. reflexivity.
    - destruct (m_child m =? system_child_id).
      + apply good_bind; [apply good_put_node; [exact Hn|repeat split; cbn; try lia; constructor]|intros _].
        destruct (m_node m =? 0); [|apply good_ret].
        apply good_dispatch2; [exact Hm|]. repeat split; reflexivity.
      + apply good_bind; [apply good_require_node|intros _].
        apply good_bind; [apply good_update_node|intros _; apply good_ret].
        intros n [H1 [[H2 H2'] [H3 H4]]]. repeat split; cbn; try assumption.
        * apply dset_nodup; [exact Zeqb_spec|exact H3].
        * apply dset_Forall; [exact Zeqb_spec| |exact H4]. intros k' _. cbn. constructor.
    - apply good_bind; [apply good_require_node|intros n].
      destruct (negb (dmem Z.eqb (n_children n) (m_child m))); [apply good_raise; discriminate|].
      apply good_bind; [apply good_update_node; apply set_child_value_inv|intros _].
      destruct (n_reboot n); [|apply good_ret].
      rewrite C7, C6. cbn [need]. repeat apply good_bind_ret.
      apply good_bind; [apply good_send; [left; reflexivity|cbn; lia]|intros _; apply good_ret].
    - apply good_bind; [apply good_require_node|intros n].
      destruct (dget Z.eqb (n_children n) (m_child m)) as [c|]; [|apply good_raise; discriminate].
      destruct (dget Z.eqb (c_values c) (m_type m)) as [v|]; [|apply good_ret].
      rewrite C8. cbn [need]. apply good_bind_ret.
      apply good_bind; [apply good_send; [left; reflexivity|cbn; lia]|intros _; apply good_ret].
    - apply good_get_w. intros s. unfold proto_of.
      destruct (enum_lname_of (pt_internal (proto_at (w_proto (s_w s)))) (m_type m)) as [ln|] eqn:E.
      + apply good_dispatch2; [exact Hm|]. eapply member_l2name. left. exact E.
      + apply good_raise. discriminate.
    - apply good_bind; [apply good_require_node|intros _].
      apply good_get_w. intros s. unfold proto_of.
      destruct (enum_lname_of (pt_stream (proto_at (w_proto (s_w s)))) (m_type m)) as [ln|] eqn:E.
      + apply good_dispatch2; [exact Hm|]. eapply member_l2name. right. exact E.
      + apply good_raise. discriminate.
  Qed.

  Lemma good_chain1 name chain m :
    msg_ok m -> chain_ok level1 name chain = true -> good (run_chain1 bat vlt now name chain m).
  Proof.
    intros Hm. induction chain as [|[md ds] r IH]; [discriminate|].
    cbn [chain_ok run_chain1]. destruct r as [|e r'].
    - intros H. apply andb_true_iff in H. destruct H as [Hd Hb].
      apply good_apply_decs; [exact Hm|exact Hd|].
      destruct (body_of md name) as [b|]; [|discriminate].
      apply andb_true_iff in Hb. destruct Hb as [Hl Hns].
      apply good_body1; [exact Hm|exact Hl|]. intros [->| ->]; discriminate.
    - intros H. apply andb_true_iff in H. destruct H as [H Hr].
      apply andb_true_iff in H. destruct H as [Hd Hb].
      apply good_apply_decs; [exact Hm|exact Hd|].
      destruct (body_of md name) as [b|]; [|discriminate].
      apply good_body1; [exact Hm|exact Hb|]. intros _. apply IH. exact Hr.
  Qed.

  (* ---------- one listen step ---------- *)

  Lemma decode_wf i line m : decode (proto_at i) line = DecOk m -> wf_msg m.
  Proof.
    intros H. assert (Hin : In (proto_at i) protocols).
    { apply (proto_at_cases (fun p => In p protocols)); cbn; tauto. }
    apply (decode_accept_iff _ _ _ Hin) in H.
    destruct H as [f1 [f2 [f3 [f4 [f5 [_ [_ [_ [_ [_ [_ [_ H]]]]]]]]]]]]. exact H.
  Qed.

  Lemma wf_msg_ok m : wf_msg m -> msg_ok m.
  Proof. intros [H1 [H2 [H3 _]]]. split; assumption. Qed.

  Lemma decode_never_escapes i line c : decode (proto_at i) line <> DecEscape c.
  Proof.
    destruct (decode_total (proto_at i) line) as [[m H]|H]; rewrite H; discriminate.
  Qed.

  Lemma command_handler_lookup i k cname :
    lname_cmd k = Some cname ->
    is_command_handler ("handle_" ++ cname) = true
    /\ exists c, lookup_chain (pt_incoming (proto_at i)) ("handle_" ++ cname) = Some c.
  Proof.
    unfold lname_cmd. intros H.
    assert (Hc : In cname ["presentation"; "set"; "req"; "internal"; "stream"]%string).
    { destruct (k =? 0); [injection H as <-; cbn; tauto|].
      destruct (k =? 1); [injection H as <-; cbn; tauto|].
      destruct (k =? 2); [injection H as <-; cbn; tauto|].
      destruct (k =? 3); [injection H as <-; cbn; tauto|].
      destruct (k =? 4); [injection H as <-; cbn; tauto|discriminate]. }
    clear H. revert i.
    apply (proto_at_cases (fun p => is_command_handler ("handle_" ++ cname) = true
      /\ exists c, lookup_chain (pt_incoming p) ("handle_" ++ cname) = Some c));
    cbn in Hc; destruct Hc as [<-|[<-|[<-|[<-|[<-|[]]]]]]; (split; [reflexivity|eexists; reflexivity]).
  Qed.

  Theorem good_listen_step line : good (listen_step line).
  Proof.
    unfold Gateway.listen_step. apply good_get_w. intros s. unfold proto_of.
    destruct (decode (proto_at (w_proto (s_w s))) line) as [m| |c] eqn:E.
    - pose proof (wf_msg_ok _ (decode_wf _ _ _ E)) as Hm.
      rewrite command_lname. destruct (lname_cmd (m_cmd m)) as [cname|] eqn:Ec.
      + destruct (command_handler_lookup (w_proto (s_w s)) _ _ Ec) as [Hc [c Hl]].
        rewrite Hl. apply good_chain1; [exact Hm|]. apply (incoming_lookup _ _ _ Hl). exact Hc.
      + exfalso. destruct Hm as [_ Hk]. unfold lname_cmd in Ec.
        destruct (Z.eqb_spec (m_cmd m) 0), (Z.eqb_spec (m_cmd m) 1), (Z.eqb_spec (m_cmd m) 2),
          (Z.eqb_spec (m_cmd m) 3), (Z.eqb_spec (m_cmd m) 4); try discriminate. lia.
    - apply good_raise. discriminate.
    - exfalso. exact (decode_never_escapes _ _ _ E).
  Qed.

  (* ---------- one send call by the application ---------- *)

  Definition Rsend (s s' : st) : Prop :=
    incl (keys (s_w s)) (keys (s_w s')) /\ (exists n, s_log s' = n ++ s_log s).

  Theorem send_preserves m buffered s :
    Inv (s_w s) -> 0 <= m_cmd m <= 4 ->
    Inv (s_w (snd (send m buffered s))) /\ Rsend s (snd (send m buffered s))
    /\ noesc (fst (send m buffered s)) /\ w_nodes (s_w (snd (send m buffered s))) = w_nodes (s_w s).
  Proof.
    intros Hi Hk. rewrite send_eq. unfold send_resolved.
    assert (Hrefl : Rsend s s). { split; [apply incl_refl|exists []; reflexivity]. }
    assert (Hdirect : forall b, Inv (s_w (snd (send_set_direct m b s))) /\ Rsend s (snd (send_set_direct m b s))
              /\ noesc (fst (send_set_direct m b s)) /\ w_nodes (s_w (snd (send_set_direct m b s))) = w_nodes (s_w s)).
    { intros b. unfold send_set_direct, bind, write_msg.
      destruct (s_faults s) as [|[|] r]; cbn.
      - destruct b; cbn; (split; [|split; [split; [apply incl_refl|eexists [_]; reflexivity]|split; [exact I|reflexivity]]]); [|exact Hi].
        destruct Hi. constructor; cbn; try assumption; [apply dpop_nodup|apply dpop_Forall]; assumption.
      - split; [exact Hi|split; [split; [apply incl_refl|eexists [_]; reflexivity]|split; [exact I|reflexivity]]].
      - destruct b; cbn; (split; [|split; [split; [apply incl_refl|eexists [_]; reflexivity]|split; [exact I|reflexivity]]]); [|exact Hi].
        destruct Hi. constructor; cbn; try assumption; [apply dpop_nodup|apply dpop_Forall]; assumption. }
    destruct (Z.eqb_spec (m_cmd m) 1) as [E1|N1].
    { destruct (dget Z.eqb (w_nodes (s_w s)) (m_node m)) as [n|]; [|apply Hdirect].
      destruct (buffered && n_sleeping n); [|apply Hdirect]. cbn.
      split; [|split; [exact Hrefl|split; [exact I|reflexivity]]].
      destruct Hi. constructor; cbn; try assumption.
      - apply dset_nodup; [exact key_eqb_spec|assumption].
      - apply dset_Forall; [exact key_eqb_spec| |assumption].
        intros k' Hk'. apply key_eqb_spec in Hk'. subst. split; [reflexivity|exact E1]. }
    destruct (Z.eqb_spec (m_cmd m) 3) as [E3|N3].
    { destruct buffered.
      - destruct (good_set_internal_put m s Hi) as [G1 [[G2 [G3 _]] G4]].
        split; [exact G1|split; [split; assumption|split; [exact G4|reflexivity]]].
      - destruct (good_write m s Hi) as [G1 [[G2 [G3 _]] G4]].
        split; [exact G1|split; [split; assumption|split; [exact G4|]]].
        unfold write_msg. destruct (s_faults s) as [|[|] r]; reflexivity. }
    assert (Hor : (m_cmd m =? 0) || (m_cmd m =? 2) || (m_cmd m =? 4) = true).
    { destruct (Z.eqb_spec (m_cmd m) 0), (Z.eqb_spec (m_cmd m) 2), (Z.eqb_spec (m_cmd m) 4); cbn; try reflexivity. lia. }
    rewrite Hor. cbn. split; [exact Hi|split; [exact Hrefl|split; [exact I|reflexivity]]].
  Qed.

  (* ---------- histories ---------- *)

  Inductive op :=
  | ORecv (line : str) (faults : list bool)
  | OSend (m : msg) (buffered : bool) (faults : list bool)
  | OReconnect.   (* leave the session and enter it again (no persistence): Gateway.__aexit__ ; __aenter__ *)

  Definition op_ok (o : op) : Prop :=
    match o with ORecv _ _ => True | OSend m _ _ => wf_msg m | OReconnect => True end.

  Definition step_op (w : world) (o : op) : world * outcome * list wevent :=
    match o with
    | ORecv line faults => recv bat vlt now w faults line
    | OSend m b faults => send_op w faults m b
    | OReconnect => (w, Done, [])
    end.

  Definition world_after (w : world) (o : op) : world := fst (fst (step_op w o)).

  Definition run_ops (w : world) (ops : list op) : world := fold_left world_after ops w.

  (* what an application observes of a history: per operation, the outcome and the writes *)
  Fixpoint trace (w : world) (ops : list op) : list (outcome * list wevent) :=
    match ops with
    | [] => []
    | o :: r => let x := step_op w o in (snd (fst x), snd x) :: trace (fst (fst x)) r
    end.

  Lemma run_step_world {A} (c : M A) (k : A -> outcome) w faults :
    fst (fst (run_step c k w faults)) = s_w (snd (c {| s_w := w; s_log := []; s_faults := faults |})).
  Proof.
    unfold run_step. destruct (c _) as [[a|e] s']; reflexivity.
  Qed.

  Definition is_escape (o : outcome) : Prop :=
    match o with Raise (EEscape _) => True | _ => False end.

  Lemma run_step_outcome {A} (c : M A) (k : A -> outcome) w faults :
    (forall a, ~ is_escape (k a)) ->
    noesc (fst (c {| s_w := w; s_log := []; s_faults := faults |})) ->
    ~ is_escape (snd (fst (run_step c k w faults))).
  Proof.
    intros Hk. unfold run_step. destruct (c _) as [[a|e] s']; cbn.
    - intros _. apply Hk.
    - destruct e; cbn; tauto.
  Qed.

  Theorem step_op_inv w o :
    Inv w -> op_ok o ->
    Inv (world_after w o)
    /\ incl (keys w) (keys (world_after w o))
    /\ ~ is_escape (snd (fst (step_op w o))).
  Proof.
    intros Hi Ho. unfold world_after. destruct o as [line faults|m b faults|]; cbn [step_op].
    - unfold recv. rewrite run_step_world.
      destruct (good_listen_step line {| s_w := w; s_log := []; s_faults := faults |} Hi) as [H1 [[H2 _] H3]].
      split; [exact H1|split; [exact H2|]]. apply run_step_outcome; [intros a; cbn; tauto|exact H3].
    - unfold send_op. rewrite run_step_world.
      destruct Ho as [_ [_ [Hk _]]].
      destruct (send_preserves m b {| s_w := w; s_log := []; s_faults := faults |} Hi Hk) as [H1 [[H2 _] [H3 _]]].
      split; [exact H1|split; [exact H2|]]. apply run_step_outcome; [intros a; cbn; tauto|exact H3].
    - cbn [fst snd]. split; [exact Hi|split; [apply incl_refl|intros []]].
  Qed.

  Theorem run_ops_inv ops : forall w, Inv w -> Forall op_ok ops ->
    Inv (run_ops w ops) /\ incl (keys w) (keys (run_ops w ops)).
  Proof.
    induction ops as [|o r IH]; cbn [run_ops fold_left]; intros w Hi Ho.
    - split; [exact Hi|apply incl_refl].
    - inversion Ho as [|? ? H1 H2]; subst.
      destruct (step_op_inv w o Hi H1) as [G1 [G2 _]].
      destruct (IH _ G1 H2) as [K1 K2]. split; [exact K1|eapply incl_tran; eassumption].
  Qed.

  Lemma Inv_init metric : Inv (init_world metric).
  Proof. constructor; cbn; try constructor; try lia. Qed.

  (* every step of every history from the initial state: no foreign exception *)
  Theorem history_no_escape metric ops o :
    Forall op_ok ops -> op_ok o ->
    ~ is_escape (snd (fst (step_op (run_ops (init_world metric) ops) o))).
  Proof.
    intros H Ho. destruct (run_ops_inv ops _ (Inv_init metric) H) as [Hi _].
    apply (step_op_inv _ o Hi Ho).
  Qed.
End WithOracles.
